(* sx interface of the C20 model.

   input  [N; V; classes; opaque; rules; mode; genf]
     N        truncation order of the evaluation
     V        variable ids, V[0] = 0 (x), the others: names of statistics
     classes  [[label; pars; [[n :: params; count] ...]] ...]   true tables up to order N
     opaque   [[label; [[exponents over V; coeff] ...]] ...]     series of user verification strategies
     rules    [[kind; ...] ...] (see dec_rule)
     mode     [e; g; r]: r = 1 the reverse constructors have the proposed guard (rule_equation_guarded); e = 1 the tree has the repaired DisjointUnion/CartesianProduct.get_equation
              (rule_equation), 0 the methods before the fix (rule_equation_old); g likewise for the
              selection of get_genf (genf_select / genf_select_old)
     genf     [] or [check; root; nclasses; counts; runs; K]: counts = per class the specification's counts
              0..check (at least), runs = the solver's lists of solutions handed to get_genf (as is,
              reversed), a solution = per class [] (no function / no Taylor expansion) or 1 :: coefficients 0..K
     crit     (optional 8th field; absent or [] = nothing to decide) [root; us; ks; M; tables; check; cl]: the univariate
              descriptor of the specification of a get_genf case (harness uspec_of) --
              us = one [class; kind; ...] per rule IN THE ORDER OF `rules` (kind 0 [kids], 1 [[kid; minimum size] ...],
              2 p cs idx, 7 m, 8), ks = the keys the LIBRARY declares [[parent; [[child; shift] ...]] ...] (rule.shifts()),
              tables = [[class; [true count at sizes 0..M]] ...] (brute force), check and cl = the classes whose
              solved functions get_genf compares on the terms 0..check
   output one [status; nf lhs; nf rhs; evaluation] per rule, then per run [5; 1; root coefficients of the
          selected solution] or [5; 0; []] (IncorrectGeneratingFunctionError), then, when crit is given,
          [6; crit_okb; parts; same; genuine; recur; low; sel]: the verdict of Count/SeriesCriterion.v crit_okb (sound for the
          decidable hypotheses of closed_form_criterion: SeriesCriterionProofs.v crit_okb_sound), its five parts, per
          rule whether the equation of the univariate rule (rule_equation nopars (to_rule c r)) has the same normal
          forms as the equation of the rule descriptor compared with the library's, per rule genuine_ub / recur_okb
          on the true tables (sizes 0..M), low_okb, and sel_okb us cl check
     status      0 equation, 1 NotImplementedError (the equation is then F = NOTIMPLEMENTED(x)), 2 malformed
     nf e        canonical form of an expression: a sorted Laurent polynomial over atoms
                 (variables, function applications with monomial arguments) — sympy
                 canonicalises sums and products, so both sides are compared in this form
     evaluation  [1; coefficients of lhs'; coefficients of rhs'] up to order N, where
                 (lhs', rhs') = undiv (lhs, rhs) evaluated on the given tables, or [0] when
                 some sub-expression has no meaning                                           *)
From Coq Require Import ZArith List Bool.
From CSS Require Import Base.Sx Forest.Spec Count.Series Count.Equations Count.GenfSelect.
From CSS Require Import Count.SeriesUnique Count.SeriesCriterion.
Import ListNotations.
Open Scope Z_scope.

(* ------------------------------------------------------------ orders (= Python's list order) *)
Fixpoint cmp_listZ (a b : list Z) : comparison :=
  match a, b with
  | [], [] => Eq
  | [], _ => Lt
  | _, [] => Gt
  | x :: a', y :: b' => match Z.compare x y with Eq => cmp_listZ a' b' | c => c end
  end.

Definition cmp_pair (a b : list Z * Z) : comparison :=
  match cmp_listZ (fst a) (fst b) with Eq => Z.compare (snd a) (snd b) | c => c end.

Fixpoint cmp_nmono (a b : list (list Z * Z)) : comparison :=
  match a, b with
  | [], [] => Eq
  | [], _ => Lt
  | _, [] => Gt
  | x :: a', y :: b' => match cmp_pair x y with Eq => cmp_nmono a' b' | c => c end
  end.

Fixpoint ins {K} (cmp : K -> K -> comparison) (k : K) (v : Z) (l : list (K * Z)) : list (K * Z) :=
  match l with
  | [] => [(k, v)]
  | (k', v') :: t =>
      match cmp k k' with
      | Lt => (k, v) :: l
      | Eq => (k', v + v') :: t
      | Gt => (k', v') :: ins cmp k v t
      end
  end.
Definition clean {K} (l : list (K * Z)) : list (K * Z) := filter (fun kv => negb (snd kv =? 0)) l.

(* ------------------------------------------------------------ canonical form of expressions *)
Definition nmono := list (list Z * Z).
Definition npoly := list (nmono * Z).

Definition nm_mul (a b : nmono) : nmono := clean (fold_left (fun acc kv => ins cmp_listZ (fst kv) (snd kv) acc) a b).
Definition nm_inv (a : nmono) : nmono := map (fun kv => (fst kv, - snd kv)) a.
Definition np_add (a b : npoly) : npoly := clean (fold_left (fun acc kv => ins cmp_nmono (fst kv) (snd kv) acc) a b).
Definition np_neg (a : npoly) : npoly := map (fun kv => (fst kv, - snd kv)) a.
Definition np_mul (a b : npoly) : npoly :=
  clean (fold_left (fun acc s =>
           fold_left (fun acc' t => ins cmp_nmono (nm_mul (fst s) (fst t)) (snd s * snd t) acc') b acc) a []).
Definition np_const (z : Z) : npoly := clean [([], z)].
Definition np_atom (code : list Z) : npoly := [([(code, 1)], 1)].
Definition np_bad : npoly := np_atom [9; 9].

(* a function argument: a monomial of variables with coefficient 1 -> [len; v1; e1; ...] *)
Definition arg_code (p : npoly) : list Z :=
  match p with
  | [(m, 1)] =>
      if forallb (fun kv => match fst kv with [0; _] => true | _ => false end) m
      then Z.of_nat (length m) :: flat_map (fun kv => [nth 1 (fst kv) 0; snd kv]) m
      else [-1]
  | _ => [-1]
  end.

Fixpoint np_pow (p : npoly) (k : nat) : npoly :=
  match k with O => np_const 1 | S k' => np_mul p (np_pow p k') end.

Definition np_div (a b : npoly) : npoly :=
  match b with
  | [(m, c)] => if (c =? 1) || (c =? -1) then np_mul a [(nm_inv m, c)] else np_bad
  | _ => np_bad
  end.

Fixpoint nf (e : expr) : npoly :=
  match e with
  | Var v => np_atom [0; v]
  | Const z => np_const z
  | Fun l args => np_atom (1 :: l :: flat_map (fun a => arg_code (nf a)) args)
  | Add a b => np_add (nf a) (nf b)
  | Sub a b => np_add (nf a) (np_neg (nf b))
  | Mul a b => np_mul (nf a) (nf b)
  | Div a b => np_div (nf a) (nf b)
  | Pow a k => if k <? 0 then np_div (np_const 1) (np_pow (nf a) (Z.to_nat (- k)))
               else np_pow (nf a) (Z.to_nat k)
  | Opaque l => np_atom [2; l]
  end.

Definition enc_nmono (m : nmono) : sx := L (map (fun kv => L [of_Zs (fst kv); I (snd kv)]) m).
Definition enc_npoly (p : npoly) : sx := L (map (fun kv => L [enc_nmono (fst kv); I (snd kv)]) p).

(* ------------------------------------------------------------ canonical form of evaluated series *)
Definition pnorm (V : list Z) (N : Z) (p : poly) : list (list Z * Z) :=
  clean (fold_left (fun acc t =>
           if (0 <=? fst t 0) && (fst t 0 <=? N) then ins cmp_listZ (map (fst t) V) (snd t) acc else acc) p []).
Definition enc_coeffs (l : list (list Z * Z)) : sx := L (map (fun kv => L [of_Zs (fst kv); I (snd kv)]) l).

(* ------------------------------------------------------------ decoding *)
Definition dec_ep (s : sx) : list (Z * Z) :=
  map (fun p => (sx_Z (sx_nth p 0), sx_Z (sx_nth p 1))) (sx_list s).
Definition dec_eps (s : sx) : list (list (Z * Z)) := map dec_ep (sx_list s).
Definition dec_orule (s : sx) : orule :=
  mkorule (sx_Z (sx_nth s 1)) (sx_Zs (sx_nth s 2)) (dec_eps (sx_nth s 3)).

Definition dec_rule (s : sx) : rule :=
  match sx_Z (sx_nth s 0) with
  | 0 => RUnion (dec_orule s)
  | 1 => RProduct (dec_orule s)
  | 2 => RRevUnion (dec_orule s) (sx_nat (sx_nth s 4))
  | 3 => RRevProduct (dec_orule s) (sx_nat (sx_nth s 4))
  | 4 => REquivUnion (dec_orule s) (sx_nat (sx_nth s 4))
  | 5 => REquivRev (sx_Z (sx_nth s 1)) (sx_Z (sx_nth s 2)) (dec_ep (sx_nth s 3))
  | 6 => RPath (sx_Z (sx_nth s 1))
               (map (fun st => (sx_bool (sx_nth st 0), dec_ep (sx_nth st 1))) (sx_list (sx_nth s 2)))
               (sx_Z (sx_nth s 3))
  | 7 => RAtom (sx_Z (sx_nth s 1)) (sx_Z (sx_nth s 2))
  | 8 => REmpty (sx_Z (sx_nth s 1))
  | 10 => REquivRevProduct (sx_Z (sx_nth s 1)) (sx_Z (sx_nth s 2))
  | 11 => RPathNoCtor (sx_Z (sx_nth s 1)) (sx_Z (sx_nth s 2))
  | _ => RVerified (sx_Z (sx_nth s 1))
  end.

Fixpoint find_class (l : Z) (cs : list sx) : sx :=
  match cs with
  | [] => L []
  | c :: t => if sx_Z (sx_nth c 0) =? l then c else find_class l t
  end.

Definition dec_table (s : sx) : list (list Z * Z) :=
  map (fun e => (sx_Zs (sx_nth e 0), sx_Z (sx_nth e 1))) (sx_list s).

(* exponent list over V -> monomial *)
Definition mono_of (V : list Z) (exps : list Z) : mono := fun u => aget (combine V exps) u.

Definition run_rule (fixed guard : bool) (N : Z) (V : list Z) (classes opaque : list sx) (r : rule) : sx :=
  let pars := fun l => sx_Zs (sx_nth (find_class l classes) 1) in
  let S := fun l => dec_table (sx_nth (find_class l classes) 2) in
  let O := fun l => map (fun e => (mono_of V (fst e), snd e)) (dec_table (sx_nth (find_class l opaque) 1)) in
  let req := if fixed then (if guard then rule_equation_guarded pars r else rule_equation pars r)
             else rule_equation_old pars r in
  let status := match req with Ok _ _ => 0 | NotImpl => 1 | IndexErr => 2 end in
  match placeholder pars r req with
  | Ok lhs rhs =>
      let (l', r') := undiv lhs rhs in
      let ev := match sem S O l', sem S O r' with
                | Some p, Some q => L [I 1; enc_coeffs (pnorm V N p); enc_coeffs (pnorm V N q)]
                | _, _ => L [I 0]
                end in
      L [I status; enc_npoly (nf lhs); enc_npoly (nf rhs); ev]
  | _ => L [I status; L []; L []; L [I 0]]
  end.

(* ------------------------------------------------------------ the selection of get_genf *)
Definition series_of (l : list Z) : Z -> Z := fun n => if n <? 0 then 0 else nth (Z.to_nat n) l 0.

Definition dec_branch (s : sx) : branch :=
  fun c => match sx_Zs (sx_nth s c) with
           | [] => None
           | _ :: co => Some (series_of co)
           end.

Definition run_genf (fixed : bool) (g : sx) : list sx :=
  match sx_list g with
  | [] => []
  | _ =>
      let check := sx_Z (sx_nth g 0) in
      let root := sx_nat (sx_nth g 1) in
      let classes := seq 0 (sx_nat (sx_nth g 2)) in
      let W := fun c => series_of (sx_Zs (sx_nth (sx_nth g 3) c)) in
      let K := sx_Z (sx_nth g 5) in
      map (fun run =>
             let bs := map dec_branch (sx_list run) in
             match (if fixed then genf_select check root classes W bs else genf_select_old check root W bs) with
             | Some b => L [I 5; I 1; of_Zs (map (family b root) (zrange 0 (K + 1)))]
             | None => L [I 5; I 0; L []]
             end) (sx_list (sx_nth g 4))
  end.

(* ------------------------------------------------------------ the closed-form criterion, decided *)
Definition dec_kidsZ (s : sx) : list (nat * Z) :=
  map (fun p => (sx_nat (sx_nth p 0), sx_Z (sx_nth p 1))) (sx_list s).

Definition dec_urule (s : sx) : nat * urule :=
  (sx_nat (sx_nth s 0),
   match sx_Z (sx_nth s 1) with
   | 0 => UUnion (sx_nats (sx_nth s 2))
   | 1 => UProduct (dec_kidsZ (sx_nth s 2))
   | 2 => UComplement (sx_nat (sx_nth s 2)) (sx_nats (sx_nth s 3)) (sx_nat (sx_nth s 4))
   | 7 => UAtom (sx_Z (sx_nth s 2))
   | _ => UEmpty
   end).

Definition dec_fkey (s : sx) : fkey := mkkey (sx_nat (sx_nth s 0)) (dec_kidsZ (sx_nth s 1)).

Definition eq_nf (q : result) : sx :=
  match q with
  | Ok lhs rhs => L [I 0; enc_npoly (nf lhs); enc_npoly (nf rhs)]
  | NotImpl => L [I 1]
  | IndexErr => L [I 2]
  end.

Definition run_crit (fixed guard : bool) (classes rules : list sx) (g : sx) : list sx :=
  match sx_list g with
  | [] => []
  | _ =>
      let root := sx_nat (sx_nth g 0) in
      let us := map dec_urule (sx_list (sx_nth g 1)) in
      let ks := map dec_fkey (sx_list (sx_nth g 2)) in
      let M := sx_Z (sx_nth g 3) in
      let tabs := sx_list (sx_nth g 4) in
      let W := fun c : nat => series_of (sx_Zs (sx_nth (find_class (Z.of_nat c) tabs) 1)) in
      let pars := fun l => sx_Zs (sx_nth (find_class l classes) 1) in
      let req := fun r => if fixed then (if guard then rule_equation_guarded pars r else rule_equation pars r)
                          else rule_equation_old pars r in
      let same := map (fun ur_d =>
                         sx_eqb (eq_nf (rule_equation nopars (to_rule (fst (fst ur_d)) (snd (fst ur_d)))))
                                (eq_nf (req (dec_rule (snd ur_d)))))
                      (combine us rules) in
      [L [I 6; of_bool (crit_okb us ks root);
          L (map of_bool (crit_parts us ks root));
          L (of_bool (Nat.eqb (length us) (length rules)) :: map of_bool same);
          L (map (fun cr => of_bool (genuine_ub W M (fst cr) (snd cr))) us);
          L (map (fun cr => of_bool (recur_okb W M (fst cr) (snd cr))) us);
          of_bool (low_okb W M us);
          of_bool (sel_okb us (sx_nats (sx_nth g 6)) (sx_Z (sx_nth g 5)))]]
  end.

(* input [N; V; classes; opaque; rules; mode; genf; crit]  ->  one result per rule, one per get_genf run, the criterion *)
Definition run_c20 (inp : sx) : sx :=
  let N := sx_Z (sx_nth inp 0) in
  let V := sx_Zs (sx_nth inp 1) in
  let classes := sx_list (sx_nth inp 2) in
  let opaque := sx_list (sx_nth inp 3) in
  let efixed := sx_bool (sx_nth (sx_nth inp 5) 0) in
  let gfixed := sx_bool (sx_nth (sx_nth inp 5) 1) in
  let guard := sx_bool (sx_nth (sx_nth inp 5) 2) in
  L (map (fun s => run_rule efixed guard N V classes opaque (dec_rule s)) (sx_list (sx_nth inp 4))
     ++ run_genf gfixed (sx_nth inp 6)
     ++ run_crit efixed guard classes (sx_list (sx_nth inp 4)) (sx_nth inp 7)).
