(* C07 — end to end: get_objects through a whole specification, with the
   level-by-level objects_cache of every rule (Count/ObjectsModel.v: ensure).

   Hypotheses (C01 style): every class met has a rule (closed; one rule per
   class is the type of `spec`), every rule honours its bijection contract,
   and the specification is productive in the form of a certificate
   rank : class -> size -> nat  that decreases along every read a rule makes
   when it builds a level (and along sizes of one class, because the cache is
   filled level by level).  Then generation terminates (a sufficient recursion
   depth exists) from every consistent cache state, never re-enters a level in
   progress, keeps every cache consistent and returns, for every parameter
   value, each object of the class of that size exactly once. *)
From Coq Require Import ZArith List Bool Lia Permutation.
From CSS Require Import Base.PyList Gen.Prelude Gen.Compositions Count.CompositionsSpec
                        Count.ObjectsModel Count.ObjectsLists Count.ObjectsProofs.
Import ListNotations.
Open Scope Z_scope.

Lemma Forall2_of_map_l {A B C} (R : C -> B -> Prop) (f : A -> C) la lb :
  Forall2 R (map f la) lb -> Forall2 (fun a b => R (f a) b) la lb.
Proof.
  revert lb. induction la as [|a la IH]; intros lb H; inversion H; subst; constructor; auto.
Qed.

Lemma exists_fuel_list {A} (Q : A -> nat -> Prop) (l : list A) :
  (forall x, In x l -> exists f0, forall f, (f0 <= f)%nat -> Q x f) ->
  exists f0, forall f, (f0 <= f)%nat -> forall x, In x l -> Q x f.
Proof.
  induction l as [|a l IH]; intros H.
  - exists O. intros f _ x [].
  - destruct (H a (or_introl eq_refl)) as [f1 H1].
    destruct IH as [f2 H2]; [intros x Hx; apply H; right; assumption|].
    exists (Nat.max f1 f2). intros f Hf x [<-|Hx]; [apply H1; lia|apply H2; [lia|assumption]].
Qed.

Ltac csplit := repeat match goal with |- _ /\ _ => split end.

Section Spec.
Context {obj : Type}.
Variable size : obj -> Z.
Variable In_cls : nat -> obj -> Prop.
Variable par : nat -> obj -> params.
Variable spec : nat -> option (rule obj).

Notation good := (good size In_cls par).
Notation isobj := (isobj size In_cls par).

(* the (class, size) pairs whose get_objects a rule calls to build level n *)
Definition reads (r : rule obj) (n : Z) : list (nat * Z) :=
  match r with
  | RUnion kids _ _ => map (fun k => (k, n)) kids
  | RProduct kids mins maxs _ _ =>
      flat_map (fun sizes => combine kids sizes) (compositions n (zlen kids) mins maxs)
  | RVerified _ => []
  end.

(* the contract of each rule form *)
Definition rule_ok (c : nat) (r : rule obj) : Prop :=
  match r with
  | RUnion kids maps bwd => exists fwd, union_contract size In_cls par c kids maps fwd bwd
  | RProduct kids mins maxs maps bwd =>
      (exists fwd, product_contract size In_cls par c kids maps fwd bwd) /\
      bounds_ok size In_cls kids mins maxs
  | RVerified tbl => forall n, 0 <= n -> good c n (tbl n)
  end.

Variable rank : nat -> Z -> nat.
Hypothesis all_ok : forall c r, spec c = Some r -> rule_ok c r.
Hypothesis closed : forall c r n c' m, spec c = Some r -> 0 <= n -> In (c', m) (reads r n) -> spec c' <> None.
Hypothesis rank_reads : forall c r n c' m, spec c = Some r -> 0 <= n -> In (c', m) (reads r n) ->
                                           0 <= m /\ (rank c' m < rank c n)%nat.
Hypothesis rank_mono : forall c m n, 0 <= m < n -> (rank c m < rank c n)%nat.

(* ---------------------------------------------------------------- cache states *)
Definition Inv (s : cache) : Prop := forall c m, 0 <= m < clen s c -> good c m (cget s c m).
Definition ext (s s' : cache (obj := obj)) : Prop := forall c, exists tl, s' c = s c ++ tl.
Definition below (s s' : cache (obj := obj)) (R : nat) : Prop :=
  forall c m, clen s c <= m < clen s' c -> (rank c m < R)%nat.

Lemma ext_refl s : ext s s.
Proof. intros c. exists []. rewrite app_nil_r. reflexivity. Qed.

Lemma ext_trans s1 s2 s3 : ext s1 s2 -> ext s2 s3 -> ext s1 s3.
Proof.
  intros H1 H2 c. destruct (H1 c) as [t1 E1]. destruct (H2 c) as [t2 E2].
  exists (t1 ++ t2). rewrite E2, E1, app_assoc. reflexivity.
Qed.

Lemma ext_clen s s' c : ext s s' -> clen s c <= clen s' c.
Proof. intros H. destruct (H c) as [tl E]. unfold clen, zlen. rewrite E, app_length. lia. Qed.

Lemma ext_cget s s' c m : ext s s' -> 0 <= m < clen s c -> cget s' c m = cget s c m.
Proof.
  intros H Hm. destruct (H c) as [tl E]. unfold cget. rewrite E. apply app_nth1.
  unfold clen, zlen in Hm. lia.
Qed.

Lemma below_refl s R : below s s R.
Proof. intros c m H. lia. Qed.

Lemma below_trans s1 s2 s3 R : below s1 s2 R -> below s2 s3 R -> below s1 s3 R.
Proof.
  intros H1 H2 c m Hm. destruct (Z_lt_le_dec m (clen s2 c)); [apply H1|apply H2]; lia.
Qed.

Lemma below_weaken s s' R R' : (R <= R')%nat -> below s s' R -> below s s' R'.
Proof. intros HR H c m Hm. specialize (H c m Hm). lia. Qed.

Lemma clen_nonneg (s : cache (obj := obj)) c : 0 <= clen s c.
Proof. unfold clen, zlen. lia. Qed.

(* ---------------------------------------------------------------- sequencing *)
Lemma mapM_ok {A B} (g : cache -> A -> option (cache * B)) (P : A -> B -> Prop) (R : nat) :
  forall l : list A,
  (forall a, In a l -> forall s, Inv s ->
     exists s' b, g s a = Some (s', b) /\ Inv s' /\ ext s s' /\ below s s' R /\ P a b) ->
  forall s, Inv s ->
    exists s' bs, mapM g s l = Some (s', bs) /\ Inv s' /\ ext s s' /\ below s s' R /\ Forall2 P l bs.
Proof.
  induction l as [|a l IH]; intros Hg s Hs.
  - exists s, []. simpl. csplit; auto using ext_refl, below_refl.
  - destruct (Hg a (or_introl eq_refl) s Hs) as (s1 & b & E1 & Hs1 & Hx1 & Hb1 & HP).
    destruct (IH (fun a' Ha' => Hg a' (or_intror Ha')) s1 Hs1) as (s2 & bs & E2 & Hs2 & Hx2 & Hb2 & HF).
    exists s2, (b :: bs). simpl. rewrite E1, E2. csplit; auto.
    + eapply ext_trans; eassumption.
    + eapply below_trans; eassumption.
Qed.

(* AbstractRule.get_objects of the child's rule, as level_with receives it *)
Definition getf (f : nat) (s : cache) (cm : nat * Z) : option (cache * objects obj) :=
  match ensure spec f s (fst cm) (snd cm) with
  | Some s' => Some (s', cget s' (fst cm) (snd cm))
  | None => None
  end.

Lemma ensure_S f s c n :
  ensure spec (S f) s c n =
  if n <? clen s c then Some s
  else match spec c with
       | None => None
       | Some r =>
           match level_with (getf f) r s (clen s c) with
           | None => None
           | Some (s1, d) => ensure spec f (cappend s1 c d) c n
           end
       end.
Proof. reflexivity. Qed.

(* "get_objects(c, m) answers with fuel f from every consistent state" *)
Definition OK (f : nat) (cm : nat * Z) : Prop :=
  forall s, Inv s ->
    exists s', ensure spec f s (fst cm) (snd cm) = Some s' /\ Inv s' /\ ext s s' /\
               below s s' (S (rank (fst cm) (snd cm))) /\ snd cm < clen s' (fst cm).

Lemma getf_ok f cm R :
  0 <= snd cm -> (rank (fst cm) (snd cm) < R)%nat -> OK f cm ->
  forall s, Inv s ->
    exists s' d, getf f s cm = Some (s', d) /\ Inv s' /\ ext s s' /\ below s s' R /\
                 good (fst cm) (snd cm) d.
Proof.
  intros Hm HR Hok s Hs. destruct (Hok s Hs) as (s' & E & Hs' & Hx & Hb & Hl).
  exists s', (cget s' (fst cm) (snd cm)). unfold getf. rewrite E.
  csplit; auto.
  eapply below_weaken; [|eassumption]. lia.
Qed.

(* ---------------------------------------------------------------- one level *)
Lemma level_ok c r m f :
  spec c = Some r -> 0 <= m ->
  (forall cm, In cm (reads r m) -> OK f cm) ->
  forall s, Inv s ->
    exists s1 d, level_with (getf f) r s m = Some (s1, d) /\ Inv s1 /\ ext s s1 /\
                 below s s1 (rank c m) /\ good c m d.
Proof.
  intros Hr Hm Hreads s Hs. pose proof (all_ok c r Hr) as Hok.
  destruct r as [kids maps bwd|kids mins maxs maps bwd|tbl]; simpl in *.
  - (* union *)
    destruct Hok as [fwd Hc].
    destruct (mapM_ok (getf f) (fun cm d => good (fst cm) (snd cm) d) (rank c m)
                      (map (fun k => (k, m)) kids)) with (s := s) as (s1 & subs & E & Hs1 & Hx & Hb & HF); auto.
    { intros cm Hin s0 Hs0. destruct (rank_reads c _ m (fst cm) (snd cm) Hr Hm) as [H0 Hrk].
      { simpl. destruct cm; assumption. }
      apply getf_ok; auto. }
    exists s1, (build_level bwd (union_yields maps subs)). rewrite E. csplit; auto.
    eapply union_level_good; [eassumption|]. apply Forall2_of_map_l in HF. exact HF.
  - (* product *)
    destruct Hok as [[fwd Hc] Hbd].
    destruct (mapM_ok (fun s' sizes => mapM (getf f) s' (combine kids sizes))
                      (fun sizes ds => Forall2 (goodks size In_cls par) (combine kids sizes) ds)
                      (rank c m) (compositions m (zlen kids) mins maxs)) with (s := s)
      as (s1 & per_comp & E & Hs1 & Hx & Hb & HF); auto.
    { intros sizes Hsz s0 Hs0.
      apply (mapM_ok (getf f) (goodks size In_cls par) (rank c m) (combine kids sizes)); auto.
      intros cm Hin s2 Hs2.
      assert (Hin' : In cm (flat_map (fun sizes => combine kids sizes) (compositions m (zlen kids) mins maxs))).
      { apply in_flat_map. exists sizes. split; assumption. }
      destruct (rank_reads c _ m (fst cm) (snd cm) Hr Hm) as [H0 Hrk].
      { simpl. destruct cm; assumption. }
      apply getf_ok; auto. }
    exists s1, (build_level bwd (product_yields maps per_comp)). rewrite E. csplit; auto.
    eapply product_level_good; eassumption.
  - (* verification rule *)
    exists s, (tbl m). csplit; auto using ext_refl, below_refl.
Qed.

Lemma Inv_cappend s c d :
  Inv s -> good c (clen s c) d -> Inv (cappend s c d).
Proof.
  intros Hs Hd c' m Hm. unfold cappend, clen, cget in *.
  destruct (Nat.eqb_spec c' c) as [->|Hne].
  - unfold zlen in Hm. rewrite app_length in Hm. simpl in Hm.
    destruct (Z.eq_dec m (zlen (s c))) as [->|Hlt].
    + unfold zlen. rewrite Nat2Z.id. rewrite nth_middle. exact Hd.
    + rewrite app_nth1 by (unfold zlen in Hlt; lia). apply Hs. unfold clen, zlen in *. lia.
  - apply Hs. exact Hm.
Qed.

Lemma ext_cappend (s : cache (obj := obj)) c d : ext s (cappend s c d).
Proof.
  intros c'. unfold cappend. destruct (Nat.eqb_spec c' c) as [->|Hne]; [exists [d]; reflexivity|].
  exists []. rewrite app_nil_r. reflexivity.
Qed.

Lemma clen_cappend (s : cache (obj := obj)) c d c' :
  clen (cappend s c d) c' = if Nat.eqb c' c then clen s c + 1 else clen s c'.
Proof.
  unfold clen, cappend, zlen. destruct (Nat.eqb_spec c' c) as [->|Hne]; [|reflexivity].
  rewrite app_length. simpl. lia.
Qed.

(* ---------------------------------------------------------------- the while loop *)
Lemma loop_ok c r n fL :
  spec c = Some r -> 0 <= n ->
  (forall m, 0 <= m <= n -> forall cm, In cm (reads r m) -> forall f, (fL <= f)%nat -> OK f cm) ->
  forall (j : nat) f s, Inv s -> n + 1 - clen s c <= Z.of_nat j -> (fL + 1 + j <= f)%nat ->
    exists s', ensure spec f s c n = Some s' /\ Inv s' /\ ext s s' /\
               below s s' (S (rank c n)) /\ n < clen s' c.
Proof.
  intros Hr Hn HL. induction j as [|j IH]; intros f s Hs Hj Hf.
  - destruct f as [|f]; [lia|]. rewrite ensure_S.
    destruct (Z.ltb_spec n (clen s c)) as [Hlt|Hge]; [|lia].
    exists s. csplit; auto using ext_refl, below_refl.
  - destruct f as [|f]; [lia|]. rewrite ensure_S.
    destruct (Z.ltb_spec n (clen s c)) as [Hlt|Hge].
    { exists s. csplit; auto using ext_refl, below_refl. }
    rewrite Hr. set (m := clen s c) in *.
    assert (Hm : 0 <= m <= n) by (pose proof (clen_nonneg s c); lia).
    destruct (level_ok c r m f Hr ltac:(lia)) with (s := s) as (s1 & d & E & Hs1 & Hx1 & Hb1 & Hd); auto.
    { intros cm Hin. apply (HL m Hm cm Hin). lia. }
    rewrite E.
    (* no level of c was appended meanwhile: the level is stored at index m *)
    assert (Hlen1 : clen s1 c = m).
    { pose proof (ext_clen s s1 c Hx1) as Hle. fold m in Hle.
      destruct (Z.eq_dec (clen s1 c) m) as [|Hne]; [assumption|].
      specialize (Hb1 c m ltac:(fold m; lia)). lia. }
    set (s2 := cappend s1 c d).
    assert (Hs2 : Inv s2) by (apply Inv_cappend; [assumption|rewrite Hlen1; assumption]).
    assert (Hrank_m : (rank c m <= rank c n)%nat).
    { destruct (Z.eq_dec m n) as [->|Hne]; [lia|]. pose proof (rank_mono c m n ltac:(lia)). lia. }
    destruct (IH f s2 Hs2) as (s' & E' & Hs' & Hx' & Hb' & Hl'); [| lia |].
    { unfold s2. rewrite clen_cappend, Nat.eqb_refl. lia. }
    exists s'. rewrite E'. csplit; auto.
    + eapply ext_trans; [eassumption|]. eapply ext_trans; [apply ext_cappend|eassumption].
    + eapply below_trans; [eapply below_weaken; [|eassumption]; lia|].
      eapply below_trans; [|eassumption].
      intros c' m' Hm'. unfold s2 in Hm'. rewrite clen_cappend in Hm'.
      destruct (Nat.eqb_spec c' c) as [->|Hne]; [|lia].
      assert (m' = m) by lia. subst m'. lia.
Qed.

(* ---------------------------------------------------------------- induction on the certificate *)
Theorem ensure_total : forall (R : nat) c n,
  (rank c n <= R)%nat -> 0 <= n -> spec c <> None ->
  exists f0, forall f, (f0 <= f)%nat -> OK f (c, n).
Proof.
  induction R as [R IHR] using lt_wf_ind. intros c n HR Hn Hc.
  destruct (spec c) as [r|] eqn:Hr; [|congruence].
  set (levels := map Z.of_nat (seq 0 (Z.to_nat n + 1))).
  set (allreads := flat_map (fun m => reads r m) levels).
  assert (Hall : forall m cm, 0 <= m <= n -> In cm (reads r m) -> In cm allreads).
  { intros m cm Hm Hin. apply in_flat_map. exists m. split; [|assumption].
    apply in_map_iff. exists (Z.to_nat m). split; [lia|]. apply in_seq. lia. }
  destruct (exists_fuel_list (fun cm f => OK f cm) allreads) as [fL HfL].
  { intros [c' m'] Hin. apply in_flat_map in Hin. destruct Hin as (m & Hm & Hin).
    apply in_map_iff in Hm. destruct Hm as (k & <- & Hk). apply in_seq in Hk.
    destruct (rank_reads c r (Z.of_nat k) c' m' Hr ltac:(lia) Hin) as [H0 Hrk].
    assert (Hle : (rank c (Z.of_nat k) <= rank c n)%nat).
    { destruct (Z.eq_dec (Z.of_nat k) n) as [->|Hne]; [lia|].
      pose proof (rank_mono c (Z.of_nat k) n ltac:(lia)). lia. }
    apply (IHR (rank c' m') ltac:(lia) c' m' (le_n _) H0).
    eapply closed; [exact Hr| |exact Hin]. lia. }
  exists (fL + 1 + Z.to_nat (n + 1))%nat. intros f Hf s Hs. simpl.
  apply (loop_ok c r n fL Hr Hn) with (j := Z.to_nat (n + 1)); auto.
  - intros m Hm cm Hin f' Hf'. apply HfL; [assumption|]. eapply Hall; eassumption.
  - pose proof (clen_nonneg s c). lia.
Qed.

Lemma Inv_empty : Inv empty_cache.
Proof. intros c m Hm. unfold clen, empty_cache, zlen in Hm. simpl in Hm. lia. Qed.

(* C07_generate_perm (list form): from every consistent cache state, with enough
   recursion depth, generate_objects_of_size answers, for every parameter value,
   with a duplicate-free list of exactly the objects of the class with that
   size and parameters; the caches stay consistent *)
Theorem generate_exact c n :
  spec c <> None -> 0 <= n ->
  exists f0, forall f, (f0 <= f)%nat -> forall s, Inv s -> forall p,
    exists s' l, generate_objects_of_size spec f s c n p = Some (s', l) /\ Inv s' /\
                 NoDup l /\ forall o, In o l <-> isobj c n p o.
Proof.
  intros Hc Hn. destruct (ensure_total (rank c n) c n (le_n _) Hn Hc) as [f0 H0].
  exists f0. intros f Hf s Hs p. destruct (H0 f Hf s Hs) as (s' & E & Hs' & _ & _ & Hl). simpl in *.
  exists s', (dict_get (cget s' c n) p). unfold generate_objects_of_size, get_objects. rewrite E.
  split; [reflexivity|]. split; [assumption|]. apply (Hs' c n). lia.
Qed.

(* against any independent enumeration of the class (brute force) *)
Theorem generate_perm c n (enum : params -> list obj) :
  spec c <> None -> 0 <= n ->
  (forall p, NoDup (enum p) /\ forall o, In o (enum p) <-> isobj c n p o) ->
  exists f0, forall f, (f0 <= f)%nat -> forall s, Inv s -> forall p,
    exists s' l, generate_objects_of_size spec f s c n p = Some (s', l) /\
                 NoDup l /\ Permutation l (enum p) /\ length l = length (enum p).
Proof.
  intros Hc Hn He. destruct (generate_exact c n Hc Hn) as [f0 H0].
  exists f0. intros f Hf s Hs p. destruct (H0 f Hf s Hs p) as (s' & l & E & _ & Hnd & Hm).
  exists s', l. split; [assumption|]. split; [assumption|].
  destruct (He p) as [Hnd' Hm'].
  assert (HP : Permutation l (enum p)).
  { apply NoDup_Permutation; auto. intros o. rewrite Hm, Hm'. reflexivity. }
  split; [assumption|]. apply Permutation_length. assumption.
Qed.

End Spec.
