(* C08 — end to end: the specification-level sampler is exactly uniform on parse
   trees, for specifications built from atoms, disjoint unions and Cartesian
   products without extra parameters. *)
From Coq Require Import ZArith List Bool Lia QArith Qfield Permutation.
From CSS Require Import Gen.Prelude Gen.Compositions Count.CompositionsSpec
  Count.SampleModel Count.SampleWalk Count.SampleComps Count.SampleProb.
Import ListNotations.
Open Scope Z_scope.

(* ------------------------------------------------------------------ parse trees *)
Section TreeInd.
  Variable P : tree -> Prop.
  Hypothesis HL : forall c, P (Leaf c).
  Hypothesis HU : forall c i t, P t -> P (UNode c i t).
  Hypothesis HP : forall c ts, Forall P ts -> P (PNode c ts).
  Fixpoint tree_ind' (t : tree) : P t :=
    match t with
    | Leaf c => HL c
    | UNode c i t' => HU c i t' (tree_ind' t')
    | PNode c ts =>
        HP c ts ((fix go (l : list tree) : Forall P l :=
                    match l with
                    | [] => Forall_nil P
                    | x :: r => Forall_cons x (tree_ind' x) (go r)
                    end) ts)
    end.
End TreeInd.

Fixpoint tree_eqb (a b : tree) {struct a} : bool :=
  match a, b with
  | Leaf c, Leaf c' => Nat.eqb c c'
  | UNode c i t, UNode c' i' t' => Nat.eqb c c' && Nat.eqb i i' && tree_eqb t t'
  | PNode c ts, PNode c' ts' => Nat.eqb c c' && all2b tree_eqb ts ts'
  | _, _ => false
  end.

Lemma tree_eqb_eq : forall a b, tree_eqb a b = true <-> a = b.
Proof.
  induction a as [c|c i t IH|c ts IH] using tree_ind'; intros [c'|c' i' t'|c' ts']; simpl;
    try (split; [discriminate|intros E; discriminate]).
  - rewrite Nat.eqb_eq. split; [intros ->; reflexivity|intros E; injection E; auto].
  - rewrite !andb_true_iff, !Nat.eqb_eq, IH. split.
    + intros [[-> ->] ->]. reflexivity.
    + intros E. injection E as -> -> ->. auto.
  - rewrite andb_true_iff, Nat.eqb_eq.
    assert (G : all2b tree_eqb ts ts' = true <-> ts = ts').
    { revert ts'. induction IH as [|x ts Hx _ IHts]; intros [|y ts']; simpl;
        try (split; [discriminate|intros E; discriminate]).
      - split; reflexivity.
      - rewrite andb_true_iff, Hx, IHts. split; [intros [-> ->]; reflexivity|intros E; injection E; auto]. }
    rewrite G. split; [intros [-> ->]; reflexivity|intros E; injection E; auto].
Qed.

Lemma tree_eqb_refl a : tree_eqb a a = true.
Proof. apply tree_eqb_eq. reflexivity. Qed.

Section All2.
  Context {A B : Type}.
  Variable R : A -> B -> Prop.
  Fixpoint all2 (l : list A) (l' : list B) : Prop :=
    match l, l' with
    | [], [] => True
    | x :: t, y :: t' => R x y /\ all2 t t'
    | _, _ => False
    end.
End All2.

Lemma all2_length {A B} (R : A -> B -> Prop) : forall l l', all2 R l l' -> length l = length l'.
Proof. induction l as [|x l IH]; intros [|y l'] H; simpl in *; try tauto. f_equal. apply IH. tauto. Qed.

Lemma all2_in {A B} (R : A -> B -> Prop) : forall l l' x y, all2 R l l' -> In (x, y) (combine l l') -> R x y.
Proof.
  induction l as [|a l IH]; intros [|b l'] x y H Hin; simpl in *; try tauto.
  destruct Hin as [E|Hin]; [injection E as <- <-; tauto|]. apply (IH l'); tauto.
Qed.

Fixpoint height (t : tree) : nat :=
  match t with
  | Leaf _ => 0%nat
  | UNode _ _ t' => S (height t')
  | PNode _ ts => S (fold_right Nat.max 0%nat (map height ts))
  end.

Lemma height_in t ts : In t ts -> (height t <= fold_right Nat.max 0%nat (map height ts))%nat.
Proof.
  induction ts as [|x ts IH]; intros H; [destruct H|]. simpl. destruct H as [->|H]; [lia|].
  specialize (IH H). lia.
Qed.

(* ------------------------------------------------------------------ small facts *)
Lemma py_sum_in_le (l : list Z) x : Forall (fun y => 0 <= y) l -> In x l -> x <= py_sum l.
Proof.
  induction 1 as [|y l Hy H IH]; intros Hin; [destruct Hin|]. rewrite py_sum_cons.
  assert (0 <= py_sum l). { clear IH Hin. induction H; [unfold py_sum; simpl; lia|rewrite py_sum_cons; lia]. }
  destruct Hin as [->|Hin]; [lia|]. specialize (IH Hin). lia.
Qed.

Lemma prodz_pos (l : list Z) : Forall (fun y => 1 <= y) l -> 1 <= prodz l.
Proof. induction 1 as [|y l Hy H IH]; simpl; [lia|]. unfold prodz in *. simpl. nia. Qed.

Lemma prodz_nonneg (l : list Z) : Forall (fun y => 0 <= y) l -> 0 <= prodz l.
Proof. induction 1 as [|y l Hy H IH]; unfold prodz in *; simpl; [lia|]. nia. Qed.

Lemma Permutation_py_sum l l' : Permutation l l' -> py_sum l = py_sum l'.
Proof. induction 1; rewrite ?py_sum_cons; try lia; reflexivity. Qed.

Lemma walk_in {B} (weight : B -> res (option Z)) : forall bs r t0 i0 i b,
  walk weight r t0 i0 bs = Ok (i, b) -> In b bs.
Proof.
  induction bs as [|b0 bs IH]; intros r t0 i0 i b; simpl; [discriminate|].
  destruct (weight b0) as [[w|]|e]; try discriminate.
  - destruct (r <=? t0 + w); [intros H; injection H as _ <-; left; reflexivity|].
    intros H. right. eapply IH; exact H.
  - intros H. right. eapply IH; exact H.
Qed.

Lemma NoDup_nth_error_neq {A} (l : list A) i j x y :
  NoDup l -> nth_error l i = Some x -> nth_error l j = Some y -> i <> j -> x <> y.
Proof.
  intros Hnd Hi Hj Hne ->. apply Hne. apply (proj1 (NoDup_nth_error l) Hnd).
  - apply nth_error_Some. congruence.
  - congruence.
Qed.

Lemma Qdiv_zero (x : Q) : (0 / x == 0)%Q.
Proof. unfold Qdiv. ring. Qed.

(* ------------------------------------------------------------------ the theorem *)
Section Uniform.
  Variable rule_of : nat -> cls.
  Variable cnt : nat -> Z -> Z.

  Notation kids c := (c_kids (rule_of c)).
  Definition cmin (c : nat) : Z := c_min (rule_of c).
  Definition cmax (c : nat) : option Z := if c_atom (rule_of c) then Some (cmin c) else None.

  (* the size of the object a parse tree stands for *)
  Fixpoint tsize (t : tree) : Z :=
    match t with
    | Leaf c => cmin c
    | UNode _ _ t' => tsize t'
    | PNode _ ts => py_sum (map tsize ts)
    end.

  (* t is a parse tree of class c *)
  Fixpoint wf (t : tree) (c : nat) : Prop :=
    match t with
    | Leaf c' => c' = c /\ c_kind (rule_of c) = K_ATOM
    | UNode c' i t' =>
        c' = c /\ c_kind (rule_of c) = K_UNION /\
        exists ci, nth_error (kids c) i = Some ci /\ wf t' ci
    | PNode c' ts => c' = c /\ c_kind (rule_of c) = K_PRODUCT /\ all2 wf ts (kids c)
    end.

  (* the product of the children's counts at the sizes t *)
  Definition prod_counts (cs : list nat) (t : list Z) : Z :=
    prodz (map (fun p : nat * Z => cnt (fst p) (snd p)) (combine cs t)).

  (* --- hypotheses: the counts are what get_terms computes (C01/C09), and the
         classes honour the minimum_size_of_object / is_atom contract --- *)
  Hypothesis cnt_nonneg : forall c n, 0 <= cnt c n.
  Hypothesis cnt_atom : forall c, c_kind (rule_of c) = K_ATOM -> cnt c (cmin c) = 1.
  (* DisjointUnion.get_terms *)
  Hypothesis cnt_union : forall c n, c_kind (rule_of c) = K_UNION ->
    cnt c n = py_sum (map (fun ci => cnt ci n) (kids c)).
  (* CartesianProduct.get_terms: utils.compositions(n, k, min_sizes, max_sizes) *)
  Hypothesis cnt_product : forall c n, c_kind (rule_of c) = K_PRODUCT ->
    cnt c n = py_sum (map (prod_counts (kids c))
                          (compositions n (zlen (kids c)) (map cmin (kids c)) (map cmax (kids c)))).
  (* contract of the classes *)
  Hypothesis min_nonneg : forall c, 0 <= cmin c.
  Hypothesis min_contract : forall c m, cnt c m <> 0 ->
    cmin c <= m /\ (c_atom (rule_of c) = true -> m <= cmin c).
  Hypothesis product_min : forall c, c_kind (rule_of c) = K_PRODUCT ->
    kids c <> [] /\ cmin c <= py_sum (map cmin (kids c)).

  Lemma kind_tests c :
    (c_kind (rule_of c) = K_ATOM -> (c_kind (rule_of c) =? K_ATOM) = true) /\
    (c_kind (rule_of c) = K_UNION ->
       (c_kind (rule_of c) =? K_ATOM) = false /\ (c_kind (rule_of c) =? K_EMPTY) = false /\
       (c_kind (rule_of c) =? K_UNION) = true) /\
    (c_kind (rule_of c) = K_PRODUCT ->
       (c_kind (rule_of c) =? K_ATOM) = false /\ (c_kind (rule_of c) =? K_EMPTY) = false /\
       (c_kind (rule_of c) =? K_UNION) = false /\ (c_kind (rule_of c) =? K_PRODUCT) = true).
  Proof. split; [|split]; intros ->; repeat (split; try reflexivity). Qed.

  (* ---------------------------------------------------------------- compositions of a product rule *)
  Lemma spec_comps_eq c n :
    spec_comps rule_of c n =
    valid_comps 1 [cmin c] (col1 (map cmin (kids c))) (col1o (map cmax (kids c))) [n].
  Proof. unfold spec_comps, col1, col1o, cmin, cmax. rewrite !map_map. reflexivity. Qed.

  Lemma comp_sizes_eq M : comp_sizes M = sizes_of M.
  Proof. reflexivity. Qed.

  Lemma spec_comps_in c n M : In M (spec_comps rule_of c n) ->
    kids c <> [] /\ length (sizes_of M) = length (kids c) /\ M = col1 (sizes_of M) /\ py_sum (sizes_of M) = n.
  Proof.
    rewrite spec_comps_eq. intros H.
    destruct (kids c) as [|c0 cs] eqn:Ek; [simpl in H; destruct H|].
    split; [discriminate|].
    assert (Hl : length (map cmin (c0 :: cs)) = length (map cmax (c0 :: cs))) by (rewrite !map_length; reflexivity).
    pose proof (valid_comps_col1_shape n (cmin c) _ _ M Hl ltac:(discriminate) H) as Hs.
    apply valid_comps_spec in H; [|simpl; discriminate]. destruct H as [HF Hc].
    split; [|split; [exact Hs|]].
    - apply Forall2_len in HF. rewrite combine_length in HF. unfold col1, col1o in HF.
      rewrite !map_length in HF. unfold sizes_of. rewrite map_length. simpl in *. lia.
    - specialize (Hc 0%nat ltac:(lia)). rewrite colsum0_sizes in Hc. exact Hc.
  Qed.

  Lemma spec_comps_compositions c n t :
    c_kind (rule_of c) = K_PRODUCT ->
    (In (col1 t) (spec_comps rule_of c n) <->
     In t (compositions n (zlen (kids c)) (map cmin (kids c)) (map cmax (kids c)))).
  Proof.
    intros Hk. destruct (product_min c Hk) as [Hne Hp]. rewrite spec_comps_eq.
    replace (zlen (kids c)) with (zlen (map cmin (kids c))) by (unfold zlen; rewrite map_length; reflexivity).
    apply valid_comps_compositions.
    - unfold zlen. rewrite map_length. destruct (kids c); [congruence|simpl; lia].
    - unfold zlen. rewrite !map_length. reflexivity.
    - apply Forall_forall. intros m Hm. apply in_map_iff in Hm. destruct Hm as (ci & <- & _). apply min_nonneg.
    - exact Hp.
  Qed.

  (* the walk's total over _valid_compositions is the rule's count *)
  Lemma product_total c n : c_kind (rule_of c) = K_PRODUCT ->
    total_weight (spec_prod_weight cnt (kids c)) (spec_comps rule_of c n) = cnt c n.
  Proof.
    intros Hk. rewrite (cnt_product c n Hk). unfold total_weight.
    rewrite (map_ext_in _ (fun M => prod_counts (kids c) (sizes_of M))) by (intros; reflexivity).
    rewrite <- (map_map sizes_of (prod_counts (kids c))).
    apply Permutation_py_sum. apply Permutation_map.
    apply NoDup_Permutation.
    - (* sizes_of is injective on the enumerated matrices *)
      assert (G : forall l, NoDup l -> (forall M, In M l -> M = col1 (sizes_of M)) -> NoDup (map sizes_of l)).
      { induction l as [|M l IH]; intros Hnd Hs; simpl; [constructor|].
        inversion Hnd; subst. constructor.
        - intros Hin. apply in_map_iff in Hin. destruct Hin as (M' & E & HM').
          rewrite (Hs M (or_introl eq_refl)) in H1. rewrite <- E in H1.
          rewrite <- (Hs M' (or_intror HM')) in H1. contradiction.
        - apply IH; [assumption|]. intros M' HM'. apply Hs. right; exact HM'. }
      apply G.
      + unfold spec_comps. apply valid_comps_nodup.
      + intros M HM. apply spec_comps_in in HM. tauto.
    - apply compositions_nodup.
    - intros t. rewrite <- (spec_comps_compositions c n t Hk). rewrite in_map_iff. split.
      + intros (M & <- & HM). pose proof (spec_comps_in c n M HM) as (_ & _ & E & _).
        rewrite <- E. exact HM.
      + intros H. exists (col1 t). split; [apply sizes_of_col1|exact H].
  Qed.

  Lemma union_total c n : c_kind (rule_of c) = K_UNION ->
    total_weight (spec_union_weight cnt n) (kids c) = cnt c n.
  Proof. intros Hk. rewrite (cnt_union c n Hk). reflexivity. Qed.

  Lemma union_weights_ok n cs : weights_ok (spec_union_weight cnt n) cs.
  Proof. intros b _. exists (Some (cnt b n)). split; [reflexivity|]. intros w E. injection E as <-. apply cnt_nonneg. Qed.

  Lemma prod_counts_nonneg cs t : 0 <= prod_counts cs t.
  Proof.
    unfold prod_counts. apply prodz_nonneg. apply Forall_forall. intros y Hy.
    apply in_map_iff in Hy. destruct Hy as (p & <- & _). apply cnt_nonneg.
  Qed.

  Lemma prod_weights_ok cs Ms : weights_ok (spec_prod_weight cnt cs) Ms.
  Proof.
    intros b _. eexists. split; [reflexivity|]. intros w E. injection E as <-.
    apply (prod_counts_nonneg cs (sizes_of b)).
  Qed.

  (* ---------------------------------------------------------------- every parse tree is counted *)
  Lemma wf_counted : forall t c, wf t c -> 1 <= cnt c (tsize t).
  Proof.
    induction t as [c0|c0 i t IH|c0 ts IH] using tree_ind'; intros c Hwf; simpl in Hwf.
    - destruct Hwf as [-> Hk]. simpl. rewrite (cnt_atom c Hk). lia.
    - destruct Hwf as (-> & Hk & ci & Hn & Hw). simpl. specialize (IH ci Hw).
      rewrite (cnt_union c _ Hk).
      assert (cnt ci (tsize t) <= py_sum (map (fun ci0 => cnt ci0 (tsize t)) (kids c))).
      { apply py_sum_in_le.
        - apply Forall_forall. intros y Hy. apply in_map_iff in Hy. destruct Hy as (x & <- & _). apply cnt_nonneg.
        - apply in_map_iff. exists ci. split; [reflexivity|]. eapply nth_error_In; exact Hn. }
      lia.
    - destruct Hwf as (-> & Hk & Hall). simpl.
      assert (Hpos : Forall (fun p : nat * Z => 1 <= cnt (fst p) (snd p)) (combine (kids c) (map tsize ts))).
      { revert Hall IH. generalize (kids c). clear Hk.
        induction ts as [|t ts IHts]; intros [|ci cs] Hall IH; simpl in *; try tauto; try constructor.
        - simpl. inversion IH; subst. apply H1. tauto.
        - inversion IH; subst. apply IHts; tauto. }
      assert (Hcomp : In (map tsize ts)
                         (compositions (py_sum (map tsize ts)) (zlen (kids c)) (map cmin (kids c)) (map cmax (kids c)))).
      { destruct (product_min c Hk) as [Hne _].
        apply compositions_complete.
        - unfold zlen. destruct (kids c); [congruence|simpl; lia].
        - apply Forall_forall. intros m Hm. apply in_map_iff in Hm. destruct Hm as (ci & <- & _). apply min_nonneg.
        - assert (Hlen : length ts = length (kids c)) by (eapply all2_length; exact Hall).
          split; [unfold zlen; rewrite map_length; f_equal; exact Hlen|]. split; [reflexivity|].
          clear Hall Hk Hne. revert Hpos Hlen. generalize (kids c).
          induction ts as [|t ts IHts]; intros [|ci cs] Hpos Hlen; simpl in *; try lia.
          + split; constructor.
          + inversion Hpos; subst. simpl in H1. inversion IH; subst.
            destruct (IHts H4 cs H2 ltac:(lia)) as [L1 L2].
            destruct (min_contract ci (tsize t) ltac:(lia)) as [M1 M2].
            split; constructor; try assumption.
            unfold cmax. destruct (c_atom (rule_of ci)); simpl; [apply M2; reflexivity|exact I]. }
      rewrite (cnt_product c _ Hk).
      assert (1 <= prod_counts (kids c) (map tsize ts)).
      { unfold prod_counts. apply prodz_pos. apply Forall_forall. intros y Hy.
        apply in_map_iff in Hy. destruct Hy as (p & <- & Hp). rewrite Forall_forall in Hpos. apply Hpos. exact Hp. }
      assert (prod_counts (kids c) (map tsize ts) <=
              py_sum (map (prod_counts (kids c))
                          (compositions (py_sum (map tsize ts)) (zlen (kids c)) (map cmin (kids c)) (map cmax (kids c))))).
      { apply py_sum_in_le.
        - apply Forall_forall. intros y Hy. apply in_map_iff in Hy. destruct Hy as (x & <- & _).
          apply prod_counts_nonneg.
        - apply in_map. exact Hcomp. }
      lia.
  Qed.

  (* ---------------------------------------------------------------- one unfolding of the sampler *)
  Lemma sample_atom f c n : c_kind (rule_of c) = K_ATOM ->
    sample rule_of cnt (S f) c n = if n =? cmin c then Ret (Leaf c) else Fail E_VALUE.
  Proof. intros Hk. simpl. rewrite (proj1 (kind_tests c) Hk). reflexivity. Qed.

  Lemma sample_union f c n : c_kind (rule_of c) = K_UNION ->
    sample rule_of cnt (S f) c n =
    Draw 1 (cnt c n) (fun r =>
      match walk (spec_union_weight cnt n) r 0 0%nat (kids c) with
      | Err e => Fail e
      | Ok (i, ci) => bind (sample rule_of cnt f ci n) (fun t => choice1 (UNode c i t))
      end).
  Proof.
    intros Hk. simpl. destruct (proj1 (proj2 (kind_tests c)) Hk) as (-> & -> & ->). reflexivity.
  Qed.

  Lemma sample_product f c n : c_kind (rule_of c) = K_PRODUCT ->
    sample rule_of cnt (S f) c n =
    Draw 1 (cnt c n) (fun r =>
      match walk (spec_prod_weight cnt (kids c)) r 0 0%nat (spec_comps rule_of c n) with
      | Err e => Fail e
      | Ok (_, comp) =>
          bind (mapM (fun p : nat * Z => sample rule_of cnt f (fst p) (snd p)) (combine (kids c) (comp_sizes comp)))
               (fun ts => choice1 (PNode c ts))
      end).
  Proof.
    intros Hk. simpl. destruct (proj2 (proj2 (kind_tests c)) Hk) as (-> & -> & -> & ->). reflexivity.
  Qed.

  Lemma prob_draw_zero {A} (T : A -> bool) lo hi (k : Z -> rc A) :
    (forall r, (prob T (k r) == 0)%Q) -> (prob T (Draw lo hi k) == 0)%Q.
  Proof.
    intros H. simpl. destruct (hi <? lo); [reflexivity|].
    rewrite sumQ_zero; [apply Qdiv_zero|]. intros r _. apply H.
  Qed.

  (* ---------------------------------------------------------------- support: only trees of the requested size *)
  Lemma mapM_mismatch f (cs : list nat) : forall (sizes : list Z) (ts : list tree),
    length cs = length sizes ->
    (forall ci s t, s <> tsize t -> (prob (tree_eqb t) (sample rule_of cnt f ci s) == 0)%Q) ->
    sizes <> map tsize ts ->
    (prob (fun ys => all2b tree_eqb ts ys)
          (mapM (fun p : nat * Z => sample rule_of cnt f (fst p) (snd p)) (combine cs sizes)) == 0)%Q.
  Proof.
    intros sizes ts Hl Hsup Hne.
    destruct (Nat.eq_dec (length (combine cs sizes)) (length ts)) as [E|E];
      [|apply prob_mapM_length; exact E].
    rewrite prob_mapM by exact E. apply prodQ_zero.
    rewrite combine_length in E.
    revert sizes ts Hl Hne E. induction cs as [|ci cs IH]; intros [|s sizes] [|t ts] Hl Hne E; simpl in *; try lia.
    - congruence.
    - destruct (Z.eq_dec s (tsize t)) as [Es|Es].
      + destruct (IH sizes ts ltac:(lia)) as (x & Hx & Hz); [congruence|lia|].
        exists x. split; [right; exact Hx|exact Hz].
      + eexists. split; [left; reflexivity|]. simpl. apply Hsup. exact Es.
  Qed.

  Lemma sample_support : forall f c n t, tsize t <> n ->
    (prob (tree_eqb t) (sample rule_of cnt f c n) == 0)%Q.
  Proof.
    induction f as [|f IH]; intros c n t Hne; [reflexivity|].
    destruct (Z.eq_dec (c_kind (rule_of c)) K_ATOM) as [Ka|Ka];
      [|destruct (Z.eq_dec (c_kind (rule_of c)) K_UNION) as [Ku|Ku];
        [|destruct (Z.eq_dec (c_kind (rule_of c)) K_PRODUCT) as [Kp|Kp]]].
    - rewrite (sample_atom f c n Ka). destruct (n =? cmin c) eqn:E; [|reflexivity].
      apply Z.eqb_eq in E. simpl. destruct (tree_eqb t (Leaf c)) eqn:Et; [|reflexivity].
      apply tree_eqb_eq in Et. subst t. simpl in Hne. congruence.
    - rewrite (sample_union f c n Ku). apply prob_draw_zero. intros r.
      destruct (walk _ r 0 0%nat (kids c)) as [[j cj]|e]; [|reflexivity].
      destruct t as [c'|c' i' t'|c' ts'].
      + apply prob_bind_zero. intros a. rewrite prob_choice1. reflexivity.
      + destruct (Nat.eqb c' c && Nat.eqb i' j) eqn:Ep.
        * rewrite (prob_bind _ _ (tree_eqb t') _ 1%Q).
          -- rewrite IH; [ring|exact Hne].
          -- intros a. rewrite prob_choice1. simpl. rewrite Ep. simpl. reflexivity.
        * apply prob_bind_zero. intros a. rewrite prob_choice1. simpl. rewrite Ep. reflexivity.
      + apply prob_bind_zero. intros a. rewrite prob_choice1. reflexivity.
    - rewrite (sample_product f c n Kp). apply prob_draw_zero. intros r.
      destruct (walk _ r 0 0%nat (spec_comps rule_of c n)) as [[j M]|e] eqn:W; [|reflexivity].
      apply walk_in in W. destruct (spec_comps_in c n M W) as (_ & Hlen & _ & Hsum).
      destruct t as [c'|c' i' t'|c' ts'].
      + apply prob_bind_zero. intros a. rewrite prob_choice1. reflexivity.
      + apply prob_bind_zero. intros a. rewrite prob_choice1. reflexivity.
      + destruct (Nat.eqb c' c) eqn:Ec.
        * rewrite (prob_bind _ _ (fun ys => all2b tree_eqb ts' ys) _ 1%Q).
          -- rewrite comp_sizes_eq. rewrite mapM_mismatch; [ring|symmetry; exact Hlen| |].
             ++ intros ci s t Hs. apply IH. congruence.
             ++ intros E. apply Hne. simpl. rewrite <- E. exact Hsum.
          -- intros ys. rewrite prob_choice1. simpl. rewrite Ec. simpl. reflexivity.
        * apply prob_bind_zero. intros a. rewrite prob_choice1. simpl. rewrite Ec. reflexivity.
    - (* empty class or unknown kind: the sampler raises *)
      simpl.
      destruct (c_kind (rule_of c) =? K_ATOM) eqn:E1; [apply Z.eqb_eq in E1; contradiction|].
      destruct (c_kind (rule_of c) =? K_EMPTY); [reflexivity|].
      destruct (c_kind (rule_of c) =? K_UNION) eqn:E3; [apply Z.eqb_eq in E3; contradiction|].
      destruct (c_kind (rule_of c) =? K_PRODUCT) eqn:E4; [apply Z.eqb_eq in E4; contradiction|].
      reflexivity.
  Qed.

  (* ---------------------------------------------------------------- uniformity *)
  Lemma prodQ_inv_counts : forall (cs : list nat) (ts : list tree) (f : nat),
    length cs = length ts ->
    (forall ci t, In (ci, t) (combine cs ts) ->
       1 <= cnt ci (tsize t) /\
       (prob (tree_eqb t) (sample rule_of cnt f ci (tsize t)) == 1 / inject_Z (cnt ci (tsize t)))%Q) ->
    (inject_Z (prod_counts cs (map tsize ts)) *
     prodQ (map (fun p : (nat * Z) * tree => prob (tree_eqb (snd p)) (sample rule_of cnt f (fst (fst p)) (snd (fst p))))
                (combine (combine cs (map tsize ts)) ts)) == 1)%Q.
  Proof.
    induction cs as [|ci cs IH]; intros [|t ts] f Hl H; simpl in Hl; try lia.
    - simpl. reflexivity.
    - simpl combine. simpl map. simpl prodQ. unfold prod_counts. simpl combine. simpl map.
      change (prodz (cnt ci (tsize t) :: ?l)) with (cnt ci (tsize t) * prodz l).
      destruct (H ci t (or_introl eq_refl)) as [Hpos Hp].
      rewrite Hp. rewrite inject_Z_mult.
      specialize (IH ts f ltac:(lia) (fun ci' t' Hin => H ci' t' (or_intror Hin))).
      unfold prod_counts in IH.
      set (X := inject_Z (prodz (map (fun p : nat * Z => cnt (fst p) (snd p)) (combine cs (map tsize ts))))) in *.
      set (Y := prodQ _) in *.
      assert (Hnz : ~ (inject_Z (cnt ci (tsize t)) == 0)%Q).
      { change 0%Q with (inject_Z 0). rewrite inject_Z_injective. lia. }
      transitivity (X * Y)%Q; [field; exact Hnz|exact IH].
  Qed.

  Theorem sample_uniform : forall t c, wf t c -> forall f, (height t < f)%nat ->
    (prob (tree_eqb t) (sample rule_of cnt f c (tsize t)) == 1 / inject_Z (cnt c (tsize t)))%Q.
  Proof.
    induction t as [c0|c0 i t IH|c0 ts IH] using tree_ind'; intros c Hwf f Hf;
      (destruct f as [|f]; [lia|]); pose proof (wf_counted _ c Hwf) as Hpos; simpl in Hwf.
    - (* atom *)
      destruct Hwf as [-> Hk]. simpl tsize in *. rewrite (sample_atom f c _ Hk). rewrite Z.eqb_refl.
      simpl. rewrite Nat.eqb_refl. rewrite (cnt_atom c Hk). reflexivity.
    - (* union *)
      destruct Hwf as (-> & Hk & ci & Hn & Hw). simpl tsize in *. simpl in Hf.
      set (n := tsize t) in *.
      rewrite (sample_union f c n Hk).
      pose proof (wf_counted _ ci Hw) as Hci. fold n in Hci.
      specialize (IH ci Hw f ltac:(lia)). fold n in IH.
      set (bs := kids c) in *.
      pose proof (union_weights_ok n bs) as Hok.
      pose proof (union_total c n Hk) as Htot. fold bs in Htot.
      assert (HS : presum (spec_union_weight cnt n) bs (S i) = presum (spec_union_weight cnt n) bs i + cnt ci n).
      { rewrite (presum_S _ bs i ci Hn). reflexivity. }
      rewrite (prob_draw_interval _ _ (cnt c n) (presum (spec_union_weight cnt n) bs i)
                 (presum (spec_union_weight cnt n) bs (S i))
                 (prob (tree_eqb t) (sample rule_of cnt f ci n))).
      + rewrite HS, IH.
        replace (presum (spec_union_weight cnt n) bs i + cnt ci n - presum (spec_union_weight cnt n) bs i)
          with (cnt ci n) by lia.
        assert (~ (inject_Z (cnt ci n) == 0)%Q) by (change 0%Q with (inject_Z 0); rewrite inject_Z_injective; lia).
        assert (~ (inject_Z (cnt c n) == 0)%Q) by (change 0%Q with (inject_Z 0); rewrite inject_Z_injective; lia).
        field. split; assumption.
      + apply presum_nonneg. exact Hok.
      + rewrite HS. lia.
      + rewrite <- Htot. apply presum_le_total. exact Hok.
      + lia.
      + intros r Hr.
        destruct ((presum (spec_union_weight cnt n) bs i <? r) && (r <=? presum (spec_union_weight cnt n) bs (S i))) eqn:E.
        * apply andb_true_iff in E. destruct E as [E1 E2]. apply Z.ltb_lt in E1. apply Z.leb_le in E2.
          assert (W : walk (spec_union_weight cnt n) r 0 0%nat bs = Ok (i, ci)).
          { apply walk_iff; [exact Hok|lia|]. exists i. split; [reflexivity|]. split; [exact Hn|lia]. }
          rewrite W. rewrite (prob_bind _ _ (tree_eqb t) _ 1%Q); [ring|].
          intros a. rewrite prob_choice1. simpl. rewrite !Nat.eqb_refl. simpl. reflexivity.
        * destruct (walk (spec_union_weight cnt n) r 0 0%nat bs) as [[j cj]|e] eqn:W; [|reflexivity].
          assert (Hj : j <> i).
          { intros ->. apply walk_iff in W; [|exact Hok|lia]. destruct W as (j' & Hj' & _ & Hlo & Hhi).
            simpl in Hj'. subst j'. apply andb_false_iff in E.
            destruct E as [E|E]; [apply Z.ltb_ge in E|apply Z.leb_gt in E]; lia. }
          apply prob_bind_zero. intros a. rewrite prob_choice1. simpl.
          replace (Nat.eqb i j) with false by (symmetry; apply Nat.eqb_neq; congruence).
          rewrite andb_false_r. reflexivity.
    - (* product *)
      destruct Hwf as (-> & Hk & Hall). simpl tsize in *. simpl in Hf.
      set (n := py_sum (map tsize ts)) in *.
      rewrite (sample_product f c n Hk).
      set (cs := kids c) in *.
      set (comps := spec_comps rule_of c n).
      pose proof (prod_weights_ok cs comps) as Hok.
      pose proof (product_total c n Hk) as Htot. fold cs comps in Htot.
      assert (Hlen : length cs = length ts) by (symmetry; eapply all2_length; exact Hall).
      (* facts about every component *)
      assert (Hcomp : forall ci t, In (ci, t) (combine cs ts) ->
                 1 <= cnt ci (tsize t) /\
                 (prob (tree_eqb t) (sample rule_of cnt f ci (tsize t)) == 1 / inject_Z (cnt ci (tsize t)))%Q).
      { intros ci t Hin.
        assert (Ht : In t ts) by (eapply in_combine_r; exact Hin).
        assert (Hw : wf t ci).
        { apply (all2_in wf ts cs t ci Hall). clear -Hin. revert ts Hin.
          induction cs as [|a cs IHc]; intros [|b ts] Hin; simpl in *; try tauto.
          destruct Hin as [E|Hin]; [injection E as <- <-; left; reflexivity|right; apply IHc; exact Hin]. }
        split; [apply wf_counted; exact Hw|].
        rewrite Forall_forall in IH. apply (IH t Ht ci Hw).
        pose proof (height_in t ts Ht). lia. }
      (* the composition of t is enumerated, at some position j0 *)
      set (M0 := col1 (map tsize ts)).
      assert (HM0 : In M0 comps).
      { unfold M0, comps. apply (spec_comps_compositions c n _ Hk).
        (* as in wf_counted *)
        destruct (product_min c Hk) as [Hne _]. fold cs in Hne.
        apply compositions_complete.
        - unfold zlen. fold cs. destruct cs; [congruence|simpl; lia].
        - apply Forall_forall. intros m Hm. apply in_map_iff in Hm. destruct Hm as (ci & <- & _). apply min_nonneg.
        - fold cs. split; [unfold zlen; rewrite map_length; f_equal; lia|]. split; [reflexivity|].
          clear -Hcomp Hlen min_contract. revert ts Hcomp Hlen.
          induction cs as [|ci cs IHc]; intros [|t ts] Hcomp Hlen; simpl in *; try lia.
          + split; constructor.
          + destruct (IHc ts (fun ci' t' Hin => Hcomp ci' t' (or_intror Hin)) ltac:(lia)) as [L1 L2].
            destruct (Hcomp ci t (or_introl eq_refl)) as [Hp _].
            destruct (min_contract ci (tsize t) ltac:(lia)) as [M1 M2].
            split; constructor; try assumption.
            unfold cmax. destruct (c_atom (rule_of ci)); simpl; [apply M2; reflexivity|exact I]. }
      destruct (In_nth_error _ _ HM0) as (j0 & Hj0).
      assert (Hwz : wz (spec_prod_weight cnt cs) M0 = prod_counts cs (map tsize ts)).
      { unfold wz, spec_prod_weight. rewrite comp_sizes_eq. unfold M0. rewrite sizes_of_col1. reflexivity. }
      assert (HS : presum (spec_prod_weight cnt cs) comps (S j0)
                   = presum (spec_prod_weight cnt cs) comps j0 + prod_counts cs (map tsize ts)).
      { rewrite <- Hwz. apply presum_S. exact Hj0. }
      assert (Hpc : 1 <= prod_counts cs (map tsize ts)).
      { unfold prod_counts. apply prodz_pos. apply Forall_forall. intros y Hy.
        apply in_map_iff in Hy. destruct Hy as ([ci s] & <- & Hp). simpl.
        clear -Hp Hcomp Hlen. revert ts Hp Hcomp Hlen.
        induction cs as [|a cs IHc]; intros [|b ts] Hp Hcomp Hlen; simpl in *; try tauto.
        destruct Hp as [E|Hp].
        - injection E as <- <-. apply (Hcomp a b). left; reflexivity.
        - apply (IHc ts Hp); [|lia]. intros ci' t' Hin. apply Hcomp. right; exact Hin. }
      set (q := prodQ (map (fun p : (nat * Z) * tree =>
                              prob (tree_eqb (snd p)) (sample rule_of cnt f (fst (fst p)) (snd (fst p))))
                           (combine (combine cs (map tsize ts)) ts))).
      rewrite (prob_draw_interval _ _ (cnt c n) (presum (spec_prod_weight cnt cs) comps j0)
                 (presum (spec_prod_weight cnt cs) comps (S j0)) q).
      + rewrite HS.
        replace (presum (spec_prod_weight cnt cs) comps j0 + prod_counts cs (map tsize ts)
                 - presum (spec_prod_weight cnt cs) comps j0) with (prod_counts cs (map tsize ts)) by lia.
        pose proof (prodQ_inv_counts cs ts f Hlen Hcomp) as Hone. fold q in Hone.
        assert (~ (inject_Z (cnt c n) == 0)%Q) by (change 0%Q with (inject_Z 0); rewrite inject_Z_injective; lia).
        transitivity ((inject_Z (prod_counts cs (map tsize ts)) * q) / inject_Z (cnt c n))%Q; [field; assumption|].
        rewrite Hone. reflexivity.
      + apply presum_nonneg. exact Hok.
      + rewrite HS. lia.
      + rewrite <- Htot. apply presum_le_total. exact Hok.
      + lia.
      + intros r Hr.
        destruct ((presum (spec_prod_weight cnt cs) comps j0 <? r)
                  && (r <=? presum (spec_prod_weight cnt cs) comps (S j0))) eqn:E.
        * apply andb_true_iff in E. destruct E as [E1 E2]. apply Z.ltb_lt in E1. apply Z.leb_le in E2.
          assert (W : walk (spec_prod_weight cnt cs) r 0 0%nat comps = Ok (j0, M0)).
          { apply walk_iff; [exact Hok|lia|]. exists j0. split; [reflexivity|]. split; [exact Hj0|lia]. }
          rewrite W. rewrite (prob_bind _ _ (fun ys => all2b tree_eqb ts ys) _ 1%Q).
          -- rewrite comp_sizes_eq. unfold M0. rewrite sizes_of_col1.
             rewrite prob_mapM; [unfold q; ring|]. rewrite combine_length, map_length. lia.
          -- intros ys. rewrite prob_choice1. simpl. rewrite Nat.eqb_refl. simpl. reflexivity.
        * destruct (walk (spec_prod_weight cnt cs) r 0 0%nat comps) as [[j M]|e] eqn:W; [|reflexivity].
          assert (Hj : j <> j0).
          { intros ->. apply walk_iff in W; [|exact Hok|lia]. destruct W as (j' & Hj' & _ & Hlo & Hhi).
            simpl in Hj'. subst j'. apply andb_false_iff in E.
            destruct E as [E|E]; [apply Z.ltb_ge in E|apply Z.leb_gt in E]; lia. }
          assert (HjM : nth_error comps j = Some M).
          { apply walk_iff in W; [|exact Hok|lia]. destruct W as (j' & Hj' & Hn' & _). simpl in Hj'. subst j'. exact Hn'. }
          assert (HMne : M <> M0).
          { eapply NoDup_nth_error_neq; [unfold comps, spec_comps; apply valid_comps_nodup|exact HjM|exact Hj0|exact Hj]. }
          destruct (spec_comps_in c n M (nth_error_In _ _ HjM)) as (_ & HlM & HsM & _).
          rewrite (prob_bind _ _ (fun ys => all2b tree_eqb ts ys) _ 1%Q).
          -- rewrite comp_sizes_eq. rewrite mapM_mismatch; [ring|symmetry; exact HlM| |].
             ++ intros ci s t Hs. apply sample_support. congruence.
             ++ intros Es. apply HMne. rewrite HsM. unfold M0. rewrite Es. reflexivity.
          -- intros ys. rewrite prob_choice1. simpl. rewrite Nat.eqb_refl. simpl. reflexivity.
  Qed.

  (* the specification-level sampler *)
  Theorem spec_sample_uniform t root f : wf t root -> (height t < f)%nat ->
    (prob (tree_eqb t) (spec_sample rule_of cnt f root (tsize t)) == 1 / inject_Z (cnt root (tsize t)))%Q.
  Proof.
    intros Hwf Hf. unfold spec_sample. pose proof (wf_counted t root Hwf).
    replace (0 <? cnt root (tsize t)) with true by (symmetry; apply Z.ltb_lt; lia).
    apply sample_uniform; assumption.
  Qed.
End Uniform.

(* count 0 => InvalidOperationError before any draw, whatever the draw sequence *)
Lemma spec_sample_reject rule_of cnt f root n draws :
  cnt root n <= 0 ->
  spec_sample rule_of cnt f root n = Fail E_INVALID_OP /\
  run (spec_sample rule_of cnt f root n) draws = (Err E_INVALID_OP, [], draws).
Proof.
  intros H. unfold spec_sample. replace (0 <? cnt root n) with false by (symmetry; apply Z.ltb_ge; lia).
  split; reflexivity.
Qed.
