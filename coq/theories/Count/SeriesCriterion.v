(* C20 — the closed-form criterion DECIDED on a concrete specification.  DEFINITIONS ONLY
   (executable: Count/EquationsRun.v run_crit evaluates them on the descriptor the harness builds
   from the real specification of every get_genf case; the proofs are in
   Count/SeriesCriterionProofs.v).

     uspec_of us          the finite map  class label -> urule  given as an association list
                          (harness: props/c20.py uspec_of — one entry per rule of the specification,
                          product factors with minimum_size_of_object())
     crit_okb us ks root  the decidable hypotheses of C20_closed_form_criterion for uspec_of us and the
                          keys ks the LIBRARY declares (parent, children with rule.shifts()):
        one_ruleb         one rule per class (then In (c, r) us <-> uspec_of us c = Some r)
        keys_okb          every key is the key of its class's rule with the REGENERATED shifts
                          (r_kids (to_srule r): product = Gen/ProductShifts.v, the others 0)
        wf_okb            urule_wf of every rule
        mins_okb          the declared minimum sizes are non-negative and a function of the class
                          (every declaration of a class as a factor gives dmin_of us)
        pumpsb ks root    the root pumps w.r.t. the DECLARED shifts — the proved table-method
                          decision procedure of Forest/ (Spec/GroupingPumps.v)
     genuine_ub W M c r   genuine_u W c r at the sizes 0..M (the premise of true_counts_solution,
                          evaluated on brute-force tables: an oracle fact)
     recur_okb W M c r    the recurrence of to_srule r (what get_terms computes: a product reads
                          factor i only at sizes min_i .. n - the other minima) reproduces W c at 0..M
     sel_okb us cl check  every factor of a product is among the classes cl get_genf compares and its declared
                          minimum lies within the check + 1 compared terms (the decidable premise of
                          genf_selected_closed_form)
     low_okb W M us       W vanishes below the declared minimum sizes (sizes <= M)              *)
From Coq Require Import ZArith List Bool.
From CSS Require Import Forest.Spec Spec.Eval Spec.GroupingPumps.
From CSS Require Import Count.Series Count.SeriesConv Count.SeriesUnique.
Import ListNotations.
Open Scope Z_scope.

Fixpoint uspec_of (us : list (nat * urule)) (c : nat) : option urule :=
  match us with
  | [] => None
  | (c', r) :: t => if Nat.eqb c c' then Some r else uspec_of t c
  end.

Fixpoint memn (c : nat) (l : list nat) : bool :=
  match l with [] => false | x :: t => Nat.eqb c x || memn c t end.

Fixpoint nodupb (l : list nat) : bool :=
  match l with [] => true | x :: t => negb (memn x t) && nodupb t end.

Fixpoint kids_eqb (a b : list (nat * Z)) : bool :=
  match a, b with
  | [], [] => true
  | (c, s) :: a', (c', s') :: b' => Nat.eqb c c' && (s =? s') && kids_eqb a' b'
  | _, _ => false
  end.

Definition urule_wfb (c : nat) (r : urule) : bool :=
  match r with
  | UProduct kids => forallb (fun k => 0 <=? snd k) kids
  | UComplement p cs idx => Nat.ltb idx (length cs) && Nat.eqb (nth idx cs O) c
  | UAtom m => 0 <=? m
  | _ => true
  end.

Definition key_okb (us : list (nat * urule)) (k : fkey) : bool :=
  match uspec_of us (parent k) with
  | Some r => kids_eqb (kids k) (r_kids Z (to_srule r))
  | None => false
  end.

(* every declaration (class, minimum size) as a factor of a product *)
Definition decls (us : list (nat * urule)) : list (nat * Z) :=
  flat_map (fun cr => match snd cr with UProduct kids => kids | _ => [] end) us.

Fixpoint lookupZ (l : list (nat * Z)) (c : nat) : option Z :=
  match l with
  | [] => None
  | (c', m) :: t => if Nat.eqb c c' then Some m else lookupZ t c
  end.

(* the declared minimum size of a class: its first declaration; 0 for a class that is no factor *)
Definition dmin_of (us : list (nat * urule)) (c : nat) : Z :=
  match lookupZ (decls us) c with Some m => m | None => 0 end.

Definition one_ruleb (us : list (nat * urule)) : bool := nodupb (map fst us).
Definition keys_okb (us : list (nat * urule)) (ks : list fkey) : bool := forallb (key_okb us) ks.
Definition wf_okb (us : list (nat * urule)) : bool := forallb (fun cr => urule_wfb (fst cr) (snd cr)) us.
Definition mins_okb (us : list (nat * urule)) : bool :=
  forallb (fun k => (0 <=? snd k) && (snd k =? dmin_of us (fst k))) (decls us).

Definition crit_parts (us : list (nat * urule)) (ks : list fkey) (root : nat) : list bool :=
  [one_ruleb us; keys_okb us ks; wf_okb us; mins_okb us; pumpsb ks root].

Definition crit_okb (us : list (nat * urule)) (ks : list fkey) (root : nat) : bool :=
  forallb (fun b => b) (crit_parts us ks root).

Definition sel_okb (us : list (nat * urule)) (classes : list nat) (check : Z) : bool :=
  forallb (fun k => memn (fst k) classes && (snd k <=? check + 1)) (decls us).

(* ------------------------------------------------------------ oracle facts on count tables *)
(* SeriesConv.conv, skipping the factors' zero coefficients (a product with many atom factors -- planted trees --
   is otherwise exponential): convz = conv, SeriesCriterionProofs.v convz_conv *)
Fixpoint convz (fs : list (Z -> Z)) (rs : list (Z * Z)) (n : Z) : Z :=
  match fs, rs with
  | [], _ => if n =? 0 then 1 else 0
  | f :: fs', (lo, hi) :: rs' => zsum lo hi (fun m => if f m =? 0 then 0 else f m * convz fs' rs' (n - m))
  | _ :: _, [] => 0
  end.

Definition genuine_at (W : nat -> Z -> Z) (c : nat) (r : urule) (n : Z) : bool :=
  match r with
  | UUnion kids => W c n =? psum (fun k => W k n) kids
  | UProduct kids =>
      W c n =? convz (map W (map fst kids)) (map (fun _ => (0, n + 1)) (map fst kids)) n
  | UComplement p cs idx => W p n =? psum (fun k => W k n) cs
  | UAtom m => W c n =? (if n =? m then 1 else 0)
  | UEmpty => W c n =? 0
  end.

Definition genuine_ub (W : nat -> Z -> Z) (M : Z) (c : nat) (r : urule) : bool :=
  forallb (genuine_at W c r) (zrange 0 (M + 1)).

Definition recur_okb (W : nat -> Z -> Z) (M : Z) (c : nat) (r : urule) : bool :=
  let s := to_srule r in
  forallb (fun n => r_op Z s (fun i m => W (kid Z s i) m) (W c) n =? W c n) (zrange 0 (M + 1)).

Definition low_okb (W : nat -> Z -> Z) (M : Z) (us : list (nat * urule)) : bool :=
  forallb (fun k => forallb (fun m => W (fst k) m =? 0) (zrange 0 (Z.min (snd k) (M + 1)))) (decls us).
