(* C08 — the threshold lemma: walking a list of non-negative weights with a
   threshold r picks branch j exactly for the r in (w_0+..+w_{j-1}, w_0+..+w_j],
   hence for exactly w_j values of r in [1, total]; every r in [1, total] returns. *)
From Coq Require Import ZArith List Bool Lia.
From CSS Require Import Gen.Prelude Count.SampleModel.
Import ListNotations.
Open Scope Z_scope.

(* ------------------------------------------------------------------ ranges *)
Lemma in_py_range' a b i : In i (py_range a b) <-> a <= i < b.
Proof.
  unfold py_range. rewrite in_map_iff. split.
  - intros (j & <- & Hj). apply in_seq in Hj. lia.
  - intros H. exists (Z.to_nat (i - a)). split; [lia|]. apply in_seq. lia.
Qed.

Lemma py_range_empty a b : b <= a -> py_range a b = [].
Proof. intros H. unfold py_range. replace (Z.to_nat (b - a)) with 0%nat by lia. reflexivity. Qed.

Lemma py_range_app a b c : a <= b -> b <= c -> py_range a c = py_range a b ++ py_range b c.
Proof.
  intros Hab Hbc. unfold py_range.
  replace (Z.to_nat (c - a)) with (Z.to_nat (b - a) + Z.to_nat (c - b))%nat by lia.
  rewrite seq_app, map_app. f_equal.
  generalize (Z.to_nat (c - b)) as n. generalize 0%nat as s.
  intros s n; revert s. induction n as [|n IH]; intros s; simpl; [reflexivity|].
  f_equal; [lia|]. apply (IH (S s)).
Qed.

Lemma py_range_length a b : Z.of_nat (length (py_range a b)) = Z.max 0 (b - a).
Proof. unfold py_range. rewrite map_length, seq_length. lia. Qed.

Lemma filter_all {A} (f : A -> bool) l : (forall x, In x l -> f x = true) -> filter f l = l.
Proof.
  induction l as [|x l IH]; intros H; simpl; [reflexivity|].
  rewrite (H x (or_introl eq_refl)). f_equal. apply IH. intros y Hy. apply H. right; exact Hy.
Qed.

Lemma filter_none {A} (f : A -> bool) l : (forall x, In x l -> f x = false) -> filter f l = [].
Proof.
  induction l as [|x l IH]; intros H; simpl; [reflexivity|].
  rewrite (H x (or_introl eq_refl)). apply IH. intros y Hy. apply H. right; exact Hy.
Qed.

Lemma filter_ext_in' {A} (f g : A -> bool) l : (forall x, In x l -> f x = g x) -> filter f l = filter g l.
Proof.
  induction l as [|x l IH]; intros H; simpl; [reflexivity|].
  rewrite (H x (or_introl eq_refl)). rewrite IH; [reflexivity|]. intros y Hy. apply H. right; exact Hy.
Qed.

(* the number of r in [lo, hi) lying in (a, b] *)
Lemma count_interval lo hi a b :
  lo - 1 <= a -> a <= b -> b < hi ->
  Z.of_nat (length (filter (fun r => (a <? r) && (r <=? b)) (py_range lo hi))) = b - a.
Proof.
  intros H1 H2 H3.
  rewrite (py_range_app lo (a + 1) hi) by lia.
  rewrite (py_range_app (a + 1) (b + 1) hi) by lia.
  rewrite !filter_app, !app_length.
  rewrite (filter_none _ (py_range lo (a + 1))).
  2:{ intros x Hx. apply in_py_range' in Hx. destruct (a <? x) eqn:E; [lia|reflexivity]. }
  rewrite (filter_all _ (py_range (a + 1) (b + 1))).
  2:{ intros x Hx. apply in_py_range' in Hx. apply andb_true_iff. split; [apply Z.ltb_lt|apply Z.leb_le]; lia. }
  rewrite (filter_none _ (py_range (b + 1) hi)).
  2:{ intros x Hx. apply in_py_range' in Hx. apply andb_false_iff. right. apply Z.leb_gt. lia. }
  simpl. rewrite Nat.add_0_r. rewrite py_range_length. lia.
Qed.

(* ------------------------------------------------------------------ weights *)
Section Walk.
  Context {B : Type}.
  Variable weight : B -> res (option Z).

  (* the weight a branch contributes: a skipped branch contributes nothing *)
  Definition wz (b : B) : Z := match weight b with Ok (Some w) => w | _ => 0 end.

  (* no weight computation raises, no weight is negative *)
  Definition weights_ok (bs : list B) : Prop :=
    forall b, In b bs -> exists ow, weight b = Ok ow /\ forall w, ow = Some w -> 0 <= w.

  Definition total_weight (bs : list B) : Z := py_sum (map wz bs).
  Definition presum (bs : list B) (j : nat) : Z := total_weight (firstn j bs).

  Lemma weights_ok_cons b bs : weights_ok (b :: bs) -> weights_ok bs.
  Proof. intros H x Hx. apply H. right; exact Hx. Qed.

  Lemma wz_nonneg b bs : weights_ok bs -> In b bs -> 0 <= wz b.
  Proof.
    intros H Hb. destruct (H b Hb) as (ow & E & Hw). unfold wz. rewrite E.
    destruct ow as [w|]; [apply Hw; reflexivity|lia].
  Qed.

  Lemma total_weight_nonneg bs : weights_ok bs -> 0 <= total_weight bs.
  Proof.
    induction bs as [|b bs IH]; intros H; unfold total_weight; simpl; [lia|].
    pose proof (wz_nonneg b (b :: bs) H (or_introl eq_refl)).
    pose proof (IH (weights_ok_cons _ _ H)). unfold total_weight in *. lia.
  Qed.

  Lemma weights_ok_firstn j bs : weights_ok bs -> weights_ok (firstn j bs).
  Proof.
    revert j; induction bs as [|b bs IH]; intros [|j] H; simpl.
    - intros x Hx; destruct Hx.
    - intros x Hx; destruct Hx.
    - intros x Hx; destruct Hx.
    - intros x [<-|Hx]; [apply H; left; reflexivity|].
      apply (IH j (weights_ok_cons _ _ H)); exact Hx.
  Qed.

  Lemma presum_nonneg bs j : weights_ok bs -> 0 <= presum bs j.
  Proof. intros H. apply total_weight_nonneg, weights_ok_firstn, H. Qed.

  Lemma presum_cons b bs j : presum (b :: bs) (S j) = wz b + presum bs j.
  Proof. reflexivity. Qed.

  Lemma presum_S : forall bs j b, nth_error bs j = Some b -> presum bs (S j) = presum bs j + wz b.
  Proof.
    induction bs as [|b0 bs IH]; intros [|j] b Hn; try discriminate.
    - simpl in Hn. injection Hn as ->. unfold presum, total_weight. simpl. lia.
    - rewrite !presum_cons. rewrite (IH j b Hn). lia.
  Qed.

  Lemma presum_all bs : presum bs (length bs) = total_weight bs.
  Proof. unfold presum. rewrite firstn_all. reflexivity. Qed.

  Lemma presum_le_total bs j : weights_ok bs -> presum bs j <= total_weight bs.
  Proof.
    revert j; induction bs as [|b bs IH]; intros [|j] H; unfold presum, total_weight; simpl; try lia.
    - pose proof (total_weight_nonneg _ H). unfold total_weight in *. simpl in *. lia.
    - pose proof (IH j (weights_ok_cons _ _ H)). unfold presum, total_weight in *. lia.
  Qed.

  (* ---------------------------------------------------------------- the walk *)
  (* exact characterisation: for a threshold above the running total, branch j
     is returned iff r lies in the j-th interval of cumulative weights *)
  Lemma walk_iff : forall bs r t0 i0 i b,
    weights_ok bs -> t0 < r ->
    (walk weight r t0 i0 bs = Ok (i, b) <->
     exists j, i = (i0 + j)%nat /\ nth_error bs j = Some b /\
               t0 + presum bs j < r <= t0 + presum bs (S j)).
  Proof.
    induction bs as [|b0 bs IH]; intros r t0 i0 i b Hok Hr.
    - simpl. split; [discriminate|]. intros (j & _ & Hn & _). destruct j; discriminate.
    - pose proof (weights_ok_cons _ _ Hok) as Hok'.
      destruct (Hok b0 (or_introl eq_refl)) as (ow & Ew & Hw).
      simpl. rewrite Ew.
      assert (Hwz : wz b0 = match ow with Some w => w | None => 0 end) by (unfold wz; rewrite Ew; reflexivity).
      destruct ow as [w|].
      + specialize (Hw w eq_refl).
        destruct (r <=? t0 + w) eqn:E.
        * apply Z.leb_le in E. split.
          -- intros H. injection H as <- <-. exists 0%nat. split; [lia|]. split; [reflexivity|].
             rewrite presum_cons. unfold presum at 1 2. simpl. unfold total_weight; simpl. lia.
          -- intros (j & -> & Hn & Hlo & Hhi). destruct j as [|j].
             ++ simpl in Hn. injection Hn as <-. f_equal. f_equal. lia.
             ++ exfalso. rewrite presum_cons in Hlo. pose proof (presum_nonneg bs j Hok'). lia.
        * apply Z.leb_gt in E. rewrite (IH r (t0 + w) (S i0) i b Hok' E). split.
          -- intros (j & -> & Hn & Hlo & Hhi). exists (S j). split; [lia|]. split; [exact Hn|].
             rewrite !presum_cons. lia.
          -- intros (j & -> & Hn & Hlo & Hhi). destruct j as [|j].
             ++ exfalso. rewrite presum_cons in Hhi. unfold presum in Hhi; simpl in Hhi.
                unfold total_weight in Hhi; simpl in Hhi. lia.
             ++ exists j. split; [lia|]. split; [exact Hn|]. rewrite !presum_cons in *. lia.
      + rewrite (IH r t0 (S i0) i b Hok' Hr). split.
        * intros (j & -> & Hn & Hlo & Hhi). exists (S j). split; [lia|]. split; [exact Hn|].
          rewrite !presum_cons. lia.
        * intros (j & -> & Hn & Hlo & Hhi). destruct j as [|j].
          -- exfalso. rewrite presum_cons in Hhi. unfold presum in *; simpl in *.
             unfold total_weight in *; simpl in *. lia.
          -- exists j. split; [lia|]. split; [exact Hn|]. rewrite !presum_cons in *. lia.
  Qed.

  (* every threshold in (t0, t0 + total] returns some branch: no RuntimeError *)
  Lemma walk_returns : forall bs r t0 i0,
    weights_ok bs -> t0 < r <= t0 + total_weight bs ->
    exists j b, walk weight r t0 i0 bs = Ok ((i0 + j)%nat, b) /\ nth_error bs j = Some b.
  Proof.
    induction bs as [|b0 bs IH]; intros r t0 i0 Hok Hr.
    - unfold total_weight in Hr; simpl in Hr. lia.
    - pose proof (weights_ok_cons _ _ Hok) as Hok'.
      destruct (Hok b0 (or_introl eq_refl)) as (ow & Ew & Hw).
      assert (Hwz : wz b0 = match ow with Some w => w | None => 0 end) by (unfold wz; rewrite Ew; reflexivity).
      assert (Ht : total_weight (b0 :: bs) = wz b0 + total_weight bs) by reflexivity.
      simpl. rewrite Ew. destruct ow as [w|].
      + destruct (r <=? t0 + w) eqn:E.
        * exists 0%nat, b0. split; [f_equal; f_equal; lia|reflexivity].
        * apply Z.leb_gt in E. destruct (IH r (t0 + w) (S i0) Hok') as (j & b & Hj & Hn); [lia|].
          exists (S j), b. split; [|exact Hn]. rewrite Hj. f_equal. f_equal. lia.
      + destruct (IH r t0 (S i0) Hok') as (j & b & Hj & Hn); [lia|].
        exists (S j), b. split; [|exact Hn]. rewrite Hj. f_equal. f_equal. lia.
  Qed.

  (* beyond the total the loop falls through: RuntimeError("Function did not return") *)
  Lemma walk_over : forall bs r t0 i0,
    weights_ok bs -> t0 + total_weight bs < r -> walk weight r t0 i0 bs = Err E_RUNTIME.
  Proof.
    induction bs as [|b0 bs IH]; intros r t0 i0 Hok Hr; [reflexivity|].
    pose proof (weights_ok_cons _ _ Hok) as Hok'.
    destruct (Hok b0 (or_introl eq_refl)) as (ow & Ew & Hw).
    assert (Hwz : wz b0 = match ow with Some w => w | None => 0 end) by (unfold wz; rewrite Ew; reflexivity).
    assert (Ht : total_weight (b0 :: bs) = wz b0 + total_weight bs) by reflexivity.
    pose proof (total_weight_nonneg _ Hok').
    simpl. rewrite Ew. destruct ow as [w|].
    - specialize (Hw w eq_refl). destruct (r <=? t0 + w) eqn:E; [apply Z.leb_le in E; lia|].
      apply IH; [exact Hok'|lia].
    - apply IH; [exact Hok'|lia].
  Qed.

  (* a returned branch was not skipped and its weight did not raise *)
  Lemma walk_weighted : forall bs r t0 i0 i b,
    walk weight r t0 i0 bs = Ok (i, b) -> exists w, weight b = Ok (Some w).
  Proof.
    induction bs as [|b0 bs IH]; intros r t0 i0 i b; simpl; [discriminate|].
    destruct (weight b0) as [[w|]|e] eqn:Ew; try discriminate.
    - destruct (r <=? t0 + w).
      + intros H. injection H as <- <-. exists w. exact Ew.
      + apply IH.
    - apply IH.
  Qed.

  Definition picks (j : nat) (x : res (nat * B)) : bool :=
    match x with Ok (i, _) => Nat.eqb i j | Err _ => false end.

  (* THE THRESHOLD LEMMA, counting form: branch j is chosen by exactly wz(j) of
     the values r = 1 .. total *)
  Lemma walk_count bs j b :
    weights_ok bs -> nth_error bs j = Some b ->
    Z.of_nat (length (filter (fun r => picks j (walk weight r 0 0%nat bs))
                             (py_range 1 (total_weight bs + 1)))) = wz b.
  Proof.
    intros Hok Hn.
    assert (Hlt : (j < length bs)%nat) by (apply nth_error_Some; congruence).
    pose proof (presum_S bs j b Hn) as HS.
    pose proof (presum_nonneg bs j Hok) as H0.
    pose proof (presum_le_total bs (S j) Hok) as H1.
    pose proof (wz_nonneg b bs Hok (nth_error_In _ _ Hn)) as H2.
    rewrite (filter_ext_in' _ (fun r => (presum bs j <? r) && (r <=? presum bs (S j)))).
    - rewrite count_interval; lia.
    - intros r Hr. apply in_py_range' in Hr.
      destruct ((presum bs j <? r) && (r <=? presum bs (S j))) eqn:E.
      + apply andb_true_iff in E. destruct E as [E1 E2]. apply Z.ltb_lt in E1. apply Z.leb_le in E2.
        assert (W : walk weight r 0 0%nat bs = Ok (j, b)).
        { apply walk_iff; [exact Hok|lia|]. exists j. split; [reflexivity|]. split; [exact Hn|lia]. }
        rewrite W. simpl. apply Nat.eqb_refl.
      + destruct (walk weight r 0 0%nat bs) as [[i b']|e] eqn:W; [|reflexivity].
        simpl. destruct (Nat.eqb i j) eqn:Ei; [|reflexivity]. apply Nat.eqb_eq in Ei. subst i.
        apply walk_iff in W; [|exact Hok|lia]. destruct W as (j' & Hj' & Hn' & Hlo & Hhi).
        simpl in Hj'. subst j'. exfalso.
        apply andb_false_iff in E. destruct E as [E|E]; [apply Z.ltb_ge in E|apply Z.leb_gt in E]; lia.
  Qed.
End Walk.
