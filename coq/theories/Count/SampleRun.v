(* sx interface of the C08 model.

   dict   = ((k v) ...)                       child = (params ((n tuple count) ...))
   result = (0 payload) | (1 error-code)      trace = ((lo hi value) ...)

   (0 items)                      constructor-level cases; one answer per item:
       item (0 n params parent_count rs pvars eps fixed kids)         DisjointUnion
       item (1 n params parent_count rs pvars pmins kids)             CartesianProduct,
            kid = (child min is_atom minval ep), pmins = minimum_sizes as a vector ("n" first)
       answer: for every r in rs   (result trace)  of running the sampler on the one-draw sequence [r];
               union payload (idx tuple), product payload ((size tuple) ...)
   (2 spec N)                     every union/product rule of a parameter-free specification, every
                                  size m <= N, every r in 0 .. count+1:  result, payload ((position size) ...)
       spec = (classes counts), class = (kind min is_atom kids), counts = per label the counts of sizes 0..
   (3 spec root n fuel draw-lists)  the specification-level sampler on explicit draw sequences:
                                  (result trace number-of-unused-draws), payload = parse tree
   (4 spec root n fuel)           all draw sequences in the requested ranges: ((trace result) ...)
   (5 pspec root n params fuel draw-lists)  the specification-level sampler WITH extra parameters
                                  (Count/SampleModelParams.v) on explicit draw sequences, as (3 ..);
       pspec = (classes tables), class = (kind min is_atom kids params minval eps fixed)
               (params: the class's extra_parameters; minval: dict variable -> get_minimum_value;
                eps / fixed: one dict per child: constructor.extra_parameters / fixed_values),
       tables = per label, per size 0.. the Counter get_terms(size) as ((tuple count) ...);
       params = the **parameters dictionary of the call
   (6 pspec root n params fuel)   all draw sequences in the requested ranges: ((trace result) ...)
   (7 first steps last)           EquivalencePathRule.constructor: first = extra_parameters of the first class,
                                  steps = the dictionaries of the chain (Complement steps already inverted),
                                  last = extra_parameters of the last class; answer (dictionary fixed_values)
   (9 (command ...))              several commands, answers in order
   In (2 ..) a rule whose count at size m is < 1 answers ValueError for every r: randint(1, 0) raises.
   tree = (0 c) | (1 c i t) | (2 c (t ...))                                                     *)
From Coq Require Import ZArith List Bool.
From CSS Require Import Base.Sx Gen.Prelude Count.SampleModel Count.SampleModelParams.
Import ListNotations.
Open Scope Z_scope.

Definition dec_dict (s : sx) : dict :=
  map (fun e => (sx_Z (sx_nth e 0), sx_Z (sx_nth e 1))) (sx_list s).
Definition dec_child (s : sx) : child :=
  {| ch_params := sx_Zs (sx_nth s 0);
     ch_table := map (fun e => (sx_Z (sx_nth e 0), sx_Zs (sx_nth e 1), sx_Z (sx_nth e 2)))
                     (sx_list (sx_nth s 1)) |}.
Definition dec_pchild (s : sx) : pchild :=
  {| pc_child := dec_child (sx_nth s 0);
     pc_min := sx_Z (sx_nth s 1);
     pc_atom := sx_bool (sx_nth s 2);
     pc_minval := dec_dict (sx_nth s 3);
     pc_ep := dec_dict (sx_nth s 4) |}.

Definition enc_res {A} (enc : A -> sx) (x : res A) : sx :=
  match x with Ok a => L [I 0; enc a] | Err e => L [I 1; I e] end.
Definition enc_trace (t : trace) : sx :=
  L (map (fun e : Z * Z * Z => L [I (fst (fst e)); I (snd (fst e)); I (snd e)]) t).
Definition enc_utoken (t : utoken) : sx := L [I (fst t); of_Zs (snd t)].
Definition enc_ptoken (t : ptoken) : sx := L (map (fun e : Z * list Z => L [I (fst e); of_Zs (snd e)]) t).
Fixpoint enc_tree (t : tree) : sx :=
  match t with
  | Leaf c => L [I 0; of_nat c]
  | UNode c i t' => L [I 1; of_nat c; of_nat i; enc_tree t']
  | PNode c ts => L [I 2; of_nat c; L (map enc_tree ts)]
  end.

Definition run_one {A} (enc : A -> sx) (m : rc A) (r : Z) : sx :=
  let '(x, tr, _) := run m [r] in L [enc_res enc x; enc_trace tr].

Definition run_item (s : sx) : sx :=
  let n := sx_Z (sx_nth s 1) in
  let params := dec_dict (sx_nth s 2) in
  let pc := sx_Z (sx_nth s 3) in
  let rs := sx_Zs (sx_nth s 4) in
  let pvars := sx_Zs (sx_nth s 5) in
  match sx_Z (sx_nth s 0) with
  | 0 =>
      let eps := map dec_dict (sx_list (sx_nth s 6)) in
      let fixed := map dec_dict (sx_list (sx_nth s 7)) in
      let kids := map dec_child (sx_list (sx_nth s 8)) in
      L (map (run_one enc_utoken (union_rc pvars kids eps fixed pc n params)) rs)
  | _ =>
      let pmins := sx_Zs (sx_nth s 6) in
      let kids := map dec_pchild (sx_list (sx_nth s 7)) in
      L (map (run_one enc_ptoken (prod_rc pvars pmins kids pc n params)) rs)
  end.

(* specifications *)
Definition dec_cls (s : sx) : cls :=
  {| c_kind := sx_Z (sx_nth s 0); c_min := sx_Z (sx_nth s 1); c_atom := sx_bool (sx_nth s 2);
     c_kids := sx_nats (sx_nth s 3) |}.
Definition no_cls : cls := {| c_kind := K_EMPTY; c_min := 0; c_atom := false; c_kids := [] |}.
Definition spec_rule (s : sx) : nat -> cls :=
  let l := map dec_cls (sx_list (sx_nth s 0)) in fun c => nth c l no_cls.
Definition spec_cnt (s : sx) : nat -> Z -> Z :=
  let l := map sx_Zs (sx_list (sx_nth s 1)) in
  fun c m => if m <? 0 then 0 else nth (Z.to_nat m) (nth c l []) 0.
Definition spec_size (s : sx) : nat := length (sx_list (sx_nth s 0)).

Definition enc_step (x : res (list (nat * Z))) : sx :=
  enc_res (fun l => L (map (fun e : nat * Z => L [of_nat (fst e); I (snd e)]) l)) x.

Definition run_steps (spec : sx) (N : Z) : sx :=
  let ro := spec_rule spec in
  let cn := spec_cnt spec in
  L (flat_map
       (fun c =>
          let k := c_kind (ro c) in
          if (k =? K_UNION) || (k =? K_PRODUCT) then
            map (fun m => L [of_nat c; I m;
                             L (map (fun r => enc_step (if cn c m <? 1 then Err E_VALUE else rule_step ro cn c m r))
                                    (py_range 0 (cn c m + 2)))])
                (py_range 0 (N + 1))
          else [])
       (seq 0 (spec_size spec))).

(* specifications with extra parameters *)
Definition dec_pcls (s : sx) : pcls :=
  {| pk_kind := sx_Z (sx_nth s 0); pk_min := sx_Z (sx_nth s 1); pk_atom := sx_bool (sx_nth s 2);
     pk_kids := sx_nats (sx_nth s 3); pk_params := sx_Zs (sx_nth s 4); pk_minval := dec_dict (sx_nth s 5);
     pk_eps := map dec_dict (sx_list (sx_nth s 6)); pk_fixed := map dec_dict (sx_list (sx_nth s 7)) |}.
Definition no_pcls : pcls :=
  {| pk_kind := K_EMPTY; pk_min := 0; pk_atom := false; pk_kids := []; pk_params := []; pk_minval := [];
     pk_eps := []; pk_fixed := [] |}.
Definition pspec_rule (s : sx) : nat -> pcls :=
  let l := map dec_pcls (sx_list (sx_nth s 0)) in fun c => nth c l no_pcls.
Definition pspec_tab (s : sx) : nat -> Z -> list (list Z * Z) :=
  let l := map (fun per_class => map (fun per_size => map (fun e => (sx_Zs (sx_nth e 0), sx_Z (sx_nth e 1)))
                                                        (sx_list per_size))
                                     (sx_list per_class))
               (sx_list (sx_nth s 1)) in
  fun c m => if m <? 0 then [] else nth (Z.to_nat m) (nth c l []) [].

Definition enc_dict (d : dict) : sx := L (map (fun kv : Z * Z => L [I (fst kv); I (snd kv)]) d).

Definition run_single (inp : sx) : sx :=
  match sx_Z (sx_nth inp 0) with
  | 0 => L (map run_item (sx_list (sx_nth inp 1)))
  | 7 =>
      let d := path_dict (sx_Zs (sx_nth inp 1)) (map dec_dict (sx_list (sx_nth inp 2))) in
      L [enc_dict d; enc_dict (path_fixed (sx_Zs (sx_nth inp 3)) d)]
  | 2 => run_steps (sx_nth inp 1) (sx_Z (sx_nth inp 2))
  | 5 =>
      let spec := sx_nth inp 1 in
      let m := pspec_sample (pspec_rule spec) (pspec_tab spec) (sx_nat (sx_nth inp 5))
                            (sx_nat (sx_nth inp 2)) (sx_Z (sx_nth inp 3)) (dec_dict (sx_nth inp 4)) in
      L (map (fun ds => let '(x, tr, rem) := run m (sx_Zs ds) in
                        L [enc_res enc_tree x; enc_trace tr; I (zlen rem)])
             (sx_list (sx_nth inp 6)))
  | 6 =>
      let spec := sx_nth inp 1 in
      let m := pspec_sample (pspec_rule spec) (pspec_tab spec) (sx_nat (sx_nth inp 5))
                            (sx_nat (sx_nth inp 2)) (sx_Z (sx_nth inp 3)) (dec_dict (sx_nth inp 4)) in
      L (map (fun p : trace * res tree => L [enc_trace (fst p); enc_res enc_tree (snd p)]) (enum m))
  | 3 =>
      let spec := sx_nth inp 1 in
      let m := spec_sample (spec_rule spec) (spec_cnt spec) (sx_nat (sx_nth inp 4))
                           (sx_nat (sx_nth inp 2)) (sx_Z (sx_nth inp 3)) in
      L (map (fun ds => let '(x, tr, rem) := run m (sx_Zs ds) in
                        L [enc_res enc_tree x; enc_trace tr; I (zlen rem)])
             (sx_list (sx_nth inp 5)))
  | _ =>
      let spec := sx_nth inp 1 in
      let m := spec_sample (spec_rule spec) (spec_cnt spec) (sx_nat (sx_nth inp 4))
                           (sx_nat (sx_nth inp 2)) (sx_Z (sx_nth inp 3)) in
      L (map (fun p : trace * res tree => L [enc_trace (fst p); enc_res enc_tree (snd p)]) (enum m))
  end.

(* (9 (command ...)) : several commands, answers in order *)
Definition run_c08 (inp : sx) : sx :=
  match sx_Z (sx_nth inp 0) with
  | 9 => L (map run_single (sx_list (sx_nth inp 1)))
  | _ => run_single inp
  end.
