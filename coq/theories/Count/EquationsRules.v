(* C20 — every rule form: the emitted equation holds for a genuine rule. *)
From Coq Require Import ZArith List Bool Lia.
From CSS Require Import Count.Series Count.Equations Count.EquationsProofs.
Import ListNotations.
Open Scope Z_scope.

(* ------------------------------------------------------------ Counters *)
Definition leqb (a b : list Z) : bool := if list_eq_dec Z.eq_dec a b then true else false.
(* Counter lookup: terms[e] *)
Definition cnt (tb : list (list Z * Z)) (e : list Z) : Z :=
  psum (fun t => if leqb (fst t) e then snd t else 0) tb.

Lemma cnt_app a b e : cnt (a ++ b) e = cnt a e + cnt b e.
Proof. apply psum_app. Qed.

Lemma cnt_flat_map {A} (h : A -> list (list Z * Z)) l e :
  cnt (flat_map h l) e = psum (fun x => cnt (h x) e) l.
Proof. unfold cnt. apply psum_flat_map. Qed.

Lemma sum_by_keys (g : list Z -> Z) (A : list (list Z * Z)) (K : list (list Z)) :
  NoDup K -> (forall t, In t A -> In (fst t) K) ->
  psum (fun t => g (fst t) * snd t) A = psum (fun k => g k * cnt A k) K.
Proof.
  intros ND. induction A as [|t A' IH]; intros Hin; simpl.
  - symmetry. apply psum_zero. intros k _. unfold cnt. simpl. lia.
  - rewrite IH by (intros t' Ht'; apply Hin; right; auto).
    transitivity (psum (fun k => g k * (if leqb (fst t) k then snd t else 0)) K + psum (fun k => g k * cnt A' k) K).
    + f_equal. rewrite (psum_single _ K (fst t)); auto.
      * unfold leqb. destruct (list_eq_dec Z.eq_dec (fst t) (fst t)); [reflexivity|congruence].
      * apply Hin. left; auto.
      * intros k _ Hne. unfold leqb. destruct (list_eq_dec Z.eq_dec (fst t) k); [congruence|lia].
    + rewrite <- psum_add. apply psum_ext. intros k _. unfold cnt. simpl. lia.
Qed.

(* two Counters with the same counts give the same weighted sums *)
Lemma psum_cnt_ext (g : list Z -> Z) (A B : list (list Z * Z)) :
  (forall e, cnt A e = cnt B e) ->
  psum (fun t => g (fst t) * snd t) A = psum (fun t => g (fst t) * snd t) B.
Proof.
  intros H. set (K := nodup (list_eq_dec Z.eq_dec) (map fst A ++ map fst B)).
  assert (NoDup K) as ND by apply NoDup_nodup.
  rewrite (sum_by_keys g A K ND), (sum_by_keys g B K ND).
  - apply psum_ext. intros k _. rewrite H. reflexivity.
  - intros t Ht. apply nodup_In, in_or_app. right. apply in_map. exact Ht.
  - intros t Ht. apply nodup_In, in_or_app. left. apply in_map. exact Ht.
Qed.

(* ------------------------------------------------------------ small list facts *)
Lemma combine_map_fst_snd {A B C D} (f : A -> C) (g : B -> D) (l : list (A * B)) :
  combine (map f (map fst l)) (map g (map snd l)) = map (fun k => (f (fst k), g (snd k))) l.
Proof. induction l as [|[a b] t IH]; simpl; auto. rewrite IH. reflexivity. Qed.

Lemma fold_left_map {A B C} (f : A -> C -> A) (h : B -> C) l a :
  fold_left f (map h l) a = fold_left (fun acc x => f acc (h x)) l a.
Proof. revert a. induction l as [|x t IH]; intros a; simpl; auto. Qed.

Lemma psum_remove_nth {A} (f : A -> Z) (l : list A) (i : nat) (d : A) :
  (i < length l)%nat -> psum f l = f (nth i l d) + psum f (remove_nth i l).
Proof.
  unfold remove_nth. revert i. induction l as [|x t IH]; intros i Hi; simpl in Hi; [lia|].
  destruct i as [|i].
  - reflexivity.
  - change (f x + psum f t = f (nth i t d) + (f x + psum f (firstn i t ++ skipn (S i) t))).
    rewrite (IH i) by lia. lia.
Qed.

Lemma In_skipn_S {A} (x : A) : forall i l, In x (skipn (S i) l) -> In x (skipn i l).
Proof.
  induction i as [|i IH]; intros [|a l] H; simpl in *; auto.
Qed.

Lemma In_remove_nth {A} i (l : list A) x : In x (remove_nth i l) -> In x l.
Proof.
  unfold remove_nth. intros H. apply in_app_or in H. rewrite <- (firstn_skipn i l). apply in_or_app.
  destruct H as [H|H]; [left; auto|right]. apply In_skipn_S. exact H.
Qed.

Section Rules.
Variable pars : Z -> list Z.                       (* parameter names of every class *)
Variable T : Z -> Z -> list (list Z * Z).          (* TRUE terms: class -> size -> Counter *)
Variable O : Z -> poly.
Variable V : list Z.                               (* variables on which coefficients are compared *)

(* the environment of the semantics at truncation order N: the true series *)
Definition SN (N : Z) : Z -> list (list Z * Z) := fun l => tbl N (T l).

Definition class_wf (l : Z) : Prop :=
  NoDup (pars l) /\ ~ In 0 (pars l) /\
  forall n t, In t (T l n) -> length (fst t) = length (pars l).

Lemma tbl_shape N l t : class_wf l -> In t (tbl N (T l)) ->
  exists n c, fst t = n :: c /\ length c = length (pars l).
Proof.
  intros [_ [_ W]] Hin. unfold tbl in Hin. apply in_flat_map in Hin. destruct Hin as [n [_ Hin]].
  apply in_map_iff in Hin. destruct Hin as [t0 [<- Ht0]]. simpl. eauto.
Qed.

(* one child of a rule with its parameter dictionary.
   kid_wf0: every child parameter is the image of a parent parameter OR is 0 on every object of
   the child (then the emitted equation keeps the child's own variable free, which is harmless:
   the child's series does not depend on it).  The second case is the one in which
   EquivalencePathRule.constructor passes fixed_values = {k: 0} and in which a union rule has been
   reversed whose parent tracks a statistic no child parameter accounts for.
   kid_wf: the special case in which every child parameter is mapped to. *)
Definition zero_on (c : Z) (cv : Z) : Prop :=
  forall n t, In t (T c n) -> aget (combine (pars c) (fst t)) cv = 0.

Definition kid_wf0 (ppars : list Z) (k : Z * list (Z * Z)) : Prop :=
  class_wf (fst k) /\ NoDup (map fst (snd k)) /\ incl (map fst (snd k)) ppars /\
  incl (map snd (snd k)) (pars (fst k)) /\
  (forall cv, In cv (pars (fst k)) -> has_par (snd k) cv = true \/ zero_on (fst k) cv).

Definition kid_wf (ppars : list Z) (k : Z * list (Z * Z)) : Prop :=
  class_wf (fst k) /\ NoDup (map fst (snd k)) /\ incl (map fst (snd k)) ppars /\
  incl (map snd (snd k)) (pars (fst k)) /\
  (forall cv, In cv (pars (fst k)) -> has_par (snd k) cv = true).

Lemma kid_wf_wf0 ppars k : kid_wf ppars k -> kid_wf0 ppars k.
Proof. intros [A [B [C [D E]]]]. split; [|split; [|split; [|split]]]; auto. Qed.

Lemma kid_child_wf N ppars k : kid_wf0 ppars k -> child_wf (SN N) ppars pars k.
Proof.
  intros [Wc [H1 [H2 [H3 H4]]]]. constructor; auto.
  - intros cv Hcv. destruct (H4 cv Hcv) as [Hm|Hz]; [left; exact Hm|right].
    intros t n c Ht Et. unfold SN, tbl in Ht. apply in_flat_map in Ht. destruct Ht as [n0 [_ Ht]].
    apply in_map_iff in Ht. destruct Ht as [t0 [<- Ht0]]. simpl in Et. injection Et as _ <-.
    exact (Hz n0 t0 Ht0).
  - apply Wc.
  - apply Wc.
  - intros t Ht. apply (tbl_shape N (fst k) t Wc Ht).
Qed.

(* coefficients of a class's (re-keyed) true series, size by size *)
Lemma pcoef_cser_tbl ps N Tl (h : list Z -> list Z) m :
  pcoef V (cser ps (map (fun t => (hd 0 (fst t) :: h (tl (fst t)), snd t)) (tbl N Tl))) m =
  psum (fun n => psum (fun t => (if meqb V (fm ps (n :: h (fst t))) m then 1 else 0) * snd t) (Tl n))
       (zrange 0 (N + 1)).
Proof.
  unfold pcoef, cser, tbl. rewrite !psum_map, psum_flat_map. apply psum_ext. intros n _.
  rewrite psum_map. apply psum_ext. intros t _. cbn [fst snd hd tl].
  destruct (meqb V (fm ps (n :: h (fst t))) m); lia.
Qed.

Lemma pcoef_cser_tbl_id ps N Tl m :
  pcoef V (cser ps (tbl N Tl)) m =
  psum (fun n => psum (fun t => (if meqb V (fm ps (n :: fst t)) m then 1 else 0) * snd t) (Tl n))
       (zrange 0 (N + 1)).
Proof.
  rewrite <- (pcoef_cser_tbl ps N Tl (fun e => e) m). f_equal. f_equal.
  rewrite <- (map_id (tbl N Tl)) at 1. apply map_ext_in. intros t Ht.
  unfold tbl in Ht. apply in_flat_map in Ht. destruct Ht as [n [_ Ht]].
  apply in_map_iff in Ht. destruct Ht as [t0 [<- _]]. reflexivity.
Qed.

(* ------------------------------------------------------------ union *)
(* DisjointUnion.get_terms on the true tables gives the parent's true table *)
Definition union_genuine (p : Z) (kids : list (Z * list (Z * Z))) : Prop :=
  forall n, 0 <= n -> forall e,
    cnt (T p n) e =
    psum (fun k => cnt (map (fun t => (rk (pars p) (pars (fst k)) (snd k) (fst t), snd t)) (T (fst k) n)) e) kids.

(* the identity between series behind every union-type equation *)
Lemma union_core p kids N m :
  union_genuine p kids ->
  pcoef V (cser (pars p) (tbl N (T p))) m =
  psum (fun k => pcoef V (cser (pars p) (rekey (pars p) (pars (fst k)) (snd k) (tbl N (T (fst k))))) m) kids.
Proof.
  intros G. rewrite pcoef_cser_tbl_id.
  transitivity (psum (fun k => psum (fun n => psum (fun t =>
                  (if meqb V (fm (pars p) (n :: rk (pars p) (pars (fst k)) (snd k) (fst t))) m then 1 else 0) * snd t)
                  (T (fst k) n)) (zrange 0 (N + 1))) kids).
  2:{ apply psum_ext. intros k _. unfold rekey. rewrite pcoef_cser_tbl. reflexivity. }
  rewrite psum_swap. apply psum_ext. intros n Hn. apply in_zrange in Hn.
  pose (g := fun e => if meqb V (fm (pars p) (n :: e)) m then 1 else 0).
  change (psum (fun t => g (fst t) * snd t) (T p n) =
          psum (fun k => psum (fun t => g (rk (pars p) (pars (fst k)) (snd k) (fst t)) * snd t) (T (fst k) n)) kids).
  rewrite (psum_cnt_ext g (T p n)
             (flat_map (fun k => map (fun t => (rk (pars p) (pars (fst k)) (snd k) (fst t), snd t)) (T (fst k) n)) kids)).
  - rewrite psum_flat_map. apply psum_ext. intros k _. rewrite psum_map. reflexivity.
  - intros e. rewrite cnt_flat_map. apply G. lia.
Qed.

Lemma sem_kids (S : Z -> list (list Z * Z)) ppars kids :
  NoDup ppars -> ~ In 0 ppars -> Forall (child_wf S ppars pars) kids ->
  exists Ps, Forall2 (fun k P => sem S O (subs (union_subs (snd k)) (cfun pars (fst k))) = Some P /\
                                 peqv V P (cser ppars (rekey ppars (pars (fst k)) (snd k) (S (fst k))))) kids Ps.
Proof.
  intros ND H0 HF. induction HF as [|k t Hk _ [Ps IH]].
  - exists []. constructor.
  - destruct (sem_child S O ppars pars k V Hk ND H0) as [P [HP HE]].
    exists (P :: Ps). constructor; auto.
Qed.

Lemma sem_fold_add {A} S (g : A -> expr) xs Ps a pa :
  sem S O a = Some pa -> Forall2 (fun x P => sem S O (g x) = Some P) xs Ps ->
  sem S O (fold_left (fun res x => Add res (g x)) xs a) = Some (fold_left padd Ps pa).
Proof.
  intros Ha HF. revert a pa Ha. induction HF as [|x P xs Ps Hx _ IH]; intros a pa Ha; simpl; auto.
  apply IH. simpl. rewrite Ha, Hx. reflexivity.
Qed.

Lemma pcoef_fold_padd Ps pa m :
  pcoef V (fold_left padd Ps pa) m = pcoef V pa m + psum (fun P => pcoef V P m) Ps.
Proof.
  revert pa. induction Ps as [|P t IH]; intros pa; simpl; [lia|].
  rewrite IH, pcoef_padd. lia.
Qed.

Lemma undiv_fold_add {A} (g : A -> expr) xs : forall a l,
  (forall l', undiv l' a = (l', a)) ->
  undiv l (fold_left (fun res x => Add res (g x)) xs a) = (l, fold_left (fun res x => Add res (g x)) xs a).
Proof.
  induction xs as [|x t IH]; intros a l Ha; simpl; auto.
Qed.

Lemma Forall2_weaken {A B} (P Q : A -> B -> Prop) l l' :
  (forall a b, P a b -> Q a b) -> Forall2 P l l' -> Forall2 Q l l'.
Proof. intros H HF. induction HF; constructor; auto. Qed.

Lemma Forall2_flip' {A B} (P : A -> B -> Prop) l l' :
  Forall2 P l l' -> Forall2 (fun b a => P a b) l' l.
Proof. intros H. induction H; constructor; auto. Qed.

Lemma psum_Forall2 {A B} (f : A -> Z) (g : B -> Z) l l' :
  Forall2 (fun a b => f a = g b) l l' -> psum f l = psum g l'.
Proof. intros HF. induction HF as [|a b l l' H _ IH]; simpl; auto. rewrite H, IH. reflexivity. Qed.

(* Rule with a DisjointUnion constructor (also EquivalenceRule and EquivalencePathRule,
   whose constructor is a one-child DisjointUnion) *)
Theorem union_equation_old_holds0 p kids N :
  class_wf p -> Forall (kid_wf0 (pars p)) kids -> union_genuine p kids ->
  match union_equation_old (cfun pars p) (map (cfun pars) (map fst kids)) (map snd kids) with
  | Ok lhs rhs => holds (SN N) O V N lhs rhs
  | _ => False
  end.
Proof.
  intros Wp Wk G. unfold union_equation_old.
  rewrite <- (map_id (map snd kids)), combine_map_fst_snd, fold_left_map. cbn [fst snd].
  destruct Wp as [NDp [H0p Wt]].
  destruct (sem_kids (SN N) (pars p) kids NDp H0p) as [Ps HPs].
  { eapply Forall_impl; [|exact Wk]. intros k Hk. apply kid_child_wf; auto. }
  unfold holds. rewrite undiv_fold_add by reflexivity. cbn [fst snd].
  exists (cser (pars p) (SN N p)), (fold_left padd Ps (pconst 0)). split; [apply sem_cfun|]. split.
  - apply (sem_fold_add (SN N) (fun k => subs (union_subs (snd k)) (cfun pars (fst k))) kids Ps (Const 0) (pconst 0)).
    + reflexivity.
    + eapply Forall2_weaken; [|exact HPs]. intros k P [H _]. exact H.
  - intros m _. rewrite pcoef_fold_padd. unfold SN at 1. rewrite (union_core p kids N m G).
    assert (pcoef V (pconst 0) m = 0) as Z0.
    { unfold pcoef, pconst. simpl. destruct (meqb V mzero m); reflexivity. }
    rewrite Z0. simpl. symmetry. apply psum_Forall2.
    eapply Forall2_weaken; [|apply Forall2_flip'; exact HPs].
    intros P k [_ HE]. apply HE.
Qed.

Theorem union_equation_old_holds p kids N :
  class_wf p -> Forall (kid_wf (pars p)) kids -> union_genuine p kids ->
  match union_equation_old (cfun pars p) (map (cfun pars) (map fst kids)) (map snd kids) with
  | Ok lhs rhs => holds (SN N) O V N lhs rhs
  | _ => False
  end.
Proof.
  intros Wp Wk G. apply union_equation_old_holds0; auto.
  eapply Forall_impl; [|exact Wk]. intros k. apply kid_wf_wf0.
Qed.

(* ---- the REPAIRED method (fix FIXHASH_EQ): no cover condition.  A child of a rule with its dictionary
   is well-formed when the dictionary maps parameters of the parent to parameters of the child. *)
Definition kid_wfd (ppars : list Z) (k : Z * list (Z * Z)) : Prop :=
  class_wf (fst k) /\ NoDup (map fst (snd k)) /\ incl (map fst (snd k)) ppars /\
  incl (map snd (snd k)) (pars (fst k)).

Lemma kid_wf0_wfd ppars k : kid_wf0 ppars k -> kid_wfd ppars k.
Proof. intros [A [B [C [D _]]]]. split; [|split; [|split]]; auto. Qed.

Lemma kid_wf_wfd ppars k : kid_wf ppars k -> kid_wfd ppars k.
Proof. intros H. apply kid_wf0_wfd, kid_wf_wf0, H. Qed.

Lemma Forall_kid_wf_wfd ppars kids : Forall (kid_wf ppars) kids -> Forall (kid_wfd ppars) kids.
Proof. intros H. eapply Forall_impl; [|exact H]. intros k. apply kid_wf_wfd. Qed.

Lemma Forall_kid_wf0_wfd ppars kids : Forall (kid_wf0 ppars) kids -> Forall (kid_wfd ppars) kids.
Proof. intros H. eapply Forall_impl; [|exact H]. intros k. apply kid_wf0_wfd. Qed.

Lemma kid_child_wfd N ppars k : kid_wfd ppars k -> child_wfd (SN N) ppars pars k.
Proof.
  intros [Wc [H1 [H2 H3]]]. constructor; auto.
  - apply Wc.
  - apply Wc.
  - intros t Ht. apply (tbl_shape N (fst k) t Wc Ht).
Qed.

Lemma sem_kids_full (S : Z -> list (list Z * Z)) ppars kids :
  NoDup ppars -> ~ In 0 ppars -> Forall (child_wfd S ppars pars) kids ->
  exists Ps, Forall2 (fun k P => sem S O (subs (full_subs (cfun pars (fst k)) (snd k)) (cfun pars (fst k))) = Some P /\
                                 peqv V P (cser ppars (rekey ppars (pars (fst k)) (snd k) (S (fst k))))) kids Ps.
Proof.
  intros ND H0 HF. induction HF as [|k t Hk _ [Ps IH]].
  - exists []. constructor.
  - destruct (sem_child_full S O ppars pars k V Hk ND H0) as [P [HP HE]].
    exists (P :: Ps). constructor; auto.
Qed.

(* Rule with a DisjointUnion constructor (also EquivalenceRule and EquivalencePathRule, whose constructor
   is a one-child DisjointUnion): EVERY genuine rule with well-formed dictionaries -- child parameters
   that no parent parameter is mapped to are summed out (variable := 1), several parent parameters
   mapped to one child parameter are multiplied *)
Theorem union_equation_holds p kids N :
  class_wf p -> Forall (kid_wfd (pars p)) kids -> union_genuine p kids ->
  match union_equation (cfun pars p) (map (cfun pars) (map fst kids)) (map snd kids) with
  | Ok lhs rhs => holds (SN N) O V N lhs rhs
  | _ => False
  end.
Proof.
  intros Wp Wk G. unfold union_equation.
  assert (combine (map (cfun pars) (map fst kids)) (map snd kids) =
          map (fun k => (cfun pars (fst k), snd k)) kids) as E.
  { clear. induction kids as [|[a b] t IH]; simpl; auto. rewrite IH. reflexivity. }
  rewrite E, fold_left_map. cbn [fst snd]. clear E.
  destruct Wp as [NDp [H0p Wt]].
  destruct (sem_kids_full (SN N) (pars p) kids NDp H0p) as [Ps HPs].
  { eapply Forall_impl; [|exact Wk]. intros k Hk. apply kid_child_wfd; auto. }
  unfold holds. rewrite undiv_fold_add by reflexivity. cbn [fst snd].
  exists (cser (pars p) (SN N p)), (fold_left padd Ps (pconst 0)). split; [apply sem_cfun|]. split.
  - apply (sem_fold_add (SN N) (fun k => subs (full_subs (cfun pars (fst k)) (snd k)) (cfun pars (fst k))) kids Ps (Const 0) (pconst 0)).
    + reflexivity.
    + eapply Forall2_weaken; [|exact HPs]. intros k P [H _]. exact H.
  - intros m _. rewrite pcoef_fold_padd. unfold SN at 1. rewrite (union_core p kids N m G).
    assert (pcoef V (pconst 0) m = 0) as Z0.
    { unfold pcoef, pconst. simpl. destruct (meqb V mzero m); reflexivity. }
    rewrite Z0. simpl. symmetry. apply psum_Forall2.
    eapply Forall2_weaken; [|apply Forall2_flip'; exact HPs].
    intros P k [_ HE]. apply HE.
Qed.

(* ------------------------------------------------------------ product *)
(* the parent's true series is the Cauchy product (exponents of the parent's
   parameter names add up) of the children's true series re-keyed positionally *)
Definition product_genuine (p : Z) (kids : list (Z * list (Z * Z))) (N : Z) : Prop :=
  forall m : mono, 0 <= m 0 <= N ->
    pcoef V (cser (pars p) (tbl N (T p))) m =
    pcoef V (prod_left (map (fun k => cser (pars p) (rekey (pars p) (pars (fst k)) (snd k) (tbl N (T (fst k))))) kids)) m.

Lemma sem_fold_mul {A} S (g : A -> expr) xs Ps a pa :
  sem S O a = Some pa -> Forall2 (fun x P => sem S O (g x) = Some P) xs Ps ->
  sem S O (fold_left (fun res x => Mul res (g x)) xs a) = Some (fold_left pmul Ps pa).
Proof.
  intros Ha HF. revert a pa Ha. induction HF as [|x P xs Ps Hx _ IH]; intros a pa Ha; simpl; auto.
  apply IH. simpl. rewrite Ha, Hx. reflexivity.
Qed.

Lemma undiv_fold_mul {A} (g : A -> expr) xs : forall a l,
  (forall l', undiv l' a = (l', a)) ->
  undiv l (fold_left (fun res x => Mul res (g x)) xs a) = (l, fold_left (fun res x => Mul res (g x)) xs a).
Proof.
  induction xs as [|x t IH]; intros a l Ha; simpl; auto.
Qed.

Lemma prod_left_congr fs gs : Forall2 (peqv V) fs gs -> peqv V (prod_left fs) (prod_left gs).
Proof.
  intros H. eapply peqv_trans; [apply prod_left_right|].
  eapply peqv_trans; [apply prod_right_congr; exact H|]. apply peqv_sym, prod_left_right.
Qed.

(* a child of a product: additionally no two parent parameters share a child parameter *)
Definition pkid_wf (ppars : list Z) (k : Z * list (Z * Z)) : Prop :=
  kid_wf ppars k /\ NoDup (map snd (snd k)).
Definition pkid_wf0 (ppars : list Z) (k : Z * list (Z * Z)) : Prop :=
  kid_wf0 ppars k /\ NoDup (map snd (snd k)).

Lemma Forall2_map_r {A B C} (P : A -> C -> Prop) (f : B -> C) l l' :
  Forall2 (fun a b => P a (f b)) l l' -> Forall2 P l (map f l').
Proof. intros H. induction H; simpl; constructor; auto. Qed.

Theorem product_equation_old_holds0 p kids N :
  class_wf p -> Forall (pkid_wf0 (pars p)) kids -> product_genuine p kids N ->
  match product_equation_old (cfun pars p) (map (cfun pars) (map fst kids)) (map snd kids) with
  | Ok lhs rhs => holds (SN N) O V N lhs rhs
  | _ => False
  end.
Proof.
  intros Wp Wk G. unfold product_equation_old.
  rewrite <- (map_id (map snd kids)).
  assert (combine (map (fun x => x) (map snd kids)) (map (cfun pars) (map fst kids)) =
          map (fun k => (snd k, cfun pars (fst k))) kids) as E.
  { clear. induction kids as [|[a b] t IH]; simpl; auto. rewrite IH. reflexivity. }
  rewrite E, fold_left_map. cbn [fst snd]. clear E.
  destruct Wp as [NDp [H0p Wt]].
  destruct (sem_kids (SN N) (pars p) kids NDp H0p) as [Ps HPs].
  { eapply Forall_impl; [|exact Wk]. intros k [Hk _]. apply kid_child_wf; auto. }
  unfold holds. rewrite undiv_fold_mul by reflexivity. cbn [fst snd].
  exists (cser (pars p) (SN N p)), (fold_left pmul Ps pone). split; [apply sem_cfun|]. split.
  - apply (sem_fold_mul (SN N) (fun k => subs (prod_subs (snd k)) (cfun pars (fst k))) kids Ps (Const 1) pone).
    + reflexivity.
    + clear G. induction HPs as [|k P kids' Ps' [HP _] _ IH]; constructor.
      * inversion Wk as [|? ? [_ Hinj] _]; subst. rewrite prod_subs_eq_union by auto. exact HP.
      * apply IH. inversion Wk; auto.
  - intros m Hm. unfold SN at 1. rewrite (G m Hm). symmetry.
    apply (prod_left_congr Ps). apply Forall2_map_r. apply Forall2_flip'.
    eapply Forall2_weaken; [|exact HPs]. intros k P [_ HE]. exact HE.
Qed.

Theorem product_equation_old_holds p kids N :
  class_wf p -> Forall (pkid_wf (pars p)) kids -> product_genuine p kids N ->
  match product_equation_old (cfun pars p) (map (cfun pars) (map fst kids)) (map snd kids) with
  | Ok lhs rhs => holds (SN N) O V N lhs rhs
  | _ => False
  end.
Proof.
  intros Wp Wk G. apply product_equation_old_holds0; auto.
  eapply Forall_impl; [|exact Wk]. intros k [A B]. split; [apply kid_wf_wf0|]; auto.
Qed.

(* Rule with a CartesianProduct constructor, REPAIRED method: every genuine rule with well-formed
   dictionaries (no injectivity, no cover condition) *)
Theorem product_equation_holds p kids N :
  class_wf p -> Forall (kid_wfd (pars p)) kids -> product_genuine p kids N ->
  match product_equation (cfun pars p) (map (cfun pars) (map fst kids)) (map snd kids) with
  | Ok lhs rhs => holds (SN N) O V N lhs rhs
  | _ => False
  end.
Proof.
  intros Wp Wk G. unfold product_equation.
  assert (combine (map snd kids) (map (cfun pars) (map fst kids)) =
          map (fun k => (snd k, cfun pars (fst k))) kids) as E.
  { clear. induction kids as [|[a b] t IH]; simpl; auto. rewrite IH. reflexivity. }
  rewrite E, fold_left_map. cbn [fst snd]. clear E.
  destruct Wp as [NDp [H0p Wt]].
  destruct (sem_kids_full (SN N) (pars p) kids NDp H0p) as [Ps HPs].
  { eapply Forall_impl; [|exact Wk]. intros k Hk. apply kid_child_wfd; auto. }
  unfold holds. rewrite undiv_fold_mul by reflexivity. cbn [fst snd].
  exists (cser (pars p) (SN N p)), (fold_left pmul Ps pone). split; [apply sem_cfun|]. split.
  - apply (sem_fold_mul (SN N) (fun k => subs (full_subs (cfun pars (fst k)) (snd k)) (cfun pars (fst k))) kids Ps (Const 1) pone).
    + reflexivity.
    + eapply Forall2_weaken; [|exact HPs]. intros k P [H _]. exact H.
  - intros m Hm. unfold SN at 1. rewrite (G m Hm). symmetry.
    apply (prod_left_congr Ps). apply Forall2_map_r. apply Forall2_flip'.
    eapply Forall2_weaken; [|exact HPs]. intros k P [_ HE]. exact HE.
Qed.

(* ------------------------------------------------------------ reverse rules *)
(* with parameters Complement/Quotient.get_equation raise NotImplementedError and
   ReverseRule.get_equation returns the ORIGINAL rule's equation *)
Lemma rev_union_fallback o idx :
  any_params (o_eps o) = true -> rule_equation pars (RRevUnion o idx) = rule_equation pars (RUnion o).
Proof. intros H. unfold rule_equation. simpl. unfold complement_equation. rewrite H. reflexivity. Qed.

Lemma rev_product_fallback o idx :
  any_params (o_eps o) = true -> rule_equation pars (RRevProduct o idx) = rule_equation pars (RProduct o).
Proof. intros H. unfold rule_equation. simpl. unfold quotient_equation. rewrite H. reflexivity. Qed.

(* parameter-free case: the Sub / Div forms *)
Definition no_params (p : Z) (cs : list Z) : Prop := pars p = [] /\ forall c, In c cs -> pars c = [].
Definition plain_kids (cs : list Z) : list (Z * list (Z * Z)) := map (fun c => (c, [])) cs.

Lemma any_params_plain cs : any_params (map snd (plain_kids cs)) = false.
Proof. induction cs; simpl; auto. Qed.

Lemma map_fst_plain cs : map fst (plain_kids cs) = cs.
Proof. unfold plain_kids. rewrite map_map. simpl. apply map_id. Qed.

(* without parameters re-keying does nothing *)
Lemma rekey_plain p c N :
  pars p = [] -> pars c = [] -> class_wf c ->
  cser (pars p) (rekey (pars p) (pars c) [] (tbl N (T c))) = cser (pars c) (tbl N (T c)).
Proof.
  intros Hp Hc Wc. rewrite Hp, Hc. unfold cser, rekey. rewrite map_map. apply map_ext_in.
  intros t Ht. destruct (tbl_shape N c t Wc Ht) as [n [e [Et Hl]]]. rewrite Hc in Hl.
  destruct e; [|discriminate]. rewrite Et. reflexivity.
Qed.

Lemma sem_fold_sub S xs a pa :
  sem S O a = Some pa ->
  sem S O (fold_left Sub (map (cfun pars) xs) a) =
  Some (fold_left (fun P Q => padd P (pneg Q)) (map (fun c => cser (pars c) (S c)) xs) pa).
Proof.
  revert a pa. induction xs as [|x t IH]; intros a pa Ha; simpl; auto.
  apply IH. cbn [sem]. rewrite Ha. rewrite sem_cfun. reflexivity.
Qed.

Lemma pcoef_fold_sub Ps pa m :
  pcoef V (fold_left (fun P Q => padd P (pneg Q)) Ps pa) m = pcoef V pa m - psum (fun P => pcoef V P m) Ps.
Proof.
  revert pa. induction Ps as [|P t IH]; intros pa; simpl; [lia|].
  rewrite IH, pcoef_padd, pcoef_pneg. lia.
Qed.

Lemma undiv_fold_sub xs : forall a l,
  (forall l', undiv l' a = (l', a)) -> undiv l (fold_left Sub xs a) = (l, fold_left Sub xs a).
Proof. induction xs as [|x t IH]; intros a l Ha; simpl; auto. Qed.

(* ReverseRule of a union rule, Complement.get_equation:  F_c = F_p - F_other - ... *)
Theorem complement_equation_holds p cs idx N :
  no_params p cs -> class_wf p -> (forall c, In c cs -> class_wf c) ->
  union_genuine p (plain_kids cs) -> (idx < length cs)%nat ->
  match complement_equation (cfun pars (nth idx cs (-1)))
          (map (cfun pars) (p :: remove_nth idx cs)) (map snd (plain_kids cs)) with
  | Ok lhs rhs => holds (SN N) O V N lhs rhs
  | _ => False
  end.
Proof.
  intros [Hp Hcs] Wp Wcs G Hidx. unfold complement_equation. rewrite any_params_plain.
  cbn [map]. unfold holds. rewrite undiv_fold_sub by reflexivity. cbn [fst snd].
  eexists. eexists. split; [apply sem_cfun|]. split.
  - apply sem_fold_sub. apply sem_cfun.
  - intros m _. rewrite pcoef_fold_sub. rewrite psum_map.
    unfold SN. rewrite (union_core p (plain_kids cs) N m G).
    unfold plain_kids. rewrite psum_map. cbn [fst snd].
    rewrite (psum_remove_nth _ cs idx (-1) Hidx).
    rewrite (psum_ext _ (fun c => pcoef V (cser (pars c) (tbl N (T c))) m) (remove_nth idx cs)).
    + rewrite rekey_plain; auto; [lia|apply Hcs, nth_In; auto|apply Wcs, nth_In; auto].
    + intros c Hc. assert (In c cs) as Hin by (eapply In_remove_nth; eauto).
      rewrite rekey_plain; auto.
Qed.

Lemma undiv_fold_div xs : forall a l,
  undiv l (fold_left Div xs a) = (fold_left Mul xs (fst (undiv l a)), snd (undiv l a)).
Proof.
  induction xs as [|x t IH]; intros a l; simpl.
  - destruct (undiv l a); reflexivity.
  - rewrite IH. simpl. destruct (undiv l a); reflexivity.
Qed.

Lemma sem_fold_mul_cfun S xs a pa :
  sem S O a = Some pa ->
  sem S O (fold_left Mul (map (cfun pars) xs) a) =
  Some (fold_left pmul (map (fun c => cser (pars c) (S c)) xs) pa).
Proof.
  revert a pa. induction xs as [|x t IH]; intros a pa Ha; simpl; auto.
  apply IH. cbn [sem]. rewrite Ha. rewrite sem_cfun. reflexivity.
Qed.

(* ReverseRule of a product rule, Quotient.get_equation:  F_c = F_p / F_other / ...,
   read as  F_c * F_other * ... = F_p *)
Theorem quotient_equation_holds p cs idx N :
  no_params p cs -> class_wf p -> (forall c, In c cs -> class_wf c) ->
  product_genuine p (plain_kids cs) N -> (idx < length cs)%nat ->
  match quotient_equation (cfun pars (nth idx cs (-1)))
          (map (cfun pars) (p :: remove_nth idx cs)) (map snd (plain_kids cs)) with
  | Ok lhs rhs => holds (SN N) O V N lhs rhs
  | _ => False
  end.
Proof.
  intros [Hp Hcs] Wp Wcs G Hidx. unfold quotient_equation. rewrite any_params_plain.
  cbn [map]. unfold holds. rewrite undiv_fold_div. cbn [undiv cfun fst snd].
  fold (cfun pars (nth idx cs (-1))). fold (cfun pars p).
  eexists. eexists. split; [apply sem_fold_mul_cfun; apply sem_cfun|]. split; [apply sem_cfun|].
  intros m Hm. unfold SN at 3. rewrite (G m Hm).
  set (A := fun c => cser (pars c) (SN N c)).
  assert (map (fun k => cser (pars p) (rekey (pars p) (pars (fst k)) (snd k) (tbl N (T (fst k))))) (plain_kids cs)
          = map A cs) as E.
  { unfold plain_kids. rewrite map_map. apply map_ext_in. intros c Hc. cbn [fst snd].
    apply rekey_plain; auto. }
  rewrite E. clear E.
  eapply eq_trans; [apply fold_left_pmul_acc|].
  eapply eq_trans; [|symmetry; apply prod_left_right].
  rewrite (prod_right_move V (map A cs) idx (A (-1))) by (rewrite map_length; auto).
  rewrite (map_nth A cs (-1) idx).
  fold (remove_nth idx (map A cs)).
  replace (remove_nth idx (map A cs)) with (map A (remove_nth idx cs)).
  - reflexivity.
  - unfold remove_nth. rewrite map_app, firstn_map, skipn_map. reflexivity.
Qed.

(* ------------------------------------------------------------ equivalence rules and paths *)
(* EquivalenceRule(union rule): DisjointUnion(parent, (child,), (extra_parameters[child_idx],)) *)
Theorem equiv_equation_holds o cidx N :
  let p := o_parent o in let c := nth cidx (o_children o) (-1) in let ep := nth cidx (o_eps o) [] in
  class_wf p -> kid_wfd (pars p) (c, ep) -> union_genuine p [(c, ep)] ->
  match rule_equation pars (REquivUnion o cidx) with
  | Ok lhs rhs => holds (SN N) O V N lhs rhs
  | _ => False
  end.
Proof.
  intros p c ep Wp Wk G.
  exact (union_equation_holds p [(c, ep)] N Wp (Forall_cons _ Wk (Forall_nil _)) G).
Qed.

(* EquivalencePathRule: a one-child DisjointUnion with the composed dictionary *)
Theorem path_equation_holds p steps c ep N :
  path_eps (pars p) steps = Some ep ->
  class_wf p -> kid_wfd (pars p) (c, ep) -> union_genuine p [(c, ep)] ->
  match rule_equation pars (RPath p steps c) with
  | Ok lhs rhs => holds (SN N) O V N lhs rhs
  | _ => False
  end.
Proof.
  intros E Wp Wk G. unfold rule_equation. cbn [rule_equation_with]. rewrite E.
  exact (union_equation_holds p [(c, ep)] N Wp (Forall_cons _ Wk (Forall_nil _)) G).
Qed.

(* ------------------------------------------------------------ verification rules *)
Lemma ppow_mono a k : peqv V (ppow [(a, 1)] k) [(mscale (Z.of_nat k) a, 1)].
Proof.
  induction k as [|k IH].
  - intros m. unfold pcoef. simpl. rewrite (meqb_ext V mzero m (mscale 0 a) m); auto.
  - change (ppow [(a, 1)] (Datatypes.S k)) with (pmul [(a, 1)] (ppow [(a, 1)] k)).
    eapply peqv_trans; [apply pmul_congr_r; exact IH|].
    intros m. unfold pcoef. cbn [pmul flat_map map app psum fst snd].
    rewrite (meqb_ext V (madd a (mscale (Z.of_nat k) a)) m (mscale (Z.of_nat (Datatypes.S k)) a) m); [reflexivity|].
    intros u _. unfold madd, mscale.
    replace (a u + Z.of_nat k * a u) with (Z.of_nat (Datatypes.S k) * a u) by lia. reflexivity.
Qed.

(* the class consists of one object of size m (AtomStrategy: comb_class.is_atom()) *)
Definition atom_genuine (c m : Z) : Prop :=
  forall n, 0 <= n -> forall e, cnt (T c n) e = if (n =? m) && leqb [] e then 1 else 0.

Theorem atom_equation_holds c m N :
  pars c = [] -> 0 <= m -> In 0 V -> atom_genuine c m ->
  match rule_equation pars (RAtom c m) with
  | Ok lhs rhs => holds (SN N) O V N lhs rhs
  | _ => False
  end.
Proof.
  intros Hp Hm HV G. unfold rule_equation; cbn [rule_equation_with]. rewrite Hp. unfold holds. cbn [undiv fst snd].
  eexists. eexists. split; [apply sem_cfun|]. split.
  { cbn [sem]. destruct (Z.ltb_spec m 0); [lia|]. reflexivity. }
  intros mu Hmu. rewrite Hp. unfold SN. rewrite pcoef_cser_tbl_id.
  rewrite (ppow_mono (mvar 0) (Z.to_nat m) mu).
  transitivity (psum (fun n => if n =? m then (if meqb V (fm [] [n]) mu then 1 else 0) else 0) (zrange 0 (N + 1))).
  { apply psum_ext. intros n Hn. apply in_zrange in Hn.
    pose (g := fun e => if meqb V (fm [] (n :: e)) mu then 1 else 0).
    change (psum (fun t => g (fst t) * snd t) (T c n) = if n =? m then g [] else 0).
    rewrite (psum_cnt_ext g (T c n) (if n =? m then [([], 1)] else [])).
    - destruct (n =? m); simpl; lia.
    - intros e. rewrite (G n) by lia. destruct (n =? m); simpl; [|reflexivity].
      unfold cnt. simpl. lia. }
  assert (forall u, fm [] [m] u = mscale (Z.of_nat (Z.to_nat m)) (mvar 0) u) as Em.
  { intros u. unfold fm, lincomb, mscale. simpl. rewrite Z2Nat.id by lia. lia. }
  unfold pcoef. cbn [psum fst snd].
  rewrite <- (meqb_ext V (fm [] [m]) mu (mscale (Z.of_nat (Z.to_nat m)) (mvar 0)) mu)
    by (intros u _; rewrite Em; reflexivity).
  destruct (Z_le_gt_dec m N) as [Hle|Hgt].
  - rewrite (psum_single _ (zrange 0 (N + 1)) m).
    + rewrite Z.eqb_refl. lia.
    + apply zrange_nodup.
    + apply in_zrange. lia.
    + intros n _ Hne. destruct (Z.eqb_spec n m); [congruence|reflexivity].
  - rewrite psum_zero.
    + destruct (meqb V (fm [] [m]) mu) eqn:E; [|lia]. exfalso.
      rewrite meqb_true in E. specialize (E 0 HV). rewrite Em in E.
      unfold mscale, mvar in E. simpl in E. rewrite Z2Nat.id in E by lia. lia.
    + intros n Hn. apply in_zrange in Hn. destruct (Z.eqb_spec n m); [lia|reflexivity].
Qed.

Definition empty_genuine (c : Z) : Prop := forall n e, cnt (T c n) e = 0.

Theorem empty_equation_holds c N :
  empty_genuine c ->
  match rule_equation pars (REmpty c) with
  | Ok lhs rhs => holds (SN N) O V N lhs rhs
  | _ => False
  end.
Proof.
  intros G. unfold rule_equation; cbn [rule_equation_with]. unfold holds. cbn [undiv fst snd].
  eexists. eexists. split; [apply sem_cfun|]. split; [reflexivity|].
  intros mu _. unfold SN. rewrite pcoef_cser_tbl_id.
  rewrite psum_zero.
  - unfold pcoef, pconst. simpl. destruct (meqb V mzero mu); reflexivity.
  - intros n _.
    pose (g := fun e => if meqb V (fm (pars c) (n :: e)) mu then 1 else 0).
    change (psum (fun t => g (fst t) * snd t) (T c n) = 0).
    rewrite (psum_cnt_ext g (T c n) []); [reflexivity|]. intros e. rewrite G. reflexivity.
Qed.

(* a user verification strategy: its own series must be the class's true series *)
Theorem verified_equation_holds c N :
  (forall m : mono, 0 <= m 0 <= N -> pcoef V (cser (pars c) (tbl N (T c))) m = pcoef V (O c) m) ->
  match rule_equation pars (RVerified c) with
  | Ok lhs rhs => holds (SN N) O V N lhs rhs
  | _ => False
  end.
Proof.
  intros G. unfold rule_equation; cbn [rule_equation_with]. unfold holds. cbn [undiv fst snd].
  eexists. eexists. split; [apply sem_cfun|]. split; [reflexivity|]. exact G.
Qed.

End Rules.

(* ------------------------------------------------------------ a product rule the emitted equation is wrong for *)
(* parent 0 tracks k (variable 1) and j (variable 2), both = number of a's;
   child 1 = the word "a" tracking k, child 2 = the empty word tracking k;
   strategy.extra_parameters = ({k: k, j: k}, {k: k, j: k}).
   Counting (get_terms) adds the child's value to both parent parameters: genuine.
   CartesianProduct.get_equation keeps only j:  F_0(x,k,j) = F_1(x,j) * F_2(x,j). *)
Definition cx_pars (l : Z) : list Z := match l with 0 => [1; 2] | 1 => [1] | 2 => [1] | _ => [] end.
Definition cx_T (l n : Z) : list (list Z * Z) :=
  match l, n with
  | 0, 1 => [([1; 1], 1)]
  | 1, 1 => [([1], 1)]
  | 2, 0 => [([0], 1)]
  | _, _ => []
  end.
Definition cx_kids : list (Z * list (Z * Z)) := [(1, [(1, 1); (2, 1)]); (2, [(1, 1); (2, 1)])].
Definition cx_V : list Z := [0; 1; 2].

Lemma cx_genuine : product_genuine cx_pars cx_T cx_V 0 cx_kids 1.
Proof. intros m _. vm_compute. reflexivity. Qed.

Lemma cx_tab l n t : In t (cx_T l n) -> length (fst t) = length (cx_pars l).
Proof.
  destruct l as [|[[p|p|]|[p|p|]|]|p]; simpl; try tauto;
    destruct n as [|[p'|p'|]|p']; simpl; try tauto; intros [<-|[]]; reflexivity.
Qed.

Lemma cx_class_wf l : (l = 0 \/ l = 1 \/ l = 2) -> class_wf cx_pars cx_T l.
Proof.
  intros Hl. unfold class_wf. split; [|split].
  - destruct Hl as [Hl|[Hl|Hl]]; subst l; simpl; repeat constructor; simpl; intuition discriminate.
  - destruct Hl as [Hl|[Hl|Hl]]; subst l; simpl; intuition discriminate.
  - intros n t. apply cx_tab.
Qed.

Lemma cx_wf : class_wf cx_pars cx_T 0 /\ Forall (kid_wf cx_pars cx_T (cx_pars 0)) cx_kids.
Proof.
  split; [apply cx_class_wf; auto|].
  assert (forall c, c = 1 \/ c = 2 -> kid_wf cx_pars cx_T (cx_pars 0) (c, [(1, 1); (2, 1)])) as K.
  { intros c Hc. unfold kid_wf. cbn [fst snd map].
    split; [apply cx_class_wf; tauto|]. split; [repeat constructor; simpl; intuition discriminate|].
    split; [intros x [<-|[<-|[]]]; simpl; auto|].
    split.
    - destruct Hc as [Hc|Hc]; subst c; intros x [<-|[<-|[]]]; simpl; auto.
    - destruct Hc as [Hc|Hc]; subst c; intros cv [<-|[]]; reflexivity. }
  unfold cx_kids. constructor; [apply K; auto|]. constructor; [apply K; auto|]. constructor.
Qed.

Theorem product_collision_refuted :
  class_wf cx_pars cx_T 0 /\ Forall (kid_wf cx_pars cx_T (cx_pars 0)) cx_kids /\
  product_genuine cx_pars cx_T cx_V 0 cx_kids 1 /\
  ~ match product_equation_old (cfun cx_pars 0) (map (cfun cx_pars) (map fst cx_kids)) (map snd cx_kids) with
    | Ok lhs rhs => holds (SN cx_T 1) (fun _ => []) cx_V 1 lhs rhs
    | _ => False
    end.
Proof.
  destruct cx_wf as [W1 W2]. split; [exact W1|]. split; [exact W2|]. split; [exact cx_genuine|].
  intros [p [q [Hp [Hq H]]]]. vm_compute in Hp, Hq.
  injection Hp as <-. injection Hq as <-.
  specialize (H (fun u => if u <=? 2 then 1 else 0)).
  vm_compute in H. assert (1 = 0) as E by (apply H; split; discriminate). discriminate E.
Qed.
