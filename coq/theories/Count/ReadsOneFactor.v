(* Proofs about Count/ReadsModel.v for a CartesianProductStrategy rule with ONE factor
   (fix 25e10f1 of /repo: such a rule can be used as an equivalence step and in reverse).

   The rule itself is form 1 on the one-element descriptor list [d]; its reverse is form 3 on
   [d] with idx = 0 (a Quotient without sibling, parent shift 0); its equivalence form and a
   path over it are the derived forms 4 / 6 with strat = 1.  Nothing is added to the model:
   these are computations of the existing reads_product / reads_quotient / derived_reads and of
   the GENERATED product_shifts / reverse_shifts / quotient_parent_shift / compositions on [d],
   for EVERY descriptor d and EVERY size n. *)
From Coq Require Import ZArith List Bool Lia ZifyBool.
From CSS Require Import Gen.Prelude Gen.Compositions Gen.ReverseShifts Gen.ProductShifts
  Gen.UnionShifts Gen.QuotientParentShift Count.CompositionsSpec.
From CSS Require Export Count.ReadsDerived.
Import ListNotations.
Open Scope Z_scope.

(* ---------------------------------------------------------------- compositions into one part *)
Definition fits (n : Z) (M : option Z) : bool :=
  match M with None => true | Some b => n <=? b end.

Lemma compositions_one n m M :
  compositions n 1 [m] [M] = if (0 <=? n) && (m <=? n) && fits n M then [[n]] else [].
Proof.
  unfold compositions. change (Z.to_nat 1 + 1)%nat with 2%nat.
  cbn [compositions_fuel]. change (1 <=? 0) with false. change (1 =? 1) with true.
  change (py_get None [M] 0) with M. change (py_get 0 [m] 0) with m.
  unfold py_sum, py_assert, fits. destruct M as [b|]; cbn [forallb is_some is_none py_unopt map fold_right andb orb].
  - destruct (n <? 0) eqn:E1; destruct (n <? m + 0) eqn:E2; destruct (b + 0 <? n) eqn:E3;
      destruct (0 <=? n) eqn:E4; destruct (m <=? n) eqn:E5; destruct (n <=? b) eqn:E6;
      cbn [andb orb]; try reflexivity; lia.
  - destruct (n <? 0) eqn:E1; destruct (n <? m + 0) eqn:E2;
      destruct (0 <=? n) eqn:E4; destruct (m <=? n) eqn:E5;
      cbn [andb orb]; try reflexivity; lia.
Qed.

(* the flipped child of a Quotient is capped at n - 1: alone, it can never take all of n *)
Lemma compositions_one_capped n m : compositions n 1 [m] [Some (n - 1)] = [].
Proof.
  rewrite compositions_one. unfold fits.
  replace (n <=? n - 1) with false by lia. rewrite andb_false_r. reflexivity.
Qed.

(* ---------------------------------------------------------------- declared shifts *)
Lemma reverse_shifts_one_zero : reverse_shifts [0] 0 = [0].
Proof. reflexivity. Qed.

Lemma quotient_parent_shift_one (d : Z * bool) : quotient_parent_shift [d] 0 = 0.
Proof.
  unfold quotient_parent_shift, quotient_min_sizes. cbn [map].
  change (py_get 0 [fst d] 0) with (fst d). rewrite py_sum_cons. unfold py_sum. cbn [fold_right]. lia.
Qed.

Lemma one_factor_shifts (d : Z * bool) :
  rule_shifts 1 [d] 0 = [0] /\ derived_shifts 1 d = [0] /\ rule_shifts 3 [d] 0 = [0] /\
  quotient_parent_shift [d] 0 = 0.
Proof.
  split; [|split; [|split]].
  - apply product_shifts_one.
  - apply derived_shifts_eq.
  - unfold rule_shifts. rewrite product_shifts_one. apply reverse_shifts_one_zero.
  - apply quotient_parent_shift_one.
Qed.

(* ---------------------------------------------------------------- reads *)
(* CartesianProduct.get_terms with one factor: the child at n, when an object of that size can exist *)
Lemma reads_product_one (d : Z * bool) n :
  reads_product [d] n =
  if (0 <=? n) && (fst d <=? n) && (negb (snd d) || (n <=? fst d)) then [(0, n)] else [].
Proof.
  unfold reads_product, product_min_sizes, product_max_sizes. cbn [map]. change (zlen [d]) with 1.
  rewrite compositions_one.
  assert (F : fits n (if snd d then Some (fst d) else None) = (negb (snd d) || (n <=? fst d))).
  { unfold fits. destruct (snd d); reflexivity. }
  rewrite F.
  destruct ((0 <=? n) && (fst d <=? n) && (negb (snd d) || (n <=? fst d))); reflexivity.
Qed.

(* Quotient.get_terms without sibling: nothing below the minimum size of the counted child,
   then the original parent at n + 0; `_a` reads nothing more (compositions_one_capped: no own
   earlier term, no sibling) and `_c` asks nobody (compositions of 0 into 0 parts: none) *)
Lemma reads_quotient_one (d : Z * bool) n :
  reads_quotient [d] 0 n = if n <? fst d then [] else [(0, n)].
Proof.
  unfold reads_quotient. cbv zeta.
  rewrite quotient_parent_shift_one.
  unfold quotient_min_sizes, quotient_max_sizes. cbn [map].
  change (py_get 0 [fst d] 0) with (fst d). change (zlen [d]) with 1.
  destruct (n <? fst d); [reflexivity|].
  change (Z.to_nat 0) with 0%nat. change (Z.to_nat (0 + 1)) with 1%nat.
  cbn [firstn skipn app]. replace (n + 0) with n by lia.
  rewrite compositions_one_capped.
  rewrite (compositions_no_parts 0 (1 - 1)) by lia.
  reflexivity.
Qed.

Lemma quotient_one_summands (d : Z * bool) n :
  compositions (n + quotient_parent_shift [d] 0) (zlen [d]) (quotient_min_sizes [d])
    (firstn (Z.to_nat 0) (quotient_max_sizes [d]) ++ [Some (n - 1)] ++
     skipn (Z.to_nat (0 + 1)) (quotient_max_sizes [d])) = [] /\
  compositions (quotient_parent_shift [d] 0) (zlen [d] - 1)
    (remove_at 0 (quotient_min_sizes [d])) (remove_at 0 (quotient_max_sizes [d])) = [].
Proof.
  split.
  - rewrite quotient_parent_shift_one. replace (n + 0) with n by lia.
    exact (compositions_one_capped n (fst d)).
  - apply compositions_no_parts. change (zlen [d]) with 1. lia.
Qed.

(* every read of a one-factor product, forward or reversed: provider 0, exactly at n, within the
   declared shift 0; never the rule's own terms *)
Lemma in_single_read (p m q k : Z) : In (p, m) [(q, k)] -> p = q /\ m = k.
Proof. intros [H|[]]. inversion H. auto. Qed.

Lemma one_factor_forward_reads_bounded (d : Z * bool) n p m :
  In (p, m) (rule_reads 1 [d] 0 n) ->
  p = 0 /\ p <> SELF /\ m = n /\ 0 <= n /\ fst d <= n /\
  m <= n - nth (Z.to_nat p) (rule_shifts 1 [d] 0) 0.
Proof.
  unfold rule_reads. rewrite reads_product_one. intros H.
  destruct ((0 <=? n) && (fst d <=? n) && (negb (snd d) || (n <=? fst d))) eqn:E; [|contradiction].
  apply in_single_read in H. destruct H as [-> ->].
  destruct (one_factor_shifts d) as (-> & _). cbn [Z.to_nat nth]. unfold SELF. repeat split; lia.
Qed.

Lemma one_factor_reverse_reads_bounded (d : Z * bool) n p m :
  In (p, m) (rule_reads 3 [d] 0 n) ->
  p = 0 /\ p <> SELF /\ m = n /\ fst d <= n /\
  m = n - nth (Z.to_nat p) (rule_shifts 3 [d] 0) 0.
Proof.
  unfold rule_reads. rewrite reads_quotient_one. intros H.
  destruct (n <? fst d) eqn:E; [contradiction|].
  apply in_single_read in H. destruct H as [-> ->].
  destruct (one_factor_shifts d) as (_ & _ & -> & _). cbn [Z.to_nat nth]. unfold SELF. repeat split; lia.
Qed.
