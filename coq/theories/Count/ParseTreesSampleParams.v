(* C08 on OBJECTS, with extra parameters: C08_uniform_params through the bijection objects <-> parse trees.
     pdescribes        the C08 descriptor with parameters (pcls: kinds, children, minimum sizes and values,
                       dictionaries) and the C07 specification describe the same rules; in particular the
                       parameter maps of the C07 rules are the dict_sem of the C08 dictionaries
                       (C09_dictionary_maps) and an atom's object has the minimum size and minimum values
     pwf_twf / tree_measures   well-formed trees, sizes and parameter tuples coincide
     psample_opsample  the object sampler runs in lock step with the tree sampler and returns unparse of its tree
     uniform_objects_params    every object of the root is returned with probability 1 / count(size, parameters) *)
From Coq Require Import ZArith List Bool Lia QArith Qfield Setoid Morphisms.
From CSS Require Import Base.PyList Gen.Prelude Gen.Compositions Count.CompositionsSpec
                        Count.ObjectsModel Count.ObjectsLists Count.ObjectsProofs Count.ObjectsSpec.
From CSS Require Import Count.Terms Count.Constructors Count.ConstructorsUnionProduct Count.ConstructorsDict
                        Count.SampleModel Count.SampleWalk Count.SampleComps Count.SampleProb Count.SampleUniform
                        Count.SampleModelParams Count.SampleParamsDict Count.SampleParamsSpec
                        Count.SampleParamsProduct Count.SampleUniformParams
                        Count.ParseTrees Count.ParseTreesProofs Count.ParseTreesSample Count.ParseTreesParams.
Import ListNotations.
Open Scope Z_scope.

Section PLink.
Context {obj : Type}.
Variable size : obj -> Z.
Variable In_cls : nat -> obj -> Prop.
Variable par : nat -> obj -> ObjectsModel.params.
Variable spec : nat -> option (rule obj).
Variable atom : nat -> option obj.
Variable fwd : nat -> obj -> subobj obj.
Variable rule_of : nat -> pcls.
Variable tab : nat -> Z -> terms.

Notation unparse := (unparse spec atom).
Notation twf := (twf spec atom).
Notation tsz := (tsz size atom).
Notation tpr := (tpr par spec atom).

Definition pdesc_at (c : nat) : Prop :=
  pk_kind (rule_of c) = kind_of (spec c) (atom c) /\
  pk_kids (rule_of c) = kids_of (spec c) /\
  (forall a, pk_kind (rule_of c) = K_ATOM -> atom c = Some a ->
     size a = pk_min (rule_of c) /\ par c a = avals rule_of c) /\
  match spec c with
  (* on tuples of the children's arities the parameter maps of the C07 rule are those of the C08 dictionaries
     (for the library's constructors: C09_dictionary_maps) *)
  | Some (RUnion kids maps _) =>
      forall i ci, nth_error kids i = Some ci ->
        forall q, length q = length (pars rule_of ci) ->
          nth i maps (fun x => x) q = cmap rule_of c (nth i (kid_eps rule_of c) (0%nat, [])) q
  | Some (RProduct kids _ _ maps _) =>
      forall qs, Forall2 (fun k q => length q = length (pars rule_of k)) kids qs ->
        ObjectsModel.new_param maps qs = Constructors.new_param (cmaps rule_of c) qs
  | _ => True
  end.
Definition pdescribes : Prop := forall c, pdesc_at c.

Hypothesis Hdesc : pdescribes.

Lemma pkind_atom c : pk_kind (rule_of c) = K_ATOM <->
  (exists tbl, spec c = Some (RVerified tbl)) /\ atom c <> None.
Proof.
  destruct (Hdesc c) as (Hk & _). rewrite Hk. unfold kind_of.
  destruct (spec c) as [[| |tbl]|]; try (split; [discriminate|intros [[t E] _]; discriminate]).
  destruct (atom c).
  - split; [intros _; split; [eexists; reflexivity|discriminate]|reflexivity].
  - split; [discriminate|intros [_ H]; congruence].
Qed.

Lemma pkind_union c : pk_kind (rule_of c) = K_UNION <->
  exists maps bwd, spec c = Some (RUnion (pk_kids (rule_of c)) maps bwd).
Proof.
  destruct (Hdesc c) as (Hk & Hc & _). rewrite Hk, Hc. unfold kind_of, kids_of.
  destruct (spec c) as [[k m b|k mi ma m b|tbl]|].
  - split; [intros _; eauto|reflexivity].
  - split; [discriminate|intros (m' & b' & E); discriminate].
  - split; [destruct (atom c); discriminate|intros (m' & b' & E); discriminate].
  - split; [discriminate|intros (m' & b' & E); discriminate].
Qed.

Lemma pkind_product c : pk_kind (rule_of c) = K_PRODUCT <->
  exists mins maxs maps bwd, spec c = Some (RProduct (pk_kids (rule_of c)) mins maxs maps bwd).
Proof.
  destruct (Hdesc c) as (Hk & Hc & _). rewrite Hk, Hc. unfold kind_of, kids_of.
  destruct (spec c) as [[k m b|k mi ma m b|tbl]|].
  - split; [discriminate|intros (a1 & a2 & a3 & a4 & E); discriminate].
  - split; [intros _; eauto 6|reflexivity].
  - split; [destruct (atom c); discriminate|intros (a1 & a2 & a3 & a4 & E); discriminate].
  - split; [discriminate|intros (a1 & a2 & a3 & a4 & E); discriminate].
Qed.

Lemma pkids_of c kids : kids_of (spec c) = kids -> pk_kids (rule_of c) = kids.
Proof. intros <-. destruct (Hdesc c) as (_ & Hc & _). exact Hc. Qed.

Theorem pwf_twf : forall t c, pwf rule_of t c <-> twf t c.
Proof using Hdesc.
  clear In_cls fwd.
  induction t as [c0|c0 i t IH|c0 ts IH] using tree_ind'; intros c; simpl.
  - rewrite pkind_atom. split; intros H; decompose [and] H; auto.
  - rewrite pkind_union. split.
    + intros (-> & (maps & bwd & Hs) & ci & Hi & Hw). split; [reflexivity|].
      exists (pk_kids (rule_of c)), maps, bwd, ci. rewrite <- IH. auto.
    + intros (-> & kids & maps & bwd & ci & Hs & Hi & Hw). split; [reflexivity|].
      assert (Hk : pk_kids (rule_of c) = kids) by (apply pkids_of; rewrite Hs; reflexivity).
      subst kids. split; [eauto|]. exists ci. rewrite IH. auto.
  - rewrite pkind_product.
    assert (G : forall kids, all2 (pwf rule_of) ts kids <-> all2 twf ts kids).
    { induction IH as [|x ts Hx _ IHts]; intros [|k kids]; simpl; try (split; auto; fail).
      rewrite Hx, IHts. split; auto. }
    split.
    + intros (-> & (mins & maxs & maps & bwd & Hs) & Hall). split; [reflexivity|].
      exists (pk_kids (rule_of c)), mins, maxs, maps, bwd. rewrite <- G. auto.
    + intros (-> & kids & mins & maxs & maps & bwd & Hs & Hall). split; [reflexivity|].
      assert (Hk : pk_kids (rule_of c) = kids) by (apply pkids_of; rewrite Hs; reflexivity).
      subst kids. split; [eauto 6|]. rewrite G. assumption.
Qed.

Hypothesis Hprod : forall c, pk_kind (rule_of c) = K_PRODUCT -> product_ok rule_of tab c.

Theorem tree_measures : forall t c, twf t c -> ptsize rule_of t = tsz t /\ tpar rule_of t = tpr t.
Proof using Hdesc Hprod.
  clear In_cls fwd.
  induction t as [c0|c0 i t IH|c0 ts IH] using tree_ind'; intros c Hw; simpl in *.
  - destruct Hw as (-> & Hs & Ha). destruct (atom c) as [a|] eqn:Ea; [|congruence].
    destruct (Hdesc c) as (_ & _ & H & _). destruct (H a) as [H1 H2]; [|assumption|].
    + apply pkind_atom. split; [assumption|congruence].
    + unfold pmin. split; congruence.
  - destruct Hw as (-> & kids & maps & bwd & ci & Hs & Hi & Hw). destruct (IH ci Hw) as [I1 I2].
    split; [assumption|]. rewrite Hs.
    pose proof (tpar_length rule_of tab Hprod t ci (proj2 (pwf_twf t ci) Hw)) as Hl.
    destruct (Hdesc c) as (_ & _ & _ & H). rewrite Hs in H.
    rewrite <- I2. symmetry. eapply H; eassumption.
  - destruct Hw as (-> & kids & mins & maxs & maps & bwd & Hs & Hall).
    assert (G : map (ptsize rule_of) ts = map tsz ts /\ map (tpar rule_of) ts = map tpr ts /\
                Forall2 (fun k q => length q = length (pars rule_of k)) kids (map (tpar rule_of) ts)).
    { clear Hs. revert kids Hall. induction IH as [|x ts Hx _ IHts]; intros [|k kids] Hall; simpl in *; try tauto.
      - split; [reflexivity|]. split; [reflexivity|constructor].
      - destruct Hall as [H1 H2]. destruct (Hx k H1) as [A B]. destruct (IHts kids H2) as (C & D & E).
        split; [rewrite A, C; reflexivity|]. split; [rewrite B, D; reflexivity|].
        constructor; [|exact E]. apply (tpar_length rule_of tab Hprod x k). apply pwf_twf. exact H1. }
    destruct G as (G1 & G2 & G3). split; [congruence|]. rewrite Hs, <- G2.
    destruct (Hdesc c) as (_ & _ & _ & H). rewrite Hs in H. symmetry. apply H. exact G3.
Qed.

(* ---------------------------------------------------------------- lock step *)
Hypothesis contracts : forall c, node_ok size In_cls par spec atom fwd c.
Hypothesis Htab : tables_ok rule_of tab.

(* the dictionaries handed to the sub-samplers of a product are as many as its children *)
Lemma prod_pick_length c n P r ex : pk_kind (rule_of c) = K_PRODUCT ->
  prod_pick_dict (pk_params (rule_of c)) (pmins_of (rule_of c))
                 (map (pkid rule_of tab n) (combine (pk_kids (rule_of c)) (pk_eps (rule_of c)))) n P r = Ok ex ->
  length ex = length (pk_kids (rule_of c)).
Proof.
  intros Hk H. pose proof (Hprod c Hk) as Hp. unfold prod_pick_dict in H.
  fold (kid_eps rule_of c) in H. fold (pars rule_of c) in H.
  destruct (map (pkid rule_of tab n) (kid_eps rule_of c)) as [|k0 ks] eqn:Ek; [discriminate|]. rewrite <- Ek in H.
  destruct (tuple_of (pars rule_of c) P) as [pv|] eqn:Et; [|discriminate].
  destruct (negb (length P =? length (pars rule_of c))%nat); [discriminate|].
  destruct (walk _ r 0 0%nat _) as [[i comp]|e] eqn:Ew; [|discriminate].
  apply walk_in in Ew.
  pose proof (tuple_of_length _ _ _ Et) as Hl.
  destruct (comps_spec rule_of tab c n Hp pv Hl comp Ew) as [HF _].
  assert (Hok : Forall (child_ok rule_of c) (kid_eps rule_of c)) by (destruct Hp as (_ & _ & Hc & _); exact Hc).
  destruct (prod_extra_rows rule_of tab Htab c n (kid_eps rule_of c) comp Hok HF) as [E|(Qs & qs & HR & E)];
    rewrite E in H; [discriminate|].
  inversion H; subst ex. destruct (rows_rel_lengths rule_of c _ _ _ _ HR) as (L1 & L2 & _).
  rewrite combine_length. unfold sizes_of. rewrite map_length, L1, L2, Nat.min_id.
  unfold kid_eps. rewrite combine_length. destruct Hp as (_ & Hle & _). lia.
Qed.

Notation RT := (RT spec atom).

Theorem psample_opsample : forall f c n P,
  sim (RT c) (psample rule_of tab f c n P) (opsample spec atom rule_of tab f c n P).
Proof.
  induction f as [|f IH]; intros c n P; [constructor|].
  simpl. destruct (pk_kind (rule_of c) =? K_ATOM) eqn:Ka.
  { apply Z.eqb_eq in Ka. pose proof Ka as Ka'. apply pkind_atom in Ka'. destruct Ka' as [[tbl Hs] Ha].
    destruct (n =? pk_min (rule_of c)); [|constructor].
    destruct (atom c) as [a|] eqn:Ea; [|congruence].
    constructor. split.
    - simpl. split; [reflexivity|]. split; [eauto|congruence].
    - simpl. rewrite Hs. assumption. }
  destruct (pk_kind (rule_of c) =? K_EMPTY); [constructor|].
  destruct (pk_kind (rule_of c) =? K_UNION) eqn:Ku.
  { apply Z.eqb_eq in Ku. apply pkind_union in Ku. destruct Ku as (maps & bwd & Hs).
    destruct (pcount rule_of tab c n P) as [total|e]; [|constructor].
    constructor. intros r Hr.
    destruct (union_pick_dict _ _ _ _ n P r) as [[i q]|e]; [|constructor].
    destruct (nth_error (pk_kids (rule_of c)) i) as [ci|] eqn:Hi; [|constructor].
    eapply sim_bind; [apply IH|]. intros t y [Hw Hu].
    assert (Hw' : twf (UNode c i t) c).
    { simpl. split; [reflexivity|]. exists (pk_kids (rule_of c)), maps, bwd, ci. auto. }
    destruct (unparse_sound size In_cls par spec atom fwd contracts _ _ Hw') as (o & Hu' & _).
    pose proof Hu' as Hu''. simpl in Hu''. rewrite Hs, Hu in Hu''. apply only_some in Hu''.
    apply (sim_choice spec atom c _ o _) with (t' := UNode c i t); [|split; assumption|reflexivity].
    unfold bwd_of. rewrite Hs. exact Hu''. }
  destruct (pk_kind (rule_of c) =? K_PRODUCT) eqn:Kp; [|constructor].
  apply Z.eqb_eq in Kp. pose proof Kp as Kp'. apply pkind_product in Kp'. destruct Kp' as (mins & maxs & maps & bwd & Hs).
  destruct (pcount rule_of tab c n P) as [total|e]; [|constructor].
  constructor. intros r Hr.
  destruct (prod_pick_dict _ _ _ n P r) as [ex|e] eqn:Ep; [|constructor].
  pose proof (prod_pick_length c n P r ex Kp Ep) as Hlen.
  eapply sim_bind.
  { apply (sim_mapM (fun (p : nat * (Z * dict)) t y => RT (fst p) t y)). intros p _. apply IH. }
  intros ts ys Hall.
  assert (Hall' : all2 twf ts (map fst (combine (pk_kids (rule_of c)) ex)) /\ omap unparse ts = Some ys).
  { clear - Hall. induction Hall as [|p t y ps ts ys [Hw Hu] _ [IH1 IH2]]; simpl; [auto|]. rewrite Hu, IH2. auto. }
  destruct Hall' as [Hall' Hys]. rewrite map_fst_combine in Hall' by lia.
  assert (Hw' : twf (PNode c ts) c).
  { simpl. split; [reflexivity|]. exists (pk_kids (rule_of c)), mins, maxs, maps, bwd. auto. }
  destruct (unparse_sound size In_cls par spec atom fwd contracts _ _ Hw') as (o & Hu' & _).
  pose proof Hu' as Hu''. rewrite unparse_PNode, Hs, Hys in Hu''. apply only_some in Hu''.
  apply (sim_choice spec atom c _ o _) with (t' := PNode c ts); [|split; assumption|reflexivity].
  unfold bwd_of. rewrite Hs. exact Hu''.
Qed.

Corollary pspec_sample_opsample : forall f root n P,
  sim (RT root) (pspec_sample rule_of tab f root n P) (opspec_sample spec atom rule_of tab f root n P).
Proof.
  intros f root n P. unfold pspec_sample, opspec_sample.
  destruct (pcount rule_of tab root n P) as [v|e]; [|constructor].
  destruct (0 <? v); [apply psample_opsample|constructor].
Qed.

(* ---------------------------------------------------------------- C08_uniform_params on objects *)
Variable rank : nat -> Z -> nat.
Hypothesis closed : forall c r n c' m, spec c = Some r -> 0 <= n -> In (c', m) (reads r n) -> spec c' <> None.
Hypothesis rank_reads : forall c r n c' m, spec c = Some r -> 0 <= n -> In (c', m) (reads r n) ->
                                           0 <= m /\ (rank c' m < rank c n)%nat.
Hypothesis size_nonneg : forall c o, In_cls c o -> 0 <= size o.
Variable obj_eqb : obj -> obj -> bool.
Hypothesis obj_eqb_eq : forall a b, obj_eqb a b = true <-> a = b.

Hypothesis Hcon : contract_ok rule_of tab.
Hypothesis Hatom : forall c, pk_kind (rule_of c) = K_ATOM -> atom_ok rule_of tab c.
Hypothesis Hunion : forall c, pk_kind (rule_of c) = K_UNION -> union_ok rule_of tab c.
Hypothesis Hfixed : forall c, pk_kind (rule_of c) = K_UNION -> fixed_honest rule_of tab c.

Theorem uniform_objects_params : forall root o P,
  spec root <> None -> In_cls root o -> dict_for rule_of root P (par root o) ->
  exists t, twf t root /\ unparse t = Some o /\
    forall fuel, (height t < fuel)%nat ->
      (prob (obj_eqb o) (opspec_sample spec atom rule_of tab fuel root (size o) P)
       == 1 / inject_Z (pcnt tab root (size o) (par root o)))%Q.
Proof.
  intros root o P Hroot Ho HP.
  destruct (parse_total size In_cls par spec atom fwd contracts rank closed rank_reads size_nonneg
                        (rank root (size o)) root o (le_n _) Hroot Ho) as (t & Hw & Hu & _).
  exists t. split; [assumption|]. split; [assumption|]. intros fuel Hf.
  destruct (unparse_sound size In_cls par spec atom fwd contracts t root Hw) as (o' & Hu' & _ & Hs & Hp).
  rewrite Hu in Hu'. inversion Hu'; subst o'.
  destruct (tree_measures t root Hw) as [M1 M2].
  assert (Esz : ptsize rule_of t = size o) by congruence.
  assert (Epr : tpar rule_of t = par root o) by congruence.
  rewrite <- Esz, <- Epr. rewrite <- Epr in HP.
  rewrite <- (pspec_sample_uniform rule_of tab Htab Hcon Hatom Hunion Hprod Hfixed t root fuel P
                                   (proj2 (pwf_twf t root) Hw) Hf HP).
  symmetry. eapply sim_prob; [apply pspec_sample_opsample|].
  intros t' o' [Hw' Hu2].
  destruct (tree_eqb t t') eqn:Et.
  - apply tree_eqb_eq in Et. subst t'. rewrite Hu in Hu2. inversion Hu2; subst o'.
    symmetry. apply obj_eqb_eq. reflexivity.
  - destruct (obj_eqb o o') eqn:Eo; [|reflexivity]. apply obj_eqb_eq in Eo. subst o'.
    assert (t = t') by (eapply (unparse_inj size In_cls par spec atom fwd contracts); eassumption).
    subst t'. rewrite tree_eqb_refl in Et. discriminate.
Qed.

End PLink.
