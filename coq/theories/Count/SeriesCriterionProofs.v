(* C20 — soundness of the decider of the closed-form criterion (Count/SeriesCriterion.v).

     crit_okb_sound        crit_okb us ks root = true  ->  the DECIDABLE hypotheses of
                           closed_form_criterion for uspec := uspec_of us, keys := ks, c := root
                           (keys_from_spec, urule_wf of every rule, the root pumps), plus: the
                           association list IS the map, the declared minima are >= 0 and a function
                           of the class
     closed_form_criterion_decided
                           the criterion with those hypotheses replaced by the verdict; the two
                           premises "0 at negative sizes" and "0 below the declared minimum sizes of
                           the factors" merge into one: 0 below dmin_of us
     genuine_ub_sound / recur_okb_sound / low_okb_sound
                           what the boolean table checks mean (sizes 0..M only: oracle facts)      *)
From Coq Require Import ZArith List Bool Lia.
From CSS Require Import Forest.Spec Spec.Eval Spec.GroupingPumps Spec.GroupingPumpsProofs.
From CSS Require Import Count.Series Count.SeriesConv Count.SeriesUnique Count.SeriesClosedForm
  Count.GenfSelect Count.GenfSelectProofs Count.SeriesCriterion.
Import ListNotations.
Open Scope Z_scope.

Lemma uspec_of_In us c r : uspec_of us c = Some r -> In (c, r) us.
Proof.
  induction us as [|[c' r'] t IH]; simpl; [discriminate|].
  destruct (Nat.eqb_spec c c') as [->|N]; intros H.
  - injection H as ->. left; reflexivity.
  - right; auto.
Qed.

Lemma memn_In c l : memn c l = true <-> In c l.
Proof.
  induction l as [|x t IH]; simpl; [split; [discriminate|tauto]|].
  rewrite orb_true_iff, IH. destruct (Nat.eqb_spec c x); split; intros [H|H]; auto; try discriminate;
    try congruence.
Qed.

Lemma In_uspec_of us c r : nodupb (map fst us) = true -> In (c, r) us -> uspec_of us c = Some r.
Proof.
  induction us as [|[c' r'] t IH]; simpl; [tauto|]. intros H [E|Hin].
  - injection E as -> ->. rewrite Nat.eqb_refl. reflexivity.
  - apply andb_true_iff in H. destruct H as [Hm Hn].
    destruct (Nat.eqb_spec c c') as [->|N]; [|auto].
    exfalso. apply negb_true_iff in Hm.
    assert (memn c' (map fst t) = true) as A
      by (apply memn_In, in_map_iff; exists (c', r); split; auto).
    congruence.
Qed.

Lemma kids_eqb_eq a : forall b, kids_eqb a b = true -> a = b.
Proof.
  induction a as [|[c s] a IH]; intros [|[c' s'] b]; simpl; try discriminate; auto.
  intros H. apply andb_true_iff in H. destruct H as [H H3]. apply andb_true_iff in H. destruct H as [H1 H2].
  apply Nat.eqb_eq in H1. apply Z.eqb_eq in H2. subst. f_equal. auto.
Qed.

Lemma urule_wfb_sound c r : urule_wfb c r = true -> urule_wf c r.
Proof.
  destruct r as [kids|kids|p cs idx|m|]; simpl; intros H; auto.
  - apply Forall_forall. intros k Hk. rewrite forallb_forall in H. apply Z.leb_le. auto.
  - apply andb_true_iff in H. destruct H as [A B]. split; [apply Nat.ltb_lt, A|apply Nat.eqb_eq, B].
  - apply Z.leb_le, H.
Qed.

Lemma lookupZ_In l c m : lookupZ l c = Some m -> In (c, m) l.
Proof.
  induction l as [|[c' m'] t IH]; simpl; [discriminate|].
  destruct (Nat.eqb_spec c c') as [->|N]; intros H; [injection H as ->; left; reflexivity|right; auto].
Qed.

Lemma decls_In us c kids k : In (c, UProduct kids) us -> In k kids -> In k (decls us).
Proof.
  intros H Hk. unfold decls. apply in_flat_map. exists (c, UProduct kids). split; auto.
Qed.

Lemma dmin_nonneg us : mins_okb us = true -> forall c, 0 <= dmin_of us c.
Proof.
  intros H c. unfold dmin_of. destruct (lookupZ (decls us) c) as [m|] eqn:E; [|lia].
  apply lookupZ_In in E. unfold mins_okb in H. rewrite forallb_forall in H.
  specialize (H _ E). apply andb_true_iff in H. destruct H as [A _]. apply Z.leb_le in A. exact A.
Qed.

Section Decided.
Variable us : list (nat * urule).
Variable ks : list fkey.
Variable root : nat.

(* what the verdict decides *)
Definition crit_hyps : Prop :=
  (forall k, In k ks -> exists r, uspec_of us (parent k) = Some r /\ kids k = r_kids Z (to_srule r)) /\
  (forall c r, uspec_of us c = Some r -> urule_wf c r) /\
  pumps ks root /\
  (forall c r, In (c, r) us <-> uspec_of us c = Some r) /\
  (forall c kids, uspec_of us c = Some (UProduct kids) ->
     forall k, In k kids -> 0 <= snd k /\ snd k = dmin_of us (fst k)) /\
  (forall c, 0 <= dmin_of us c).

Theorem crit_okb_sound : crit_okb us ks root = true -> crit_hyps.
Proof.
  unfold crit_okb, crit_parts. cbn [forallb]. rewrite !andb_true_iff.
  intros (H1 & H2 & H3 & H4 & H5 & _).
  split; [|split; [|split; [|split; [|split]]]].
  - intros k Hk. unfold keys_okb in H2. rewrite forallb_forall in H2. specialize (H2 k Hk).
    unfold key_okb in H2. destruct (uspec_of us (parent k)) as [r|]; [|discriminate].
    exists r. split; [reflexivity|apply kids_eqb_eq; exact H2].
  - intros c r E. apply uspec_of_In in E. unfold wf_okb in H3. rewrite forallb_forall in H3.
    apply urule_wfb_sound. exact (H3 _ E).
  - apply pumpsb_spec. exact H5.
  - intros c r. split; [apply In_uspec_of; exact H1|apply uspec_of_In].
  - intros c kids E k Hk. apply uspec_of_In in E.
    pose proof (decls_In us c kids k E Hk) as D.
    unfold mins_okb in H4. rewrite forallb_forall in H4. specialize (H4 k D).
    apply andb_true_iff in H4. destruct H4 as [A B]. split; [apply Z.leb_le, A|apply Z.eqb_eq, B].
  - apply dmin_nonneg. exact H4.
Qed.

(* the verdict is exact on its first three parts + pumps: a false verdict names a failing hypothesis
   (completeness of the parts that are hypotheses of the criterion) *)
Lemma pumps_part_exact : pumpsb ks root = true <-> pumps ks root.
Proof. apply pumpsb_spec. Qed.

(* the criterion, its decidable hypotheses replaced by the verdict *)
Theorem closed_form_criterion_decided (W G : nat -> Z -> Z) :
  crit_okb us ks root = true ->
  (forall c r, In (c, r) us -> genuine_u W c r) ->
  (forall c m, m < dmin_of us c -> W c m = 0) ->
  (forall c m, m < dmin_of us c -> G c m = 0) ->
  (forall c r, In (c, r) us -> satisfies G c r) ->
  forall n, 0 <= n -> G root n = W root n.
Proof.
  intros Hok GW Wlow Glow Gsat n Hn.
  destruct (crit_okb_sound Hok) as (K & Wf & P & Iff & Mins & Nn).
  apply (closed_form_criterion (uspec_of us) ks K Wf W G); auto.
  - intros c r E. apply GW, Iff, E.
  - intros c m Hm. apply Wlow. specialize (Nn c). lia.
  - intros c kids E k m Hk Hm. apply Wlow. destruct (Mins c kids E k Hk) as [_ <-]. exact Hm.
  - intros c m Hm. apply Glow. specialize (Nn c). lia.
  - intros c r E. apply Gsat, Iff, E.
  - intros c kids E k m Hk Hm. apply Glow. destruct (Mins c kids E k Hk) as [_ <-]. exact Hm.
Qed.

(* selection + identity check = every order, the decidable premises replaced by the two verdicts *)
Theorem genf_selected_closed_form_decided check groot classes (W : nat -> Z -> Z) bs b :
  crit_okb us ks root = true ->
  sel_okb us classes check = true ->
  genf_select check groot classes W bs = Some b ->
  (forall c r, In (c, r) us -> genuine_u W c r) ->
  (forall c m, m < dmin_of us c -> W c m = 0) ->
  (forall c m, m < 0 -> family b c m = 0) ->
  (forall c r, In (c, r) us -> satisfies (family b) c r) ->
  forall n, 0 <= n -> family b root n = W root n.
Proof.
  intros Hok Hsel Hs GW Wlow Gneg Gsat n Hn.
  destruct (crit_okb_sound Hok) as (K & Wf & P & Iff & Mins & Nn).
  apply (genf_selected_closed_form (uspec_of us) ks K Wf check groot classes W bs b Hs); auto.
  - intros c r E. apply GW, Iff, E.
  - intros c m Hm. apply Wlow. specialize (Nn c). lia.
  - intros c kids E k m Hk Hm. apply Wlow. destruct (Mins c kids E k Hk) as [_ <-]. exact Hm.
  - intros c kids E k Hk. apply uspec_of_In in E. pose proof (decls_In us c kids k E Hk) as D.
    unfold sel_okb in Hsel. rewrite forallb_forall in Hsel. specialize (Hsel k D).
    apply andb_true_iff in Hsel. destruct Hsel as [A B].
    split; [apply memn_In, A|apply Z.leb_le, B].
  - intros c r E. apply Gsat, Iff, E.
Qed.

End Decided.

(* ------------------------------------------------------------ the table checks *)
Lemma convz_conv fs : forall rs n, convz fs rs n = conv fs rs n.
Proof.
  induction fs as [|f fs IH]; intros rs n; [reflexivity|].
  destruct rs as [|[lo hi] rs]; [reflexivity|]. cbn [convz conv].
  apply zsum_ext. intros m _. rewrite IH. destruct (Z.eqb_spec (f m) 0) as [E|E]; [rewrite E; lia|reflexivity].
Qed.

(* genuine_u restricted to the sizes 0..M *)
Definition genuine_u_upto (W : nat -> Z -> Z) (M : Z) (c : nat) (r : urule) : Prop :=
  match r with
  | UUnion kids => forall n, 0 <= n <= M -> W c n = psum (fun k => W k n) kids
  | UProduct kids =>
      forall n, 0 <= n <= M ->
        W c n = conv (map W (map fst kids)) (map (fun _ => (0, n + 1)) (map fst kids)) n
  | UComplement p cs idx => forall n, 0 <= n <= M -> W p n = psum (fun k => W k n) cs
  | UAtom m => forall n, 0 <= n <= M -> W c n = if n =? m then 1 else 0
  | UEmpty => forall n, 0 <= n <= M -> W c n = 0
  end.

Lemma genuine_u_upto_of W c r : genuine_u W c r -> forall M, genuine_u_upto W M c r.
Proof. destruct r; simpl; intros H M n Hn; apply H; lia. Qed.

Theorem genuine_ub_spec W M c r : genuine_ub W M c r = true <-> genuine_u_upto W M c r.
Proof.
  unfold genuine_ub. rewrite forallb_forall. split.
  - intros H. destruct r; simpl; intros n Hn;
      (assert (In n (zrange 0 (M + 1))) as I by (apply in_zrange; lia));
      specialize (H n I); simpl in H; apply Z.eqb_eq in H; rewrite ?convz_conv in H; exact H.
  - intros H n I. apply in_zrange in I.
    destruct r; simpl in *; apply Z.eqb_eq; rewrite ?convz_conv; apply H; lia.
Qed.

Theorem recur_okb_spec W M c r :
  recur_okb W M c r = true <->
  forall n, 0 <= n <= M ->
    r_op Z (to_srule r) (fun i m => W (kid Z (to_srule r) i) m) (W c) n = W c n.
Proof.
  unfold recur_okb. cbv zeta. rewrite forallb_forall. split.
  - intros H n Hn. apply Z.eqb_eq. apply H. apply in_zrange. lia.
  - intros H n I. apply in_zrange in I. apply Z.eqb_eq. apply H. lia.
Qed.

Theorem low_okb_spec W M us :
  low_okb W M us = true <->
  forall k, In k (decls us) -> forall m, 0 <= m <= M -> m < snd k -> W (fst k) m = 0.
Proof.
  unfold low_okb. rewrite forallb_forall. split.
  - intros H k Hk m Hm Hlt. specialize (H k Hk). rewrite forallb_forall in H.
    apply Z.eqb_eq. apply H. apply in_zrange. lia.
  - intros H k Hk. rewrite forallb_forall. intros m I. apply in_zrange in I.
    apply Z.eqb_eq. apply H; auto; lia.
Qed.
