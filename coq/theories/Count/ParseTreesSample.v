(* C08 on OBJECTS.  The sampler of Count/SampleModel.v returns parse trees; the real
   Rule.random_sample_object_of_size returns objects: its sub-samplers return objects and on the way up it
   applies  objs = tuple(self.backward_map(subobjs)); random.choice(objs).  Count/ParseTrees.v `osample`
   is that sampler.  Here:
     sim                 lock-step simulation of two random computations (same draws, related results)
     sample_osample      the object sampler runs in lock step with the tree sampler and, whenever the tree
                         sampler returns t, returns `unparse t` (the composition of backward maps IS unparse;
                         every random.choice is over a one-element tuple)
     uniform_objects     C08_uniform through the bijection objects <-> parse trees
   `describes`: the C08 descriptor (kinds, children, minimum sizes) and the C07 descriptor (rules with maps)
   describe the same specification. *)
From Coq Require Import ZArith List Bool Lia QArith Qfield Setoid Morphisms.
From CSS Require Import Base.PyList Gen.Prelude Gen.Compositions Count.CompositionsSpec
                        Count.ObjectsModel Count.ObjectsLists Count.ObjectsProofs Count.ObjectsSpec
                        Count.SampleModel Count.SampleWalk Count.SampleComps Count.SampleProb Count.SampleUniform
                        Count.ParseTrees Count.ParseTreesProofs.
Import ListNotations.
Open Scope Z_scope.

(* ---------------------------------------------------------------- lock-step simulation *)
Inductive sim {A B} (R : A -> B -> Prop) : rc A -> rc B -> Prop :=
| sim_ret a b : R a b -> sim R (Ret a) (Ret b)
| sim_fail e : sim R (Fail e) (Fail e)
| sim_draw lo hi k k' : (forall r, lo <= r <= hi -> sim R (k r) (k' r)) -> sim R (Draw lo hi k) (Draw lo hi k').

Lemma sim_prob {A B} (R : A -> B -> Prop) (P : A -> bool) (P' : B -> bool) m m' :
  sim R m m' -> (forall a b, R a b -> P a = P' b) -> (prob P m == prob P' m')%Q.
Proof.
  intros Hs HP. induction Hs as [a b Hab|e|lo hi k k' Hk IH]; simpl.
  - rewrite (HP a b Hab). reflexivity.
  - reflexivity.
  - destruct (hi <? lo); [reflexivity|].
    rewrite (sumQ_ext (fun r => prob P (k r)) (fun r => prob P' (k' r))); [reflexivity|].
    intros r Hr. apply in_py_range' in Hr. apply IH. lia.
Qed.

Lemma sim_bind {A B A' B'} (R : A -> B -> Prop) (S : A' -> B' -> Prop) m m' g g' :
  sim R m m' -> (forall a b, R a b -> sim S (g a) (g' b)) -> sim S (bind m g) (bind m' g').
Proof.
  intros Hs Hg. induction Hs as [a b Hab|e|lo hi k k' Hk IH]; simpl.
  - apply Hg. assumption.
  - constructor.
  - constructor. intros r Hr. apply IH. assumption.
Qed.

Lemma sim_weaken {A B} (R R' : A -> B -> Prop) m m' :
  sim R m m' -> (forall a b, R a b -> R' a b) -> sim R' m m'.
Proof. intros Hs H. induction Hs; constructor; auto. Qed.

(* the same draws lead to the same outcome kind: run in lock step *)
Inductive all3 {X A B} (R : X -> A -> B -> Prop) : list X -> list A -> list B -> Prop :=
| all3_nil : all3 R [] [] []
| all3_cons x a b xs l l' : R x a b -> all3 R xs l l' -> all3 R (x :: xs) (a :: l) (b :: l').

Lemma sim_mapM {X A B} (R : X -> A -> B -> Prop) (f : X -> rc A) (f' : X -> rc B) : forall l,
  (forall x, In x l -> sim (R x) (f x) (f' x)) -> sim (all3 R l) (mapM f l) (mapM f' l).
Proof.
  induction l as [|x l IH]; intros H; simpl.
  - constructor. constructor.
  - eapply sim_bind; [apply H; left; reflexivity|]. intros a b Hab.
    eapply sim_bind; [apply IH; intros y Hy; apply H; right; assumption|]. intros l1 l2 Hl.
    constructor. constructor; assumption.
Qed.

Lemma walk_index {B} (weight : B -> res (option Z)) : forall bs r t0 i0 i b,
  walk weight r t0 i0 bs = Ok (i, b) -> exists j, i = (i0 + j)%nat /\ nth_error bs j = Some b.
Proof.
  induction bs as [|b0 bs IH]; intros r t0 i0 i b; simpl; [discriminate|].
  destruct (weight b0) as [[w|]|e]; try discriminate.
  - destruct (r <=? t0 + w).
    + intros H. injection H as <- <-. exists O. split; [lia|reflexivity].
    + intros H. apply IH in H. destruct H as (j & -> & Hj). exists (S j). split; [lia|exact Hj].
  - intros H. apply IH in H. destruct H as (j & -> & Hj). exists (S j). split; [lia|exact Hj].
Qed.

Section Link.
Context {obj : Type}.
Variable size : obj -> Z.
Variable In_cls : nat -> obj -> Prop.
Variable par : nat -> obj -> params.
Variable spec : nat -> option (rule obj).
Variable atom : nat -> option obj.
Variable fwd : nat -> obj -> subobj obj.
Variable rule_of : nat -> cls.

Notation unparse := (unparse spec atom).
Notation parse := (parse spec atom fwd).
Notation twf := (twf spec atom).
Notation tsz := (tsz size atom).

(* ---------------------------------------------------------------- the two descriptors agree *)
Definition kind_of (r : option (rule obj)) (a : option obj) : Z :=
  match r with
  | Some (RUnion _ _ _) => K_UNION
  | Some (RProduct _ _ _ _ _) => K_PRODUCT
  | Some (RVerified _) => match a with Some _ => K_ATOM | None => K_EMPTY end
  | None => K_EMPTY
  end.
Definition kids_of (r : option (rule obj)) : list nat :=
  match r with
  | Some (RUnion k _ _) => k
  | Some (RProduct k _ _ _ _) => k
  | _ => []
  end.
Definition describes : Prop := forall c,
  c_kind (rule_of c) = kind_of (spec c) (atom c) /\
  c_kids (rule_of c) = kids_of (spec c) /\
  (forall a, c_kind (rule_of c) = K_ATOM -> atom c = Some a -> size a = c_min (rule_of c)).

Hypothesis Hdesc : describes.

Lemma kind_atom c : c_kind (rule_of c) = K_ATOM <->
  (exists tbl, spec c = Some (RVerified tbl)) /\ atom c <> None.
Proof.
  destruct (Hdesc c) as (Hk & _). rewrite Hk. unfold kind_of.
  destruct (spec c) as [[| |tbl]|]; try (split; [discriminate|intros [[t E] _]; discriminate]).
  destruct (atom c).
  - split; [intros _; split; [eexists; reflexivity|discriminate]|reflexivity].
  - split; [discriminate|intros [_ H]; congruence].
Qed.

Lemma kind_union c : c_kind (rule_of c) = K_UNION <->
  exists maps bwd, spec c = Some (RUnion (c_kids (rule_of c)) maps bwd).
Proof.
  destruct (Hdesc c) as (Hk & Hc & _). rewrite Hk, Hc. unfold kind_of, kids_of.
  destruct (spec c) as [[k m b|k mi ma m b|tbl]|].
  - split; [intros _; eauto|reflexivity].
  - split; [discriminate|intros (m' & b' & E); discriminate].
  - split; [destruct (atom c); discriminate|intros (m' & b' & E); discriminate].
  - split; [discriminate|intros (m' & b' & E); discriminate].
Qed.

Lemma kind_product c : c_kind (rule_of c) = K_PRODUCT <->
  exists mins maxs maps bwd, spec c = Some (RProduct (c_kids (rule_of c)) mins maxs maps bwd).
Proof.
  destruct (Hdesc c) as (Hk & Hc & _). rewrite Hk, Hc. unfold kind_of, kids_of.
  destruct (spec c) as [[k m b|k mi ma m b|tbl]|].
  - split; [discriminate|intros (a1 & a2 & a3 & a4 & E); discriminate].
  - split; [intros _; eauto 6|reflexivity].
  - split; [destruct (atom c); discriminate|intros (a1 & a2 & a3 & a4 & E); discriminate].
  - split; [discriminate|intros (a1 & a2 & a3 & a4 & E); discriminate].
Qed.

(* the two notions of well-formed parse tree coincide *)
Theorem wf_twf : forall t c, wf rule_of t c <-> twf t c.
Proof using Hdesc.
  clear In_cls par fwd.
  induction t as [c0|c0 i t IH|c0 ts IH] using tree_ind'; intros c; simpl.
  - rewrite kind_atom. tauto.
  - rewrite kind_union. split.
    + intros (-> & (maps & bwd & Hs) & ci & Hi & Hw). split; [reflexivity|].
      exists (c_kids (rule_of c)), maps, bwd, ci. rewrite <- IH. auto.
    + intros (-> & kids & maps & bwd & ci & Hs & Hi & Hw). split; [reflexivity|].
      assert (Hk : c_kids (rule_of c) = kids) by (destruct (Hdesc c) as (_ & Hc & _); rewrite Hc, Hs; reflexivity).
      subst kids. split; [eauto|]. exists ci. rewrite IH. auto.
  - rewrite kind_product.
    assert (G : forall kids, all2 (wf rule_of) ts kids <-> all2 twf ts kids).
    { induction IH as [|x ts Hx _ IHts]; intros [|k kids]; simpl; try tauto. rewrite Hx, IHts. tauto. }
    split.
    + intros (-> & (mins & maxs & maps & bwd & Hs) & Hall). split; [reflexivity|].
      exists (c_kids (rule_of c)), mins, maxs, maps, bwd. rewrite <- G. auto.
    + intros (-> & kids & mins & maxs & maps & bwd & Hs & Hall). split; [reflexivity|].
      assert (Hk : c_kids (rule_of c) = kids) by (destruct (Hdesc c) as (_ & Hc & _); rewrite Hc, Hs; reflexivity).
      subst kids. split; [eauto 6|]. rewrite G. assumption.
Qed.

(* ... and so do the sizes computed on the trees *)
Theorem tsize_tsz : forall t c, twf t c -> tsize rule_of t = tsz t.
Proof.
  induction t as [c0|c0 i t IH|c0 ts IH] using tree_ind'; intros c Hw; simpl in *.
  - destruct Hw as (-> & Hs & Ha). destruct (atom c) as [a|] eqn:Ea; [|congruence].
    unfold cmin. symmetry. destruct (Hdesc c) as (_ & _ & H). apply H; [|assumption].
    apply kind_atom. split; [assumption|congruence].
  - destruct Hw as (_ & kids & maps & bwd & ci & _ & _ & Hw). eapply IH; eassumption.
  - destruct Hw as (_ & kids & mins & maxs & maps & bwd & _ & Hall). f_equal.
    clear - IH Hall. revert kids Hall. induction IH as [|x ts Hx _ IHts]; intros [|k kids] Hall; simpl in *; try tauto.
    destruct Hall as [H1 H2]. f_equal; [eapply Hx; eassumption|eapply IHts; eassumption].
Qed.

(* ---------------------------------------------------------------- the object sampler is unparse of the tree sampler *)
Hypothesis contracts : forall c, node_ok size In_cls par spec atom fwd c.
Variable cnt : nat -> Z -> Z.

Definition RT (c : nat) (t : tree) (o : obj) : Prop := twf t c /\ unparse t = Some o.

Lemma only_some (l : list obj) o : only l = Some o -> l = [o].
Proof. destruct l as [|x [|y l]]; simpl; try discriminate. intros E. inversion E. reflexivity. Qed.

Lemma sim_choice c t o l : l = [o] -> forall t', RT c t' o -> t = t' -> sim (RT c) (choice1 t) (choice l).
Proof.
  intros -> t' H <-. unfold choice1, choice. simpl. constructor. intros r Hr.
  assert (r = 0) by lia. subst r. simpl. constructor. assumption.
Qed.

Lemma all3_trees : forall (ps : list (nat * Z)) ts ys,
  all3 (fun p t y => RT (fst p) t y) ps ts ys ->
  all2 twf ts (map fst ps) /\ omap unparse ts = Some ys.
Proof.
  induction 1 as [|p t y ps ts ys [Hw Hu] _ [IH1 IH2]]; simpl; [auto|].
  rewrite Hu, IH2. auto.
Qed.

Theorem sample_osample : forall f c n,
  sim (RT c) (sample rule_of cnt f c n) (osample spec atom rule_of cnt f c n).
Proof.
  induction f as [|f IH]; intros c n; [constructor|].
  simpl. destruct (c_kind (rule_of c) =? K_ATOM) eqn:Ka.
  { apply Z.eqb_eq in Ka. pose proof Ka as Ka'. apply kind_atom in Ka'. destruct Ka' as [[tbl Hs] Ha].
    destruct (n =? c_min (rule_of c)); [|constructor].
    destruct (atom c) as [a|] eqn:Ea; [|congruence].
    constructor. split.
    - simpl. split; [reflexivity|]. split; [eauto|congruence].
    - simpl. rewrite Hs. assumption. }
  destruct (c_kind (rule_of c) =? K_EMPTY); [constructor|].
  destruct (c_kind (rule_of c) =? K_UNION) eqn:Ku.
  { apply Z.eqb_eq in Ku. apply kind_union in Ku. destruct Ku as (maps & bwd & Hs).
    constructor. intros r Hr.
    destruct (walk (spec_union_weight cnt n) r 0 0%nat (c_kids (rule_of c))) as [[i ci]|e] eqn:Ew; [|constructor].
    apply walk_index in Ew. destruct Ew as (j & -> & Hj). simpl in Hj.
    eapply sim_bind; [apply IH|]. intros t y [Hw Hu].
    assert (Hw' : twf (UNode c j t) c).
    { simpl. split; [reflexivity|]. exists (c_kids (rule_of c)), maps, bwd, ci. auto. }
    destruct (unparse_sound size In_cls par spec atom fwd contracts _ _ Hw') as (o & Hu' & _).
    pose proof Hu' as Hu''. simpl in Hu''. rewrite Hs, Hu in Hu''. apply only_some in Hu''.
    apply (sim_choice c _ o _) with (t' := UNode c j t); [|split; assumption|reflexivity].
    unfold bwd_of. rewrite Hs. exact Hu''. }
  destruct (c_kind (rule_of c) =? K_PRODUCT) eqn:Kp; [|constructor].
  apply Z.eqb_eq in Kp. pose proof Kp as Kp'. apply kind_product in Kp'. destruct Kp' as (mins & maxs & maps & bwd & Hs).
  constructor. intros r Hr.
  destruct (walk (spec_prod_weight cnt (c_kids (rule_of c))) r 0 0%nat (spec_comps rule_of c n)) as [[i comp]|e] eqn:Ew;
    [|constructor].
  apply walk_in in Ew. apply spec_comps_in in Ew. destruct Ew as (_ & Hlen & _ & _).
  eapply sim_bind.
  { apply (sim_mapM (fun (p : nat * Z) t y => RT (fst p) t y)). intros p _. apply IH. }
  intros ts ys Hall. apply all3_trees in Hall. destruct Hall as [Hall Hys].
  rewrite map_fst_combine in Hall by (rewrite comp_sizes_eq; lia).
  assert (Hw' : twf (PNode c ts) c).
  { simpl. split; [reflexivity|]. exists (c_kids (rule_of c)), mins, maxs, maps, bwd. auto. }
  destruct (unparse_sound size In_cls par spec atom fwd contracts _ _ Hw') as (o & Hu' & _).
  pose proof Hu' as Hu''. rewrite unparse_PNode, Hs, Hys in Hu''. apply only_some in Hu''.
  apply (sim_choice c _ o _) with (t' := PNode c ts); [|split; assumption|reflexivity].
  unfold bwd_of. rewrite Hs. exact Hu''.
Qed.

Corollary spec_sample_osample : forall f root n,
  sim (RT root) (spec_sample rule_of cnt f root n) (ospec_sample spec atom rule_of cnt f root n).
Proof.
  intros f root n. unfold spec_sample, ospec_sample. destruct (0 <? cnt root n); [apply sample_osample|constructor].
Qed.

(* ---------------------------------------------------------------- C08_uniform on objects *)
Variable rank : nat -> Z -> nat.
Hypothesis closed : forall c r n c' m, spec c = Some r -> 0 <= n -> In (c', m) (reads r n) -> spec c' <> None.
Hypothesis rank_reads : forall c r n c' m, spec c = Some r -> 0 <= n -> In (c', m) (reads r n) ->
                                           0 <= m /\ (rank c' m < rank c n)%nat.
Hypothesis size_nonneg : forall c o, In_cls c o -> 0 <= size o.
Variable obj_eqb : obj -> obj -> bool.
Hypothesis obj_eqb_eq : forall a b, obj_eqb a b = true <-> a = b.

(* the hypotheses of C08_uniform *)
Hypothesis cnt_nonneg : forall c n, 0 <= cnt c n.
Hypothesis cnt_atom : forall c, c_kind (rule_of c) = K_ATOM -> cnt c (cmin rule_of c) = 1.
Hypothesis cnt_union : forall c n, c_kind (rule_of c) = K_UNION ->
  cnt c n = py_sum (map (fun ci => cnt ci n) (c_kids (rule_of c))).
Hypothesis cnt_product : forall c n, c_kind (rule_of c) = K_PRODUCT ->
  cnt c n = py_sum (map (prod_counts cnt (c_kids (rule_of c)))
                        (compositions n (zlen (c_kids (rule_of c))) (map (cmin rule_of) (c_kids (rule_of c)))
                                      (map (cmax rule_of) (c_kids (rule_of c))))).
Hypothesis min_nonneg : forall c, 0 <= cmin rule_of c.
Hypothesis min_contract : forall c m, cnt c m <> 0 ->
  cmin rule_of c <= m /\ (c_atom (rule_of c) = true -> m <= cmin rule_of c).
Hypothesis product_min : forall c, c_kind (rule_of c) = K_PRODUCT ->
  c_kids (rule_of c) <> [] /\ cmin rule_of c <= py_sum (map (cmin rule_of) (c_kids (rule_of c))).

Theorem uniform_objects : forall root o,
  spec root <> None -> In_cls root o ->
  exists t, twf t root /\ unparse t = Some o /\
    forall fuel, (height t < fuel)%nat ->
      (prob (obj_eqb o) (ospec_sample spec atom rule_of cnt fuel root (size o))
       == 1 / inject_Z (cnt root (size o)))%Q.
Proof.
  intros root o Hroot Ho.
  destruct (parse_total size In_cls par spec atom fwd contracts rank closed rank_reads size_nonneg
                        (rank root (size o)) root o (le_n _) Hroot Ho) as (t & Hw & Hu & _).
  exists t. split; [assumption|]. split; [assumption|]. intros fuel Hf.
  destruct (unparse_sound size In_cls par spec atom fwd contracts t root Hw) as (o' & Hu' & _ & Hs & _).
  rewrite Hu in Hu'. inversion Hu'; subst o'.
  assert (Hsz : tsize rule_of t = size o) by (rewrite (tsize_tsz t root Hw); congruence).
  rewrite <- Hsz.
  rewrite <- (spec_sample_uniform rule_of cnt cnt_nonneg cnt_atom cnt_union cnt_product min_nonneg min_contract
                                  product_min t root fuel (proj2 (wf_twf t root) Hw) Hf).
  symmetry. eapply sim_prob; [apply spec_sample_osample|].
  intros t' o' [Hw' Hu2].
  destruct (tree_eqb t t') eqn:Et.
  - apply tree_eqb_eq in Et. subst t'. rewrite Hu in Hu2. inversion Hu2; subst o'.
    symmetry. apply obj_eqb_eq. reflexivity.
  - destruct (obj_eqb o o') eqn:Eo; [|reflexivity]. apply obj_eqb_eq in Eo. subst o'.
    assert (t = t') by (eapply (unparse_inj size In_cls par spec atom fwd contracts); eassumption).
    subst t'. rewrite tree_eqb_refl in Et. discriminate.
Qed.

(* the object sampler never returns an object of another class or size: everything it returns is the
   unparse of a well-formed tree of the root (support) *)
Theorem osample_support : forall fuel root n (P : obj -> bool),
  (forall t o, twf t root -> unparse t = Some o -> P o = false) ->
  (prob P (ospec_sample spec atom rule_of cnt fuel root n) == 0)%Q.
Proof.
  intros fuel root n P HP.
  rewrite <- (sim_prob (RT root) (fun _ => false) P _ _ (spec_sample_osample fuel root n)).
  - generalize (spec_sample rule_of cnt fuel root n). intros m.
    induction m as [a|e|lo hi k IH]; simpl; try reflexivity.
    destruct (hi <? lo); [reflexivity|]. rewrite sumQ_zero; [apply Qdiv_zero|]. intros x _. apply IH.
  - intros t o [Hw Hu]. symmetry. eapply HP; eassumption.
Qed.

End Link.
