(* C09, part 4: the parameter-map variants agree where the code relies on it, and the
   constructors rebuilt by EquivalenceRule are genuine when the original rule is. *)
From Coq Require Import ZArith List Bool Lia.
From CSS Require Import Gen.Prelude Count.Terms Count.Constructors Count.ConstructorsUnionProduct
  Count.ConstructorsComplement.
Import ListNotations.
Open Scope Z_scope.

(* ---------------------------------------------------------------- param_map variants *)
(* both loops visit the (position, value) pairs of this list in order *)
Definition visits (pm : list (list nat)) (param : params) : list (nat * Z) :=
  flat_map (fun pv : list nat * Z => map (fun p => (p, snd pv)) (fst pv)) (combine pm param).

Lemma fold_visits {S} (step : S -> nat -> Z -> S) (l : list (list nat * Z)) : forall s,
  fold_left (fun acc (pv : list nat * Z) => fold_left (fun acc2 p => step acc2 p (snd pv)) (fst pv) acc) l s =
  fold_left (fun acc (pz : nat * Z) => step acc (fst pz) (snd pz))
            (flat_map (fun pv : list nat * Z => map (fun p => (p, snd pv)) (fst pv)) l) s.
Proof.
  induction l as [|[ps v] l IH]; intros s; simpl; [reflexivity|].
  rewrite fold_left_app, <- IH. f_equal.
  generalize s. induction ps as [|p ps IHp]; intros s0; simpl; [reflexivity|apply IHp].
Qed.

Lemma nth_upd_other {A} (l : list A) p q f d : p <> q -> nth q (upd l p f) d = nth q l d.
Proof.
  revert p q. induction l as [|x l IH]; intros [|p] [|q] H; simpl; try reflexivity; try lia.
  apply IH. lia.
Qed.

Lemma unnone_upd_none l p v :
  nth p l None = None -> unnone (upd l p (fun _ => Some v)) = upd (unnone l) p (fun x => x + v).
Proof.
  revert p. induction l as [|o l IH]; intros [|p] H; simpl in *; try reflexivity.
  - subst o. reflexivity.
  - f_equal. apply IH. exact H.
Qed.

Lemma du_fold_sum (flat : list (nat * Z)) : forall l,
  NoDup (map fst flat) -> (forall p v, In (p, v) flat -> nth p l None = None) ->
  exists l', fold_left (fun acc (pz : nat * Z) => du_set acc (fst pz) (snd pz)) flat (Ok l) = Ok l' /\
             unnone l' = fold_left (fun acc (pz : nat * Z) => upd acc (fst pz) (fun x => x + snd pz)) flat (unnone l).
Proof.
  induction flat as [|[p v] flat IH]; intros l Hnd Hnone.
  - exists l. split; reflexivity.
  - simpl. inversion Hnd as [|? ? Hnotin Hnd']; subst.
    rewrite (Hnone p v (or_introl eq_refl)).
    destruct (IH (upd l p (fun _ => Some v)) Hnd') as (l' & H1 & H2).
    + intros p' v' Hin. rewrite nth_upd_other.
      * apply (Hnone p' v'). right. exact Hin.
      * intros ->. apply Hnotin. apply in_map_iff. exists (p', v'). auto.
    + exists l'. split; [exact H1|]. rewrite H2. rewrite unnone_upd_none; [reflexivity|].
      apply (Hnone p v). left. reflexivity.
Qed.

Lemma nth_repeat_none p num : nth p (repeat (@None Z) num) None = None.
Proof. revert p. induction num as [|n IH]; intros [|p]; simpl; auto. Qed.

Lemma unnone_repeat num : unnone (repeat None num) = repeat 0 num.
Proof. induction num; simpl; [reflexivity|f_equal; assumption]. Qed.

(* DisjointUnion.param_map never trips its assertion and equals Constructor.param_map
   when no parent position is targeted twice *)
Lemma du_param_map_sum pm num param :
  NoDup (map fst (visits pm param)) ->
  du_param_map pm num param = Ok (sum_param_map pm num param).
Proof.
  intros Hnd. unfold du_param_map, sum_param_map.
  rewrite (fold_visits (fun acc p v => du_set acc p v)).
  rewrite (fold_visits (fun acc p v => upd acc p (fun x => x + v))).
  destruct (du_fold_sum (visits pm param) (repeat None num) Hnd) as (l' & H1 & H2).
  - intros p v _. apply nth_repeat_none.
  - unfold visits in H1, H2. rewrite H1. simpl. rewrite H2, unnone_repeat. reflexivity.
Qed.

Lemma visits_positions pm param :
  length param = length pm -> map fst (visits pm param) = concat pm.
Proof.
  unfold visits. revert param. induction pm as [|ps pm IH]; intros [|v param] H; simpl in *; try lia; [reflexivity|].
  rewrite map_app, map_map. simpl. rewrite map_id. f_equal. apply IH. lia.
Qed.

Lemma du_param_map_sum' pm num param :
  length param = length pm -> NoDup (concat pm) ->
  du_param_map pm num param = Ok (sum_param_map pm num param).
Proof. intros Hl Hnd. apply du_param_map_sum. rewrite visits_positions; assumption. Qed.

(* ---------------------------------------------------------------- EquivalenceRule *)
Lemma allzero_rekey f t : allzero t -> allzero (rekey f t).
Proof.
  intros H k v Hin. unfold rekey in Hin. apply in_map_iff in Hin. destruct Hin as ([k' v'] & E & Hin).
  simpl in E. inversion E; subst. eapply H; eauto.
Qed.

Lemma union_table_allzero : forall fs tabs q, Forall allzero tabs -> tget (union_table fs tabs) q = 0.
Proof.
  induction fs as [|f fs IH]; intros [|t tabs] q H; try reflexivity.
  inversion H; subst. rewrite union_table_cons, tget_app.
  rewrite (tget_allzero (rekey f t) q) by (apply allzero_rekey; assumption).
  rewrite IH by assumption. reflexivity.
Qed.

(* all children but one have no objects: the union is the re-keyed table of that child *)
Lemma union_table_single : forall ci fs tabs,
  (ci < length tabs)%nat -> length fs = length tabs ->
  (forall j, j <> ci -> (j < length tabs)%nat -> allzero (nth j tabs [])) ->
  teq (union_table fs tabs) (union_table [nth ci fs (fun k => k)] [nth ci tabs []]).
Proof.
  induction ci as [|i IH]; intros fs tabs Hci Hlen Hz q; destruct fs as [|f fs], tabs as [|t tabs];
    simpl in Hci, Hlen; try lia.
  - rewrite !union_table_cons. simpl nth. rewrite !tget_app. f_equal.
    rewrite union_table_allzero; [reflexivity|].
    apply Forall_forall. intros x Hx. destruct (In_nth tabs x [] Hx) as (j & Hj & <-).
    apply (Hz (S j)); simpl; lia.
  - rewrite union_table_cons, tget_app. simpl nth.
    rewrite (tget_allzero (rekey f t) q); [|apply allzero_rekey; apply (Hz 0%nat); simpl; lia].
    rewrite (IH fs tabs); [reflexivity|lia|lia|].
    intros j Hj Hlt. apply (Hz (S j)); simpl; lia.
Qed.

Lemma equiv_union_genuine ci fs tabs Tp :
  (ci < length tabs)%nat -> length fs = length tabs ->
  (forall j, j <> ci -> (j < length tabs)%nat -> allzero (nth j tabs [])) ->
  union_genuine fs tabs Tp ->
  union_genuine [nth ci fs (fun k => k)] [nth ci tabs []] Tp.
Proof.
  intros Hci Hlen Hz Hg. unfold union_genuine in *.
  eapply teq_trans; [exact Hg|]. apply union_table_single; assumption.
Qed.

(* EquivalenceRule.__init__ picks the first non-empty child *)
Lemma first_nonempty_from_spec : forall kids s ci,
  first_nonempty_from s kids = Some ci ->
  (s <= ci)%nat /\ (ci - s < length kids)%nat /\
  k_empty (nth (ci - s) kids default_kid) = false /\
  forall j, (j < ci - s)%nat -> k_empty (nth j kids default_kid) = true.
Proof.
  induction kids as [|k kids IH]; intros s ci H; simpl in H; [discriminate|].
  destruct (k_empty k) eqn:E.
  - apply IH in H. destruct H as (H1 & H2 & H3 & H4).
    replace (ci - s)%nat with (S (ci - S s)) by lia. simpl. repeat split; try lia; try assumption.
    intros [|j] Hj; simpl; [exact E|]. apply H4. lia.
  - inversion H; subst. rewrite Nat.sub_diag. simpl. repeat split; try lia; try assumption.
Qed.

Lemma first_nonempty_spec kids ci :
  first_nonempty kids = Some ci ->
  (ci < length kids)%nat /\ k_empty (nth ci kids default_kid) = false /\
  forall j, (j < ci)%nat -> k_empty (nth j kids default_kid) = true.
Proof.
  intros H. apply first_nonempty_from_spec in H. rewrite Nat.sub_0_r in H. tauto.
Qed.

(* when exactly the child idx is non-empty, that is the child the code selects *)
Lemma first_nonempty_only kids idx :
  (idx < length kids)%nat -> k_empty (nth idx kids default_kid) = false ->
  (forall j, j <> idx -> (j < length kids)%nat -> k_empty (nth j kids default_kid) = true) ->
  first_nonempty kids = Some idx.
Proof.
  intros Hi Hne Hothers.
  destruct (first_nonempty kids) as [ci|] eqn:E.
  - apply first_nonempty_spec in E. destruct E as (H1 & H2 & H3).
    destruct (Nat.eq_dec ci idx) as [->|Hne']; [reflexivity|].
    rewrite (Hothers ci Hne' H1) in H2. discriminate.
  - exfalso. unfold first_nonempty in E.
    assert (G : forall ks s, first_nonempty_from s ks = None -> forall j, (j < length ks)%nat -> k_empty (nth j ks default_kid) = true).
    { induction ks as [|k ks IHk]; intros s H j Hj; simpl in Hj; [lia|]. simpl in H.
      destruct (k_empty k) eqn:Ek; [|discriminate]. destruct j as [|j]; simpl; [exact Ek|].
      apply (IHk (S s) H). lia. }
    rewrite (G kids 0%nat E idx Hi) in Hne. discriminate.
Qed.

(* the model's form 4 step is the one-child union with the selected child *)
Lemma equiv_union_step_eq pnames kids ktabs own n ci :
  first_nonempty kids = Some ci ->
  equiv_union_step pnames kids ktabs own n =
  bind (du_map_of (child_pos_map pnames (k_names (nth ci kids default_kid)) (k_dict (nth ci kids default_kid)))
                  (length pnames))
       (fun pm => union_get_terms [pm] [tab_at (nth ci ktabs []) n]).
Proof. intros H. unfold equiv_union_step. rewrite H. reflexivity. Qed.

(* the reverse of an equivalence: Complement with no sibling *)
Lemma equiv_complement_correct ppm g fi (TP Ti : terms) :
  union_genuine [fi] [Ti] TP -> nonneg Ti ->
  maps_ok ppm g (filter (fun e : entry => negb (snd e =? 0)) TP) ->
  (forall k v, In (k, v) Ti -> g (fi k) = k) ->
  exists r, complement_get_terms ppm [] TP [] = Ok r /\ teq r Ti.
Proof.
  intros Hg Hnn Hppm Hround.
  apply (complement_correct ppm g [] [] fi TP Ti []); try assumption.
  - constructor.
  - constructor.
Qed.
