(* C08 — the link to C01: uniform with respect to the TRUE counts.

   C08_uniform assumes of the count table only that it satisfies the recurrences get_terms
   computes.  For a specification that is productive at the root (C03's notion, the hypothesis C01's
   evaluation theorem needs) these recurrences have exactly one solution on the root — C01's
   unique_solution (Spec/Eval.v) — so whatever table the code computed, it is the true
   enumeration there, and the sampler returns every parse tree of the root with probability
   1 / (true number of objects of that size).

   The recurrences are packaged as the term operators of Spec/Eval.v (terms := Z, no
   parameters): atom, union (shift 0 on every child) and product (child i shifted by the sum of the
   other children's minimum sizes); their locality (C10's contract) is proved here. *)
From Coq Require Import ZArith List Bool Lia QArith.
From CSS Require Import Gen.Prelude Gen.Compositions Count.CompositionsSpec Forest.Spec Spec.Eval
  Count.SampleModel Count.SampleWalk Count.SampleComps Count.SampleProb Count.SampleUniform.
Import ListNotations.
Open Scope Z_scope.

Lemma map_combine_seq {A B C} (F : A -> B -> C) (d : A) : forall (l : list A) (t : list B) (s : nat),
  map (fun it : nat * B => F (nth (fst it - s) l d) (snd it)) (combine (seq s (length l)) t)
  = map (fun p : A * B => F (fst p) (snd p)) (combine l t).
Proof.
  induction l as [|a l IH]; intros [|b t] s; simpl; try reflexivity.
  rewrite Nat.sub_diag. f_equal. rewrite <- (IH t (S s)). apply map_ext_in.
  intros [i x] Hin. simpl. apply in_combine_l in Hin. apply in_seq in Hin.
  replace (i - s)%nat with (S (i - S s)) by lia. reflexivity.
Qed.

Lemma map_nth_seq {A C} (g : A -> C) (d : A) (l : list A) :
  map (fun i => g (nth i l d)) (seq 0 (length l)) = map g l.
Proof.
  assert (G : forall s, map (fun i => g (nth (i - s) l d)) (seq s (length l)) = map g l).
  { induction l as [|a l IH]; intros s; simpl; [reflexivity|]. rewrite Nat.sub_diag. f_equal.
    rewrite <- (IH (S s)). apply map_ext_in. intros i Hi. apply in_seq in Hi.
    replace (i - s)%nat with (S (i - S s)) by lia. reflexivity. }
  rewrite <- (G 0%nat). apply map_ext. intros i. rewrite Nat.sub_0_r. reflexivity.
Qed.

Lemma nth_map_any {A B} (g : A -> B) (l : list A) (a : A) (b : B) j :
  (j < length l)%nat -> nth j (map g l) b = g (nth j l a).
Proof. intros H. rewrite (nth_indep _ b (g a)) by (rewrite map_length; exact H). apply map_nth. Qed.

(* a part of a composition leaves room for the other parts' minima *)
Lemma part_le_shift : forall (mins t : list Z) i, Forall2 Z.le mins t -> (i < length mins)%nat ->
  nth i t 0 + (py_sum mins - nth i mins 0) <= py_sum t.
Proof.
  intros mins t i H. revert i. induction H as [|m x mins t Hmx H IH]; intros i Hi; simpl in Hi; [lia|].
  rewrite !py_sum_cons. destruct i as [|i]; simpl.
  - pose proof (Forall2_le_sum mins t H). lia.
  - specialize (IH i ltac:(lia)). lia.
Qed.

Section TrueCounts.
  Variable rule_of : nat -> cls.
  Notation kids c := (c_kids (rule_of c)).

  (* the rule of a class as a term operator of Spec/Eval.v *)
  Definition c08_rule (c : nat) : option (srule Z) :=
    let k := rule_of c in
    if c_kind k =? K_ATOM then
      Some (mkrule Z [] (fun _ _ n => if n =? c_min k then 1 else 0))
    else if c_kind k =? K_UNION then
      Some (mkrule Z (map (fun ci => (ci, 0)) (c_kids k))
                   (fun p _ n => py_sum (map (fun i => p i n) (seq 0 (length (c_kids k))))))
    else if c_kind k =? K_PRODUCT then
      Some (mkrule Z (map (fun ci => (ci, py_sum (map (cmin rule_of) (c_kids k)) - cmin rule_of ci)) (c_kids k))
                   (fun p _ n =>
                      py_sum (map (fun t => prodz (map (fun it : nat * Z => p (fst it) (snd it))
                                                      (combine (seq 0 (length (c_kids k))) t)))
                                  (compositions n (zlen (c_kids k)) (map (cmin rule_of) (c_kids k))
                                                (map (cmax rule_of) (c_kids k))))))
    else None.

  (* C10's contract for these operators *)
  Lemma c08_rules_local c r : c08_rule c = Some r -> local Z r.
  Proof.
    unfold c08_rule. intros H.
    destruct (c_kind (rule_of c) =? K_ATOM); [injection H as <-; intros p p' o o' n _ _; reflexivity|].
    destruct (c_kind (rule_of c) =? K_UNION).
    - injection H as <-. intros p p' o o' n Hp _. simpl. f_equal. apply map_ext_in. intros i Hi.
      apply in_seq in Hi. apply Hp; [simpl; rewrite map_length; lia|].
      unfold shift. simpl. rewrite (nth_map_any _ (kids c) 0%nat) by lia. simpl. lia.
    - destruct (c_kind (rule_of c) =? K_PRODUCT); [|discriminate].
      injection H as <-. intros p p' o o' n Hp _. simpl. f_equal. apply map_ext_in. intros t Ht.
      apply compositions_sound in Ht; [|unfold zlen; rewrite map_length; reflexivity|unfold zlen; rewrite map_length; reflexivity].
      destruct Ht as (Hz & Hs & Hle & _). f_equal. apply map_ext_in. intros [i x] Hin. simpl.
      assert (Hi : (i < length (kids c))%nat) by (apply in_combine_l in Hin; apply in_seq in Hin; lia).
      apply Hp; [simpl; rewrite map_length; exact Hi|].
      unfold shift. simpl. rewrite (nth_map_any _ (kids c) 0%nat) by exact Hi. simpl.
      assert (Ex : x = nth i t 0).
      { assert (G : forall s (t : list Z) len, In (i, x) (combine (seq s len) t) -> x = nth (i - s) t 0).
        { clear. intros s t. revert s. induction t as [|y t IH]; intros s [|len] H; simpl in H; try tauto.
          destruct H as [E|H]; [injection E as <- <-; rewrite Nat.sub_diag; reflexivity|].
          pose proof (in_combine_l _ _ _ _ H) as Hs. apply in_seq in Hs.
          rewrite (IH (S s) len H). replace (i - s)%nat with (S (i - S s)) by lia. reflexivity. }
        rewrite (G 0%nat t _ Hin). rewrite Nat.sub_0_r. reflexivity. }
      pose proof (part_le_shift (map (cmin rule_of) (kids c)) t i Hle ltac:(rewrite map_length; exact Hi)) as Hb.
      rewrite (nth_map_any _ (kids c) 0%nat) in Hb by exact Hi.
      subst x. lia.
  Qed.

  Variable U : nat -> Z -> Z.       (* ANY table satisfying the recurrences: what the code computed *)
  Variable T : nat -> Z -> Z.       (* the true enumeration *)

  (* the hypotheses of C08_uniform on U *)
  Hypothesis U_nonneg : forall c n, 0 <= U c n.
  Hypothesis U_atom : forall c, c_kind (rule_of c) = K_ATOM -> U c (cmin rule_of c) = 1.
  Hypothesis U_union : forall c n, c_kind (rule_of c) = K_UNION ->
    U c n = py_sum (map (fun ci => U ci n) (kids c)).
  Hypothesis U_product : forall c n, c_kind (rule_of c) = K_PRODUCT ->
    U c n = py_sum (map (prod_counts U (kids c))
                        (compositions n (zlen (kids c)) (map (cmin rule_of) (kids c)) (map (cmax rule_of) (kids c)))).
  Hypothesis min_nonneg : forall c, 0 <= cmin rule_of c.
  Hypothesis min_contract : forall c m, U c m <> 0 ->
    cmin rule_of c <= m /\ (c_atom (rule_of c) = true -> m <= cmin rule_of c).
  Hypothesis product_min : forall c, c_kind (rule_of c) = K_PRODUCT ->
    kids c <> [] /\ cmin rule_of c <= py_sum (map (cmin rule_of) (kids c)).
  (* verified atoms are atoms *)
  Hypothesis atoms_atomic : forall c, c_kind (rule_of c) = K_ATOM -> c_atom (rule_of c) = true.

  (* T is the true enumeration: nothing of negative size, and every rule is genuine (C09/C07) *)
  Hypothesis T_neg : forall c m, m < 0 -> T c m = 0.
  Hypothesis T_genuine : forall c r, c08_rule c = Some r -> genuine Z T c r.

  (* the root is productive w.r.t. the keys of the rules (C03 / C11 discharge this for forest searches) *)
  Variable keys : list fkey.
  Hypothesis keys_from_spec : forall k, In k keys ->
    exists r, c08_rule (parent k) = Some r /\ Forest.Spec.kids k = r_kids Z r.
  Variable root : nat.
  Hypothesis root_pumps : pumps keys root.

  Lemma U_neg c m : m < 0 -> U c m = 0.
  Proof.
    intros Hm. destruct (Z.eq_dec (U c m) 0) as [E|E]; [exact E|].
    destruct (min_contract c m E) as [H _]. pose proof (min_nonneg c). lia.
  Qed.

  Lemma U_satisfies c r n : c08_rule c = Some r -> 0 <= n ->
    r_op Z r (fun i m => U (kid Z r i) m) (U c) n = U c n.
  Proof.
    unfold c08_rule. intros H Hn.
    destruct (c_kind (rule_of c) =? K_ATOM) eqn:Ka.
    - apply Z.eqb_eq in Ka. injection H as <-. simpl.
      destruct (Z.eqb_spec n (c_min (rule_of c))) as [->|Hne]; [symmetry; apply U_atom; exact Ka|].
      destruct (Z.eq_dec (U c n) 0) as [E|E]; [symmetry; exact E|].
      destruct (min_contract c n E) as [H1 H2]. specialize (H2 (atoms_atomic c Ka)). unfold cmin in *. lia.
    - destruct (c_kind (rule_of c) =? K_UNION) eqn:Ku.
      + apply Z.eqb_eq in Ku. injection H as <-. simpl. rewrite (U_union c n Ku). f_equal.
        rewrite <- (map_nth_seq (fun ci => U ci n) 0%nat (kids c)). apply map_ext_in. intros i Hi. apply in_seq in Hi.
        unfold kid. simpl. rewrite (nth_map_any _ (kids c) 0%nat) by lia. reflexivity.
      + destruct (c_kind (rule_of c) =? K_PRODUCT) eqn:Kp; [|discriminate].
        apply Z.eqb_eq in Kp. injection H as <-. simpl. rewrite (U_product c n Kp). f_equal.
        apply map_ext. intros t. unfold prod_counts. f_equal.
        rewrite <- (map_combine_seq (fun ci s => U ci s) 0%nat (kids c) t 0%nat).
        apply map_ext_in. intros [i x] Hin. simpl. rewrite Nat.sub_0_r.
        assert (Hi : (i < length (kids c))%nat) by (apply in_combine_l in Hin; apply in_seq in Hin; lia).
        unfold kid. simpl. rewrite (nth_map_any _ (kids c) 0%nat) by exact Hi. reflexivity.
  Qed.

  (* the computed table is the true enumeration on the root *)
  Theorem root_counts_true n : 0 <= n -> U root n = T root n.
  Proof.
    intros Hn.
    apply (unique_solution Z 0 c08_rule T T_neg c08_rules_local T_genuine U U_neg U_satisfies).
    apply (pumps_ev Z c08_rule keys keys_from_spec root root_pumps n Hn).
  Qed.

  Theorem sample_uniform_true t fuel : wf rule_of t root -> (height t < fuel)%nat ->
    (prob (tree_eqb t) (spec_sample rule_of U fuel root (tsize rule_of t)) == 1 / inject_Z (T root (tsize rule_of t)))%Q.
  Proof.
    intros Hwf Hf.
    pose proof (wf_counted rule_of U U_nonneg U_atom U_union U_product min_nonneg min_contract product_min t root Hwf) as Hc.
    assert (Hn : 0 <= tsize rule_of t).
    { destruct (min_contract root (tsize rule_of t) ltac:(lia)) as [H _]. pose proof (min_nonneg root). lia. }
    rewrite <- (root_counts_true _ Hn).
    apply (spec_sample_uniform rule_of U U_nonneg U_atom U_union U_product min_nonneg min_contract product_min); assumption.
  Qed.
End TrueCounts.
