(* C08 — the threshold lemma instantiated on the two constructor-level models
   (with extra parameters): DisjointUnion.random_sample_sub_objects and
   CartesianProduct.random_sample_sub_objects. *)
From Coq Require Import ZArith List Bool Lia.
From CSS Require Import Gen.Prelude Count.SampleModel Count.SampleWalk.
Import ListNotations.
Open Scope Z_scope.

(* ------------------------------------------------------------------ union *)
Definition upicks (j : nat) (x : res utoken) : bool :=
  match x with Ok (i, _) => i =? Z.of_nat j | Err _ => false end.

Section Union.
  Variables (pvars : list Z) (kids : list child) (eps fixed : list dict) (n : Z) (params : dict).
  Variable extra : list (option dict).
  Hypothesis Hextra : union_extra eps fixed params = Ok extra.   (* get_extra_parameters does not raise *)

  Let bs := union_branches pvars kids eps extra.
  Let weight := union_weight n params.

  Lemma union_pick_walk r :
    match walk weight r 0 0%nat bs with
    | Ok (i, b) => exists t, union_pick pvars kids eps fixed n params r = Ok (Z.of_nat i, t)
    | Err e => union_pick pvars kids eps fixed n params r = Err e
    end.
  Proof.
    unfold union_pick. rewrite Hextra. fold bs. fold weight.
    destruct (walk weight r 0 0%nat bs) as [[i b]|e] eqn:W; [|reflexivity].
    apply walk_weighted in W. destruct W as (w & Hw). unfold weight, union_weight in Hw.
    destruct (ub_extra b) as [q|]; [|discriminate].
    destruct (union_zero_skip (ub_zeroes b) params); [discriminate|].
    unfold rec_count in Hw. destruct (tuple_of (ch_params (ub_child b)) q) as [t|]; [|discriminate].
    exists t. reflexivity.
  Qed.

  Lemma upicks_walk j r : upicks j (union_pick pvars kids eps fixed n params r) = picks j (walk weight r 0 0%nat bs).
  Proof.
    pose proof (union_pick_walk r) as H.
    destruct (walk weight r 0 0%nat bs) as [[i b]|e].
    - destruct H as (t & ->). simpl. destruct (Nat.eqb i j) eqn:E.
      + apply Nat.eqb_eq in E. subst. apply Z.eqb_refl.
      + apply Nat.eqb_neq in E. apply Z.eqb_neq. lia.
    - rewrite H. reflexivity.
  Qed.

  Theorem union_threshold :
    weights_ok weight bs ->
    (forall j b, nth_error bs j = Some b ->
       Z.of_nat (length (filter (fun r => upicks j (union_pick pvars kids eps fixed n params r))
                                (py_range 1 (total_weight weight bs + 1)))) = wz weight b) /\
    (forall r, 1 <= r <= total_weight weight bs ->
       exists j t, union_pick pvars kids eps fixed n params r = Ok (Z.of_nat j, t) /\ (j < length bs)%nat) /\
    (forall r, total_weight weight bs < r -> union_pick pvars kids eps fixed n params r = Err E_RUNTIME).
  Proof.
    intros Hok. split; [|split].
    - intros j b Hn. rewrite <- (walk_count weight bs j b Hok Hn).
      f_equal. f_equal. apply filter_ext_in'. intros r _. apply upicks_walk.
    - intros r Hr. destruct (walk_returns weight bs r 0 0%nat Hok ltac:(lia)) as (j & b & W & Hn).
      pose proof (union_pick_walk r) as H. rewrite W in H. destruct H as (t & H).
      exists j, t. split; [exact H|]. apply nth_error_Some. congruence.
    - intros r Hr. pose proof (union_pick_walk r) as H.
      rewrite (walk_over weight bs r 0 0%nat Hok ltac:(lia)) in H. exact H.
  Qed.
End Union.

(* a sufficient condition for weights_ok of the union: non-negative tables, and every
   child that is not skipped finds all its parameters in its dictionary *)
Definition table_nonneg (c : child) : Prop := Forall (fun e : Z * list Z * Z => 0 <= snd e) (ch_table c).

Lemma table_get_nonneg t n p : Forall (fun e : Z * list Z * Z => 0 <= snd e) t -> 0 <= table_get t n p.
Proof.
  induction 1 as [|[[n' p'] v] t Hv _ IH]; simpl; [lia|].
  destruct ((n' =? n) && zs_eqb p' p); [exact Hv|exact IH].
Qed.

Lemma union_weights_ok_suff n params bs :
  (forall b, In b bs -> table_nonneg (ub_child b)) ->
  (forall b q, In b bs -> ub_extra b = Some q -> union_zero_skip (ub_zeroes b) params = false ->
               tuple_of (ch_params (ub_child b)) q <> None) ->
  weights_ok (union_weight n params) bs.
Proof.
  intros Ht Hk b Hb. unfold union_weight.
  destruct (ub_extra b) as [q|] eqn:Eq; [|exists None; split; [reflexivity|discriminate]].
  destruct (union_zero_skip (ub_zeroes b) params) eqn:Ez; [exists None; split; [reflexivity|discriminate]|].
  unfold rec_count. specialize (Hk b q Hb Eq Ez).
  destruct (tuple_of (ch_params (ub_child b)) q) as [t|]; [|congruence].
  eexists. split; [reflexivity|]. intros w E. injection E as <-. apply table_get_nonneg. apply Ht. exact Hb.
Qed.

(* ------------------------------------------------------------------ product *)
Lemma prod_weight_tokens : forall kids ex tmp w,
  prod_weight_from tmp kids ex = Ok w -> w <> 0 -> exists toks, prod_tokens kids ex = Ok toks /\ map fst toks = map fst (firstn (length kids) ex).
Proof.
  induction kids as [|c kids IH]; intros ex tmp w H Hw.
  - simpl. exists []. split; reflexivity.
  - destruct ex as [|[s q] ex]; simpl in *.
    + exists []. split; reflexivity.
    + unfold rec_count in H. destruct (tuple_of (ch_params (pc_child c)) q) as [t|]; [|discriminate].
      destruct (tmp * table_get (ch_table (pc_child c)) s t =? 0) eqn:E.
      * injection H as <-. apply Z.eqb_eq in E. contradiction.
      * destruct (IH ex _ w H Hw) as (toks & -> & Hm). eexists. split; [reflexivity|]. simpl. f_equal. exact Hm.
Qed.

Section Product.
  Variables (pvars : list Z) (pmins : vec) (kids : list pchild) (n : Z) (params : dict) (pv : list Z).
  Hypothesis Hkids : kids <> [].
  (* the assertion of reliance_profile: the keys of **parameters are the parent's parameters *)
  Hypothesis Hpv : tuple_of pvars params = Some pv.
  Hypothesis Hlen : length params = length pvars.

  Let comps := prod_comps pvars pmins kids (n :: pv).
  Let weight := prod_weight pvars kids.

  Lemma prod_pick_unfold r :
    prod_pick pvars pmins kids n params r =
    match walk weight r 0 0%nat comps with
    | Err e => Err e
    | Ok (_, comp) =>
        match prod_extra pvars kids comp with
        | Ok (Some ex) => prod_tokens kids ex
        | Ok None => Err E_ASSERT
        | Err e => Err e
        end
    end.
  Proof.
    unfold prod_pick. destruct kids as [|k0 ks]; [congruence|].
    rewrite Hpv. rewrite Hlen. rewrite Nat.eqb_refl. reflexivity.
  Qed.

  Theorem product_threshold :
    weights_ok weight comps ->
    (forall j M, nth_error comps j = Some M ->
       Z.of_nat (length (filter (fun r => picks j (walk weight r 0 0%nat comps))
                                (py_range 1 (total_weight weight comps + 1)))) = wz weight M) /\
    (forall r, 1 <= r <= total_weight weight comps ->
       exists j M toks, walk weight r 0 0%nat comps = Ok (j, M) /\ nth_error comps j = Some M /\
                        prod_pick pvars pmins kids n params r = Ok toks) /\
    (forall r, total_weight weight comps < r -> prod_pick pvars pmins kids n params r = Err E_RUNTIME).
  Proof.
    intros Hok. split; [|split].
    - intros j M Hn. apply walk_count; assumption.
    - intros r Hr. destruct (walk_returns weight comps r 0 0%nat Hok ltac:(lia)) as (j & M & W & Hn).
      simpl in W.
      (* the returned composition has a positive weight *)
      assert (Hpos : 0 < wz weight M).
      { apply walk_iff in W; [|exact Hok|lia]. destruct W as (j' & Hj' & Hn' & Hlo & Hhi).
        simpl in Hj'. subst j'. rewrite (presum_S weight comps j M Hn) in Hhi. lia. }
      unfold wz in Hpos. destruct (weight M) as [[w|]|e] eqn:Ew; try lia.
      unfold weight, prod_weight in Ew.
      destruct (prod_extra pvars kids M) as [[ex|]|e] eqn:Ex; try discriminate.
      destruct (prod_weight_from 1 kids ex) as [w'|e] eqn:Ef; [|discriminate]. injection Ew as ->.
      destruct (prod_weight_tokens kids ex 1 w Ef ltac:(lia)) as (toks & Ht & _).
      exists j, M, toks. split; [exact W|]. split; [exact Hn|].
      rewrite prod_pick_unfold. rewrite W. rewrite Ex. exact Ht.
    - intros r Hr. rewrite prod_pick_unfold. rewrite (walk_over weight comps r 0 0%nat Hok ltac:(lia)). reflexivity.
  Qed.
End Product.
