(* Size and parameters of a parse tree from leaf data (Count/ParseTreesStats.v tszd / tprd) ARE tsz / tpr of
   Count/ParseTreesProofs.v when the leaf data are truthful; hence what the query of kind 7 of run_c07p prints for an
   object o of class c is (size o, par c o) - the statement the oracle decides on the real object.
   leavesb (the 4th field of the verdict of run_c07d) is sound: the specification the run decodes has, at every
   verified class, the one-object table of its atom (under the declared size and parameters) or the empty table. *)
From Coq Require Import ZArith List Bool Lia.
From CSS Require Import Base.Sx Base.PyList Gen.Prelude Count.ObjectsModel Count.ObjectsProofs Count.SampleModel
                        Count.SampleUniform Count.ParseTrees Count.ParseTreesProofs Count.ParseTreesStats
                        Count.ObjectsRun Count.ParseTreesRun.
Import ListNotations.
Open Scope Z_scope.

Section StatsProofs.
Context {obj : Type}.
Variable size : obj -> Z.
Variable In_cls : nat -> obj -> Prop.
Variable par : nat -> obj -> params.
Variable spec : nat -> option (rule obj).
Variable atom : nat -> option obj.
Variable fwd : nat -> obj -> subobj obj.
Variable asz : nat -> Z.
Variable apar : nat -> params.

(* the tables hold the size and the parameters of the atom of every class that has one (and the neutral values
   elsewhere: what asz_of_descs / apar_of_descs answer for a class without atom) *)
Definition leaf_data : Prop :=
  forall c, match atom c with
            | Some a => size a = asz c /\ par c a = apar c
            | None => asz c = 0 /\ apar c = []
            end.

Lemma tsz_tszd : leaf_data -> forall t, tsz size atom t = tszd asz t.
Proof.
  intros H. induction t as [c|c i t IH|c ts IH] using tree_ind'; simpl.
  - specialize (H c). destruct (atom c); destruct H as [H1 _]; symmetry in H1; exact H1 || (symmetry; exact H1).
  - exact IH.
  - f_equal. induction IH as [|x l Hx _ IHl]; simpl; [reflexivity|]. f_equal; [exact Hx|exact IHl].
Qed.

Lemma tpr_tprd : leaf_data -> forall t, tpr par spec atom t = tprd spec apar t.
Proof.
  intros H. induction t as [c|c i t IH|c ts IH] using tree_ind'; simpl.
  - specialize (H c). destruct (atom c); destruct H as [_ H2]; symmetry in H2; exact H2 || (symmetry; exact H2).
  - destruct (spec c) as [[kids maps bwd|kids mins maxs maps bwd|tbl]|]; try reflexivity.
    f_equal. exact IH.
  - destruct (spec c) as [[kids maps bwd|kids mins maxs maps bwd|tbl]|]; try reflexivity.
    f_equal. induction IH as [|x l Hx _ IHl]; simpl; [reflexivity|]. f_equal; [exact Hx|exact IHl].
Qed.

Hypothesis contracts : forall c, node_ok size In_cls par spec atom fwd c.

(* what query 7 prints is the size and the parameter tuple of the object *)
Theorem parse_stats : leaf_data -> forall f c o t,
  In_cls c o -> parse spec atom fwd f c o = Some t ->
  tszd asz t = size o /\ tprd spec apar t = par c o.
Proof.
  intros HL f c o t Ho Hp.
  destruct (parse_sound size In_cls par spec atom fwd contracts f c o t Ho Hp) as [Hw Hu].
  destruct (unparse_sound size In_cls par spec atom fwd contracts t c Hw) as (o' & Hu' & _ & Hs & Hpa).
  rewrite Hu in Hu'. inversion Hu'; subst o'.
  rewrite <- (tsz_tszd HL), <- (tpr_tprd HL). split; congruence.
Qed.

(* ... and conversely every tree of the class with these two values unparses to an object with them *)
Theorem unparse_stats : leaf_data -> forall t c, twf spec atom t c ->
  exists o, unparse spec atom t = Some o /\ In_cls c o /\ size o = tszd asz t /\ par c o = tprd spec apar t.
Proof.
  intros HL t c Hw.
  destruct (unparse_sound size In_cls par spec atom fwd contracts t c Hw) as (o & Hu & Ho & Hs & Hpa).
  exists o. rewrite <- (tsz_tszd HL), <- (tpr_tprd HL). auto.
Qed.
End StatsProofs.

(* ---------------------------------------------------------------- the run's leaf decider *)
Lemma leavesb_sound descs : leavesb descs = true -> forall c tbl,
  spec_of (map dec_rule descs) c = Some (RVerified tbl) ->
  match atom_run descs c with
  | Some a => forall n, tbl n = if n =? asz_of_descs descs c then [(apar_of_descs descs c, [a])] else []
  | None => forall n, tbl n = []
  end.
Proof.
  intros HL c tbl. unfold spec_of, atom_run, asz_of_descs, apar_of_descs. rewrite nth_error_map.
  destruct (nth_error descs c) as [d|] eqn:E; simpl; [|discriminate].
  assert (Hk : desc_kind d =? 2 = false).
  { unfold leavesb in HL. rewrite forallb_forall in HL. specialize (HL d (nth_error_In _ _ E)).
    apply negb_true_iff in HL. exact HL. }
  unfold dec_rule, atom_of_desc, desc_kind in *.
  destruct (sx_Z (sx_nth d 0)) as [|[[q|q|]|[q|q|]|]|q]; simpl in *; try discriminate;
    intros H; inversion H; subst; intros n; reflexivity.
Qed.

(* the run's leaf tables are truthful as soon as the descriptors' sizes and parameters are those of the atoms *)
Lemma leaf_data_run (size : Z -> Z) (par : nat -> Z -> params) descs :
  (forall c d, nth_error descs c = Some d -> desc_kind d = 3 ->
     size (sx_Z (sx_nth d 2)) = sx_Z (sx_nth d 1) /\ par c (sx_Z (sx_nth d 2)) = sx_Zs (sx_nth d 3)) ->
  leaf_data size par (atom_run descs) (asz_of_descs descs) (apar_of_descs descs).
Proof.
  intros H c. unfold atom_run, asz_of_descs, apar_of_descs, atom_of_desc.
  destruct (nth_error descs c) as [d|] eqn:E; [|split; reflexivity].
  specialize (H c d E). unfold desc_kind in *.
  destruct (Z.eqb_spec (sx_Z (sx_nth d 0)) 3) as [E3|_]; [apply H; exact E3|split; reflexivity].
Qed.
