(* C08 with extra parameters — what the dictionaries built while sampling mean.

   DisjointUnion.get_extra_parameters / CartesianProduct.get_extra_parameters build, for
   one child, a dictionary child variable -> value from the parent's values.  Here:
   when that succeeds, what it contains, and how the tuple the child reads off it is
   related to the parent's tuple through C09's dict_sem (Count/ConstructorsDict.v) — the
   meaning of the parameter maps get_terms uses. *)
From Coq Require Import ZArith List Bool Lia.
From CSS Require Import Gen.Prelude Count.Terms Count.Constructors Count.ConstructorsDict
  Count.SampleModel Count.SampleModelParams.
Import ListNotations.
Open Scope Z_scope.

(* ------------------------------------------------------------------ dget *)
Lemma dget_dict_get (d : dict) k : dget d k = dict_get d k.
Proof. induction d as [|[a b] d IH]; simpl; [reflexivity|]. destruct (a =? k); [reflexivity|exact IH]. Qed.

Lemma dget_app (a b : dict) k :
  dget (a ++ b) k = match dget a k with Some v => Some v | None => dget b k end.
Proof. induction a as [|[x y] a IH]; simpl; [reflexivity|]. destruct (x =? k); [reflexivity|exact IH]. Qed.

Lemma dget_In (d : dict) k v : dget d k = Some v -> In (k, v) d.
Proof.
  induction d as [|[x y] d IH]; simpl; [discriminate|].
  destruct (x =? k) eqn:E; [apply Z.eqb_eq in E; intros H; injection H as <-; left; congruence|].
  intros H. right. apply IH. exact H.
Qed.

Lemma dget_None (d : dict) k : dget d k = None <-> ~ In k (map fst d).
Proof.
  induction d as [|[x y] d IH]; simpl; [tauto|].
  destruct (x =? k) eqn:E.
  - apply Z.eqb_eq in E. split; [discriminate|]. intros H. exfalso. apply H. left; exact E.
  - apply Z.eqb_neq in E. rewrite IH. tauto.
Qed.

Lemma dget_Some_key (d : dict) k v : dget d k = Some v -> In k (map fst d).
Proof. intros H. apply dget_In in H. apply in_map_iff. exists (k, v). split; [reflexivity|exact H]. Qed.

Lemma dget_nodup (d : dict) k v : NoDup (map fst d) -> In (k, v) d -> dget d k = Some v.
Proof. intros Hnd Hin. rewrite dget_dict_get. apply dict_get_of_in; assumption. Qed.

Lemma dmem_true (d : dict) k : dmem d k = true <-> In k (map fst d).
Proof.
  unfold dmem. destruct (dget d k) as [v|] eqn:E; simpl.
  - split; [intros _; eapply dget_Some_key; exact E|reflexivity].
  - split; [discriminate|]. intros H. apply dget_None in E. contradiction.
Qed.

Lemma zmem_true k l : zmem k l = true <-> In k l.
Proof.
  unfold zmem. rewrite existsb_exists. split.
  - intros (x & Hx & E). apply Z.eqb_eq in E. subst. exact Hx.
  - intros H. exists k. split; [exact H|apply Z.eqb_refl].
Qed.

Lemma zs_eqb_eq a b : zs_eqb a b = true <-> a = b.
Proof.
  revert b. induction a as [|x a IH]; intros [|y b]; simpl; split; intros H;
    try discriminate; try reflexivity.
  - apply andb_true_iff in H. destruct H as [H1 H2]. apply Z.eqb_eq in H1. apply IH in H2. subst. reflexivity.
  - injection H as -> ->. apply andb_true_iff. split; [apply Z.eqb_refl|]. apply IH. reflexivity.
Qed.

(* ------------------------------------------------------------------ tuple_of *)
Lemma tuple_of_Forall2 vars (Q : dict) t :
  tuple_of vars Q = Some t <-> Forall2 (fun k v => dget Q k = Some v) vars t.
Proof.
  revert t. induction vars as [|k vars IH]; intros t; simpl.
  - split; [intros H; injection H as <-; constructor|intros H; inversion H; reflexivity].
  - destruct (dget Q k) as [v|] eqn:E.
    + destruct (tuple_of vars Q) as [r|] eqn:Er.
      * split.
        -- intros H. injection H as <-. constructor; [exact E|]. apply IH. reflexivity.
        -- intros H. inversion H as [|? y ? t' Hy Ht]; subst. apply IH in Ht. injection Ht as <-.
           rewrite E in Hy. injection Hy as <-. reflexivity.
      * split; [discriminate|]. intros H. inversion H as [|? y ? t' Hy Ht]; subst.
        apply IH in Ht. discriminate.
    + split; [discriminate|]. intros H. inversion H as [|? y ? t' Hy Ht]; subst. congruence.
Qed.

Lemma tuple_of_length vars (Q : dict) t : tuple_of vars Q = Some t -> length t = length vars.
Proof.
  intros H. apply tuple_of_Forall2 in H. induction H; simpl; [reflexivity|]. f_equal. assumption.
Qed.

Lemma tuple_of_Some_all vars (Q : dict) :
  (forall k, In k vars -> dget Q k <> None) -> exists t, tuple_of vars Q = Some t.
Proof.
  induction vars as [|k vars IH]; intros H; simpl; [eexists; reflexivity|].
  destruct (dget Q k) as [v|] eqn:E; [|exfalso; apply (H k (or_introl eq_refl)); exact E].
  destruct IH as (r & ->); [intros k' Hk'; apply H; right; exact Hk'|]. eexists. reflexivity.
Qed.

Lemma tuple_of_keys vars (Q : dict) t k : tuple_of vars Q = Some t -> In k vars -> In k (map fst Q).
Proof.
  intros H Hin. apply tuple_of_Forall2 in H. induction H as [|x v vars t Hx _ IH]; [destruct Hin|].
  destruct Hin as [->|Hin]; [eapply dget_Some_key; exact Hx|apply IH; exact Hin].
Qed.

Lemma tuple_of_ext vars (Q Q' : dict) :
  (forall k, In k vars -> dget Q k = dget Q' k) -> tuple_of vars Q = tuple_of vars Q'.
Proof.
  induction vars as [|k vars IH]; intros H; simpl; [reflexivity|].
  rewrite (H k (or_introl eq_refl)). rewrite IH; [reflexivity|]. intros k' Hk'. apply H. right; exact Hk'.
Qed.

(* the value read for a variable is the entry of the tuple at the variable's position *)
Lemma tuple_of_nth vars (Q : dict) t cv :
  NoDup vars -> tuple_of vars Q = Some t -> In cv vars ->
  exists i, pos_of vars cv = Some i /\ (i < length vars)%nat /\ dget Q cv = Some (nth i t 0).
Proof.
  intros Hnd Ht Hin. destruct (pos_of_in vars cv Hnd Hin) as (i & Hi & En & Ep).
  exists i. split; [exact Ep|]. split; [exact Hi|].
  apply tuple_of_Forall2 in Ht. subst cv. clear Ep Hin Hnd. revert i Hi.
  induction Ht as [|x v vars t Hx _ IH]; intros i Hi; simpl in Hi; [lia|].
  destruct i as [|i]; simpl; [exact Hx|]. apply IH. lia.
Qed.

Lemma dget_combine_nth (vars : list Z) (t : list Z) i :
  NoDup vars -> length t = length vars -> (i < length vars)%nat ->
  dget (combine vars t) (nth i vars 0) = Some (nth i t 0).
Proof.
  intros Hnd. revert t i. induction Hnd as [|x vars Hx Hnd IH]; intros [|v t] i Hl Hi; simpl in *; try lia.
  destruct i as [|i].
  - rewrite Z.eqb_refl. reflexivity.
  - destruct (x =? nth i vars 0) eqn:E.
    + apply Z.eqb_eq in E. exfalso. apply Hx. rewrite E. apply nth_In. lia.
    + apply IH; lia.
Qed.

Lemma tuple_of_combine vars (t : list Z) :
  NoDup vars -> length t = length vars -> tuple_of vars (combine vars t) = Some t.
Proof.
  intros Hnd Hl. apply tuple_of_Forall2.
  assert (G : forall i, (i < length vars)%nat -> dget (combine vars t) (nth i vars 0) = Some (nth i t 0))
    by (intros i Hi; apply dget_combine_nth; assumption).
  clear Hnd. revert G. generalize (combine vars t) as Q. revert t Hl.
  induction vars as [|x vars IH]; intros [|v t] Hl Q G; simpl in Hl; try lia; constructor.
  - apply (G 0%nat). simpl. lia.
  - apply IH; [lia|]. intros i Hi. apply (G (S i)). simpl. lia.
Qed.

Lemma combine_keys (vars : list Z) (t : list Z) : length t = length vars -> map fst (combine vars t) = vars.
Proof.
  revert t. induction vars as [|x vars IH]; intros [|v t] Hl; simpl in *; try lia; [reflexivity|].
  f_equal. apply IH. lia.
Qed.

(* ------------------------------------------------------------------ dict_sem through a dictionary *)
(* pv -> Q[d[pv]] (0 when pv is not a key of d): dict_val when Q holds the child's tuple *)
Lemma dict_val_dget cn (d : dict) (Q : dict) q pv cv :
  NoDup cn -> tuple_of cn Q = Some q -> dget d pv = Some cv -> In cv cn ->
  dget Q cv = Some (dict_val cn d q pv).
Proof.
  intros Hnd Hq Hd Hin. destruct (tuple_of_nth cn Q q cv Hnd Hq Hin) as (i & Ep & _ & Ev).
  unfold dict_val. pose proof (dget_dict_get d pv) as E. rewrite Hd in E. rewrite <- E, Ep. exact Ev.
Qed.

Lemma dict_val_nokey cn (d : dict) q pv : dget d pv = None -> dict_val cn d q pv = 0.
Proof. intros H. unfold dict_val. pose proof (dget_dict_get d pv) as E. rewrite H in E. rewrite <- E. reflexivity. Qed.

Lemma dict_sem_length pn cn d q : length (dict_sem pn cn d q) = length pn.
Proof. unfold dict_sem. apply map_length. Qed.

Lemma dict_sem_nth pn cn d q j : (j < length pn)%nat ->
  nth j (dict_sem pn cn d q) 0 = dict_val cn d q (nth j pn 0).
Proof.
  intros Hj. unfold dict_sem. rewrite (nth_indep _ 0 (dict_val cn d q 0)) by (rewrite map_length; exact Hj).
  apply map_nth.
Qed.

(* ------------------------------------------------------------------ get_extra_parameters, one child *)
(* the loop of DisjointUnion.get_extra_parameters for one child, started from upd *)
Section ChildParams.
  Variable params : dict.

  (* every parent variable that is a key is found: no KeyError *)
  Lemma ucp_no_error : forall items upd,
    (forall pv cv, In (pv, cv) items -> dget params pv <> None) ->
    exists o, union_child_params items params upd = Ok o.
  Proof.
    induction items as [|[pv cv] items IH]; intros upd H; simpl; [eexists; reflexivity|].
    destruct (dget params pv) as [v|] eqn:E; [|exfalso; apply (H pv cv (or_introl eq_refl)); exact E].
    assert (H' : forall pv' cv', In (pv', cv') items -> dget params pv' <> None)
      by (intros pv' cv' Hin; apply (H pv' cv'); right; exact Hin).
    destruct (dget upd cv) as [w|].
    - destruct (w =? v); [apply IH; exact H'|eexists; reflexivity].
    - apply IH. exact H'.
  Qed.

  (* success: the result extends upd, and every (pv, cv) has res[cv] = params[pv] *)
  Lemma ucp_some : forall items upd res,
    union_child_params items params upd = Ok (Some res) ->
    (forall k w, dget upd k = Some w -> dget res k = Some w) /\
    (forall pv cv, In (pv, cv) items -> exists v, dget params pv = Some v /\ dget res cv = Some v) /\
    (forall k, In k (map fst res) <-> In k (map fst upd) \/ In k (map snd items)) /\
    (NoDup (map fst upd) -> NoDup (map fst res)).
  Proof.
    induction items as [|[pv cv] items IH]; intros upd res H; simpl in H.
    - injection H as <-. split; [auto|]. split; [intros ? ? []|]. split; [simpl; tauto|auto].
    - destruct (dget params pv) as [v|] eqn:Ev; [|discriminate].
      destruct (dget upd cv) as [w|] eqn:Ew.
      + destruct (w =? v) eqn:E; [|discriminate]. apply Z.eqb_eq in E. subst w.
        destruct (IH upd res H) as (I1 & I2 & I3 & I4). split; [exact I1|]. split; [|split; [|exact I4]].
        * intros pv' cv' [E|Hin]; [injection E as <- <-; exists v; split; [exact Ev|apply I1; exact Ew]|apply I2; exact Hin].
        * intros k. rewrite I3. simpl. split; [tauto|]. intros [Hk|[<-|Hk]]; [tauto| |tauto].
          left. eapply dget_Some_key. exact Ew.
      + destruct (IH (upd ++ [(cv, v)]) res H) as (I1 & I2 & I3 & I4).
        assert (Hcv : dget (upd ++ [(cv, v)]) cv = Some v).
        { rewrite dget_app, Ew. simpl. rewrite Z.eqb_refl. reflexivity. }
        split; [|split; [|split]].
        * intros k w Hk. apply I1. rewrite dget_app, Hk. reflexivity.
        * intros pv' cv' [E|Hin]; [injection E as <- <-; exists v; split; [exact Ev|apply I1; exact Hcv]|apply I2; exact Hin].
        * intros k. rewrite I3. rewrite map_app, in_app_iff. simpl. tauto.
        * intros Hnd. apply I4. rewrite map_app. simpl.
          apply dget_None in Ew.
          clear -Hnd Ew. induction (map fst upd) as [|x l IHl]; simpl.
          -- constructor; [intros []|constructor].
          -- inversion Hnd; subst. constructor.
             ++ rewrite in_app_iff. simpl. intros [Hx|[Hx|[]]]; [contradiction|]. apply Ew. left. symmetry. exact Hx.
             ++ apply IHl; [|assumption]. intros Hx. apply Ew. right. exact Hx.
  Qed.

  (* no contradiction when all the values written are compatible with ONE assignment g *)
  Lemma ucp_compatible : forall items upd (g : Z -> option Z),
    (forall k w, dget upd k = Some w -> g k = Some w) ->
    (forall pv cv, In (pv, cv) items -> dget params pv <> None /\ g cv = dget params pv) ->
    exists res, union_child_params items params upd = Ok (Some res) /\
                (forall k w, dget res k = Some w -> g k = Some w).
  Proof.
    induction items as [|[pv cv] items IH]; intros upd g Hu Hi; simpl.
    - exists upd. split; [reflexivity|exact Hu].
    - destruct (Hi pv cv (or_introl eq_refl)) as [Hne Hg].
      destruct (dget params pv) as [v|] eqn:Ev; [|congruence].
      assert (Hi' : forall pv' cv', In (pv', cv') items -> dget params pv' <> None /\ g cv' = dget params pv')
        by (intros pv' cv' Hin; apply Hi; right; exact Hin).
      destruct (dget upd cv) as [w|] eqn:Ew.
      + pose proof (Hu cv w Ew) as Hw. rewrite Hg in Hw. injection Hw as <-. rewrite Z.eqb_refl.
        apply IH; assumption.
      + apply IH; [|exact Hi']. intros k w Hk. rewrite dget_app in Hk.
        destruct (dget upd k) as [w'|] eqn:Ek; [injection Hk as <-; apply Hu; exact Ek|].
        simpl in Hk. destruct (cv =? k) eqn:E; [|discriminate]. apply Z.eqb_eq in E. subst k.
        injection Hk as <-. exact Hg.
  Qed.
End ChildParams.

(* CartesianProduct.get_extra_parameters for one child is the same loop over the
   dictionary  parent variable -> the child's row entry at the variable's position *)
Definition row_dict (pvars : list Z) (v : vec) : dict :=
  combine pvars (map (vget v) (seq 1 (length pvars))).

Lemma pvar_get_row : forall pvars k pv v,
  pvar_get pvars k pv v = dget (combine pvars (map (vget v) (seq k (length pvars)))) pv.
Proof.
  induction pvars as [|x pvars IH]; intros k pv v; simpl; [reflexivity|].
  destruct (x =? pv); [reflexivity|]. apply IH.
Qed.

Lemma prod_child_params_row : forall items pvars v upd,
  prod_child_params items pvars v upd = union_child_params items (row_dict pvars v) upd.
Proof.
  induction items as [|[pv cv] items IH]; intros pvars v upd; simpl; [reflexivity|].
  rewrite pvar_get_row. fold (row_dict pvars v).
  destruct (dget (row_dict pvars v) pv) as [val|]; [|reflexivity].
  destruct (dget upd cv) as [w|]; [destruct (w =? val); [apply IH|reflexivity]|apply IH].
Qed.

Lemma row_dict_nth pvars v j : NoDup pvars -> (j < length pvars)%nat ->
  dget (row_dict pvars v) (nth j pvars 0) = Some (vget v (S j)).
Proof.
  intros Hnd Hj. unfold row_dict. rewrite dget_combine_nth; [|exact Hnd|rewrite map_length, seq_length; reflexivity|exact Hj].
  f_equal. rewrite (nth_indep _ 0 (vget v 0)) by (rewrite map_length, seq_length; exact Hj).
  rewrite map_nth. rewrite seq_nth by exact Hj. reflexivity.
Qed.

Lemma row_dict_keys pvars v : map fst (row_dict pvars v) = pvars.
Proof. unfold row_dict. apply combine_keys. rewrite map_length, seq_length. reflexivity. Qed.

(* ------------------------------------------------------------------ zeroes *)
Lemma union_zero_skip_false zeroes (params : dict) :
  union_zero_skip zeroes params = false <-> forall k v, In (k, v) params -> In k zeroes -> v = 0.
Proof.
  unfold union_zero_skip. split.
  - intros H k v Hin Hz. destruct (Z.eq_dec v 0) as [E|E]; [exact E|]. exfalso.
    assert (X : existsb (fun kv : Z * Z => negb (snd kv =? 0) && zmem (fst kv) zeroes) params = true).
    { apply existsb_exists. exists (k, v). split; [exact Hin|]. simpl.
      apply andb_true_iff. split; [apply negb_true_iff; apply Z.eqb_neq; exact E|apply zmem_true; exact Hz]. }
    congruence.
  - intros H. destruct (existsb _ params) eqn:E; [|reflexivity]. exfalso.
    apply existsb_exists in E. destruct E as ([k v] & Hin & E). simpl in E.
    apply andb_true_iff in E. destruct E as [E1 E2]. apply negb_true_iff in E1. apply Z.eqb_neq in E1.
    apply zmem_true in E2. apply E1. eapply H; eassumption.
Qed.

Lemma union_zeroes_in pvars (ep : dict) k : In k (union_zeroes pvars ep) <-> In k pvars /\ dget ep k = None.
Proof.
  unfold union_zeroes. rewrite filter_In. rewrite negb_true_iff.
  unfold dmem. destruct (dget ep k); simpl; split; intros [H1 H2]; split; congruence.
Qed.

(* ------------------------------------------------------------------ tables *)
(* a Counter has distinct keys: the first match of table_get is the Counter's value *)
Lemma table_get_sized n (T : terms) t : NoDup (map fst T) -> table_get (sized n T) n t = tget T t.
Proof.
  induction T as [|[k v] T IH]; intros Hnd; simpl; [reflexivity|].
  inversion Hnd as [|? ? Hk Hnd']; subst. rewrite Z.eqb_refl. simpl.
  destruct (zs_eqb k t) eqn:E.
  - apply zs_eqb_eq in E. subst k. rewrite params_eqb_refl.
    assert (Z0 : tget T t = 0).
    { clear -Hk. induction T as [|[k' v'] T IH]; simpl; [reflexivity|].
      destruct (params_eqb k' t) eqn:E.
      - apply params_eqb_eq in E. subst. exfalso. apply Hk. left. reflexivity.
      - rewrite IH; [lia|]. intros H. apply Hk. right. exact H. }
    lia.
  - assert (E' : params_eqb k t = false).
    { apply params_eqb_neq. intros ->. assert (zs_eqb t t = true) by (apply zs_eqb_eq; reflexivity). congruence. }
    rewrite E'. rewrite IH by exact Hnd'. lia.
Qed.

Lemma table_get_other_size n m (T : terms) t : m <> n -> forall rest,
  table_get (sized m T ++ rest) n t = table_get rest n t.
Proof.
  intros Hne rest. induction T as [|[k v] T IH]; simpl; [reflexivity|].
  replace (m =? n) with false by (symmetry; apply Z.eqb_neq; exact Hne). simpl. exact IH.
Qed.

Lemma table_get_same_size n (T : terms) t rest :
  (forall s k v, In (s, k, v) rest -> s = n -> False) ->
  table_get (sized n T ++ rest) n t = table_get (sized n T) n t.
Proof.
  intros Hrest. induction T as [|[k v] T IH]; simpl.
  - induction rest as [|[[s k] v] rest IHr]; simpl; [reflexivity|].
    destruct (s =? n) eqn:E.
    + apply Z.eqb_eq in E. exfalso. eapply Hrest; [left; reflexivity|exact E].
    + simpl. apply IHr. intros s' k' v' Hin. apply (Hrest s' k' v'). right. exact Hin.
  - rewrite Z.eqb_refl. simpl. destruct (zs_eqb k t); [reflexivity|exact IH].
Qed.

Lemma table_get_flat (T : Z -> terms) n t : forall L, NoDup L -> In n L ->
  table_get (flat_map (fun m => sized m (T m)) L) n t = table_get (sized n (T n)) n t.
Proof.
  induction L as [|m L IH]; intros Hnd Hin; [destruct Hin|]. simpl.
  inversion Hnd as [|? ? Hm Hnd']; subst.
  destruct (Z.eq_dec m n) as [->|Hne].
  - apply table_get_same_size. intros s k v Hs ->. apply in_flat_map in Hs.
    destruct Hs as (m' & Hm' & Hs). unfold sized in Hs. apply in_map_iff in Hs.
    destruct Hs as (e & E & _). injection E as <- _ _. contradiction.
  - rewrite table_get_other_size by exact Hne. apply IH; [exact Hnd'|].
    destruct Hin as [E|Hin]; [congruence|exact Hin].
Qed.
