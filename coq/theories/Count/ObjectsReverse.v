(* C07 — ReverseRule of an equivalence, the full statement.

   ReverseRule.forward_map / backward_map first test
       len(self.original_rule.non_empty_children()) == 1
   (the model's argument one_nonempty, Count/ObjectsModel.v) and raise NotImplementedError
   otherwise.  Count/ObjectsForms.v's reverse_roundtrip passes `true` for that flag and proves
   the round trip  y |-> (o, None, ..) |-> y  for the objects y of child j from the union contract
   alone.  That statement is TRUE as it stands but says nothing about two things:
     (a) when the flag is `true`: here it is COMPUTED from the classes' is_empty answers, and it
         is `true` exactly when child j is the only non-empty child (reverse_flag);
     (b) the other direction - every object o of the ORIGINAL parent (the reverse rule's first
         child) comes back, through the reverse rule's backward map, to one object y of child j
         whose forward image is (o, None, ..): this is what Rule._ensure_level_objects needs of the
         reverse rule and it does need that the other children are empty (reverse_bijection;
         Props/C07.v has an applied example where it fails for a union with two non-empty
         children although reverse_roundtrip's conclusion holds there). *)
From Coq Require Import ZArith List Bool Lia.
From CSS Require Import Base.PyList Count.ObjectsModel Count.ObjectsLists Count.ObjectsProofs
                        Count.ObjectsForms.
Import ListNotations.
Open Scope Z_scope.

(* len(rule.non_empty_children()) == 1, from the children's is_empty() answers *)
Definition one_nonempty_flag (nonempty : nat -> bool) (kids : list nat) : bool :=
  Nat.eqb (length (filter nonempty kids)) 1.

Lemma filter_all_false {A} (f : A -> bool) l : (forall x, In x l -> f x = false) -> filter f l = [].
Proof.
  induction l as [|x l IH]; simpl; intros H; [reflexivity|].
  rewrite (H x (or_introl eq_refl)). apply IH. intros y Hy. apply H. right. assumption.
Qed.

Lemma filter_len_one_intro (nonempty : nat -> bool) : forall kids j kj,
  nth_error kids j = Some kj -> nonempty kj = true ->
  (forall i k, nth_error kids i = Some k -> nonempty k = true -> i = j) ->
  length (filter nonempty kids) = 1%nat.
Proof.
  induction kids as [|k0 ks IH]; intros j kj Hj Hne Hot; [destruct j; discriminate|].
  destruct j as [|j]; simpl in Hj.
  - inversion Hj; subst k0. simpl. rewrite Hne. simpl. f_equal.
    rewrite filter_all_false; [reflexivity|].
    intros x Hx. destruct (nonempty x) eqn:E; [|reflexivity].
    apply In_nth_error in Hx. destruct Hx as [i Hi]. specialize (Hot (S i) x Hi E). discriminate.
  - simpl. destruct (nonempty k0) eqn:E0.
    + specialize (Hot O k0 eq_refl E0). discriminate.
    + apply (IH j kj Hj Hne). intros i k Hi Hk. specialize (Hot (S i) k Hi Hk). lia.
Qed.

Lemma filter_len_one_elim (nonempty : nat -> bool) : forall kids j kj,
  nth_error kids j = Some kj -> nonempty kj = true ->
  length (filter nonempty kids) = 1%nat ->
  forall i k, nth_error kids i = Some k -> nonempty k = true -> i = j.
Proof.
  induction kids as [|k0 ks IH]; intros j kj Hj Hne Hlen i k Hi Hk; [destruct j; discriminate|].
  simpl in Hlen. destruct (nonempty k0) eqn:E0.
  - simpl in Hlen. assert (Hnil : filter nonempty ks = []) by (destruct (filter nonempty ks); [reflexivity|discriminate]).
    assert (Hno : forall x, In x ks -> nonempty x = true -> False).
    { intros x Hx Ex. assert (Hin : In x (filter nonempty ks)) by (apply filter_In; auto).
      rewrite Hnil in Hin. contradiction. }
    destruct j as [|j]; simpl in Hj.
    + destruct i as [|i]; [reflexivity|]. simpl in Hi. exfalso. apply (Hno k); [eapply nth_error_In; eassumption|assumption].
    + exfalso. apply (Hno kj); [eapply nth_error_In; eassumption|assumption].
  - destruct j as [|j]; simpl in Hj; [inversion Hj; subst; congruence|].
    destruct i as [|i]; simpl in Hi; [inversion Hi; subst; congruence|].
    f_equal. eapply IH; eassumption.
Qed.

Section Reverse.
Context {obj : Type}.
Variable size : obj -> Z.
Variable In_cls : nat -> obj -> Prop.
Variable par : nat -> obj -> params.
Variables (c : nat) (kids : list nat) (maps : list pmap).
Variables (fwd : obj -> subobj obj) (bwd : subobj obj -> list obj).
Hypothesis contract : union_contract size In_cls par c kids maps fwd bwd.
Variables (j kj : nat).
Hypothesis child_j : nth_error kids j = Some kj.

(* the classes' is_empty() answers are truthful *)
Variable nonempty : nat -> bool.
Hypothesis nonempty_spec : forall k, nonempty k = true <-> exists y, In_cls k y.

(* (a) for a child j that has an object, the flag the real code computes is `true` exactly
   when every other child is empty *)
Theorem reverse_flag : (exists y, In_cls kj y) ->
  (one_nonempty_flag nonempty kids = true <->
   forall i k y, nth_error kids i = Some k -> In_cls k y -> i = j).
Proof.
  intros Hy. apply nonempty_spec in Hy. unfold one_nonempty_flag. rewrite Nat.eqb_eq. split.
  - intros Hlen i k y Hi Hk. eapply filter_len_one_elim; try eassumption.
    apply nonempty_spec. exists y. assumption.
  - intros Hot. eapply filter_len_one_intro; try eassumption.
    intros i k Hi Hk. apply nonempty_spec in Hk. destruct Hk as [y Hk]. eapply Hot; eassumption.
Qed.

(* with the flag false both maps raise *)
Theorem reverse_refuses : forall y t,
  rev_forward (fun t => Some (bwd t)) j (length kids) false y = None /\
  rev_backward (fun o => Some (fwd o)) j false t = None.
Proof. intros y t. split; reflexivity. Qed.

Hypothesis others_empty : forall i k y, nth_error kids i = Some k -> In_cls k y -> i = j.

(* (b) ReverseRule(rule, j) is a bijection between child j (its parent) and the original
   parent c (its first child), in both directions, with the flag as computed *)
Theorem reverse_bijection : (exists y, In_cls kj y) ->
  let flag := one_nonempty_flag nonempty kids in
  let K := length kids in
  (forall y, In_cls kj y ->
     exists o, In_cls c o /\
       rev_forward (fun t => Some (bwd t)) j K flag y = Some (Some o :: repeat None (K - 1)) /\
       rev_backward (fun o => Some (fwd o)) j flag (Some o :: repeat None (K - 1)) = Some [y]) /\
  (forall o, In_cls c o ->
     exists y, In_cls kj y /\ size y = size o /\
       rev_backward (fun o => Some (fwd o)) j flag (Some o :: repeat None (K - 1)) = Some [y] /\
       rev_forward (fun t => Some (bwd t)) j K flag y = Some (Some o :: repeat None (K - 1))).
Proof.
  intros Hex flag K.
  assert (Hflag : flag = true) by (apply (proj2 (reverse_flag Hex)); exact others_empty).
  rewrite Hflag. split.
  - intros y Hy. exact (reverse_roundtrip size In_cls par c kids maps fwd bwd contract j kj child_j y Hy).
  - intros o Ho. destruct contract as [HU1 _].
    destruct (HU1 o Ho) as (i & k & y & Hi & Hf & Hy & Hs & _ & Hb).
    assert (i = j) by (eapply others_empty; eassumption). subst i.
    rewrite child_j in Hi. inversion Hi; subst k.
    assert (Hj : (j < length kids)%nat) by (apply nth_error_Some; congruence).
    exists y. split; [assumption|]. split; [assumption|].
    assert (Hall : forallb (fun x : option obj => match x with None => true | Some _ => false end)
                           (repeat None (K - 1)) = true).
    { generalize (K - 1)%nat. induction n; simpl; auto. }
    unfold rev_backward, rev_forward. simpl negb. cbv iota. simpl tl. simpl nth. rewrite Hall. simpl.
    rewrite Hf, nth_slot by assumption. split; [reflexivity|].
    fold (slot K j y). unfold K. rewrite <- Hf, Hb. reflexivity.
Qed.

End Reverse.
