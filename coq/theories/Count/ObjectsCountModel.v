(* C07 — the counting side of one level, transcribed so that "count == number
   of generated objects" can be stated level by level (no proofs here).

     disjoint.py   DisjointUnion.get_terms
         for child_terms, param_map in zip(subterms, self._children_param_maps):
             for param, value in child_terms(n).items():
                 new_terms[param_map(param)] += value
     cartesian.py  CartesianProduct.get_terms
         for sizes in utils.compositions(n, len(subterms), self.min_sizes, self.max_sizes):
             for param_value_pairs in product( *(c.items() for c in children_values)):
                 new_param = self._new_param( *(p for p, _ in param_value_pairs))
                 new_terms[new_param] += utils.prod((v for _, v in param_value_pairs))

   Terms (a Counter keyed by parameter tuples) is an association list. *)
From Coq Require Import ZArith List Bool.
From CSS Require Import Base.PyList Count.ObjectsModel.
Import ListNotations.
Open Scope Z_scope.

Definition terms := list (params * Z).

(* Counter lookup: a missing key counts 0 *)
Fixpoint counter_get (d : terms) (p : params) : Z :=
  match d with
  | [] => 0
  | (q, v) :: d' => if params_eqb q p then v else counter_get d' p
  end.

(* new_terms[p] += v *)
Fixpoint counter_add (d : terms) (p : params) (v : Z) : terms :=
  match d with
  | [] => [(p, v)]
  | (q, v0) :: d' => if params_eqb q p then (q, v0 + v) :: d' else (q, v0) :: counter_add d' p v
  end.

Definition counter_of (adds : list (params * Z)) : terms :=
  fold_left (fun acc (pv : params * Z) => counter_add acc (fst pv) (snd pv)) adds [].

(* the sequence of `new_terms[..] += ..` performed by DisjointUnion.get_terms *)
Fixpoint union_adds_from (i : nat) (maps : list pmap) (subs : list terms) : list (params * Z) :=
  match subs with
  | [] => []
  | d :: rest =>
      map (fun e : params * Z => (nth i maps (fun p => p) (fst e), snd e)) d
      ++ union_adds_from (S i) maps rest
  end.
Definition union_terms (maps : list pmap) (subs : list terms) : terms :=
  counter_of (union_adds_from 0 maps subs).

(* utils.prod *)
Definition zprod (l : list Z) : Z := fold_right Z.mul 1 l.

(* ... and by CartesianProduct.get_terms; per_comp lists, for every composition
   in order, the children's terms at the sizes of the composition *)
Definition product_adds (maps : list pmap) (per_comp : list (list terms)) : list (params * Z) :=
  flat_map (fun ts : list terms =>
     map (fun combo : list (params * Z) => (new_param maps (map fst combo), zprod (map snd combo)))
         (cart ts)) per_comp.
Definition product_terms (maps : list pmap) (per_comp : list (list terms)) : terms :=
  counter_of (product_adds maps per_comp).

(* the terms a dictionary of objects stands for: how many objects per parameter tuple *)
Definition terms_of {obj} (d : objects obj) : terms :=
  map (fun e : params * list obj => (fst e, zlen (snd e))) d.
