(* C07 — non-vacuity: a concrete specification meets every hypothesis of the
   end-to-end theorem.  Objects are the words a^k (k : nat) over one letter:
     class 0 = all words          rule  0 -> 1 + 2      (disjoint union)
     class 1 = {empty word}       atom
     class 2 = non-empty words    rule  2 -> 3 x 0      (cartesian product)
     class 3 = {a}                atom                                          *)
From Coq Require Import ZArith List Bool Lia.
From CSS Require Import Base.PyList Gen.Prelude Gen.Compositions Count.CompositionsSpec
                        Count.ObjectsModel Count.ObjectsLists Count.ObjectsProofs Count.ObjectsSpec.
Import ListNotations.
Open Scope Z_scope.

Definition ex_size (o : nat) : Z := Z.of_nat o.
Definition ex_in (c : nat) (o : nat) : Prop :=
  match c with
  | 0%nat => True
  | 1%nat => o = 0%nat
  | 2%nat => (1 <= o)%nat
  | 3%nat => o = 1%nat
  | _ => False
  end.
Definition ex_par (c : nat) (o : nat) : params := [].
Definition pid : pmap := fun p => p.

Definition ex_fwdU (o : nat) : subobj nat :=
  match o with O => [Some O; None] | S _ => [None; Some o] end.
Definition ex_bwdU (t : subobj nat) : list nat :=
  match t with
  | [Some x; None] => [x]
  | [None; Some x] => [x]
  | _ => []
  end.
Definition ex_fwdP (o : nat) : subobj nat := [Some 1%nat; Some (o - 1)%nat].
Definition ex_bwdP (t : subobj nat) : list nat :=
  match t with
  | [Some x; Some y] => [(x + y)%nat]
  | _ => []
  end.
Definition ex_atom (m : Z) (o : nat) : Z -> objects nat :=
  fun n => if n =? m then [([], [o])] else [].

Definition ex_spec (c : nat) : option (rule nat) :=
  match c with
  | 0%nat => Some (RUnion [1%nat; 2%nat] [pid; pid] ex_bwdU)
  | 1%nat => Some (RVerified (ex_atom 0 0%nat))
  | 2%nat => Some (RProduct [3%nat; 0%nat] [1; 0] [Some 1; None] [pid; pid] ex_bwdP)
  | 3%nat => Some (RVerified (ex_atom 1 1%nat))
  | _ => None
  end.

Definition ex_rank (c : nat) (n : Z) : nat :=
  (4 * Z.to_nat n + match c with 0 => 3 | 2 => 2 | _ => 0 end)%nat.

Lemma ex_atom_good c m o :
  (forall x, ex_in c x <-> x = o) -> ex_size o = m ->
  forall n, 0 <= n -> good ex_size ex_in ex_par c n (ex_atom m o n).
Proof.
  intros Hc Hs n Hn. unfold ex_atom. destruct (Z.eqb_spec n m) as [->|Hne].
  - split; [simpl; constructor; [intros []|constructor]|].
    intros p. simpl. destruct p as [|z p]; simpl.
    + split; [constructor; [intros []|constructor]|].
      intros x. split.
      * intros [<-|[]]. split; [apply Hc; reflexivity|]. split; [assumption|reflexivity].
      * intros (Hx & _ & _). apply Hc in Hx. left. congruence.
    + split; [constructor|]. intros x. split; [intros []|]. intros (_ & _ & E). discriminate.
  - split; [constructor|]. intros p. simpl. split; [constructor|].
    intros x. split; [intros []|]. intros (Hx & Hsz & _). apply Hc in Hx. subst x. congruence.
Qed.

Lemma ex_union_contract :
  union_contract ex_size ex_in ex_par 0%nat [1%nat; 2%nat] [pid; pid] ex_fwdU ex_bwdU.
Proof.
  split.
  - intros o _. destruct o as [|o].
    + exists 0%nat, 1%nat, 0%nat. repeat split.
    + exists 1%nat, 2%nat, (S o). repeat split. simpl. lia.
  - intros i k y Hi Hy. destruct i as [|[|i]]; simpl in Hi.
    + inversion Hi; subst k. simpl in Hy. subst y. exists 0%nat. repeat split.
    + inversion Hi; subst k. simpl in Hy. exists y. destruct y as [|y]; [lia|]. repeat split.
    + destruct i; discriminate.
Qed.

Lemma ex_product_contract :
  product_contract ex_size ex_in ex_par 2%nat [3%nat; 0%nat] [pid; pid] ex_fwdP ex_bwdP.
Proof.
  split.
  - intros o Ho. simpl in Ho. exists [1%nat; (o - 1)%nat]. split; [reflexivity|].
    split; [repeat constructor|]. split.
    + unfold ex_size, py_sum. cbn [map fold_right]. lia.
    + split; [reflexivity|]. unfold ex_fwdP, ex_bwdP. f_equal. lia.
  - intros ys Hys. inversion Hys as [|k y ks ys' Hy Hys' E1 E2]; subst.
    inversion Hys' as [|k2 z ks2 ys2 Hz Hys2 E1 E2]; subst. inversion Hys2; subst.
    simpl in Hy. subst y. exists (1 + z)%nat. split; [reflexivity|]. split; [simpl; lia|].
    unfold ex_fwdP. simpl. rewrite Nat.sub_0_r. reflexivity.
Qed.

Lemma ex_bounds : bounds_ok ex_size ex_in [3%nat; 0%nat] [1; 0] [Some 1; None].
Proof.
  split; [|split; [|split]].
  - constructor; [intros y Hy; simpl in Hy; subst; unfold ex_size; simpl; lia|].
    constructor; [intros y _; unfold ex_size; lia|constructor].
  - constructor; [intros y Hy; simpl in Hy; subst; unfold ex_size; simpl; lia|].
    constructor; [intros y _; exact I|constructor].
  - repeat constructor; lia.
  - simpl. lia.
Qed.

Lemma ex_contracts : forall c r, ex_spec c = Some r -> rule_ok ex_size ex_in ex_par c r.
Proof.
  intros c r H. destruct c as [|[|[|[|c]]]]; simpl in H; inversion H; subst; simpl.
  - exists ex_fwdU. apply ex_union_contract.
  - apply ex_atom_good; [|reflexivity]. intros x. simpl. tauto.
  - split; [exists ex_fwdP; apply ex_product_contract|apply ex_bounds].
  - apply ex_atom_good; [|reflexivity]. intros x. simpl. tauto.
Qed.

(* what the product rule reads at level n: the atom at size 1, class 0 at size n - 1 *)
Lemma ex_product_reads n c' m :
  In (c', m) (flat_map (fun sizes => combine [3%nat; 0%nat] sizes) (compositions n (zlen [3%nat; 0%nat]) [1; 0] [Some 1; None])) ->
  (c' = 3%nat /\ m = 1 /\ 1 <= n) \/ (c' = 0%nat /\ m = n - 1 /\ 1 <= n).
Proof.
  intros H. apply in_flat_map in H. destruct H as (sizes & Hs & Hin).
  apply compositions_sound in Hs; [|reflexivity|reflexivity].
  destruct Hs as (Hl & Hsum & Hmin & Hmax).
  inversion Hmin as [|m1 s1 ms ss H1 Hmin' E1 E2]; subst.
  inversion Hmin' as [|m2 s2 ms2 ss2 H2 Hmin'' E1 E2]; subst. inversion Hmin''; subst.
  inversion Hmax as [|s1' M1 ss' Ms Hb1 Hmax' E1 E2]; subst. simpl in Hb1.
  unfold py_sum. cbn [fold_right]. simpl in Hin.
  destruct Hin as [E|[E|[]]]; inversion E; subst; [left|right]; repeat split; lia.
Qed.

Lemma ex_closed : forall c r n c' m,
  ex_spec c = Some r -> 0 <= n -> In (c', m) (reads r n) -> ex_spec c' <> None.
Proof.
  intros c r n c' m H Hn Hin. destruct c as [|[|[|[|c]]]]; simpl in H; inversion H; subst; simpl in Hin.
  - destruct Hin as [E|[E|[]]]; inversion E; subst; discriminate.
  - contradiction.
  - apply ex_product_reads in Hin. destruct Hin as [(-> & _)|(-> & _)]; discriminate.
  - contradiction.
Qed.

Lemma ex_rank_reads : forall c r n c' m,
  ex_spec c = Some r -> 0 <= n -> In (c', m) (reads r n) ->
  0 <= m /\ (ex_rank c' m < ex_rank c n)%nat.
Proof.
  intros c r n c' m H Hn Hin. destruct c as [|[|[|[|c]]]]; simpl in H; inversion H; subst; simpl in Hin.
  - destruct Hin as [E|[E|[]]]; inversion E; subst; unfold ex_rank; split; lia.
  - contradiction.
  - apply ex_product_reads in Hin. unfold ex_rank.
    destruct Hin as [(-> & -> & H1)|(-> & -> & H1)]; split; lia.
  - contradiction.
Qed.

Lemma ex_rank_mono : forall c m n, 0 <= m < n -> (ex_rank c m < ex_rank c n)%nat.
Proof. intros c m n H. unfold ex_rank. lia. Qed.

(* the model run on it: the words of size 3 of class 0, through union, product and atoms *)
Lemma ex_runs :
  match generate_objects_of_size ex_spec 40 empty_cache 0%nat 3 [] with
  | Some (_, l) => l = [3%nat]
  | None => False
  end.
Proof. vm_compute. reflexivity. Qed.
