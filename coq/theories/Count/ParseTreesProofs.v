(* Objects <-> parse trees: the bijection (C07_objects_are_parse_trees).

   For a specification in C07's vocabulary whose rules honour the bijection contracts of
   Count/ObjectsProofs.v (union_contract, product_contract, bounds_ok), whose verified classes are atoms
   (one object) or empty, which is closed and productive (C07's rank certificate):
     - every well-formed parse tree of a class unparses to an object of that class, of the tree's size and
       parameters (unparse_sound);
     - two well-formed trees of a class with the same object are equal (unparse_inj);
     - every object of a class is the unparse of a well-formed tree, which the executable `parse` computes
       with enough fuel (parse_total);
     - at every node unparse / parse commute with the rule's backward / forward map (node_commutes_union, node_commutes_product). *)
From Coq Require Import ZArith List Bool Lia.
From CSS Require Import Base.PyList Gen.Prelude Gen.Compositions Count.CompositionsSpec
                        Count.ObjectsModel Count.ObjectsLists Count.ObjectsProofs Count.ObjectsForms
                        Count.ObjectsSpec Count.SampleModel Count.SampleUniform Count.ParseTrees.
Import ListNotations.
Open Scope Z_scope.

(* ---------------------------------------------------------------- small facts *)
Lemma omap_Forall2 {A B} (f : A -> option B) : forall l ys,
  omap f l = Some ys <-> Forall2 (fun x y => f x = Some y) l ys.
Proof.
  induction l as [|x l IH]; intros ys; simpl.
  - split; [intros E; inversion E; constructor|intros H; inversion H; reflexivity].
  - destruct (f x) as [y|] eqn:Ex.
    + destruct (omap f l) as [ys'|] eqn:El.
      * split.
        -- intros E. inversion E; subst. constructor; [assumption|]. apply IH. reflexivity.
        -- intros H. inversion H as [|? y' ? ys'' Hy Hr]; subst. apply IH in Hr.
           rewrite Ex in Hy. inversion Hy; subst. inversion Hr; subst. reflexivity.
      * split; [discriminate|]. intros H. inversion H as [|? y' ? ys'' Hy Hr]; subst.
        apply IH in Hr. discriminate.
    + split; [discriminate|]. intros H. inversion H as [|? y' ? ys'' Hy Hr]; subst.
      rewrite Ex in Hy. discriminate.
Qed.

Lemma all_some_map_Some {obj} (ys : list obj) : all_some (map Some ys) = Some ys.
Proof. unfold all_some. induction ys as [|y ys IH]; simpl; [reflexivity|]. rewrite IH. reflexivity. Qed.

Lemma all_some_inv {obj} : forall (t : subobj obj) ys, all_some t = Some ys -> t = map Some ys.
Proof.
  unfold all_some. induction t as [|x t IH]; intros ys E; simpl in E.
  - inversion E. reflexivity.
  - destruct x as [y|]; [|discriminate]. destruct (omap (fun x => x) t) as [ys'|] eqn:Et; [|discriminate].
    inversion E; subst. simpl. f_equal. apply IH. reflexivity.
Qed.

Lemma first_some_repeat_None {obj} (k i0 : nat) (r : subobj obj) :
  first_some (repeat None k ++ r) i0 = first_some r (k + i0).
Proof.
  revert i0. induction k as [|k IH]; intros i0; simpl; [reflexivity|].
  rewrite IH. f_equal. lia.
Qed.

Lemma slot_split {obj} (K i : nat) (y : obj) :
  (i < K)%nat -> slot K i y = repeat None i ++ Some y :: repeat None (K - S i).
Proof.
  intros Hi. apply nth_error_ext_local. intros j. unfold slot.
  rewrite nth_error_set_nth_repeat by assumption.
  destruct (Nat.lt_trichotomy j i) as [Hlt|[->|Hgt]].
  - rewrite nth_error_app1 by (rewrite repeat_length; assumption).
    destruct (Nat.eqb_spec j i); [lia|]. destruct (Nat.ltb_spec j K); [|lia].
    symmetry. apply nth_error_repeat. assumption.
  - rewrite Nat.eqb_refl. rewrite nth_error_app2 by (rewrite repeat_length; lia).
    rewrite repeat_length, Nat.sub_diag. reflexivity.
  - destruct (Nat.eqb_spec j i); [lia|].
    rewrite nth_error_app2 by (rewrite repeat_length; lia). rewrite repeat_length.
    destruct (j - i)%nat as [|d] eqn:Ed; [lia|]. simpl.
    destruct (Nat.ltb_spec j K).
    + symmetry. apply nth_error_repeat. lia.
    + symmetry. apply nth_error_None. rewrite repeat_length. lia.
Qed.

Lemma first_some_slot {obj} (K i : nat) (y : obj) : (i < K)%nat -> first_some (slot K i y) 0 = Some (i, y).
Proof.
  intros Hi. rewrite slot_split by assumption. rewrite first_some_repeat_None. simpl.
  rewrite Nat.add_0_r. reflexivity.
Qed.

Lemma in_combine_map_r {A B C} (g : B -> C) : forall (a : list A) (b : list B) x y,
  In (x, y) (combine a b) -> In (x, g y) (combine a (map g b)).
Proof.
  induction a as [|x0 a IH]; intros [|y0 b] x y H; simpl in *; try contradiction.
  destruct H as [E|H]; [inversion E; subst; left; reflexivity|right; apply IH; assumption].
Qed.

Lemma Forall2_in_combine {A B} (R : A -> B -> Prop) (a : list A) (b : list B) :
  length a = length b -> (forall x y, In (x, y) (combine a b) -> R x y) -> Forall2 R a b.
Proof.
  revert b. induction a as [|x a IH]; intros [|y b] Hl H; simpl in *; try discriminate; constructor.
  - apply H. left. reflexivity.
  - apply IH; [lia|]. intros x' y' Hin. apply H. right. assumption.
Qed.

Lemma all2_Forall2 {A B} (R : A -> B -> Prop) : forall l l', all2 R l l' <-> Forall2 R l l'.
Proof.
  induction l as [|x l IH]; intros [|y l']; simpl.
  - split; [constructor|trivial].
  - split; [contradiction|intros H; inversion H].
  - split; [contradiction|intros H; inversion H].
  - rewrite IH. split; [intros [H1 H2]; constructor; assumption|intros H; inversion H; auto].
Qed.

Section Core.
Context {obj : Type}.
Variable size : obj -> Z.
Variable In_cls : nat -> obj -> Prop.
Variable par : nat -> obj -> params.
Variable spec : nat -> option (rule obj).
Variable atom : nat -> option obj.
Variable fwd : nat -> obj -> subobj obj.

Notation unparse := (unparse spec atom).
Notation parse := (parse spec atom fwd).

(* ---------------------------------------------------------------- well-formed trees of a C07 specification *)
Fixpoint twf (t : tree) (c : nat) : Prop :=
  match t with
  | Leaf c' => c' = c /\ (exists tbl, spec c = Some (RVerified tbl)) /\ atom c <> None
  | UNode c' i t' =>
      c' = c /\ exists kids maps bwd ci,
        spec c = Some (RUnion kids maps bwd) /\ nth_error kids i = Some ci /\ twf t' ci
  | PNode c' ts =>
      c' = c /\ exists kids mins maxs maps bwd,
        spec c = Some (RProduct kids mins maxs maps bwd) /\ all2 twf ts kids
  end.

(* size and parameter tuple of the object a tree stands for, computed on the tree *)
Fixpoint tsz (t : tree) : Z :=
  match t with
  | Leaf c => match atom c with Some a => size a | None => 0 end
  | UNode _ _ t' => tsz t'
  | PNode _ ts => py_sum (map tsz ts)
  end.

Fixpoint tpr (t : tree) : params :=
  match t with
  | Leaf c => match atom c with Some a => par c a | None => [] end
  | UNode c i t' =>
      match spec c with
      | Some (RUnion _ maps _) => nth i maps (fun x => x) (tpr t')
      | _ => []
      end
  | PNode c ts =>
      match spec c with
      | Some (RProduct _ _ _ maps _) => new_param maps (map tpr ts)
      | _ => []
      end
  end.

(* the contract of the rule of class c, with its forward map given as data *)
Definition node_ok (c : nat) : Prop :=
  match spec c with
  | Some (RUnion kids maps bwd) => union_contract size In_cls par c kids maps (fwd c) bwd
  | Some (RProduct kids mins maxs maps bwd) =>
      product_contract size In_cls par c kids maps (fwd c) bwd /\ bounds_ok size In_cls kids mins maxs
  | Some (RVerified _) =>
      match atom c with
      | Some a => forall o, In_cls c o <-> o = a
      | None => forall o, ~ In_cls c o
      end
  | None => True
  end.

(* ... it implies C07's rule_ok for union and product rules (the forward map exists) *)
Lemma node_ok_rule_ok c r : spec c = Some r -> node_ok c ->
  match r with RVerified _ => True | _ => rule_ok size In_cls par c r end.
Proof.
  intros Hr H. unfold node_ok in H. rewrite Hr in H. destruct r; simpl; auto.
  - eexists. exact H.
  - destruct H as [H1 H2]. split; [eexists; exact H1|exact H2].
Qed.

Hypothesis contracts : forall c, node_ok c.

Lemma unparse_PNode c ts :
  unparse (PNode c ts) =
  match spec c with
  | Some (RProduct _ _ _ _ bwd) =>
      match omap unparse ts with Some ys => only (bwd (map Some ys)) | None => None end
  | _ => None
  end.
Proof.
  simpl. destruct (spec c) as [[| |]|]; try reflexivity.
  match goal with |- match ?a with _ => _ end = match ?b with _ => _ end => assert (E : a = b) end.
  { induction ts as [|x ts IH]; simpl; [reflexivity|]. rewrite IH. reflexivity. }
  rewrite E. reflexivity.
Qed.

(* what a tree denotes *)
Definition den (t : tree) (c : nat) (o : obj) : Prop :=
  unparse t = Some o /\ In_cls c o /\ size o = tsz t /\ par c o = tpr t.

Lemma den_list : forall ts kids,
  Forall (fun t => forall c, twf t c -> exists o, den t c o) ts ->
  all2 twf ts kids ->
  exists ys, omap unparse ts = Some ys /\ Forall2 In_cls kids ys /\
             map size ys = map tsz ts /\ pars_of par kids ys = map tpr ts.
Proof.
  induction ts as [|t ts IH]; intros [|k kids] HF Hall; simpl in Hall; try contradiction.
  - exists []. repeat split; constructor.
  - destruct Hall as [Ht Hall]. inversion HF as [|? ? H1 H2]; subst.
    destruct (H1 k Ht) as (y & Hu & Hy & Hs & Hp).
    destruct (IH kids H2 Hall) as (ys & E & HI & Hsz & Hpr).
    exists (y :: ys). simpl. rewrite Hu, E. split; [reflexivity|]. split; [constructor; assumption|].
    split; [congruence|]. unfold pars_of in *. simpl. congruence.
Qed.

(* (1) every well-formed tree stands for an object of its class, of its size and parameters *)
Theorem unparse_sound : forall t c, twf t c -> exists o, den t c o.
Proof.
  induction t as [c0|c0 i t IH|c0 ts IH] using tree_ind'; intros c Hwf; simpl in Hwf.
  - destruct Hwf as (-> & [tbl Hs] & Ha). pose proof (contracts c) as Hc. unfold node_ok in Hc.
    rewrite Hs in Hc. destruct (atom c) as [a|] eqn:Ea; [|congruence].
    exists a. unfold den. simpl. rewrite Hs, Ea. split; [reflexivity|]. split; [apply Hc; reflexivity|].
    split; reflexivity.
  - destruct Hwf as (-> & kids & maps & bwd & ci & Hs & Hi & Hw).
    destruct (IH ci Hw) as (y & Hu & Hy & Hsz & Hp).
    pose proof (contracts c) as Hc. unfold node_ok in Hc. rewrite Hs in Hc. destruct Hc as [HU1 HU2].
    destruct (HU2 i ci y Hi Hy) as (o & Hb & Ho & Hf).
    exists o. unfold den. simpl. rewrite Hs, Hu, Hb. split; [reflexivity|]. split; [assumption|].
    destruct (HU1 o Ho) as (i' & k' & y' & Hi' & Hf' & Hy' & Hs' & Hp' & _).
    rewrite Hf in Hf'.
    assert (Hlt : (i < length kids)%nat) by (apply nth_error_Some; congruence).
    assert (Hlt' : (i' < length kids)%nat) by (apply nth_error_Some; congruence).
    apply slot_inj in Hf'; try assumption. destruct Hf' as [<- <-].
    rewrite Hi in Hi'. inversion Hi'; subst k'. split; congruence.
  - destruct Hwf as (-> & kids & mins & maxs & maps & bwd & Hs & Hall).
    destruct (den_list ts kids IH Hall) as (ys & E & HI & Hsz & Hpr).
    pose proof (contracts c) as Hc. unfold node_ok in Hc. rewrite Hs in Hc. destruct Hc as [[HP1 HP2] _].
    destruct (HP2 ys HI) as (o & Hb & Ho & Hf).
    exists o. unfold den. rewrite unparse_PNode, Hs, E, Hb. split; [reflexivity|]. split; [assumption|].
    destruct (HP1 o Ho) as (ys' & Hf' & _ & Hs' & Hp' & _).
    rewrite Hf in Hf'. apply map_Some_inj in Hf'. subst ys'.
    simpl. rewrite Hs. split; congruence.
Qed.

(* ---------------------------------------------------------------- commutation with the rules' maps *)
(* at a union node: the forward map of the node's object is (None,..,y,..,None) with y the object of the
   subtree at position i, and the backward map of that tuple yields the node's object *)
Theorem node_commutes_union : forall c i t' o,
  twf (UNode c i t') c -> unparse (UNode c i t') = Some o ->
  exists kids maps bwd ci y,
    spec c = Some (RUnion kids maps bwd) /\ nth_error kids i = Some ci /\ den t' ci y /\
    fwd c o = slot (length kids) i y /\ bwd (slot (length kids) i y) = [o].
Proof.
  intros c i t' o Hwf Hu. simpl in Hwf. destruct Hwf as (_ & kids & maps & bwd & ci & Hs & Hi & Hw).
  destruct (unparse_sound t' ci Hw) as (y & Hd). exists kids, maps, bwd, ci, y.
  pose proof (contracts c) as Hc. unfold node_ok in Hc. rewrite Hs in Hc. destruct Hc as [_ HU2].
  destruct Hd as (Hy & Hin & Hrest).
  destruct (HU2 i ci y Hi Hin) as (o' & Hb & Ho' & Hf).
  simpl in Hu. rewrite Hs, Hy, Hb in Hu. simpl in Hu. inversion Hu; subst o'.
  repeat split; assumption || apply Hrest.
Qed.

(* at a product node: the forward map of the node's object is the tuple of the subtrees' objects *)
Theorem node_commutes_product : forall c ts o,
  twf (PNode c ts) c -> unparse (PNode c ts) = Some o ->
  exists kids mins maxs maps bwd ys,
    spec c = Some (RProduct kids mins maxs maps bwd) /\ omap unparse ts = Some ys /\
    Forall2 In_cls kids ys /\ fwd c o = map Some ys /\ bwd (map Some ys) = [o].
Proof.
  intros c ts o Hwf Hu. simpl in Hwf. destruct Hwf as (_ & kids & mins & maxs & maps & bwd & Hs & Hall).
  destruct (den_list ts kids) as (ys & E & HI & _); [|assumption|].
  { apply Forall_forall. intros t _ c' Hw. apply unparse_sound. assumption. }
  exists kids, mins, maxs, maps, bwd, ys.
  pose proof (contracts c) as Hc. unfold node_ok in Hc. rewrite Hs in Hc. destruct Hc as [[_ HP2] _].
  destruct (HP2 ys HI) as (o' & Hb & Ho' & Hf).
  rewrite unparse_PNode, Hs, E, Hb in Hu. simpl in Hu. inversion Hu; subst o'.
  repeat split; assumption.
Qed.

(* ---------------------------------------------------------------- (2) injectivity *)
Lemma inj_list : forall ts ts' kids ys,
  Forall (fun t => forall c t' o, twf t c -> twf t' c -> unparse t = Some o -> unparse t' = Some o -> t = t') ts ->
  all2 twf ts kids -> all2 twf ts' kids ->
  omap unparse ts = Some ys -> omap unparse ts' = Some ys -> ts = ts'.
Proof.
  induction ts as [|t ts IH]; intros [|t' ts'] [|k kids] ys HF H1 H2 E1 E2; simpl in H1, H2; try contradiction.
  - reflexivity.
  - destruct H1 as [Ht H1]. destruct H2 as [Ht' H2]. inversion HF as [|? ? Hx Hr]; subst.
    simpl in E1, E2.
    destruct (unparse t) as [y|] eqn:Ey; [|discriminate].
    destruct (omap unparse ts) as [l|] eqn:El; [|discriminate].
    destruct (unparse t') as [y'|] eqn:Ey'; [|discriminate].
    destruct (omap unparse ts') as [l'|] eqn:El'; [|discriminate].
    inversion E1; subst ys. inversion E2; subst y' l'.
    f_equal; [apply (Hx k t' y); auto|]. apply (IH ts' kids l); auto.
Qed.

Theorem unparse_inj : forall t c t' o,
  twf t c -> twf t' c -> unparse t = Some o -> unparse t' = Some o -> t = t'.
Proof.
  induction t as [c0|c0 i t IH|c0 ts IH] using tree_ind'; intros c t2 o Hw Hw2 Hu Hu2.
  - simpl in Hw. destruct Hw as (-> & [tbl Hs] & _).
    destruct t2 as [c2|c2 i2 t2|c2 ts2]; simpl in Hw2.
    + destruct Hw2 as (-> & _). reflexivity.
    + destruct Hw2 as (_ & kids & maps & bwd & ci & Hs2 & _). congruence.
    + destruct Hw2 as (_ & kids & mins & maxs & maps & bwd & Hs2 & _). congruence.
  - pose proof Hw as Hw0. simpl in Hw. destruct Hw as (-> & kids & maps & bwd & ci & Hs & Hi & Hw).
    destruct t2 as [c2|c2 i2 t2|c2 ts2]; pose proof Hw2 as Hw20; simpl in Hw2.
    + destruct Hw2 as (_ & [tbl Hs2] & _). congruence.
    + destruct Hw2 as (-> & kids2 & maps2 & bwd2 & ci2 & Hs2 & Hi2 & Hw2).
      destruct (node_commutes_union c i t o Hw0 Hu) as (k1 & m1 & b1 & c1 & y1 & Hs1 & Hi1 & Hd1 & Hf1 & _).
      destruct (node_commutes_union c i2 t2 o Hw20 Hu2) as (k3 & m3 & b3 & c3 & y3 & Hs3 & Hi3 & Hd3 & Hf3 & _).
      rewrite Hs in Hs1, Hs3, Hs2. inversion Hs1; subst k1 m1 b1. inversion Hs3; subst k3 m3 b3.
      inversion Hs2; subst kids2 maps2 bwd2.
      rewrite Hf1 in Hf3.
      assert (Hlt : (i < length kids)%nat) by (apply nth_error_Some; congruence).
      assert (Hlt2 : (i2 < length kids)%nat) by (apply nth_error_Some; congruence).
      apply slot_inj in Hf3; try assumption. destruct Hf3 as [<- <-].
      rewrite Hi in Hi1, Hi2, Hi3. inversion Hi1; subst c1. inversion Hi2; subst ci2. inversion Hi3; subst c3.
      f_equal. eapply IH; [exact Hw|exact Hw2|apply Hd1|apply Hd3].
    + destruct Hw2 as (_ & kids2 & mins & maxs & maps2 & bwd2 & Hs2 & _). congruence.
  - pose proof Hw as Hw0. simpl in Hw. destruct Hw as (-> & kids & mins & maxs & maps & bwd & Hs & Hall).
    destruct t2 as [c2|c2 i2 t2|c2 ts2]; pose proof Hw2 as Hw20; simpl in Hw2.
    + destruct Hw2 as (_ & [tbl Hs2] & _). congruence.
    + destruct Hw2 as (_ & kids2 & maps2 & bwd2 & ci2 & Hs2 & _). congruence.
    + destruct Hw2 as (-> & kids2 & mins2 & maxs2 & maps2 & bwd2 & Hs2 & Hall2).
      destruct (node_commutes_product c ts o Hw0 Hu) as (k1 & mi1 & ma1 & m1 & b1 & ys1 & Hs1 & E1 & _ & Hf1 & _).
      destruct (node_commutes_product c ts2 o Hw20 Hu2) as (k3 & mi3 & ma3 & m3 & b3 & ys3 & Hs3 & E3 & _ & Hf3 & _).
      rewrite Hs in Hs2. inversion Hs2; subst kids2 mins2 maxs2 maps2 bwd2.
      rewrite Hf1 in Hf3. apply map_Some_inj in Hf3. subst ys3.
      f_equal. eapply inj_list; try eassumption.
Qed.

(* ---------------------------------------------------------------- (3) every object has a tree; parse finds it *)
Variable rank : nat -> Z -> nat.
Hypothesis closed : forall c r n c' m, spec c = Some r -> 0 <= n -> In (c', m) (reads r n) -> spec c' <> None.
Hypothesis rank_reads : forall c r n c' m, spec c = Some r -> 0 <= n -> In (c', m) (reads r n) ->
                                           0 <= m /\ (rank c' m < rank c n)%nat.
Hypothesis size_nonneg : forall c o, In_cls c o -> 0 <= size o.

Definition has_tree (c : nat) (o : obj) : Prop :=
  exists t, twf t c /\ unparse t = Some o /\ exists f0, forall f, (f0 <= f)%nat -> parse f c o = Some t.

Lemma collect_trees : forall kids ys,
  Forall2 has_tree kids ys ->
  exists ts, all2 twf ts kids /\ omap unparse ts = Some ys /\
             exists f0, forall f, (f0 <= f)%nat ->
               omap (fun ky : nat * obj => parse f (fst ky) (snd ky)) (combine kids ys) = Some ts.
Proof.
  induction 1 as [|k y kids ys (t & Hw & Hu & f1 & Hp) HF (ts & Hall & E & f2 & Hps)].
  - exists []. simpl. split; [exact I|]. split; [reflexivity|]. exists O. reflexivity.
  - exists (t :: ts). simpl. split; [split; assumption|]. rewrite Hu, E. split; [reflexivity|].
    exists (Nat.max f1 f2). intros f Hf. rewrite Hp by lia. rewrite Hps by lia. reflexivity.
Qed.

Lemma product_reads_in kids mins maxs ys n :
  bounds_ok size In_cls kids mins maxs -> Forall2 In_cls kids ys -> py_sum (map size ys) = n ->
  forall k y, In (k, y) (combine kids ys) ->
    In (k, size y) (flat_map (fun sizes => combine kids sizes) (compositions n (zlen kids) mins maxs)).
Proof.
  intros (Hmin & Hmax & Hnn & Hk) Hys Hsum k y Hin.
  apply in_flat_map. exists (map size ys). split; [|apply in_combine_map_r; assumption].
  assert (Hl : length kids = length ys) by (eapply Forall2_length; eassumption).
  apply compositions_complete; [unfold zlen; lia|assumption|].
  unfold is_comp. split; [unfold zlen; rewrite map_length; lia|]. split; [assumption|]. split.
  - apply Forall2_map_r.
    refine (Forall2_through _ _ _ _ kids mins ys Hmin Hys).
    intros k0 m y0 Hm Hy. apply Hm. assumption.
  - apply Forall2_map_l.
    refine (Forall2_through _ _ _ _ kids ys maxs Hys Hmax).
    intros k0 y0 M Hy HM. apply HM. assumption.
Qed.

Theorem parse_total : forall (R : nat) c o,
  (rank c (size o) <= R)%nat -> spec c <> None -> In_cls c o -> has_tree c o.
Proof.
  induction R as [R IHR] using lt_wf_ind. intros c o HR Hc Ho.
  destruct (spec c) as [r|] eqn:Hs; [|congruence].
  pose proof (contracts c) as Hok. unfold node_ok in Hok. rewrite Hs in Hok.
  pose proof (size_nonneg c o Ho) as Hn.
  destruct r as [kids maps bwd|kids mins maxs maps bwd|tbl].
  - (* union *)
    destruct Hok as [HU1 HU2].
    destruct (HU1 o Ho) as (i & k & y & Hi & Hf & Hy & Hsy & _ & Hb).
    assert (Hin : In (k, size o) (reads (RUnion kids maps bwd) (size o))).
    { simpl. apply in_map_iff. exists k. split; [reflexivity|]. eapply nth_error_In; eassumption. }
    destruct (rank_reads c _ (size o) k (size o) Hs Hn Hin) as [_ Hrk].
    assert (Hk : spec k <> None) by (eapply closed; eassumption).
    destruct (IHR (rank k (size y)) ltac:(rewrite Hsy; lia) k y (le_n _) Hk Hy) as (t & Hw & Hu & f0 & Hp).
    assert (Hlt : (i < length kids)%nat) by (apply nth_error_Some; congruence).
    exists (UNode c i t). split; [|split].
    + simpl. split; [reflexivity|]. exists kids, maps, bwd, k. auto.
    + simpl. rewrite Hs, Hu, <- Hf, Hb. reflexivity.
    + exists (S f0). intros f Hfu. destruct f as [|f]; [lia|]. simpl. rewrite Hs, Hf.
      rewrite first_some_slot by assumption. rewrite Hi. rewrite Hp by lia. reflexivity.
  - (* product *)
    destruct Hok as [[HP1 HP2] Hbd].
    destruct (HP1 o Ho) as (ys & Hf & Hys & Hsz & _ & Hb).
    assert (Hl : length kids = length ys) by (eapply Forall2_length; eassumption).
    assert (HT : Forall2 has_tree kids ys).
    { apply Forall2_in_combine; [assumption|]. intros k y Hin.
      assert (Hy : In_cls k y) by (eapply Forall2_combine_in; eassumption).
      assert (Hrd : In (k, size y) (reads (RProduct kids mins maxs maps bwd) (size o))).
      { simpl. eapply product_reads_in; eauto. }
      destruct (rank_reads c _ (size o) k (size y) Hs Hn Hrd) as [_ Hrk].
      assert (Hk : spec k <> None) by (eapply closed; eassumption).
      apply (IHR (rank k (size y)) ltac:(lia) k y (le_n _) Hk Hy). }
    destruct (collect_trees kids ys HT) as (ts & Hall & E & f0 & Hps).
    exists (PNode c ts). split; [|split].
    + simpl. split; [reflexivity|]. exists kids, mins, maxs, maps, bwd. auto.
    + rewrite unparse_PNode, Hs, E, <- Hf, Hb. reflexivity.
    + exists (S f0). intros f Hfu. destruct f as [|f]; [lia|]. simpl. rewrite Hs, Hf, all_some_map_Some.
      rewrite <- Hl, Nat.eqb_refl. simpl. rewrite Hps by lia. reflexivity.
  - (* atom *)
    destruct (atom c) as [a|] eqn:Ea; [|exfalso; eapply Hok; eassumption].
    apply Hok in Ho. subst o.
    exists (Leaf c). split; [|split].
    + simpl. split; [reflexivity|]. split; [eexists; exact Hs|congruence].
    + simpl. rewrite Hs. assumption.
    + exists 1%nat. intros f Hfu. destruct f as [|f]; [lia|]. simpl. rewrite Hs, Ea. reflexivity.
Qed.

(* ---------------------------------------------------------------- the bijection, per class, size and parameters *)
Notation isobj := (isobj size In_cls par).

(* C07_objects_are_parse_trees *)
Theorem objects_are_parse_trees : forall c n p,
  spec c <> None ->
  (* unparse sends the well-formed trees of c with size n and parameters p to objects of c with them *)
  (forall t, twf t c -> tsz t = n -> tpr t = p -> exists o, unparse t = Some o /\ isobj c n p o) /\
  (* injectively *)
  (forall t t' o, twf t c -> twf t' c -> unparse t = Some o -> unparse t' = Some o -> t = t') /\
  (* and onto: every object is the unparse of a well-formed tree of that size and those parameters,
     the one `parse` computes *)
  (forall o, isobj c n p o ->
     exists t, twf t c /\ tsz t = n /\ tpr t = p /\ unparse t = Some o /\
               exists f0, forall f, (f0 <= f)%nat -> parse f c o = Some t).
Proof.
  intros c n p Hc. split; [|split].
  - intros t Hw Hn Hp. destruct (unparse_sound t c Hw) as (o & Hu & Ho & Hs & Hpa).
    exists o. split; [assumption|]. unfold ObjectsProofs.isobj. repeat split; congruence.
  - intros t t' o. apply unparse_inj.
  - intros o (Ho & Hs & Hp).
    destruct (parse_total (rank c (size o)) c o (le_n _) Hc Ho) as (t & Hw & Hu & Hf).
    destruct (unparse_sound t c Hw) as (o' & Hu' & _ & Hs' & Hp').
    rewrite Hu in Hu'. inversion Hu'; subst o'.
    exists t. repeat split; try assumption; congruence.
Qed.

(* parse and unparse are mutually inverse *)
Lemma twf_has_rule t c : twf t c -> spec c <> None.
Proof.
  destruct t; simpl.
  - intros (_ & [tbl H] & _). congruence.
  - intros (_ & kids & maps & bwd & ci & H & _). congruence.
  - intros (_ & kids & mins & maxs & maps & bwd & H & _). congruence.
Qed.

Theorem parse_unparse : forall t c o, twf t c -> unparse t = Some o ->
  In_cls c o /\ exists f0, forall f, (f0 <= f)%nat -> parse f c o = Some t.
Proof.
  intros t c o Hw Hu. destruct (unparse_sound t c Hw) as (o' & Hu' & Ho & _).
  rewrite Hu in Hu'. inversion Hu'; subst o'. split; [assumption|].
  destruct (parse_total (rank c (size o)) c o (le_n _) (twf_has_rule t c Hw) Ho) as (t' & Hw' & Hu2 & f0 & Hf).
  assert (t' = t) by (eapply unparse_inj; eassumption). subst t'. exists f0. exact Hf.
Qed.

Theorem unparse_parse : forall c o, spec c <> None -> In_cls c o ->
  exists t f0, twf t c /\ unparse t = Some o /\ forall f, (f0 <= f)%nat -> parse f c o = Some t.
Proof.
  intros c o Hc Ho. destruct (parse_total (rank c (size o)) c o (le_n _) Hc Ho) as (t & Hw & Hu & f0 & Hf).
  exists t, f0. auto.
Qed.

Lemma parse_list_sound f :
  (forall c o t, In_cls c o -> parse f c o = Some t -> twf t c /\ unparse t = Some o) ->
  forall kids ys, Forall2 In_cls kids ys -> forall ts,
    omap (fun ky : nat * obj => parse f (fst ky) (snd ky)) (combine kids ys) = Some ts ->
    all2 twf ts kids /\ omap unparse ts = Some ys.
Proof.
  intros IH kids ys Hys. induction Hys as [|k y kids' ys' Hy Hys IHys]; intros ts Ets; simpl in Ets.
  - inversion Ets. simpl. auto.
  - destruct (parse f k y) as [t'|] eqn:Et; [|discriminate].
    destruct (omap _ (combine kids' ys')) as [ts'|] eqn:Ets'; [|discriminate].
    inversion Ets; subst ts. destruct (IH k y t' Hy Et) as [Hw Hu].
    destruct (IHys ts' eq_refl) as [Ha Hb']. simpl. rewrite Hu, Hb'. auto.
Qed.

(* whatever fuel: when parse answers, the answer is THE tree of the object *)
Theorem parse_sound : forall f c o t, In_cls c o -> parse f c o = Some t -> twf t c /\ unparse t = Some o.
Proof.
  induction f as [|f IH]; intros c o t Ho Hp; [discriminate|]. simpl in Hp.
  pose proof (contracts c) as Hok. unfold node_ok in Hok.
  destruct (spec c) as [[kids maps bwd|kids mins maxs maps bwd|tbl]|] eqn:Hs; [| | |discriminate].
  - destruct Hok as [HU1 _]. destruct (HU1 o Ho) as (i & k & y & Hi & Hf & Hy & _ & _ & Hb).
    assert (Hlt : (i < length kids)%nat) by (apply nth_error_Some; congruence).
    rewrite Hf, first_some_slot, Hi in Hp by assumption.
    destruct (parse f k y) as [t'|] eqn:Et; [|discriminate]. inversion Hp; subst t.
    destruct (IH k y t' Hy Et) as [Hw Hu]. split.
    + simpl. split; [reflexivity|]. exists kids, maps, bwd, k. auto.
    + simpl. rewrite Hs, Hu, <- Hf, Hb. reflexivity.
  - destruct Hok as [[HP1 _] _]. destruct (HP1 o Ho) as (ys & Hf & Hys & _ & _ & Hb).
    rewrite Hf, all_some_map_Some in Hp.
    destruct (negb (length ys =? length kids)%nat); [discriminate|].
    destruct (omap _ (combine kids ys)) as [ts|] eqn:Ets; [|discriminate]. inversion Hp; subst t.
    assert (G : all2 twf ts kids /\ omap unparse ts = Some ys) by (eapply parse_list_sound; eassumption).
    destruct G as [Hall E]. split.
    + simpl. split; [reflexivity|]. exists kids, mins, maxs, maps, bwd. auto.
    + rewrite unparse_PNode, Hs, E, <- Hf, Hb. reflexivity.
  - destruct (atom c) as [a|] eqn:Ea; [|discriminate]. inversion Hp; subst t. apply Hok in Ho. subst o. split.
    + simpl. split; [reflexivity|]. split; [eexists; exact Hs|congruence].
    + simpl. rewrite Hs. assumption.
Qed.

End Core.
