(* C20 — executable model of the SELECTION step of CombinatorialSpecification.get_genf
   (specification.py), as repaired by fix FIXHASH_GENF, and as it was before.

     solutions = solve(eqs, all functions, dict=True, ...)          -- sympy, not modelled
     for solution in solutions:
         genf = solution[root_func]
         try: expansion = taylor_expand(genf, check)
         except TaylorExpansionError: continue
         if expansion == initial_conditions and self._all_classes_agree(solution, check):   (* repaired *)
         if expansion == initial_conditions:                                                 (* before *)
             return sympy.simplify(genf)
     raise IncorrectGeneratingFunctionError

     def _all_classes_agree(self, solution, check):
         for comb_class, rule in self.rules_dict.items():
             func = self.get_function(comb_class)
             if func not in solution: return False
             try: expansion = taylor_expand(solution[func], check)
             except TaylorExpansionError: return False
             counts = [rule.count_objects_of_size(n) for n in range(check + 1)]
             if expansion != counts: return False
         return True

   What sympy produced is an INPUT of the model: a solution ("branch") is given by the Taylor
   coefficients of its functions, class by class; None = the class has no function in the solution or
   the function has no Taylor expansion (TaylorExpansionError).  W c n = the specification's own count
   of class c at size n (count_objects_of_size; the initial conditions are W root 0 .. W root check).
   No proofs in this file. *)
From Coq Require Import ZArith List Bool.
From CSS Require Import Count.Series.
Import ListNotations.
Open Scope Z_scope.

Definition branch := nat -> option (Z -> Z).

(* expansion == counts on the check + 1 compared terms *)
Definition agree (check : Z) (g w : Z -> Z) : bool :=
  forallb (fun n => g n =? w n) (zrange 0 (check + 1)).

Definition class_ok (check : Z) (W : nat -> Z -> Z) (b : branch) (c : nat) : bool :=
  match b c with Some g => agree check g (W c) | None => false end.

(* _all_classes_agree *)
Definition all_classes_agree (check : Z) (classes : list nat) (W : nat -> Z -> Z) (b : branch) : bool :=
  forallb (class_ok check W b) classes.

Fixpoint first_ok (ok : branch -> bool) (bs : list branch) : option branch :=
  match bs with
  | [] => None                                   (* IncorrectGeneratingFunctionError *)
  | b :: t => if ok b then Some b else first_ok ok t
  end.

(* get_genf, repaired: the branch whose root function is returned *)
Definition genf_select (check : Z) (root : nat) (classes : list nat) (W : nat -> Z -> Z) (bs : list branch)
  : option branch :=
  first_ok (fun b => class_ok check W b root && all_classes_agree check classes W b) bs.

(* HISTORY: before the fix only the root was compared *)
Definition genf_select_old (check : Z) (root : nat) (W : nat -> Z -> Z) (bs : list branch) : option branch :=
  first_ok (fun b => class_ok check W b root) bs.

(* the family of coefficient sequences of a branch (0 where the branch has no series) *)
Definition family (b : branch) : nat -> Z -> Z :=
  fun c n => match b c with Some g => g n | None => 0 end.
