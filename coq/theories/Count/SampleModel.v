(* C08 — executable model of the random samplers.  NO PROOFS HERE.

   The random source is an explicit argument: a sampler is a term of the free
   monad [rc] ("random computation"): [Draw lo hi k] stands for one call
   randint(lo, hi) (or random.choice on a sequence of length hi+1, lo = 0)
   whose value r is passed to the continuation k.  [run] feeds an explicit
   draw sequence (the sampler as a pure function of the draws), [enum] lists
   all draw sequences in the exact ranges requested, and Count/SampleProb.v
   gives the probability semantics over Q.

   Transcribed (Python names in comments):
     strategies/constructor/disjoint.py   DisjointUnion.__init__ (zeroes), get_extra_parameters,
                                          random_sample_sub_objects
     strategies/constructor/cartesian.py  CartesianProduct.__init__ (minimum_sizes, min/max_child_sizes),
                                          reliance_profile, _valid_compositions (+ _helper),
                                          get_extra_parameters, random_sample_sub_objects
     strategies/rule.py                   AbstractRule.count_objects_of_size (parameter tuple lookup),
                                          Rule.random_sample_object_of_size, VerificationRule.…
     strategies/strategy.py               AtomStrategy / EmptyStrategy .random_sample_object_of_size
     specification.py                     CombinatorialSpecification.random_sample_object_of_size   *)
From Coq Require Import ZArith List Bool.
From CSS Require Import Gen.Prelude.
Import ListNotations.
Open Scope Z_scope.

(* ------------------------------------------------------------------ errors *)
Definition E_RUNTIME : Z := 1.        (* RuntimeError("Function did not return") *)
Definition E_VALUE : Z := 2.          (* ValueError: randint on an empty range / AtomStrategy "Invalid size" *)
Definition E_INVALID_OP : Z := 3.     (* InvalidOperationError (specification level) *)
Definition E_KEY : Z := 4.            (* KeyError: a parameter missing in a **kwargs dictionary *)
Definition E_NOT_APPLY : Z := 5.      (* StrategyDoesNotApply: EmptyStrategy cannot sample *)
Definition E_INDEX : Z := 6.          (* index handed to random.choice out of range *)
Definition E_FUEL : Z := 7.           (* model only: recursion fuel exhausted *)
Definition E_ASSERT : Z := 8.         (* AssertionError *)
Definition E_DRAWS : Z := 9.          (* model/harness only: the given draw sequence is exhausted *)

Inductive res (A : Type) : Type :=
| Ok (a : A)
| Err (e : Z).
Arguments Ok {A} a.
Arguments Err {A} e.

(* ------------------------------------------------------------------ random computations *)
Inductive rc (A : Type) : Type :=
| Ret (a : A)
| Fail (e : Z)
| Draw (lo hi : Z) (k : Z -> rc A).
Arguments Ret {A} a.
Arguments Fail {A} e.
Arguments Draw {A} lo hi k.

Fixpoint bind {A B} (m : rc A) (f : A -> rc B) : rc B :=
  match m with
  | Ret a => f a
  | Fail e => Fail e
  | Draw lo hi k => Draw lo hi (fun r => bind (k r) f)
  end.

(* tuple(f(x) for x in l): left to right *)
Fixpoint mapM {A B} (f : A -> rc B) (l : list A) : rc (list B) :=
  match l with
  | [] => Ret []
  | x :: t => bind (f x) (fun y => bind (mapM f t) (fun ys => Ret (y :: ys)))
  end.

(* random.choice(objs) on a tuple holding exactly one object *)
Definition choice1 {A} (a : A) : rc A :=
  Draw 0 0 (fun i => if i =? 0 then Ret a else Fail E_INDEX).

Definition trace := list (Z * Z * Z).    (* (lo, hi, value) of every draw made *)

(* the sampler as a pure function of the draw sequence.  randint(lo, hi) with
   hi < lo raises ValueError before anything is drawn. *)
Fixpoint run {A} (m : rc A) (draws : list Z) : res A * trace * list Z :=
  match m with
  | Ret a => (Ok a, [], draws)
  | Fail e => (Err e, [], draws)
  | Draw lo hi k =>
      if hi <? lo then (Err E_VALUE, [], draws)
      else match draws with
           | [] => (Err E_DRAWS, [], [])
           | r :: rest =>
               let '(x, tr, rem) := run (k r) rest in (x, (lo, hi, r) :: tr, rem)
           end
  end.

(* every draw sequence in the ranges actually requested, depth first, values ascending *)
Fixpoint enum {A} (m : rc A) : list (trace * res A) :=
  match m with
  | Ret a => [([], Ok a)]
  | Fail e => [([], Err e)]
  | Draw lo hi k =>
      if hi <? lo then [([], Err E_VALUE)]
      else flat_map (fun r => map (fun p : trace * res A => ((lo, hi, r) :: fst p, snd p)) (enum (k r)))
                    (py_range lo (hi + 1))
  end.

(* ------------------------------------------------------------------ the threshold walk *)
(* Shared shape of both random_sample_sub_objects loops:
       total = 0
       for b in branches:
           if <skip b>: continue           weight b = Ok None
           total += <weight of b>          weight b = Ok (Some w)   (Err e: the weight computation raises)
           if random_choice <= total: return <b>
       raise RuntimeError("Function did not return")
   The position of the branch is returned with it. *)
Fixpoint walk {B} (weight : B -> res (option Z)) (r total : Z) (i : nat) (bs : list B) : res (nat * B) :=
  match bs with
  | [] => Err E_RUNTIME
  | b :: rest =>
      match weight b with
      | Err e => Err e
      | Ok None => walk weight r total (S i) rest
      | Ok (Some w) =>
          let total' := total + w in
          if r <=? total' then Ok (i, b) else walk weight r total' (S i) rest
      end
  end.

(* ------------------------------------------------------------------ dictionaries *)
(* str -> int dictionaries; variable names are integers *)
Definition dict := list (Z * Z).
Fixpoint dget (d : dict) (k : Z) : option Z :=
  match d with
  | [] => None
  | (k', v) :: t => if k' =? k then Some v else dget t k
  end.
Definition dmem (d : dict) (k : Z) : bool := is_some (dget d k).

(* a child as seen through subrecs[i] = child_rule.count_objects_of_size:
   its extra_parameters (ordered) and its terms: (size, parameter tuple) -> count, absent = 0 (Counter) *)
Record child := {
  ch_params : list Z;
  ch_table : list (Z * list Z * Z);
}.

Fixpoint zs_eqb (a b : list Z) : bool :=
  match a, b with
  | [], [] => true
  | x :: a', y :: b' => (x =? y) && zs_eqb a' b'
  | _, _ => false
  end.

Fixpoint table_get (t : list (Z * list Z * Z)) (n : Z) (p : list Z) : Z :=
  match t with
  | [] => 0
  | (n', p', v) :: rest => if (n' =? n) && zs_eqb p' p then v else table_get rest n p
  end.

(* tuple(parameters[k] for k in self.comb_class.extra_parameters): KeyError when one is missing *)
Fixpoint tuple_of (vars : list Z) (q : dict) : option (list Z) :=
  match vars with
  | [] => Some []
  | k :: t => match dget q k, tuple_of t q with
              | Some v, Some r => Some (v :: r)
              | _, _ => None
              end
  end.

(* AbstractRule.count_objects_of_size(n, **q) *)
Definition rec_count (c : child) (n : Z) (q : dict) : res Z :=
  match tuple_of (ch_params c) q with
  | None => Err E_KEY
  | Some t => Ok (table_get (ch_table c) n t)
  end.

(* ------------------------------------------------------------------ DisjointUnion *)
(* one child of DisjointUnion.get_extra_parameters: the for/else over extra_parameters.items() *)
Fixpoint union_child_params (items : list (Z * Z)) (params upd : dict) : res (option dict) :=
  match items with
  | [] => Ok (Some upd)
  | (pv, cv) :: rest =>
      match dget params pv with
      | None => Err E_KEY                                (* parameters[parent_var] *)
      | Some v =>
          match dget upd cv with
          | None => union_child_params rest params (upd ++ [(cv, v)])
          | Some w => if w =? v then union_child_params rest params upd else Ok None   (* break *)
          end
      end
  end.

(* DisjointUnion.get_extra_parameters (evaluated completely before the loop starts) *)
Fixpoint union_extra (eps fixed : list dict) (params : dict) : res (list (option dict)) :=
  match eps, fixed with
  | ep :: eps', fx :: fixed' =>
      match union_child_params ep params fx with
      | Err e => Err e
      | Ok o => match union_extra eps' fixed' params with
                | Err e => Err e
                | Ok l => Ok (o :: l)
                end
      end
  | _, _ => Ok []
  end.

(* self.zeroes[i] = frozenset(parent.extra_parameters) - frozenset(extra_parameters[i].keys()) *)
Definition union_zeroes (pvars : list Z) (ep : dict) : list Z :=
  filter (fun k => negb (dmem ep k)) pvars.

Definition zmem (k : Z) (l : list Z) : bool := existsb (Z.eqb k) l.

(* any(val != 0 and k in self.zeroes[idx] for k, val in parameters.items()) *)
Definition union_zero_skip (zeroes : list Z) (params : dict) : bool :=
  existsb (fun kv : Z * Z => negb (snd kv =? 0) && zmem (fst kv) zeroes) params.

Record ubranch := {
  ub_child : child;
  ub_extra : option dict;
  ub_zeroes : list Z;
}.

Definition union_weight (n : Z) (params : dict) (b : ubranch) : res (option Z) :=
  match ub_extra b with
  | None => Ok None
  | Some q =>
      if union_zero_skip (ub_zeroes b) params then Ok None
      else match rec_count (ub_child b) n q with
           | Err e => Err e
           | Ok w => Ok (Some w)
           end
  end.

(* zip(enumerate(subrecs), subsamplers, get_extra_parameters(...)) *)
Fixpoint union_branches (pvars : list Z) (kids : list child) (eps : list dict) (extra : list (option dict))
  : list ubranch :=
  match kids, eps, extra with
  | c :: kids', ep :: eps', x :: extra' =>
      {| ub_child := c; ub_extra := x; ub_zeroes := union_zeroes pvars ep |}
      :: union_branches pvars kids' eps' extra'
  | _, _, _ => []
  end.

(* what the chosen subsampler is called with: (index, n, parameter tuple of the child) *)
Definition utoken := (Z * list Z)%type.

(* DisjointUnion.random_sample_sub_objects after random_choice = r has been drawn *)
Definition union_pick (pvars : list Z) (kids : list child) (eps fixed : list dict)
           (n : Z) (params : dict) (r : Z) : res utoken :=
  match union_extra eps fixed params with
  | Err e => Err e
  | Ok extra =>
      match walk (union_weight n params) r 0 0%nat (union_branches pvars kids eps extra) with
      | Err e => Err e
      | Ok (i, b) =>
          match ub_extra b with
          | None => Err E_ASSERT     (* unreachable: skipped branches are never returned *)
          | Some q => match tuple_of (ch_params (ub_child b)) q with
                      | None => Err E_KEY
                      | Some t => Ok (Z.of_nat i, t)
                      end
          end
      end
  end.

(* ------------------------------------------------------------------ CartesianProduct *)
(* Vectors are indexed by position in parent_parameters = ("n",) + parent.extra_parameters;
   d is their length and dictionary lookups [k] become nth k. *)
Definition vec := list Z.
Definition vget (v : vec) (k : nat) : Z := nth k v 0.
Definition idxs (d : nat) : list nat := seq 0 d.

Record pchild := {
  pc_child : child;
  pc_min : Z;                 (* child.minimum_size_of_object() *)
  pc_atom : bool;             (* child.is_atom() *)
  pc_minval : dict;           (* child variable -> child.get_minimum_value(variable) *)
  pc_ep : dict;               (* extra_parameters[i]: parent variable -> child variable *)
}.

(* CartesianProduct.__init__: self.min_child_sizes[i] / self.max_child_sizes[i] as vectors *)
Definition pc_mins (pvars : list Z) (c : pchild) : vec :=
  pc_min c :: map (fun k => match dget (pc_ep c) k with
                            | Some cv => match dget (pc_minval c) cv with Some m => m | None => 0 end
                            | None => 0
                            end) pvars.
Definition pc_maxs (pvars : list Z) (c : pchild) : list (option Z) :=
  (if pc_atom c then Some (pc_min c) else None)
  :: map (fun k => match dget (pc_ep c) k with
                   | None => Some 0
                   | Some cv => if pc_atom c
                                then Some (match dget (pc_minval c) cv with Some m => m | None => 0 end)
                                else None
                   end) pvars.

(* reliance_profile(n, **parameters)[i][k] as the (start, stop) of the range *)
Definition profile_range (pmins P mins : vec) (maxs : list (option Z)) (k : nat) : Z * Z :=
  let lo := vget mins k in
  let stop1 := vget P k - vget pmins k + lo + 1 in
  (lo, match nth k maxs None with
       | Some M => Z.min stop1 (M + 1)
       | None => stop1
       end).

(* minmaxes: {k: (min(profile[k]), max(profile[k]))} *)
Definition minmax_of (d : nat) (pmins P mins : vec) (maxs : list (option Z)) : list (Z * Z) :=
  map (fun k => let '(a, b) := profile_range pmins P mins maxs k in (a, b - 1)) (idxs d).

(* all(profile.values()): every range non-empty *)
Definition profile_nonempty (d : nat) (pmins P mins : vec) (maxs : list (option Z)) : bool :=
  forallb (fun k => let '(a, b) := profile_range pmins P mins maxs k in a <? b) (idxs d).

Definition mm_lo (mm : list (Z * Z)) (k : nat) : Z := fst (nth k mm (0, 0)).
Definition mm_hi (mm : list (Z * Z)) (k : nat) : Z := snd (nth k mm (0, 0)).

(* sum(minmax[k][j] for minmax in minmaxes[1:]) *)
Fixpoint col_lo (k : nat) (mms : list (list (Z * Z))) : Z :=
  match mms with [] => 0 | mm :: t => mm_lo mm k + col_lo k t end.
Fixpoint col_hi (k : nat) (mms : list (list (Z * Z))) : Z :=
  match mms with [] => 0 | mm :: t => mm_hi mm k + col_hi k t end.

(* itertools.product of the ranges: first coordinate slowest *)
Fixpoint cartesian (rs : list (list Z)) : list (list Z) :=
  match rs with
  | [] => [[]]
  | r :: rs' => flat_map (fun x => map (cons x) (cartesian rs')) r
  end.

(* _valid_compositions._helper(minmaxes, **parameters).  With no child at all
   Python raises IndexError on minmaxes[0]; the model yields nothing (outside
   every theorem's precondition, never produced by the harness). *)
Fixpoint helper (d : nat) (mms : list (list (Z * Z))) (p : vec) : list (list vec) :=
  match mms with
  | [] => []
  | mm :: rest =>
      match rest with
      | [] =>
          if forallb (fun k => (mm_lo mm k <=? vget p k) && (vget p k <=? mm_hi mm k)) (idxs d)
          then [[map (vget p) (idxs d)]]
          else []
      | _ :: _ =>
          flat_map
            (fun values : vec =>
               map (cons values)
                   (helper d rest (map (fun k => vget p k - vget values k) (idxs d))))
            (cartesian
               (map (fun k => py_range (Z.max (mm_lo mm k) (vget p k - col_hi k rest))
                                       (Z.min (mm_hi mm k) (vget p k - col_lo k rest) + 1))
                    (idxs d)))
      end
  end.

(* CartesianProduct._valid_compositions(n, **parameters); P = n :: parameters in parent order *)
Definition valid_comps (d : nat) (pmins : vec) (mins : list vec) (maxs : list (list (option Z))) (P : vec)
  : list (list vec) :=
  let cm := combine mins maxs in
  if forallb (fun c : vec * list (option Z) => profile_nonempty d pmins P (fst c) (snd c)) cm
  then helper d (map (fun c : vec * list (option Z) => minmax_of d pmins P (fst c) (snd c)) cm) P
  else [].

(* position (>= 1) of a parent variable in parent_parameters *)
Fixpoint pvar_get (pvars : list Z) (k : nat) (pv : Z) (v : vec) : option Z :=
  match pvars with
  | [] => None
  | x :: t => if x =? pv then Some (vget v k) else pvar_get t (S k) pv v
  end.

(* CartesianProduct.get_extra_parameters for ONE child: v = its vector, pvars the parent variables
   (positions 1..), items = its map.  Ok None = contradiction; the size v[0] is kept separately. *)
Fixpoint prod_child_params (items : list (Z * Z)) (pvars : list Z) (v : vec) (upd : dict) : res (option dict) :=
  match items with
  | [] => Ok (Some upd)
  | (pv, cv) :: rest =>
      match pvar_get pvars 1%nat pv v with
      | None => Err E_KEY                                      (* params[k] *)
      | Some val =>
          match dget upd cv with
          | None => prod_child_params rest pvars v (upd ++ [(cv, val)])
          | Some w => if w =? val then prod_child_params rest pvars v upd else Ok None
          end
      end
  end.

(* assert all(params[k] == 0 for k in self.parent_parameters if k not in map_params and k != "n") *)
Definition prod_assert_zero (pvars : list Z) (ep : dict) (v : vec) : bool :=
  forallb (fun kv : nat * Z => dmem ep (snd kv) || (vget v (fst kv) =? 0))
          (combine (seq 1 (length pvars)) pvars).

(* CartesianProduct.get_extra_parameters(child_parameters): Ok None = "return None" *)
Fixpoint prod_extra (pvars : list Z) (kids : list pchild) (comp : list vec) : res (option (list (Z * dict))) :=
  match kids, comp with
  | c :: kids', v :: comp' =>
      if negb (prod_assert_zero pvars (pc_ep c) v) then Err E_ASSERT
      else match prod_child_params (pc_ep c) pvars v [] with
           | Err e => Err e
           | Ok None => Ok None
           | Ok (Some q) =>
               match prod_extra pvars kids' comp' with
               | Err e => Err e
               | Ok None => Ok None
               | Ok (Some l) => Ok (Some ((vget v 0, q) :: l))
               end
           end
  | _, _ => Ok (Some [])
  end.

(* tmp = 1; for rec, extra in zip(subrecs, extra_parameters): tmp *= rec(...); if tmp == 0: break *)
Fixpoint prod_weight_from (tmp : Z) (kids : list pchild) (ex : list (Z * dict)) : res Z :=
  match kids, ex with
  | c :: kids', (s, q) :: ex' =>
      match rec_count (pc_child c) s q with
      | Err e => Err e
      | Ok w => let tmp' := tmp * w in
                if tmp' =? 0 then Ok tmp' else prod_weight_from tmp' kids' ex'
      end
  | _, _ => Ok tmp
  end.

Definition prod_weight (pvars : list Z) (kids : list pchild) (comp : list vec) : res (option Z) :=
  match prod_extra pvars kids comp with
  | Err e => Err e
  | Ok None => Ok None
  | Ok (Some ex) => match prod_weight_from 1 kids ex with
                    | Err e => Err e
                    | Ok w => Ok (Some w)
                    end
  end.

Definition ptoken := list (Z * list Z).   (* per child: (size, parameter tuple) *)

Fixpoint prod_tokens (kids : list pchild) (ex : list (Z * dict)) : res ptoken :=
  match kids, ex with
  | c :: kids', (s, q) :: ex' =>
      match tuple_of (ch_params (pc_child c)) q with
      | None => Err E_KEY
      | Some t => match prod_tokens kids' ex' with
                  | Err e => Err e
                  | Ok l => Ok ((s, t) :: l)
                  end
      end
  | _, _ => Ok []
  end.

Definition prod_comps (pvars : list Z) (pmins : vec) (kids : list pchild) (P : vec) : list (list vec) :=
  valid_comps (S (length pvars)) pmins (map (pc_mins pvars) kids) (map (pc_maxs pvars) kids) P.

(* CartesianProduct.random_sample_sub_objects after random_choice = r has been drawn.
   params: the **parameters dictionary; reliance_profile asserts that its keys
   are exactly pvars.  Without any child Python ends in IndexError (minmaxes[0]). *)
Definition prod_pick (pvars : list Z) (pmins : vec) (kids : list pchild) (n : Z) (params : dict) (r : Z)
  : res ptoken :=
  match kids with
  | [] => Err E_INDEX
  | _ :: _ =>
      match tuple_of pvars params with
      | None => Err E_ASSERT
      | Some pv =>
          if negb (Nat.eqb (length params) (length pvars)) then Err E_ASSERT else
          match walk (prod_weight pvars kids) r 0 0%nat (prod_comps pvars pmins kids (n :: pv)) with
          | Err e => Err e
          | Ok (_, comp) =>
              match prod_extra pvars kids comp with
              | Ok (Some ex) => prod_tokens kids ex
              | Ok None => Err E_ASSERT          (* assert extra_parameters is not None *)
              | Err e => Err e
              end
          end
      end
  end.

(* the two constructor-level samplers as random computations *)
Definition lift {A} (x : res A) : rc A := match x with Ok a => Ret a | Err e => Fail e end.
Definition union_rc (pvars : list Z) (kids : list child) (eps fixed : list dict)
           (parent_count n : Z) (params : dict) : rc utoken :=
  Draw 1 parent_count (fun r => lift (union_pick pvars kids eps fixed n params r)).
Definition prod_rc (pvars : list Z) (pmins : vec) (kids : list pchild)
           (parent_count n : Z) (params : dict) : rc ptoken :=
  Draw 1 parent_count (fun r => lift (prod_pick pvars pmins kids n params r)).

(* ------------------------------------------------------------------ specifications without parameters *)
(* kinds of the rule of a class *)
Definition K_ATOM : Z := 0.      (* VerificationRule with AtomStrategy *)
Definition K_EMPTY : Z := 1.     (* VerificationRule with EmptyStrategy *)
Definition K_UNION : Z := 2.     (* Rule / EquivalencePathRule whose constructor is a DisjointUnion *)
Definition K_PRODUCT : Z := 3.   (* Rule whose constructor is a CartesianProduct *)

Record cls := {
  c_kind : Z;
  c_min : Z;            (* minimum_size_of_object() *)
  c_atom : bool;        (* is_atom() *)
  c_kids : list nat;    (* labels of rule.children *)
}.

Inductive tree : Type :=
| Leaf (c : nat)
| UNode (c i : nat) (t : tree)
| PNode (c : nat) (ts : list tree).

Definition prodz (l : list Z) : Z := fold_right Z.mul 1 l.

Section Spec.
  Variable rule_of : nat -> cls.
  Variable cnt : nat -> Z -> Z.       (* count_objects_of_size of the class's rule *)

  (* the constructor of a product rule, from the classes (no parameters: d = 1) *)
  Definition spec_comps (c : nat) (n : Z) : list (list vec) :=
    let k := rule_of c in
    valid_comps 1 [c_min k]
                (map (fun ci => [c_min (rule_of ci)]) (c_kids k))
                (map (fun ci => [if c_atom (rule_of ci) then Some (c_min (rule_of ci)) else None]) (c_kids k))
                [n].

  Definition comp_sizes (comp : list vec) : list Z := map (fun v => vget v 0) comp.

  Definition spec_prod_weight (kids : list nat) (comp : list vec) : res (option Z) :=
    Ok (Some (prodz (map (fun p : nat * Z => cnt (fst p) (snd p)) (combine kids (comp_sizes comp))))).

  Definition spec_union_weight (n : Z) (ci : nat) : res (option Z) := Ok (Some (cnt ci n)).

  (* <AbstractRule>.random_sample_object_of_size(n) *)
  Fixpoint sample (fuel : nat) (c : nat) (n : Z) : rc tree :=
    match fuel with
    | O => Fail E_FUEL
    | S f =>
        let k := rule_of c in
        if c_kind k =? K_ATOM then
          (* AtomStrategy.random_sample_object_of_size: no draw *)
          if n =? c_min k then Ret (Leaf c) else Fail E_VALUE
        else if c_kind k =? K_EMPTY then Fail E_NOT_APPLY
        else if c_kind k =? K_UNION then
          (* Rule.random_sample_object_of_size with DisjointUnion.random_sample_sub_objects *)
          Draw 1 (cnt c n) (fun r =>
            match walk (spec_union_weight n) r 0 0%nat (c_kids k) with
            | Err e => Fail e
            | Ok (i, ci) => bind (sample f ci n) (fun t => choice1 (UNode c i t))
            end)
        else if c_kind k =? K_PRODUCT then
          (* ... with CartesianProduct.random_sample_sub_objects *)
          Draw 1 (cnt c n) (fun r =>
            match walk (spec_prod_weight (c_kids k)) r 0 0%nat (spec_comps c n) with
            | Err e => Fail e
            | Ok (_, comp) =>
                bind (mapM (fun p : nat * Z => sample f (fst p) (snd p)) (combine (c_kids k) (comp_sizes comp)))
                     (fun ts => choice1 (PNode c ts))
            end)
        else Fail E_NOT_APPLY
    end.

  (* CombinatorialSpecification.random_sample_object_of_size(n) *)
  Definition spec_sample (fuel : nat) (root : nat) (n : Z) : rc tree :=
    if 0 <? cnt root n then sample fuel root n else Fail E_INVALID_OP.

  (* one rule, one draw: the sub-objects requested (tokens (child label, size)) *)
  Definition rule_step (c : nat) (n : Z) (r : Z) : res (list (nat * Z)) :=
    let k := rule_of c in
    if c_kind k =? K_UNION then
      match walk (spec_union_weight n) r 0 0%nat (c_kids k) with
      | Err e => Err e
      | Ok (i, ci) => Ok [(i, n)]          (* position of the child, size *)
      end
    else if c_kind k =? K_PRODUCT then
      match walk (spec_prod_weight (c_kids k)) r 0 0%nat (spec_comps c n) with
      | Err e => Err e
      | Ok (_, comp) => Ok (combine (seq 0 (length (c_kids k))) (comp_sizes comp))
      end
    else Err E_NOT_APPLY.
End Spec.
