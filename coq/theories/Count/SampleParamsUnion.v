(* C08 with extra parameters — one union rule: what DisjointUnion.get_extra_parameters hands to
   a child, when a child is skipped, and why the cumulative thresholds never exceed the count
   DisjointUnion.get_terms computes. *)
From Coq Require Import ZArith List Bool Lia.
From CSS Require Import Gen.Prelude Count.Terms Count.Constructors Count.ConstructorsUnionProduct
  Count.ConstructorsDict Count.SampleModel Count.SampleWalk Count.SamplePick Count.SampleComps Count.SampleModelParams
  Count.SampleParamsDict Count.SampleParamsSpec.
Import ListNotations.
Open Scope Z_scope.

Section UnionChild.
  Variable rule_of : nat -> pcls.
  Variable tab : nat -> Z -> terms.
  Variable c : nat.
  Variable d : nat * dict * dict.          (* child, its dictionary, its fixed values *)
  Let ci := fst (fst d).
  Let ep := snd (fst d).
  Let fx := snd d.
  Hypothesis Hpn : NoDup (pars rule_of c).
  Hypothesis Hcn : NoDup (pars rule_of ci).
  Hypothesis Hd : union_child_ok rule_of c d.
  Variables (P : dict) (p : params).
  Hypothesis HP : dict_for rule_of c P p.

  Lemma P_nth j : (j < length (pars rule_of c))%nat ->
    dget P (nth j (pars rule_of c) 0) = Some (nth j p 0).
  Proof.
    intros Hj. destruct HP as (_ & _ & Ht).
    destruct (tuple_of_nth _ _ _ (nth j (pars rule_of c) 0) Hpn Ht (nth_In _ _ Hj)) as (i & Ep & _ & Ev).
    rewrite (pos_of_nth _ j Hpn Hj) in Ep. injection Ep as <-. exact Ev.
  Qed.

  Lemma ep_key_pos pv cv : In (pv, cv) ep ->
    exists j, (j < length (pars rule_of c))%nat /\ nth j (pars rule_of c) 0 = pv /\ dget ep pv = Some cv /\
              In cv (pars rule_of ci).
  Proof.
    intros Hin. destruct Hd as ((Hwf & Hval) & _). destruct Hwf as (_ & _ & Hk & Hkeys).
    destruct (In_nth _ _ 0 (Hkeys pv cv Hin)) as (j & Hj & E).
    exists j. split; [exact Hj|]. split; [exact E|]. split; [apply dget_nodup; assumption|].
    apply (Hval pv cv). exact Hin.
  Qed.

  (* no KeyError in get_extra_parameters *)
  Lemma union_child_no_error : exists o, union_child_params ep P fx = Ok o.
  Proof.
    apply ucp_no_error. intros pv cv Hin. destruct (ep_key_pos pv cv Hin) as (j & Hj & <- & _).
    rewrite (P_nth j Hj). discriminate.
  Qed.

  (* a child that is not skipped is asked with a tuple q that its parameter map sends to p *)
  Lemma union_child_back Q q :
    union_child_params ep P fx = Ok (Some Q) ->
    union_zero_skip (union_zeroes (pars rule_of c) ep) P = false ->
    tuple_of (pars rule_of ci) Q = Some q ->
    cmap rule_of c (fst d) q = p /\ dict_for rule_of ci Q q.
  Proof.
    intros HQ Hz Hq.
    destruct (ucp_some P ep fx Q HQ) as (I1 & I2 & I3 & I4).
    destruct Hd as (Hep & Hfn & Hfk & Hdet).
    split.
    - unfold cmap. fold ci ep. apply (nth_ext _ _ 0 0).
      + rewrite dict_sem_length. destruct HP as (_ & _ & Ht). symmetry. eapply tuple_of_length. exact Ht.
      + rewrite dict_sem_length. intros j Hj. rewrite dict_sem_nth by exact Hj.
        set (pv := nth j (pars rule_of c) 0).
        destruct (dget ep pv) as [cv|] eqn:E.
        * pose proof (dget_In _ _ _ E) as Hin.
          destruct (I2 pv cv Hin) as (v & Hv & HQv).
          destruct (ep_key_pos pv cv Hin) as (_ & _ & _ & _ & Hcv).
          pose proof (dict_val_dget (pars rule_of ci) ep Q q pv cv Hcn Hq E Hcv) as X.
          unfold pv in Hv. rewrite (P_nth j Hj) in Hv. congruence.
        * rewrite dict_val_nokey by exact E.
          pose proof (P_nth j Hj) as Hv. apply dget_In in Hv.
          rewrite union_zero_skip_false in Hz. symmetry. apply (Hz _ _ Hv).
          apply union_zeroes_in. split; [apply nth_In; exact Hj|exact E].
    - split; [apply I4; exact Hfn|]. split; [|exact Hq].
      intros k Hk. apply I3 in Hk. destruct Hk as [Hk|Hk]; [apply Hfk; exact Hk|].
      apply in_map_iff in Hk. destruct Hk as ([pv cv] & <- & Hin).
      destruct (ep_key_pos pv cv Hin) as (_ & _ & _ & _ & Hcv). exact Hcv.
  Qed.

  (* every child that is not skipped finds all its parameters: no KeyError when its count is asked *)
  Lemma union_child_tuple Q : union_child_params ep P fx = Ok (Some Q) ->
    exists q, tuple_of (pars rule_of ci) Q = Some q.
  Proof.
    intros HQ. destruct (ucp_some P ep fx Q HQ) as (_ & _ & I3 & _).
    destruct Hd as (_ & _ & _ & Hdet).
    apply tuple_of_Some_all. intros k Hk E. apply dget_None in E. apply E. apply I3.
    destruct (Hdet k Hk) as [H|H]; [right; exact H|left; exact H].
  Qed.

  (* the child of a parse tree: a tuple q' the child really has (count <> 0), sent to p by the
     parameter map, with honest fixed values: the child is not skipped and is asked with q' *)
  Lemma union_child_forward q' :
    length q' = length (pars rule_of ci) ->
    cmap rule_of c (fst d) q' = p ->
    (forall k v, In (k, v) fx -> dget (combine (pars rule_of ci) q') k = Some v) ->
    exists Q, union_child_params ep P fx = Ok (Some Q) /\ dict_for rule_of ci Q q' /\
              union_zero_skip (union_zeroes (pars rule_of c) ep) P = false.
  Proof.
    intros Hl Hmap Hfix.
    set (g := dget (combine (pars rule_of ci) q')).
    destruct (ucp_compatible P ep fx g) as (Q & HQ & Hsub).
    - intros k w Hk. apply Hfix. apply dget_In. exact Hk.
    - intros pv cv Hin. destruct (ep_key_pos pv cv Hin) as (j & Hj & <- & E & Hcv).
      rewrite (P_nth j Hj). split; [discriminate|].
      rewrite <- Hmap. unfold cmap. fold ci ep. rewrite dict_sem_nth by exact Hj.
      unfold dict_val. pose proof (dget_dict_get ep (nth j (pars rule_of c) 0)) as X. rewrite E in X. rewrite <- X.
      destruct (pos_of_in _ _ Hcn Hcv) as (i & Hi & Ei & Ep). rewrite Ep.
      unfold g. rewrite <- Ei. apply dget_combine_nth; assumption.
    - exists Q. split; [exact HQ|].
      destruct (ucp_some P ep fx Q HQ) as (I1 & I2 & I3 & I4).
      destruct Hd as (Hep & Hfn & Hfk & Hdet).
      split; [split; [apply I4; exact Hfn|split]|].
      + intros k Hk. apply I3 in Hk. destruct Hk as [Hk|Hk]; [apply Hfk; exact Hk|].
        apply in_map_iff in Hk. destruct Hk as ([pv cv] & <- & Hin).
        destruct (ep_key_pos pv cv Hin) as (_ & _ & _ & _ & Hcv). exact Hcv.
      + rewrite (tuple_of_ext _ Q (combine (pars rule_of ci) q')); [apply tuple_of_combine; assumption|].
        intros k Hk. destruct (dget Q k) as [w|] eqn:E.
        * symmetry. apply Hsub. exact E.
        * exfalso. apply dget_None in E. apply E. apply I3.
          destruct (Hdet k Hk) as [H|H]; [right; exact H|left; exact H].
      + apply union_zero_skip_false. intros k v Hin Hz. apply union_zeroes_in in Hz. destruct Hz as [Hk E].
        destruct (In_nth _ _ 0 Hk) as (j & Hj & Ej).
        destruct HP as (HPn & _ & _). pose proof (dget_nodup P k v HPn Hin) as Hv.
        rewrite <- Ej in Hv. rewrite (P_nth j Hj) in Hv. injection Hv as <-.
        rewrite <- Hmap. unfold cmap. fold ci ep. rewrite dict_sem_nth by exact Hj. rewrite Ej.
        apply dict_val_nokey. exact E.
  Qed.
End UnionChild.

(* ------------------------------------------------------------------ small facts on lists and tables *)
Lemma map_fst_combine {A B} (l : list A) (l' : list B) : length l = length l' -> map fst (combine l l') = l.
Proof. revert l'. induction l as [|x l IH]; intros [|y l'] H; simpl in *; try lia; [reflexivity|]. f_equal. apply IH. lia. Qed.

Lemma map_snd_combine {A B} (l : list A) (l' : list B) : length l = length l' -> map snd (combine l l') = l'.
Proof. revert l'. induction l as [|x l IH]; intros [|y l'] H; simpl in *; try lia; [reflexivity|]. f_equal. apply IH. lia. Qed.

Lemma tget_rekey_ge (f : params -> params) (T : terms) q p :
  nonneg T -> f q = p -> tget T q <= tget (rekey f T) p.
Proof.
  intros Hn Hf. induction T as [|[k v] T IH]; simpl; [lia|].
  assert (Hv : 0 <= v) by (apply (Hn k v); left; reflexivity).
  assert (IH' : tget T q <= tget (rekey f T) p) by (apply IH; intros k' v' Hin; apply (Hn k' v'); right; exact Hin).
  destruct (params_eqb k q) eqn:E.
  - apply params_eqb_eq in E. subst k. rewrite Hf, params_eqb_refl. lia.
  - destruct (params_eqb (f k) p); lia.
Qed.

Lemma tget_rekey_nonneg (f : params -> params) (T : terms) p : nonneg T -> 0 <= tget (rekey f T) p.
Proof. intros Hn. apply tget_nonneg. apply nonneg_rekey. exact Hn. Qed.

Lemma union_table_cons f fs T Ts : union_table (f :: fs) (T :: Ts) = rekey f T ++ union_table fs Ts.
Proof. reflexivity. Qed.

(* ------------------------------------------------------------------ the whole union rule *)
Section UnionRule.
  Variable rule_of : nat -> pcls.
  Variable tab : nat -> Z -> terms.
  Hypothesis Htab : tables_ok rule_of tab.
  Variable c : nat.
  Variables (P : dict) (p : params) (n : Z).
  Hypothesis HP : dict_for rule_of c P p.

  Let pvars := pars rule_of c.
  Definition dkid (d : nat * dict * dict) : nat := fst (fst d).
  Definition dep (d : nat * dict * dict) : dict := snd (fst d).
  Definition dfx (d : nat * dict * dict) : dict := snd d.

  (* the branch of the walk for a child and what get_extra_parameters returned for it *)
  Definition branch_of (dx : (nat * dict * dict) * option dict) : ubranch :=
    {| ub_child := kid_at rule_of tab n (dkid (fst dx));
       ub_extra := snd dx;
       ub_zeroes := union_zeroes pvars (dep (fst dx)) |}.

  Lemma pcount_tuple ci Q q : tuple_of (pars rule_of ci) Q = Some q ->
    rec_count (kid_at rule_of tab n ci) n Q = Ok (pcnt tab ci n q).
  Proof.
    intros Hq. unfold rec_count. simpl. fold (pars rule_of ci). rewrite Hq.
    destruct Htab as (_ & Hnd & _). rewrite table_get_sized by apply Hnd. reflexivity.
  Qed.

  Lemma union_extra_map : forall ds,
    Forall (union_child_ok rule_of c) ds ->
    exists extra, union_extra (map dep ds) (map dfx ds) P = Ok extra /\
                  Forall2 (fun d o => union_child_params (dep d) P (dfx d) = Ok o) ds extra.
  Proof.
    destruct Htab as (Hpn & _).
    induction 1 as [|d ds Hd _ IH]; simpl.
    - exists []. split; [reflexivity|constructor].
    - destruct (union_child_no_error rule_of c d (Hpn c) Hd P p HP) as (o & Ho).
      unfold dep, dfx in *. rewrite Ho. destruct IH as (extra & -> & HF).
      exists (o :: extra). split; [reflexivity|]. constructor; assumption.
  Qed.

  Lemma union_branches_map : forall ds extra, length ds = length extra ->
    union_branches pvars (map (kid_at rule_of tab n) (map dkid ds)) (map dep ds) extra
    = map branch_of (combine ds extra).
  Proof.
    induction ds as [|d ds IH]; intros [|x extra] Hl; simpl in *; try lia; [reflexivity|].
    f_equal. apply IH. lia.
  Qed.

  (* what a branch weighs *)
  Lemma branch_weight d o :
    union_child_ok rule_of c d -> union_child_params (dep d) P (dfx d) = Ok o ->
    match o with
    | None => union_weight n P (branch_of (d, o)) = Ok None
    | Some Q =>
        if union_zero_skip (union_zeroes pvars (dep d)) P then union_weight n P (branch_of (d, o)) = Ok None
        else exists q, tuple_of (pars rule_of (dkid d)) Q = Some q /\
                       cmap rule_of c (fst d) q = p /\ dict_for rule_of (dkid d) Q q /\
                       union_weight n P (branch_of (d, o)) = Ok (Some (pcnt tab (dkid d) n q))
    end.
  Proof.
    intros Hd Ho. destruct Htab as (Hpn & _). destruct o as [Q|]; [|reflexivity].
    unfold union_weight. simpl.
    destruct (union_zero_skip (union_zeroes pvars (dep d)) P) eqn:Ez; [reflexivity|].
    destruct (union_child_tuple rule_of c d Hd P Q Ho) as (q & Hq).
    destruct (union_child_back rule_of c d (Hpn c) (Hpn _) Hd P p HP Q q Ho Ez Hq) as [Hm Hdf].
    exists q. split; [exact Hq|]. split; [exact Hm|]. split; [exact Hdf|].
    unfold dkid. rewrite (pcount_tuple _ Q q Hq). reflexivity.
  Qed.

  Lemma branch_wz_le d o :
    union_child_ok rule_of c d -> union_child_params (dep d) P (dfx d) = Ok o ->
    (exists ow, union_weight n P (branch_of (d, o)) = Ok ow /\ forall w, ow = Some w -> 0 <= w) /\
    wz (union_weight n P) (branch_of (d, o)) <= tget (rekey (cmap rule_of c (fst d)) (tab (dkid d) n)) p.
  Proof.
    intros Hd Ho. destruct Htab as (_ & _ & Hnn).
    pose proof (tget_rekey_nonneg (cmap rule_of c (fst d)) (tab (dkid d) n) p (Hnn _ _)) as H0.
    pose proof (branch_weight d o Hd Ho) as H. unfold wz.
    destruct o as [Q|].
    - destruct (union_zero_skip (union_zeroes pvars (dep d)) P).
      + rewrite H. split; [exists None; split; [reflexivity|discriminate]|exact H0].
      + destruct H as (q & _ & Hm & _ & ->). split.
        * eexists. split; [reflexivity|]. intros w E. injection E as <-. apply tget_nonneg. apply Hnn.
        * apply tget_rekey_ge; [apply Hnn|exact Hm].
    - rewrite H. split; [exists None; split; [reflexivity|discriminate]|exact H0].
  Qed.

  (* all weights are computed without exception, and their sum is at most what get_terms counts *)
  Lemma union_total_le : forall ds extra,
    Forall (union_child_ok rule_of c) ds ->
    Forall2 (fun d o => union_child_params (dep d) P (dfx d) = Ok o) ds extra ->
    weights_ok (union_weight n P) (map branch_of (combine ds extra)) /\
    total_weight (union_weight n P) (map branch_of (combine ds extra))
    <= tget (union_table (map (cmap rule_of c) (map fst ds)) (map (fun ci => tab ci n) (map dkid ds))) p.
  Proof.
    intros ds extra Hds HF. revert Hds.
    induction HF as [|d o ds extra Ho HF IH]; intros Hds; simpl.
    - split; [intros b []|]. unfold total_weight, py_sum. simpl. lia.
    - inversion Hds as [|? ? Hd Hds']; subst.
      destruct (IH Hds') as [Wok Hle]. destruct (branch_wz_le d o Hd Ho) as [Hw Hb].
      split.
      + intros b [<-|Hb']; [exact Hw|apply Wok; exact Hb'].
      + rewrite union_table_cons, tget_app.
        change (total_weight (union_weight n P) (branch_of (d, o) :: map branch_of (combine ds extra)))
          with (wz (union_weight n P) (branch_of (d, o)) + total_weight (union_weight n P) (map branch_of (combine ds extra))).
        unfold dkid in *. lia.
  Qed.
End UnionRule.

(* ------------------------------------------------------------------ the union rule of a class *)
Section UnionClass.
  Variable rule_of : nat -> pcls.
  Variable tab : nat -> Z -> terms.
  Hypothesis Htab : tables_ok rule_of tab.
  Variable c : nat.
  Hypothesis Hu : union_ok rule_of tab c.
  Variables (P : dict) (p : params) (n : Z).
  Hypothesis HP : dict_for rule_of c P p.

  Notation ds := (kid_eps_fixed rule_of c).
  Notation w := (union_weight n P).

  Lemma ds_kids : map dkid ds = pk_kids (rule_of c).
  Proof.
    destruct Hu as (L1 & L2 & _). unfold kid_eps_fixed, kid_eps, dkid.
    rewrite <- (map_map fst fst). rewrite map_fst_combine by (rewrite combine_length; lia).
    apply map_fst_combine. lia.
  Qed.

  Lemma ds_eps : map dep ds = pk_eps (rule_of c).
  Proof.
    destruct Hu as (L1 & L2 & _). unfold kid_eps_fixed, kid_eps, dep.
    rewrite <- (map_map fst snd). rewrite map_fst_combine by (rewrite combine_length; lia).
    apply map_snd_combine. lia.
  Qed.

  Lemma ds_fixed : map dfx ds = pk_fixed (rule_of c).
  Proof.
    destruct Hu as (L1 & L2 & _). unfold kid_eps_fixed, kid_eps, dfx.
    apply map_snd_combine. rewrite combine_length. lia.
  Qed.

  Lemma ds_kid_eps : map fst ds = kid_eps rule_of c.
  Proof.
    destruct Hu as (L1 & L2 & _). unfold kid_eps_fixed. apply map_fst_combine.
    unfold kid_eps. rewrite combine_length. lia.
  Qed.

  (* everything about the walk of this rule at (n, P) *)
  Lemma union_walk_spec :
    exists extra,
      Forall2 (fun d o => union_child_params (dep d) P (dfx d) = Ok o) ds extra /\
      let bs := map (branch_of rule_of tab c n) (combine ds extra) in
      weights_ok w bs /\
      total_weight w bs <= pcnt tab c n p /\
      forall r,
        union_pick_dict (pars rule_of c) (map (kid_at rule_of tab n) (pk_kids (rule_of c)))
                        (pk_eps (rule_of c)) (pk_fixed (rule_of c)) n P r
        = match walk w r 0 0%nat bs with
          | Err e => Err e
          | Ok (i, b) => match ub_extra b with None => Err E_ASSERT | Some q => Ok (i, q) end
          end.
  Proof.
    destruct Hu as (L1 & L2 & Hds & Hteq).
    destruct (union_extra_map rule_of tab Htab c P p HP ds Hds) as (extra & Ee & HF).
    exists extra. split; [exact HF|].
    destruct (union_total_le rule_of tab Htab c P p n HP ds extra Hds HF) as [Wok Hle].
    split; [exact Wok|]. split.
    - unfold pcnt. rewrite (Hteq n p). rewrite ds_kid_eps, ds_kids in Hle. exact Hle.
    - intros r. unfold union_pick_dict. rewrite <- ds_eps, <- ds_fixed, Ee. rewrite <- ds_kids.
      rewrite (union_branches_map rule_of tab c n ds extra) by (eapply Forall2_len; exact HF).
      reflexivity.
  Qed.

  (* the branch the walk returns for a threshold r >= 1 *)
  Lemma union_picked extra r j b :
    Forall2 (fun d o => union_child_params (dep d) P (dfx d) = Ok o) ds extra ->
    weights_ok w (map (branch_of rule_of tab c n) (combine ds extra)) ->
    0 < r -> walk w r 0 0%nat (map (branch_of rule_of tab c n) (combine ds extra)) = Ok (j, b) ->
    exists d Q q,
      nth_error ds j = Some d /\ ub_extra b = Some Q /\
      dict_for rule_of (dkid d) Q q /\ cmap rule_of c (fst d) q = p /\
      0 < pcnt tab (dkid d) n q /\ wz w b = pcnt tab (dkid d) n q.
  Proof.
    intros HF Wok Hr W.
    apply walk_iff in W; [|exact Wok|exact Hr]. destruct W as (j' & Ej & Hn & Hlo & Hhi). simpl in Ej. subst j'.
    rewrite (presum_S _ _ _ _ Hn) in Hhi.
    assert (Hpos : 0 < wz w b) by lia.
    rewrite nth_error_map in Hn. destruct (nth_error (combine ds extra) j) as [[d o]|] eqn:En; [|discriminate].
    simpl in Hn. injection Hn as <-.
    assert (Hd : union_child_ok rule_of c d /\ union_child_params (dep d) P (dfx d) = Ok o /\ nth_error ds j = Some d).
    { destruct Hu as (_ & _ & Hds & _). clear -HF En Hds. revert j En Hds.
      induction HF as [|d0 o0 l l' H0 HF IH]; intros j En Hds; [destruct j; discriminate|].
      inversion Hds; subst. destruct j as [|j]; simpl in En.
      - injection En as <- <-. auto.
      - destruct (IH j En) as (A & B & C); [assumption|]. auto. }
    destruct Hd as (Hd & Ho & Hnd).
    pose proof (branch_weight rule_of tab Htab c P p n HP d o Hd Ho) as Hw.
    unfold wz in Hpos |- *. destruct o as [Q|]; [|rewrite Hw in Hpos; lia].
    destruct (union_zero_skip (union_zeroes (pars rule_of c) (dep d)) P); [rewrite Hw in Hpos; lia|].
    destruct Hw as (q & Hq & Hm & Hdf & Hw). rewrite Hw in Hpos |- *.
    exists d, Q, q. split; [exact Hnd|]. split; [reflexivity|]. split; [exact Hdf|]. split; [exact Hm|].
    split; [exact Hpos|reflexivity].
  Qed.

  (* the branch of the child of a parse tree *)
  Lemma union_tree_branch extra i d q' :
    Forall2 (fun d o => union_child_params (dep d) P (dfx d) = Ok o) ds extra ->
    nth_error ds i = Some d ->
    length q' = length (pars rule_of (dkid d)) -> cmap rule_of c (fst d) q' = p ->
    (forall k v, In (k, v) (dfx d) -> dget (combine (pars rule_of (dkid d)) q') k = Some v) ->
    exists Q,
      nth_error (map (branch_of rule_of tab c n) (combine ds extra)) i = Some (branch_of rule_of tab c n (d, Some Q)) /\
      dict_for rule_of (dkid d) Q q' /\
      wz w (branch_of rule_of tab c n (d, Some Q)) = pcnt tab (dkid d) n q'.
  Proof.
    intros HF Hn Hl Hm Hfix. destruct Htab as (Hpn & _).
    assert (Hd : union_child_ok rule_of c d).
    { destruct Hu as (_ & _ & Hds & _). rewrite Forall_forall in Hds. apply Hds. eapply nth_error_In. exact Hn. }
    destruct (union_child_forward rule_of c d (Hpn c) (Hpn _) Hd P p HP q' Hl Hm Hfix) as (Q & HQ & Hdf & Hz).
    exists Q.
    assert (Ho : nth_error extra i = Some (Some Q)).
    { clear -HF Hn HQ. revert i Hn. induction HF as [|d0 o0 l l' H0 HF IH]; intros i Hn; [destruct i; discriminate|].
      destruct i as [|i]; simpl in *.
      - injection Hn as ->. unfold dep, dfx in H0. rewrite HQ in H0. injection H0 as <-. reflexivity.
      - apply IH. exact Hn. }
    split; [|split; [exact Hdf|]].
    - rewrite nth_error_map.
      assert (Hc : nth_error (combine ds extra) i = Some (d, Some Q)).
      { clear -Hn Ho. revert extra i Hn Ho. induction ds as [|d0 l IH]; intros [|o0 l'] i Hn Ho; destruct i; simpl in *; try discriminate.
        - injection Hn as ->. injection Ho as ->. reflexivity.
        - apply IH; assumption. }
      rewrite Hc. reflexivity.
    - pose proof (branch_weight rule_of tab Htab c P p n HP d (Some Q) Hd HQ) as Hw. simpl in Hw.
      change (snd (fst d)) with (dep d) in Hz. rewrite Hz in Hw. destruct Hw as (q & Hq & _ & _ & Hw).
      destruct Hdf as (_ & _ & Ht). unfold dkid in *. rewrite Ht in Hq. injection Hq as <-.
      unfold wz. rewrite Hw. reflexivity.
  Qed.
End UnionClass.

(* the hypotheses of C08_threshold_union at a union rule of a specification, and total <= count *)
Lemma union_weights_params (rule_of : nat -> pcls) (tab : nat -> Z -> terms) c P p n :
  tables_ok rule_of tab -> union_ok rule_of tab c -> dict_for rule_of c P p ->
  exists extra,
    union_extra (pk_eps (rule_of c)) (pk_fixed (rule_of c)) P = Ok extra /\
    let bs := union_branches (pars rule_of c) (map (kid_at rule_of tab n) (pk_kids (rule_of c)))
                             (pk_eps (rule_of c)) extra in
    weights_ok (union_weight n P) bs /\ total_weight (union_weight n P) bs <= pcnt tab c n p.
Proof.
  intros Ht Hu HP. pose proof Hu as (L1 & L2 & Hds & Hteq).
  destruct (union_extra_map rule_of tab Ht c P p HP _ Hds) as (extra & Ee & HF).
  exists extra. rewrite <- (ds_eps rule_of tab c Hu), <- (ds_fixed rule_of tab c Hu), <- (ds_kids rule_of tab c Hu).
  split; [exact Ee|].
  rewrite (union_branches_map rule_of tab c n _ extra) by (eapply Forall2_len; exact HF).
  destruct (union_total_le rule_of tab Ht c P p n HP _ extra Hds HF) as [Wok Hle].
  split; [exact Wok|]. unfold pcnt. rewrite (Hteq n p).
  rewrite (ds_kid_eps rule_of tab c Hu), (ds_kids rule_of tab c Hu) in Hle. exact Hle.
Qed.
