(* Derived rule forms satisfy the FULL bijection contract (both directions, size law, parameter law).

   Count/ObjectsForms.v proves one-way `link`s for EquivalenceRule / EquivalenceRule(ReverseRule) /
   EquivalencePathRule; Count/ObjectsSpec.v's end-to-end theorem (C07_generate_exact) and the parse-tree
   bijection (Count/ParseTreesProofs.v) need `union_contract` of the node  RUnion [child] [map] derived_bwd
   that stands for such a rule.  Here: from the ORIGINAL rule's union_contract and `others_empty`
     equivalence_contract          EquivalenceRule(rule): parent c, child kids[j]
     reverse_equivalence_contract  EquivalenceRule(ReverseRule(rule, j)): parent kids[j], child c
     reverse_single_contract       ReverseRule(rule, 0) of a one-child rule, used as it is
     path_contract                 EquivalencePathRule of a chain of unary forms each satisfying the contract
   The derived maps are the transcriptions of Count/ObjectsModel.v, made total (a raise = no object), which is
   how Count/ObjectsRun.v puts them into rules (total_bwd). *)
From Coq Require Import ZArith List Bool Lia.
From CSS Require Import Base.PyList Count.ObjectsModel Count.ObjectsLists Count.ObjectsProofs
                        Count.ObjectsForms Count.ObjectsReverse.
Import ListNotations.
Open Scope Z_scope.

Section Total.
Context {obj : Type}.
(* a forward map that raises yields no tuple; a backward map that raises yields no object *)
Definition tot_fwd (f : obj -> option (subobj obj)) (o : obj) : subobj obj :=
  match f o with Some t => t | None => [] end.
Definition tot_bwd (b : subobj obj -> option (list obj)) (t : subobj obj) : list obj :=
  match b t with Some l => l | None => [] end.

Lemma tot_fwd_some f o y : tot_fwd f o = [Some y] -> f o = Some [Some y].
Proof. unfold tot_fwd. destruct (f o); [intros ->; reflexivity|discriminate]. Qed.
Lemma tot_bwd_some b t (o : obj) : tot_bwd b t = [o] -> b t = Some [o].
Proof. unfold tot_bwd. destruct (b t); [intros ->; reflexivity|discriminate]. Qed.
End Total.

Section Forms.
Context {obj : Type}.
Variable size : obj -> Z.
Variable In_cls : nat -> obj -> Prop.
Variable par : nat -> obj -> params.

Notation ucontract := (union_contract size In_cls par).
Notation idm := (fun x : params => x).

Lemma slot1 (y : obj) : slot 1 0 y = [Some y].
Proof. reflexivity. Qed.

(* the contract of a unary node, spelled out *)
Lemma unary_contract_intro (A B : nat) (m : pmap) (F : obj -> subobj obj) (G : subobj obj -> list obj) :
  (forall o, In_cls A o -> exists y, F o = [Some y] /\ In_cls B y /\ size y = size o /\
                                      par A o = m (par B y) /\ G [Some y] = [o]) ->
  (forall y, In_cls B y -> exists o, G [Some y] = [o] /\ In_cls A o /\ F o = [Some y]) ->
  ucontract A [B] [m] F G.
Proof.
  intros H1 H2. split.
  - intros o Ho. destruct (H1 o Ho) as (y & Hf & Hy & Hs & Hp & Hb).
    exists 0%nat, B, y. simpl. rewrite slot1, Hf. auto 10.
  - intros i k y Hi Hy. destruct i as [|i]; [|destruct i; discriminate]. simpl in Hi. inversion Hi; subst k.
    simpl. rewrite slot1. apply H2. assumption.
Qed.

Lemma unary_contract_elim (A B : nat) (m : pmap) (F : obj -> subobj obj) (G : subobj obj -> list obj) :
  ucontract A [B] [m] F G ->
  (forall o, In_cls A o -> exists y, F o = [Some y] /\ In_cls B y /\ size y = size o /\
                                      par A o = m (par B y) /\ G [Some y] = [o]) /\
  (forall y, In_cls B y -> exists o, G [Some y] = [o] /\ In_cls A o /\ F o = [Some y]).
Proof.
  intros [H1 H2]. split.
  - intros o Ho. destruct (H1 o Ho) as (i & k & y & Hi & Hf & Hy & Hs & Hp & Hb).
    destruct i as [|i]; [|destruct i; discriminate]. simpl in Hi. inversion Hi; subst k.
    simpl in *. rewrite slot1 in Hf. exists y. rewrite Hf in Hb. auto 10.
  - intros y Hy. destruct (H2 0%nat B y eq_refl Hy) as (o & Hb & Ho & Hf). simpl in *.
    rewrite slot1 in *. eauto.
Qed.

Section OneRule.
Variables (c : nat) (kids : list nat) (maps : list pmap).
Variables (fwd : obj -> subobj obj) (bwd : subobj obj -> list obj).
Hypothesis contract : ucontract c kids maps fwd bwd.
Let pf (o : obj) : option (subobj obj) := Some (fwd o).
Let pb (t : subobj obj) : option (list obj) := Some (bwd t).
Variables (j kj : nat).
Hypothesis child_j : nth_error kids j = Some kj.
Hypothesis others_empty : forall i k y, nth_error kids i = Some k -> In_cls k y -> i = j.

Let Hj : (j < length kids)%nat.
Proof. apply nth_error_Some. congruence. Qed.

(* C07_equivalence_contract: EquivalenceRule(rule), parent c, child kids[j], parameter map of child j *)
Theorem equivalence_contract :
  ucontract c [kj] [nth j maps idm]
            (tot_fwd (eqv_forward pf j)) (tot_bwd (eqv_backward pb j (length kids))).
Proof.
  destruct contract as [HU1 HU2]. apply unary_contract_intro.
  - intros o Ho. destruct (HU1 o Ho) as (i & k & y & Hi & Hf & Hy & Hs & Hp & Hb).
    assert (i = j) by (eapply others_empty; eassumption). subst i.
    rewrite child_j in Hi. inversion Hi; subst k.
    exists y. unfold tot_fwd, tot_bwd, eqv_forward, eqv_backward, pf, pb.
    rewrite Hf, nth_slot by exact Hj. split; [reflexivity|]. split; [assumption|]. split; [assumption|].
    split; [assumption|]. simpl nth. rewrite slot_as_map by exact Hj. rewrite <- Hf. assumption.
  - intros y Hy. destruct (HU2 j kj y child_j Hy) as (o & Hb & Ho & Hf).
    exists o. unfold tot_fwd, tot_bwd, eqv_forward, eqv_backward, pf, pb. simpl nth.
    rewrite slot_as_map by exact Hj. split; [assumption|]. split; [assumption|].
    rewrite Hf, nth_slot by exact Hj. reflexivity.
Qed.

(* the parameter map of the reverse direction undoes the map of child j on the tuples that occur
   (Complement of a one-child union: C09_complement_round_trip) *)
Variable m' : pmap.
Hypothesis m'_inverts : forall y, In_cls kj y -> m' (nth j maps idm (par kj y)) = par kj y.

Lemma repeat_None_all (n : nat) :
  forallb (fun x : option obj => match x with None => true | Some _ => false end) (repeat None n) = true.
Proof. induction n; simpl; auto. Qed.

(* ReverseRule(rule, j): y |-> (o, None, ..) and back, in both directions, with sizes and parameters *)
Lemma reverse_both :
  (forall y, In_cls kj y -> exists o,
      rev_forward pb j (length kids) true y = Some (Some o :: repeat None (length kids - 1)) /\
      In_cls c o /\ size o = size y /\ par kj y = m' (par c o) /\
      rev_backward pf j true (Some o :: repeat None (length kids - 1)) = Some [y]) /\
  (forall o, In_cls c o -> exists y,
      rev_backward pf j true (Some o :: repeat None (length kids - 1)) = Some [y] /\ In_cls kj y /\
      rev_forward pb j (length kids) true y = Some (Some o :: repeat None (length kids - 1))).
Proof.
  destruct contract as [HU1 HU2]. split.
  - intros y Hy. destruct (HU2 j kj y child_j Hy) as (o & Hb & Ho & Hf).
    destruct (HU1 o Ho) as (i & k & y' & Hi & Hf' & Hy' & Hs & Hp & _).
    rewrite Hf in Hf'.
    assert (Hlt' : (i < length kids)%nat) by (apply nth_error_Some; congruence).
    apply slot_inj in Hf'; try assumption. destruct Hf' as [<- <-].
    rewrite child_j in Hi. inversion Hi; subst k.
    exists o. unfold rev_forward, rev_backward, pf, pb. simpl negb. cbv iota.
    fold (slot (length kids) j y). rewrite Hb. split; [reflexivity|]. split; [assumption|].
    split; [congruence|]. split; [rewrite Hp; symmetry; apply m'_inverts; assumption|].
    simpl tl. simpl nth. rewrite repeat_None_all. simpl. rewrite Hf, nth_slot by exact Hj. reflexivity.
  - intros o Ho. destruct (HU1 o Ho) as (i & k & y & Hi & Hf & Hy & _ & _ & Hb).
    assert (i = j) by (eapply others_empty; eassumption). subst i.
    rewrite child_j in Hi. inversion Hi; subst k.
    exists y. unfold rev_forward, rev_backward, pf, pb. simpl negb. cbv iota.
    simpl tl. simpl nth. rewrite repeat_None_all. simpl. rewrite Hf, nth_slot by exact Hj.
    split; [reflexivity|]. split; [assumption|].
    fold (slot (length kids) j y). rewrite <- Hf, Hb. reflexivity.
Qed.

(* C07_reverse_equivalence_contract: EquivalenceRule(ReverseRule(rule, j)), parent kids[j], child c *)
Theorem reverse_equivalence_contract :
  ucontract kj [c] [m']
            (tot_fwd (eqv_forward (rev_forward pb j (length kids) true) 0))
            (tot_bwd (eqv_backward (rev_backward pf j true) 0 (length kids))).
Proof.
  destruct reverse_both as [R1 R2]. apply unary_contract_intro.
  - intros y Hy. destruct (R1 y Hy) as (o & Hf & Ho & Hs & Hp & Hb).
    exists o. unfold tot_fwd, tot_bwd, eqv_forward, eqv_backward. rewrite Hf. simpl nth.
    split; [reflexivity|]. split; [assumption|]. split; [assumption|]. split; [assumption|].
    rewrite (slot_as_map (length kids) 0 o) by lia. rewrite slot_first by lia. rewrite Hb. reflexivity.
  - intros o Ho. destruct (R2 o Ho) as (y & Hb & Hy & Hf).
    exists y. unfold tot_fwd, tot_bwd, eqv_forward, eqv_backward. simpl nth.
    rewrite (slot_as_map (length kids) 0 o) by lia. rewrite slot_first by lia. rewrite Hb.
    split; [reflexivity|]. split; [assumption|]. rewrite Hf. reflexivity.
Qed.

(* a ReverseRule whose original rule has a single child is used as it is *)
Theorem reverse_single_contract : length kids = 1%nat ->
  ucontract kj [c] [m'] (tot_fwd (rev_forward pb j (length kids) true)) (tot_bwd (rev_backward pf j true)).
Proof.
  intros H1. destruct reverse_both as [R1 R2]. rewrite H1 in *. simpl in R1, R2.
  apply unary_contract_intro.
  - intros y Hy. destruct (R1 y Hy) as (o & Hf & Ho & Hs & Hp & Hb).
    exists o. unfold tot_fwd, tot_bwd. rewrite Hf, Hb. auto.
  - intros o Ho. destruct (R2 o Ho) as (y & Hb & Hy & Hf).
    exists y. unfold tot_fwd, tot_bwd. rewrite Hf, Hb. auto.
Qed.

End OneRule.

(* ---------------------------------------------------------------- EquivalencePathRule *)
(* a step: the unary form's maps and the parameter map child -> parent of its constructor *)
Definition cstep := ((obj -> option (subobj obj)) * (subobj obj -> option (list obj)) * pmap)%type.
Definition st_fwd (s : cstep) := fst (fst s).
Definition st_bwd (s : cstep) := snd (fst s).
Definition st_map (s : cstep) : pmap := snd s.

(* every step satisfies the full contract of a unary node *)
Inductive cchain : nat -> list cstep -> nat -> Prop :=
| cchain_nil : forall A, cchain A [] A
| cchain_cons : forall A B C f b m rest,
    ucontract A [B] [m] (tot_fwd f) (tot_bwd b) -> cchain B rest C -> cchain A ((f, b, m) :: rest) C.

(* the parameter map of the path: last child -> first parent *)
Definition compose_maps (ms : list pmap) : pmap := fold_right (fun (m acc : pmap) p => m (acc p)) idm ms.

Lemma path_forward_cons (f : obj -> option (subobj obj)) rest o y :
  f o = Some [Some y] -> path_forward (f :: rest) o = path_forward rest y.
Proof. intros H. simpl. rewrite H. reflexivity. Qed.

Lemma path_backward_cons (b : subobj obj -> option (list obj)) rest z y o :
  path_backward rest [Some z] = Some [y] -> b [Some y] = Some [o] ->
  path_backward (b :: rest) [Some z] = Some [o].
Proof.
  unfold path_backward. intros H1 H2. simpl rev. rewrite (path_backward_rev_app _ [b] z y H1).
  simpl. rewrite H2. reflexivity.
Qed.

(* C07_path_contract *)
Theorem path_contract : forall A steps C, cchain A steps C ->
  ucontract A [C] [compose_maps (map st_map steps)]
            (tot_fwd (path_forward (map st_fwd steps))) (tot_bwd (path_backward (map st_bwd steps))).
Proof.
  induction 1 as [A|A B C f b m rest Hst Hc IH].
  - apply unary_contract_intro.
    + intros o Ho. exists o. unfold tot_fwd, tot_bwd. simpl. auto.
    + intros y Hy. exists y. unfold tot_fwd, tot_bwd. simpl. auto.
  - apply unary_contract_elim in Hst. destruct Hst as [S1 S2].
    apply unary_contract_elim in IH. destruct IH as [I1 I2].
    change (map st_fwd ((f, b, m) :: rest)) with (f :: map st_fwd rest).
    change (map st_bwd ((f, b, m) :: rest)) with (b :: map st_bwd rest).
    change (map st_map ((f, b, m) :: rest)) with (m :: map st_map rest).
    apply unary_contract_intro.
    + intros o Ho. destruct (S1 o Ho) as (y & Hf & Hy & Hs & Hp & Hb).
      destruct (I1 y Hy) as (z & Hfz & Hz & Hsz & Hpz & Hbz).
      apply tot_fwd_some in Hf. apply tot_fwd_some in Hfz.
      apply tot_bwd_some in Hb. apply tot_bwd_some in Hbz.
      exists z. unfold tot_fwd, tot_bwd.
      rewrite (path_forward_cons f _ o y Hf), Hfz, (path_backward_cons b _ z y o Hbz Hb).
      split; [reflexivity|]. split; [assumption|]. split; [congruence|].
      split; [simpl; rewrite Hp, Hpz; reflexivity|reflexivity].
    + intros z Hz. destruct (I2 z Hz) as (y & Hbz & Hy & Hfz).
      destruct (S2 y Hy) as (o & Hb & Ho & Hf).
      apply tot_fwd_some in Hf. apply tot_fwd_some in Hfz.
      apply tot_bwd_some in Hb. apply tot_bwd_some in Hbz.
      exists o. unfold tot_fwd, tot_bwd.
      rewrite (path_forward_cons f _ o y Hf), Hfz, (path_backward_cons b _ z y o Hbz Hb). auto.
Qed.

(* the three ways a step of a path arises *)
Lemma plain_single_step A B m F G :
  ucontract A [B] [m] F G -> ucontract A [B] [m] (tot_fwd (fun o => Some (F o))) (tot_bwd (fun t => Some (G t))).
Proof. intros H. exact H. Qed.

End Forms.

(* ---------------------------------------------------------------- the flag as the code computes it *)
(* ReverseRule.forward_map / backward_map first test len(original_rule.non_empty_children()) == 1; with the flag
   COMPUTED from truthful is_empty answers the contract of EquivalenceRule(ReverseRule(rule, j)) still holds: when
   child j has an object the flag is true (C07_reverse_flag), and when it has none neither class has an object *)
Section Flag.
Context {obj : Type}.
Variable size : obj -> Z.
Variable In_cls : nat -> obj -> Prop.
Variable par : nat -> obj -> params.
Variables (c : nat) (kids : list nat) (maps : list pmap).
Variables (fwd : obj -> subobj obj) (bwd : subobj obj -> list obj).
Hypothesis contract : union_contract size In_cls par c kids maps fwd bwd.
Variables (j kj : nat).
Hypothesis child_j : nth_error kids j = Some kj.
Hypothesis others_empty : forall i k y, nth_error kids i = Some k -> In_cls k y -> i = j.
Variable m' : pmap.
Hypothesis m'_inverts : forall y, In_cls kj y -> m' (nth j maps (fun x => x) (par kj y)) = par kj y.
Variable nonempty : nat -> bool.
Hypothesis nonempty_spec : forall k, nonempty k = true <-> exists y, In_cls k y.

Theorem reverse_equivalence_contract_flag :
  let flag := one_nonempty_flag nonempty kids in
  union_contract size In_cls par kj [c] [m']
    (tot_fwd (eqv_forward (rev_forward (fun t => Some (bwd t)) j (length kids) flag) 0))
    (tot_bwd (eqv_backward (rev_backward (fun o => Some (fwd o)) j flag) 0 (length kids))).
Proof.
  intros flag. destruct (nonempty kj) eqn:Ek.
  - assert (Hex : exists y, In_cls kj y) by (apply nonempty_spec; exact Ek).
    assert (Hf : flag = true).
    { unfold flag. eapply reverse_flag; eassumption. }
    rewrite Hf. eapply reverse_equivalence_contract; eassumption.
  - assert (Hno : forall y, ~ In_cls kj y).
    { intros y Hy. assert (nonempty kj = true) by (apply nonempty_spec; eauto). congruence. }
    apply unary_contract_intro.
    + intros y Hy. exfalso. eapply Hno. eassumption.
    + intros o Ho. exfalso. destruct contract as [HU1 _].
      destruct (HU1 o Ho) as (i & k & y & Hi & _ & Hy & _).
      assert (i = j) by (eapply others_empty; eassumption). subst i.
      rewrite child_j in Hi. inversion Hi; subst k. eapply Hno. eassumption.
Qed.
End Flag.
