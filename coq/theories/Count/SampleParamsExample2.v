(* C08 with extra parameters — non-vacuity for dictionaries that MERGE and DROP statistics.

   The specification of Count/SampleParamsExample.v (words over {a, b}, k = number of a's) with one
   more class on top:
       7 = the same words with three statistics (k1, k2, k3) = (#a, #a, #c)  —  k3 is identically 0
   and a unary union 7 -> 0 with the dictionary {k1: k, k2: k}: two parent parameters on one child
   parameter (DisjointUnion skips the child when their values differ), k3 not a key (`zeroes`: the
   child is skipped unless k3 = 0).  All hypotheses of C08_uniform_params hold. *)
From Coq Require Import ZArith List Bool Lia QArith FinFun.
From CSS Require Import Gen.Prelude Gen.Compositions Count.CompositionsSpec Count.Terms Count.Constructors
  Count.ConstructorsUnionProduct Count.ConstructorsDict
  Count.SampleModel Count.SampleWalk Count.SampleComps Count.SampleProb Count.SampleUniform
  Count.SampleModelParams Count.SampleParamsDict Count.SampleParamsSpec Count.SampleParamsSums
  Count.SampleParamsTotals Count.SampleParamsExample.
Import ListNotations.
Open Scope Z_scope.

Definition D7 : dict := [(1, 1); (2, 1)].
Definition merge_cls : pcls :=
  {| pk_kind := K_UNION; pk_min := 0; pk_atom := false; pk_kids := [0%nat]; pk_params := [1; 2; 3];
     pk_minval := [(1, 0); (2, 0); (3, 0)]; pk_eps := [D7]; pk_fixed := [[]] |}.
Definition f7 : params -> params := dict_sem [1; 2; 3] [1] D7.

Definition ex2_rule (c : nat) : pcls := match c with 7%nat => merge_cls | _ => ex_rule false c end.
Definition ex2_tab (c : nat) (n : Z) : terms := match c with 7%nat => rekey f7 (tab0 n) | _ => ex_tab c n end.

Lemma f7_single k : f7 [k] = [k; k; 0].
Proof. reflexivity. Qed.

Ltac cases8 c := destruct c as [|[|[|[|[|[|[|[|c]]]]]]]].

Lemma tab7_entry n q v : In (q, v) (ex2_tab 7 n) -> exists k, q = [k; k; 0] /\ 0 <= k <= n /\ v = bin n k.
Proof.
  simpl. unfold rekey, tab0. destruct (Z.ltb_spec n 0) as [Hn|Hn]; [intros []|].
  intros H. apply in_map_iff in H. destruct H as ([q0 v0] & E & Hin). injection E as <- <-.
  unfold row in Hin. apply in_map_iff in Hin. destruct Hin as (k & E & Hk). injection E as <- <-.
  apply in_py_range' in Hk. exists k. split; [reflexivity|]. split; [lia|reflexivity].
Qed.

Lemma tab7_nodup n : NoDup (map fst (ex2_tab 7 n)).
Proof.
  simpl. unfold rekey, tab0. destruct (n <? 0); [constructor|]. unfold row. rewrite !map_map. simpl.
  apply Injective_map_NoDup; [|apply NoDup_py_range']. intros a b E. rewrite !f7_single in E. injection E. auto.
Qed.

Lemma ex2_tables_ok : tables_ok ex2_rule ex2_tab.
Proof.
  destruct (ex_tables_ok false) as (H1 & H2 & H3). split; [|split].
  - intros c. cases8 c; try (match goal with |- NoDup (pars ex2_rule ?k) => exact (H1 k) end).
    unfold pars. simpl. repeat constructor; simpl; intuition discriminate.
  - intros c n. cases8 c; try (match goal with |- NoDup (map fst (ex2_tab ?k n)) => exact (H2 k n) end). apply tab7_nodup.
  - intros c n. cases8 c; try (match goal with |- nonneg (ex2_tab ?k n) => exact (H3 k n) end).
    simpl. apply nonneg_rekey. exact (H3 0%nat n).
Qed.

Lemma ex2_pcnt7 m q : pcnt ex2_tab 7 m q <> 0 -> exists k, q = [k; k; 0] /\ 0 <= k <= m.
Proof.
  intros H. destruct (tget_nonzero_in _ _ H) as (v & Hin). destruct (tab7_entry m q v Hin) as (k & -> & Hk & _).
  exists k. split; [reflexivity|exact Hk].
Qed.

Lemma ex2_contract_ok : contract_ok ex2_rule ex2_tab.
Proof.
  destruct (ex_contract_ok false) as (H1 & H2). split.
  - intros c. cases8 c; try (match goal with |- 0 <= pmin ex2_rule ?k => exact (H1 k) end).
  - intros c m q. cases8 c; try (match goal with |- pcnt ex2_tab ?k m q <> 0 -> _ => exact (H2 k m q) end).
    intros H. destruct (ex2_pcnt7 m q H) as (k & -> & Hk).
    unfold pmin, pars, mval, minval_of. simpl. split; [lia|]. split; [discriminate|].
    intros j Hj. destruct j as [|[|[|j]]]; simpl; try lia; (split; [lia|discriminate]).
Qed.

Lemma ex2_atoms_ok c : pk_kind (ex2_rule c) = K_ATOM -> atom_ok ex2_rule ex2_tab c.
Proof.
  cases8 c; try (match goal with |- _ -> atom_ok ex2_rule ex2_tab ?k => exact (ex_atoms_ok false k) end).
  simpl. discriminate.
Qed.

Lemma ex2_union7 : union_ok ex2_rule ex2_tab 7.
Proof.
  split; [reflexivity|]. split; [reflexivity|]. split.
  - change (kid_eps_fixed ex2_rule 7) with [(0%nat, D7, @nil (Z * Z))].
    constructor; [|constructor]. split; [|split; [|split]].
    + split.
      * unfold wf_dict. simpl. split; [repeat constructor; simpl; intuition discriminate|].
        split; [repeat constructor; simpl; intuition discriminate|].
        split; [repeat constructor; simpl; intuition discriminate|].
        intros a b [E|[E|[]]]; injection E as <- <-; simpl; tauto.
      * intros a b [E|[E|[]]]; injection E as <- <-; left; reflexivity.
    + constructor.
    + intros k [].
    + simpl. intros cv [<-|[]]. left. left. reflexivity.
  - intros n p. change (cmaps ex2_rule 7) with [f7].
    change (map (fun ci : nat => ex2_tab ci n) (pk_kids (ex2_rule 7))) with [tab0 n].
    unfold union_table. cbn [map2 concat]. rewrite app_nil_r. reflexivity.
Qed.

Lemma K1_child_ok2 c ci : pars ex2_rule c = [1] -> pars ex2_rule ci = [1] -> ep_ok ex2_rule c (ci, K1).
Proof.
  intros Hc Hi. unfold ep_ok, wf_dict. simpl. rewrite Hc, Hi.
  assert (N1 : NoDup [1]) by (constructor; [intros []|constructor]).
  split; [split; [exact N1|split; [exact N1|split; [exact N1|]]]|].
  - intros a b [E|[]]. injection E as <- <-. left. reflexivity.
  - intros a b [E|[]]. injection E as <- <-. left. reflexivity.
Qed.

Lemma K1_union_child_ok2 c ci : pars ex2_rule c = [1] -> pars ex2_rule ci = [1] ->
  union_child_ok ex2_rule c (ci, K1, []).
Proof.
  intros Hc Hi. split; [apply K1_child_ok2; assumption|]. split; [constructor|]. split; [intros k []|].
  simpl. rewrite Hi. intros cv [<-|[]]. left. left. reflexivity.
Qed.

Lemma K1_prod_child_ok2 c ci : pars ex2_rule c = [1] -> pars ex2_rule ci = [1] ->
  ep_ok ex2_rule c (ci, K1) /\ (forall cv, In cv (pars ex2_rule (fst (ci, K1))) -> In cv (map snd (snd (ci, K1)))).
Proof.
  intros Hc Hi. split; [apply K1_child_ok2; assumption|]. simpl. rewrite Hi. intros cv [<-|[]]. left. reflexivity.
Qed.

Lemma ex2_union0 : union_ok ex2_rule ex2_tab 0.
Proof.
  destruct (ex_union0 false) as (L1 & L2 & _ & Ht).
  split; [exact L1|]. split; [exact L2|]. split; [|exact Ht].
  change (kid_eps_fixed ex2_rule 0) with [(1%nat, K1, @nil (Z * Z)); (2%nat, K1, []); (4%nat, K1, [])].
  constructor; [apply K1_union_child_ok2; reflexivity|].
  constructor; [apply K1_union_child_ok2; reflexivity|].
  constructor; [apply K1_union_child_ok2; reflexivity|constructor].
Qed.

Lemma ex2_product c (a : nat) : (c = 2%nat /\ a = 3%nat) \/ (c = 4%nat /\ a = 5%nat) -> product_ok ex2_rule ex2_tab c.
Proof.
  intros H.
  assert (Hold : product_ok (ex_rule false) ex_tab c).
  { destruct H as [[-> ->]|[-> ->]]; [apply (ex_product false 2 3 1)|apply (ex_product false 4 5 0)]; tauto. }
  destruct H as [[-> ->]|[-> ->]]; destruct Hold as (A & B & _ & D & E);
    (split; [exact A|]); (split; [exact B|]); (split; [|split; [exact D|exact E]]).
  - change (kid_eps ex2_rule 2) with [(3%nat, K1); (0%nat, K1)].
    constructor; [apply K1_prod_child_ok2; reflexivity|]. constructor; [apply K1_prod_child_ok2; reflexivity|constructor].
  - change (kid_eps ex2_rule 4) with [(5%nat, K1); (0%nat, K1)].
    constructor; [apply K1_prod_child_ok2; reflexivity|]. constructor; [apply K1_prod_child_ok2; reflexivity|constructor].
Qed.

Lemma ex2_unions_ok c : pk_kind (ex2_rule c) = K_UNION -> union_ok ex2_rule ex2_tab c.
Proof.
  cases8 c; simpl; intros Hk; try discriminate Hk; [exact ex2_union0|exact ex2_union7].
Qed.

Lemma ex2_products_ok c : pk_kind (ex2_rule c) = K_PRODUCT -> product_ok ex2_rule ex2_tab c.
Proof.
  cases8 c; simpl; intros Hk; try discriminate Hk.
  - apply (ex2_product 2 3). tauto.
  - apply (ex2_product 4 5). tauto.
Qed.

Lemma ex2_honest c : pk_kind (ex2_rule c) = K_UNION -> fixed_honest ex2_rule ex2_tab c.
Proof.
  cases8 c; simpl; intros Hk; try discriminate Hk.
  - intros d Hd k v Hin. simpl in Hd. destruct Hd as [<-|[<-|[<-|[]]]]; destruct Hin.
  - intros d Hd k v Hin. simpl in Hd. destruct Hd as [<-|[]]. destruct Hin.
Qed.

Lemma ex2_arity_ok : arity_ok ex2_rule ex2_tab.
Proof.
  intros c n q. cases8 c; try (match goal with |- pcnt ex2_tab ?k n q <> 0 -> _ => exact (ex_arity_ok false k n q) end).
  intros H. destruct (ex2_pcnt7 n q H) as (k & -> & _). reflexivity.
Qed.

(* "ab" seen from class 7: statistics (1, 1, 0) *)
Definition t7_ab : tree := UNode 7 0 t_ab.
Definition P7 : dict := [(1, 1); (2, 1); (3, 0)].          (* k1 = 1, k2 = 1, k3 = 0 *)
Definition P7_contra : dict := [(1, 1); (2, 0); (3, 0)].   (* k1 <> k2: contradiction on the child's k *)
Definition P7_zero : dict := [(1, 1); (2, 1); (3, 1)].     (* k3 <> 0 although no child carries it *)

Lemma ex2_tree :
  pwf ex2_rule t7_ab 7 /\ ptsize ex2_rule t7_ab = 2 /\ tpar ex2_rule t7_ab = [1; 1; 0] /\
  pcnt ex2_tab 7 2 [1; 1; 0] = 2 /\ dict_for ex2_rule 7 P7 [1; 1; 0].
Proof.
  split; [|split; [|split; [|split]]]; try reflexivity.
  - cbv [pwf t7_ab t_ab t_b_S ex2_rule merge_cls ex_rule mkp pk_kind pk_kids all2 nth_error].
    repeat match goal with
           | |- _ /\ _ => split
           | |- exists _, _ => eexists
           | |- True => exact I
           | |- _ = _ => reflexivity
           end.
  - split; [repeat constructor; simpl; intuition discriminate|]. split; [|reflexivity].
    simpl. unfold pars. simpl. tauto.
Qed.

(* computed from the definitions: probability 1/2; and with the other two assignments the only child
   is skipped: the count is 0 and the sampler refuses before drawing, while the constructor itself,
   asked directly, runs off the end of its loop for every draw *)
Lemma ex2_computed :
  (prob (tree_eqb t7_ab) (pspec_sample ex2_rule ex2_tab 12 7 2 P7) == 1 / inject_Z 2)%Q /\
  pspec_sample ex2_rule ex2_tab 12 7 2 P7_contra = Fail E_INVALID_OP /\
  pspec_sample ex2_rule ex2_tab 12 7 2 P7_zero = Fail E_INVALID_OP /\
  union_extra [D7] [[]] P7_contra = Ok [None] /\
  union_zero_skip (union_zeroes [1; 2; 3] D7) P7_zero = true /\
  union_pick_dict [1; 2; 3] [kid_at ex2_rule ex2_tab 2 0] [D7] [[]] 2 P7_contra 1 = Err E_RUNTIME /\
  union_pick_dict [1; 2; 3] [kid_at ex2_rule ex2_tab 2 0] [D7] [[]] 2 P7_zero 1 = Err E_RUNTIME.
Proof. repeat split; vm_compute; reflexivity. Qed.
