(* C08 with extra parameters — vocabulary of the end-to-end theorem C08_uniform_params:
   the size and the parameter tuple of the object a parse tree stands for, parse trees of
   a class, and the hypotheses on a specification (the tables are what get_terms computes,
   in C09's vocabulary: Count/Terms.v, union_table / product_table of
   Count/ConstructorsUnionProduct.v, dict_sem / wf_dict of Count/ConstructorsDict.v). *)
From Coq Require Import ZArith List Bool Lia.
From CSS Require Import Gen.Prelude Gen.Compositions Count.Terms Count.Constructors
  Count.ConstructorsUnionProduct Count.ConstructorsDict
  Count.SampleModel Count.SampleComps Count.SampleModelParams Count.SampleParamsDict Count.SampleUniform.
Import ListNotations.
Open Scope Z_scope.

Section PDefs.
  Variable rule_of : nat -> pcls.
  Variable tab : nat -> Z -> terms.        (* tab c n = get_terms(n) of the rule of class c *)

  Definition pars (c : nat) : list Z := pk_params (rule_of c).
  Definition pmin (c : nat) : Z := pk_min (rule_of c).
  Definition pmax (c : nat) : option Z := if pk_atom (rule_of c) then Some (pmin c) else None.
  Definition mval (c : nat) (v : Z) : Z := minval_of (rule_of c) v.
  (* the parameter values of an atom's only object: its minimum values (what
     CartesianProduct.__init__ assumes of is_atom() children) *)
  Definition avals (c : nat) : params := map (mval c) (pars c).
  (* count_objects_of_size(n, **parameters) with parameter tuple t *)
  Definition pcnt (c : nat) (n : Z) (t : params) : Z := tget (tab c n) t.

  (* children with their dictionaries *)
  Definition kid_eps (c : nat) : list (nat * dict) := combine (pk_kids (rule_of c)) (pk_eps (rule_of c)).
  Definition kid_eps_fixed (c : nat) : list (nat * dict * dict) := combine (kid_eps c) (pk_fixed (rule_of c)).

  (* the parameter map of a child with dictionary ep: child tuple -> parent tuple
     (what Constructor.param_map / DisjointUnion.param_map over _build_children_param_map(s)
     compute: C09_dictionary_maps) *)
  Definition cmap (c : nat) (ce : nat * dict) : params -> params := dict_sem (pars c) (pars (fst ce)) (snd ce).
  Definition cmaps (c : nat) : list (params -> params) := map (cmap c) (kid_eps c).

  (* ---------------------------------------------------------------- what a parse tree stands for *)
  Fixpoint ptsize (t : tree) : Z :=
    match t with
    | Leaf c => pmin c
    | UNode _ _ t' => ptsize t'
    | PNode _ ts => py_sum (map ptsize ts)
    end.

  Fixpoint tpar (t : tree) : params :=
    match t with
    | Leaf c => avals c
    | UNode c i t' => cmap c (nth i (kid_eps c) (0%nat, [])) (tpar t')
    | PNode c ts => new_param (cmaps c) (map tpar ts)
    end.

  Fixpoint pwf (t : tree) (c : nat) : Prop :=
    match t with
    | Leaf c' => c' = c /\ pk_kind (rule_of c) = K_ATOM
    | UNode c' i t' =>
        c' = c /\ pk_kind (rule_of c) = K_UNION /\
        exists ci, nth_error (pk_kids (rule_of c)) i = Some ci /\ pwf t' ci
    | PNode c' ts => c' = c /\ pk_kind (rule_of c) = K_PRODUCT /\ all2 pwf ts (pk_kids (rule_of c))
    end.

  (* ---------------------------------------------------------------- hypotheses *)
  (* the tables are Counters of non-negative numbers; parameter names are distinct *)
  Definition tables_ok : Prop :=
    (forall c, NoDup (pars c)) /\ (forall c n, NoDup (map fst (tab c n))) /\ (forall c n, nonneg (tab c n)).

  (* minimum_size_of_object / is_atom / get_minimum_value are honest *)
  Definition contract_ok : Prop :=
    (forall c, 0 <= pmin c) /\
    (forall c m q, pcnt c m q <> 0 ->
       pmin c <= m /\ (pk_atom (rule_of c) = true -> m <= pmin c) /\
       forall j, (j < length (pars c))%nat ->
         mval c (nth j (pars c) 0) <= nth j q 0 /\
         (pk_atom (rule_of c) = true -> nth j q 0 <= mval c (nth j (pars c) 0))).

  (* a verified atom: one object, of the minimum size, with the minimum values *)
  Definition atom_ok (c : nat) : Prop :=
    pcnt c (pmin c) (avals c) = 1 /\ forall m q, pcnt c m q <> 0 -> m = pmin c /\ q = avals c.

  (* the dictionary of one child: C09's wf_dict, and its values are parameters of the child *)
  Definition ep_ok (c : nat) (ce : nat * dict) : Prop :=
    wf_dict (pars c) (pars (fst ce)) (snd ce) /\ forall a b, In (a, b) (snd ce) -> In b (pars (fst ce)).

  (* one child of a union: every parameter of the child is determined — the image of a parent
     parameter or fixed (otherwise the code raises KeyError when it asks the child's count) — and
     fixed_values names parameters of the child only *)
  Definition union_child_ok (c : nat) (d : nat * dict * dict) : Prop :=
    ep_ok c (fst d) /\ NoDup (map fst (snd d)) /\
    (forall k, In k (map fst (snd d)) -> In k (pars (fst (fst d)))) /\
    (forall cv, In cv (pars (fst (fst d))) -> In cv (map snd (snd (fst d))) \/ In cv (map fst (snd d))).

  (* DisjointUnion.get_terms *)
  Definition union_ok (c : nat) : Prop :=
    length (pk_eps (rule_of c)) = length (pk_kids (rule_of c)) /\
    length (pk_fixed (rule_of c)) = length (pk_kids (rule_of c)) /\
    Forall (union_child_ok c) (kid_eps_fixed c) /\
    forall n, teq (tab c n) (union_table (cmaps c) (map (fun ci => tab ci n) (pk_kids (rule_of c)))).

  (* THE hypothesis that excludes the open finding "eqpath-child-statistic-untracked-by-parent-
     sampling": a value in fixed_values is the value the parameter has on EVERY object of the
     child.  EquivalencePathRule.constructor puts {k: 0} on every child parameter that no parent
     parameter maps to; when the child has objects with k <> 0 this fails (C08_uniform_params_refuted). *)
  Definition fixed_honest (c : nat) : Prop :=
    forall d, In d (kid_eps_fixed c) -> forall k v, In (k, v) (snd d) ->
    forall n q, pcnt (fst (fst d)) n q <> 0 -> dget (combine (pars (fst (fst d))) q) k = Some v.

  (* the row of minima CartesianProduct.__init__ computes for a child (size first) *)
  Definition minrow (c : nat) (ce : nat * dict) : vec :=
    pmin (fst ce) :: map (fun pv => match dget (snd ce) pv with
                                    | Some cv => mval (fst ce) cv
                                    | None => 0
                                    end) (pars c).

  (* CartesianProduct.get_terms; every parameter of every child is the image of a parent
     parameter (otherwise KeyError); the parent's declared minima do not exceed the sums of the
     children's *)
  Definition product_ok (c : nat) : Prop :=
    pk_kids (rule_of c) <> [] /\
    length (pk_eps (rule_of c)) = length (pk_kids (rule_of c)) /\
    Forall (fun ce => ep_ok c ce /\ forall cv, In cv (pars (fst ce)) -> In cv (map snd (snd ce))) (kid_eps c) /\
    (forall k, (k <= length (pars c))%nat -> vget (pmins_of (rule_of c)) k <= colsum k (map (minrow c) (kid_eps c))) /\
    forall n, teq (tab c n)
                  (product_table (cmaps c) (map pmin (pk_kids (rule_of c))) (map pmax (pk_kids (rule_of c)))
                                 (map tab (pk_kids (rule_of c))) n).

  (* the dictionary **parameters handed to class c: exactly its parameters, with values p *)
  Definition dict_for (c : nat) (P : dict) (p : params) : Prop :=
    NoDup (map fst P) /\ (forall k, In k (map fst P) -> In k (pars c)) /\ tuple_of (pars c) P = Some p.
End PDefs.

(* ------------------------------------------------------------------ sums of vectors *)
Lemma zip_add_nth : forall a b j, length a = length b -> nth j (zip_add a b) 0 = nth j a 0 + nth j b 0.
Proof.
  induction a as [|x a IH]; intros [|y b] j Hl; simpl in Hl; try lia.
  - simpl. destruct j; reflexivity.
  - simpl. destruct j as [|j]; [reflexivity|]. apply IH. lia.
Qed.

Lemma zip_add_length : forall a b, length a = length b -> length (zip_add a b) = length a.
Proof. induction a as [|x a IH]; intros [|y b] Hl; simpl in *; try lia. f_equal. apply IH. lia. Qed.

Lemma fold_zip_add : forall (r : list params) x,
  (forall y, In y r -> length y = length x) ->
  length (fold_left zip_add r x) = length x /\
  forall j, nth j (fold_left zip_add r x) 0 = nth j x 0 + zsum (fun y => nth j y 0) r.
Proof.
  induction r as [|y r IH]; intros x H; simpl.
  - split; [reflexivity|]. intros j. lia.
  - assert (Hy : length y = length x) by (apply H; left; reflexivity).
    destruct (IH (zip_add x y)) as [L N].
    + intros z Hz. rewrite zip_add_length by lia. apply H. right. exact Hz.
    + split; [rewrite L; apply zip_add_length; lia|]. intros j. rewrite N. rewrite zip_add_nth by lia. lia.
Qed.

(* _new_param: coordinate j of the parent = the sum over the children of coordinate j of their images *)
Lemma new_param_nth (fs : list (params -> params)) (ks : list params) L j :
  length fs = length ks -> fs <> [] -> (forall f k, In f fs -> length (f k) = L) ->
  length (new_param fs ks) = L /\
  nth j (new_param fs ks) 0 = zsum (fun fk : (params -> params) * params => nth j (fst fk (snd fk)) 0) (combine fs ks).
Proof.
  intros Hl Hne HL. unfold new_param.
  assert (E : forall (fs : list (params -> params)) (ks : list params),
            map2 (fun f k => f k) fs ks = map (fun fk : (params -> params) * params => fst fk (snd fk)) (combine fs ks)).
  { induction fs0 as [|f fs0 IH]; intros [|k ks0]; simpl; try reflexivity. f_equal. apply IH. }
  rewrite E. destruct fs as [|f fs]; [congruence|]. destruct ks as [|k ks]; [simpl in Hl; lia|].
  simpl combine. simpl map. cbn [fst snd].
  destruct (fold_zip_add (map (fun fk : (params -> params) * params => fst fk (snd fk)) (combine fs ks)) (f k)) as [L1 N1].
  - intros y Hy. apply in_map_iff in Hy. destruct Hy as ([f' k'] & <- & Hin). simpl.
    rewrite (HL f' k'), (HL f k); [reflexivity|left; reflexivity|right; eapply in_combine_l; exact Hin].
  - split; [rewrite L1; apply HL; left; reflexivity|]. rewrite N1. simpl. rewrite zsum_map. reflexivity.
Qed.
