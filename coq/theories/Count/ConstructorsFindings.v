(* C09: the two OPEN findings on Complement, characterised on the model.
     complement_step_round_trip     without the coverage half of flip_ok (a statistic of the flipped
                                    child that no parent statistic maps to) the step raises nothing and
                                    returns the child's true table pushed through the round trip
                                    child -> parent -> child, i.e. with the untracked statistics lost
     complement_untracked_refuted   so the statement of C09_complement_step minus coverage is FALSE
                                    (witness: harness/corpus/C09/complement_untracked_statistic.json)
     du_param_map_asserts_iff       DisjointUnion.param_map raises AssertionError exactly when two
                                    visits of one target position carry different values
     complement_merged_asserts      for the parent map of Complement: exactly on the parent tuples on
                                    which two parent statistics merged onto one statistic of the flipped
                                    child differ                                                      *)
From Coq Require Import ZArith List Bool Lia.
From CSS Require Import Gen.Prelude Count.Terms Count.Constructors Count.ConstructorsUnionProduct
  Count.ConstructorsComplement Count.ConstructorsQuotient Count.ConstructorsDerived Count.ConstructorsDict
  Count.TermsPoly Count.TermsPolyOrder Count.TermsPolyDiv Count.ConstructorsConv Count.ConstructorsQuotientParams
  Count.ConstructorsSteps Count.ConstructorsStepsQuotient.
Import ListNotations.
Open Scope Z_scope.

(* ---------------------------------------------------------------- Complement without the round trip *)
Lemma complement_correct_gen ppm g pms fs fi (TP Ti : terms) (subs : list terms) :
  teq TP (rekey fi Ti ++ union_table fs subs) ->
  nonneg Ti -> Forall nonneg subs ->
  maps_ok ppm g (filter (fun e : entry => negb (snd e =? 0)) TP) ->
  CMapsOk ppm pms (map (fun f k => g (f k)) fs) subs ->
  exists r, complement_get_terms ppm pms TP subs = Ok r /\ teq r (rekey (fun k => g (fi k)) Ti).
Proof.
  intros Hgen HnTi Hnsubs Hppm Hsib.
  unfold complement_get_terms.
  rewrite (rekey_res_ok ppm g _ Hppm). simpl.
  rewrite (complement_subtract_ok ppm pms _ subs Hsib).
  set (TP' := filter (fun e : entry => negb (snd e =? 0)) TP).
  set (es := union_table (map (fun f k => g (f k)) fs) subs).
  set (Ti' := rekey (fun k => g (fi k)) Ti).
  assert (Hacc : forall q, tget (rekey g TP') q = tget Ti' q + tget es q).
  { intros q.
    rewrite (tget_rekey_ext g TP' TP (fun p => tget_filter_nonzero TP p) q).
    rewrite (tget_rekey_ext g TP _ Hgen q).
    rewrite rekey_app, tget_app, rekey_rekey, rekey_union_table. fold es. reflexivity. }
  assert (Hes : nonneg es) by (apply nonneg_union_table; exact Hnsubs).
  assert (HnTi' : nonneg Ti') by (apply nonneg_rekey; exact HnTi).
  destruct (acc_entries_sub es (rekey g TP') Hes) as (r & Hr & Hq).
  - intros q. rewrite Hacc. pose proof (tget_nonneg Ti' q HnTi'). lia.
  - exists r. split; [exact Hr|]. intros q. rewrite Hq, Hacc. lia.
Qed.

(* the dictionary of the flipped child is injective with values among the child's statistics;
   NOTHING asks that every statistic of the child be a value *)
Definition flip_inj (pnames : list Z) (k : kid) : Prop :=
  kid_wf pnames k /\ NoDup (map snd (k_dict k)) /\
  (forall a b, In (a, b) (k_dict k) -> In b (k_names k)).

(* child tuple -> parent tuple -> child tuple *)
Definition round_trip (pnames : list Z) (k : kid) (key : params) : params :=
  flip_sem pnames k (kid_sem pnames k key).

Theorem complement_step_round_trip pnames kids idx ptabs ktabs own n :
  let ki := nth idx kids default_kid in
  (idx < length kids)%nat -> length ktabs = length kids ->
  NoDup pnames -> Forall (kid_wf pnames) kids -> flip_inj pnames ki ->
  klen (length pnames) (tab_at ptabs n) ->
  Forall2 kid_keys kids (map (fun t => tab_at t n) ktabs) ->
  Forall nonneg (map (fun t => tab_at t n) ktabs) ->
  union_genuine (map (kid_sem pnames) kids) (map (fun t => tab_at t n) ktabs) (tab_at ptabs n) ->
  exists r, complement_step pnames kids idx ptabs ktabs own n = Ok r /\
            teq r (rekey (round_trip pnames ki) (tab_at (nth idx ktabs []) n)).
Proof.
  intros ki Hi Hl Hpn Hwf (Hwfi & Hinj & Hvals) Hpk Hk Hnn Hg.
  destruct (complement_step_is_complement_get_terms pnames kids idx ptabs ktabs own n Hwf Hvals) as (pm & Epm & ->).
  fold ki in Epm.
  destruct Hwfi as (_ & Hcn & Hkeys & Hsub).
  set (g := flip_sem pnames ki).
  assert (Hppm : forall key, length key = length pnames ->
                 du_param_map pm (length (k_names ki)) key = Ok (g key)).
  { intros key Hkey.
    destruct (complement_parent_map_sem pnames (k_names ki) (k_dict ki) key Hpn Hcn Hkeys Hinj Hvals Hkey) as (pm' & E1 & E2).
    rewrite Epm in E1. inversion E1. subst pm'. exact E2. }
  set (tabs := map (fun t => tab_at t n) ktabs) in *.
  assert (Lt : length tabs = length kids) by (unfold tabs; rewrite map_length; exact Hl).
  assert (Eti : nth idx tabs [] = tab_at (nth idx ktabs []) n).
  { unfold tabs. apply nth_map_tab_at. }
  assert (Efi : nth idx (map (kid_sem pnames) kids) (fun k => k) = kid_sem pnames ki).
  { rewrite (nth_indep _ (fun k => k) (kid_sem pnames default_kid)) by (rewrite map_length; lia).
    rewrite (map_nth (kid_sem pnames)). reflexivity. }
  rewrite <- Eti.
  replace (map (fun t => tab_at t n) (remove_at idx ktabs)) with (remove_at idx tabs)
    by (unfold tabs; apply remove_at_map).
  apply (complement_correct_gen (du_param_map pm (length (k_names ki))) g (map (kid_du pnames) (remove_at idx kids))
           (map (kid_sem pnames) (remove_at idx kids)) (kid_sem pnames ki)).
  - eapply teq_trans; [exact Hg|].
    eapply teq_trans; [apply (union_table_remove_at idx); [lia|rewrite map_length; lia]|].
    rewrite Efi, remove_at_map. apply teq_refl.
  - rewrite Forall_forall in Hnn. apply Hnn. apply nth_In. lia.
  - apply Forall_remove_at. exact Hnn.
  - intros key v Hin. apply Hppm. apply filter_In in Hin. destruct Hin as [Hin _]. apply (Hpk key v Hin).
  - apply CMapsOk_kids; [apply Forall_remove_at; exact Hwf|apply Forall2_remove_at; exact Hk|exact Hppm].
Qed.

(* what the round trip does to one coordinate: a statistic of the child that is the value of the
   dictionary survives, an UNTRACKED one is reported as 0 *)
Lemma dict_get_inv_none (d : dict) cv : ~ In cv (map snd d) -> dict_get (inv_dict d) cv = None.
Proof.
  intros H. destruct (dict_get (inv_dict d) cv) as [pv|] eqn:E; [|reflexivity].
  exfalso. apply H. apply dict_get_in in E. apply (proj1 (inv_dict_in d cv pv)) in E.
  apply in_map_iff. exists (pv, cv). split; [reflexivity|exact E].
Qed.

Theorem round_trip_coordinate pnames k key q :
  kid_wf pnames k -> NoDup (map snd (k_dict k)) ->
  length key = length (k_names k) -> (q < length (k_names k))%nat ->
  nth q (round_trip pnames k key) 0 =
  if existsb (Z.eqb (nth q (k_names k) 0)) (map snd (k_dict k)) then nth q key 0 else 0.
Proof.
  intros (Hpn & Hcn & Hkd & Hsub) Hv Hl Hq.
  unfold round_trip, flip_sem, kid_sem.
  rewrite <- dict_sem_compose; [|exact Hpn|rewrite inv_dict_keys; exact Hv|exact Hsub].
  unfold dict_sem.
  set (D := dict_compose (inv_dict (k_dict k)) (k_dict k)).
  rewrite (nth_indep (map (dict_val (k_names k) D key) (k_names k)) 0 (dict_val (k_names k) D key 0))
    by (rewrite map_length; exact Hq).
  rewrite map_nth. unfold dict_val, D.
  rewrite dict_get_compose by (rewrite inv_dict_keys; exact Hv).
  set (cv := nth q (k_names k) 0).
  destruct (existsb (Z.eqb cv) (map snd (k_dict k))) eqn:Ex.
  - apply existsb_exists in Ex. destruct Ex as (x & Hin & Ex). apply Z.eqb_eq in Ex. subst x.
    apply in_map_iff in Hin. destruct Hin as ([pv cv'] & E & Hin). simpl in E. subst cv'.
    rewrite (dict_get_of_in (inv_dict (k_dict k)) cv pv); [|rewrite inv_dict_keys; exact Hv|apply inv_dict_in; exact Hin].
    rewrite (dict_get_of_in (k_dict k) pv cv Hkd Hin).
    unfold cv. rewrite pos_of_nth by assumption. reflexivity.
  - rewrite dict_get_inv_none; [reflexivity|].
    intros Hin. assert (existsb (Z.eqb cv) (map snd (k_dict k)) = true); [|congruence].
    apply existsb_exists. exists cv. split; [exact Hin|apply Z.eqb_refl].
Qed.

(* ---------------------------------------------------------------- the witness *)
(* parent without parameters = child0 (one object of size 1 with s = 2) + child1 (one object of
   size 1): harness/corpus/C09/complement_untracked_statistic.json, replayed on /repo *)
Definition w_kids : list kid := [mkKid [7] [] 1 true false; mkKid [] [] 1 true false].
Definition w_ptabs : list terms := [[]; [([], 2)]].
Definition w_ktabs : list (list terms) := [[[]; [([2], 1)]]; [[]; [([], 1)]]].

(* the raw accumulator; canonical form (tnorm) [([0], 1)]: count 1 at statistic 0, truth: at statistic 2 *)
Lemma w_result : complement_step [] w_kids 0 w_ptabs w_ktabs (fun _ => []) 1 = Ok [([0], -1); ([0], 2)].
Proof. vm_compute. reflexivity. Qed.

Theorem complement_untracked_refuted :
  ~ (forall pnames kids idx ptabs ktabs own n,
       let ki := nth idx kids default_kid in
       (idx < length kids)%nat -> length ktabs = length kids ->
       NoDup pnames -> Forall (kid_wf pnames) kids -> flip_inj pnames ki ->
       klen (length pnames) (tab_at ptabs n) ->
       Forall2 kid_keys kids (map (fun t => tab_at t n) ktabs) ->
       Forall nonneg (map (fun t => tab_at t n) ktabs) ->
       union_genuine (map (kid_sem pnames) kids) (map (fun t => tab_at t n) ktabs) (tab_at ptabs n) ->
       exists r, complement_step pnames kids idx ptabs ktabs own n = Ok r /\
                 teq r (tab_at (nth idx ktabs []) n)).
Proof.
  intros H.
  destruct (H [] w_kids 0%nat w_ptabs w_ktabs (fun _ => []) 1) as (r & Hr & Ht).
  - simpl. lia.
  - reflexivity.
  - constructor.
  - unfold w_kids, kid_wf, wf_dict. simpl.
    repeat constructor; simpl; try tauto; try (intros ? ? []); try (intros []).
  - unfold flip_inj, kid_wf, wf_dict. simpl.
    repeat split; try constructor; simpl; try tauto; try (intros ? ? []); try (intros []); try constructor.
  - intros k v Hin. vm_compute in Hin. destruct Hin as [E|[]]. inversion E. reflexivity.
  - simpl. constructor; [|constructor; [|constructor]].
    + intros k v Hin. vm_compute in Hin. destruct Hin as [E|[]]. inversion E. reflexivity.
    + intros k v Hin. vm_compute in Hin. destruct Hin as [E|[]]. inversion E. reflexivity.
  - simpl. constructor; [|constructor; [|constructor]];
      intros k v Hin; vm_compute in Hin; destruct Hin as [E|[]]; inversion E; lia.
  - intros q. vm_compute. destruct q as [|x q]; [reflexivity|]. destruct x; reflexivity.
  - rewrite w_result in Hr. inversion Hr. subst r. specialize (Ht [2]). vm_compute in Ht. discriminate.
Qed.

(* ---------------------------------------------------------------- DisjointUnion.param_map asserts iff *)
Definition du_fold (flat : list (nat * Z)) (acc : res (list (option Z))) : res (list (option Z)) :=
  fold_left (fun acc (pz : nat * Z) => du_set acc (fst pz) (snd pz)) flat acc.

Lemma du_fold_err flat c : du_fold flat (Err c) = Err c.
Proof. induction flat as [|[p v] flat IH]; [reflexivity|]. simpl. exact IH. Qed.

Lemma nth_upd_same {A} (l : list A) p f d : (p < length l)%nat -> nth p (upd l p f) d = f (nth p l d).
Proof.
  revert p. induction l as [|x l IH]; intros [|p] H; simpl in *; try lia; [reflexivity|]. apply IH. lia.
Qed.

Lemma upd_length {A} (l : list A) p f : length (upd l p f) = length l.
Proof. revert p. induction l as [|x l IH]; intros [|p]; simpl; try reflexivity. f_equal. apply IH. Qed.

(* conflict of the visits with what is already recorded, or among themselves *)
Definition conflict (l : list (option Z)) (flat : list (nat * Z)) : Prop :=
  (exists p v w, In (p, v) flat /\ nth p l None = Some w /\ w <> v) \/
  (exists p v1 v2, In (p, v1) flat /\ In (p, v2) flat /\ v1 <> v2).

Lemma du_fold_char : forall flat l,
  (forall p v, In (p, v) flat -> (p < length l)%nat) ->
  (du_fold flat (Ok l) = Err E_ASSERT /\ conflict l flat) \/
  ((exists l', du_fold flat (Ok l) = Ok l') /\ ~ conflict l flat).
Proof.
  induction flat as [|[p v] flat IH]; intros l Hr.
  - right. split; [exists l; reflexivity|]. intros [(p & v & w & [] & _)|(p & v1 & v2 & [] & _)].
  - assert (Hp : (p < length l)%nat) by (apply (Hr p v); left; reflexivity).
    assert (Hr' : forall p' v', In (p', v') flat -> (p' < length l)%nat) by (intros p' v' Hin; apply (Hr p' v'); right; exact Hin).
    unfold du_fold. simpl fold_left. fold (du_fold flat). unfold du_set at 1. cbn [bind fst snd].
    destruct (nth p l None) as [w|] eqn:En.
    + destruct (w =? v) eqn:Ew.
      * apply Z.eqb_eq in Ew. subst w.
        destruct (IH l Hr') as [(E & C)|(E & C)].
        -- left. split; [exact E|].
           destruct C as [(p' & v' & w & Hin & Hn & Hne)|(p' & v1 & v2 & H1 & H2 & Hne)].
           ++ left. exists p', v', w. split; [right; exact Hin|tauto].
           ++ right. exists p', v1, v2. split; [right; exact H1|split; [right; exact H2|exact Hne]].
        -- right. split; [exact E|]. intros [(p' & v' & w & Hin & Hn & Hne)|(p' & v1 & v2 & H1 & H2 & Hne)].
           ++ destruct Hin as [Ein|Hin].
              ** inversion Ein; subst. rewrite En in Hn. inversion Hn. congruence.
              ** apply C. left. exists p', v', w. tauto.
           ++ destruct H1 as [E1|H1], H2 as [E2|H2].
              ** inversion E1; inversion E2; subst. congruence.
              ** inversion E1; subst. apply C. left. exists p', v2, v1. tauto.
              ** inversion E2; subst. apply C. left. exists p', v1, v2. split; [exact H1|]. split; [exact En|congruence].
              ** apply C. right. exists p', v1, v2. tauto.
      * left. split; [apply du_fold_err|]. left. exists p, v, w. split; [left; reflexivity|]. split; [exact En|].
        apply Z.eqb_neq in Ew. exact Ew.
    + set (l' := upd l p (fun _ => Some v)).
      assert (Hl' : forall p' v', In (p', v') flat -> (p' < length l')%nat).
      { intros p' v' Hin. unfold l'. rewrite upd_length. apply (Hr' p' v' Hin). }
      assert (Hn' : forall p', nth p' l' None = if Nat.eqb p' p then Some v else nth p' l None).
      { intros p'. unfold l'. destruct (Nat.eqb_spec p' p) as [->|Hne].
        - rewrite nth_upd_same by exact Hp. reflexivity.
        - apply nth_upd_other. congruence. }
      destruct (IH l' Hl') as [(E & C)|(E & C)].
      * left. split; [exact E|].
        destruct C as [(p' & v' & w & Hin & Hn & Hne)|(p' & v1 & v2 & H1 & H2 & Hne)].
        -- rewrite Hn' in Hn. destruct (Nat.eqb_spec p' p) as [->|Hpp].
           ++ inversion Hn; subst. right. exists p, w, v'. split; [left; reflexivity|split; [right; exact Hin|exact Hne]].
           ++ left. exists p', v', w. split; [right; exact Hin|tauto].
        -- right. exists p', v1, v2. split; [right; exact H1|split; [right; exact H2|exact Hne]].
      * right. split; [exact E|]. intros [(p' & v' & w & Hin & Hn & Hne)|(p' & v1 & v2 & H1 & H2 & Hne)].
        -- destruct Hin as [Ein|Hin].
           ++ inversion Ein; subst. rewrite En in Hn. discriminate.
           ++ apply C. left. exists p', v', w. split; [exact Hin|]. split; [|exact Hne].
              rewrite Hn'. destruct (Nat.eqb_spec p' p) as [->|_]; [rewrite En in Hn; discriminate|exact Hn].
        -- destruct H1 as [E1|H1], H2 as [E2|H2].
           ++ inversion E1; inversion E2; subst. congruence.
           ++ inversion E1; subst. apply C. left. exists p', v2, v1. split; [exact H2|]. split; [|exact Hne].
              rewrite Hn', Nat.eqb_refl. reflexivity.
           ++ inversion E2; subst. apply C. left. exists p', v1, v2. split; [exact H1|]. split; [|congruence].
              rewrite Hn', Nat.eqb_refl. reflexivity.
           ++ apply C. right. exists p', v1, v2. tauto.
Qed.

(* DisjointUnion.param_map raises AssertionError exactly when one target position is visited
   with two different values (positions within range) *)
Theorem du_param_map_asserts_iff pm num param :
  (forall p v, In (p, v) (visits pm param) -> (p < num)%nat) ->
  (du_param_map pm num param = Err E_ASSERT <->
   exists p v1 v2, In (p, v1) (visits pm param) /\ In (p, v2) (visits pm param) /\ v1 <> v2) /\
  (du_param_map pm num param <> Err E_ASSERT -> exists r, du_param_map pm num param = Ok r).
Proof.
  intros Hr. unfold du_param_map.
  rewrite (fold_visits (fun acc p v => du_set acc p v)).
  fold (visits pm param). fold (du_fold (visits pm param) (Ok (repeat None num))).
  destruct (du_fold_char (visits pm param) (repeat None num)) as [(E & C)|((l' & E) & C)].
  - intros p v Hin. rewrite repeat_length. apply (Hr p v Hin).
  - rewrite E. simpl. split; [|intros Hne; congruence]. split; [intros _|reflexivity].
    destruct C as [(p & v & w & _ & Hn & _)|C]; [rewrite nth_repeat_none in Hn; discriminate|exact C].
  - rewrite E. simpl. split; [|intros _; eexists; reflexivity]. split; [discriminate|].
    intros C'. exfalso. apply C. right. exact C'.
Qed.

(* the visits of the parent map of Complement on a parent tuple *)
Lemma visits_parent_pm_any pnames cnames d : forall key, length key = length pnames ->
  visits (parent_pm pnames cnames d) key =
  flat_map (fun iv : Z * Z => match dict_get d (fst iv) with
                              | Some cv => [(posn cnames cv, snd iv)]
                              | None => [] end) (combine pnames key).
Proof.
  unfold visits, parent_pm. induction pnames as [|pv pn IH]; intros [|x key] Hl; simpl in Hl; try discriminate; [reflexivity|].
  simpl. rewrite IH by lia. destruct (dict_get d pv); reflexivity.
Qed.

(* the model reaches the assertion exactly on the parent tuples on which two parent statistics
   that the dictionary of the flipped child maps onto ONE child statistic differ *)
Theorem complement_merged_asserts pnames cnames d key :
  NoDup cnames -> (forall a b, In (a, b) d -> In b cnames) -> length key = length pnames ->
  (du_param_map (parent_pm pnames cnames d) (length cnames) key = Err E_ASSERT <->
   exists pv1 x1 pv2 x2 cv, In (pv1, x1) (combine pnames key) /\ In (pv2, x2) (combine pnames key) /\
     dict_get d pv1 = Some cv /\ dict_get d pv2 = Some cv /\ x1 <> x2).
Proof.
  intros Hcn Hvals Hl.
  assert (Hpos : forall cv, In cv cnames -> (posn cnames cv < length cnames)%nat /\ nth (posn cnames cv) cnames 0 = cv).
  { intros cv Hin. destruct (pos_of_in cnames cv Hcn Hin) as (q & Hq & En & Ep). unfold posn. rewrite Ep. tauto. }
  assert (Hv : forall p v, In (p, v) (visits (parent_pm pnames cnames d) key) <->
                exists pv cv, In (pv, v) (combine pnames key) /\ dict_get d pv = Some cv /\ p = posn cnames cv).
  { intros p v. rewrite visits_parent_pm_any by exact Hl. rewrite in_flat_map. split.
    - intros ([pv x] & Hin & Hm). simpl in Hm. destruct (dict_get d pv) as [cv|] eqn:Eg; [|contradiction].
      destruct Hm as [E|[]]. inversion E; subst. exists pv, cv. tauto.
    - intros (pv & cv & Hin & Eg & ->). exists (pv, v). split; [exact Hin|]. simpl. rewrite Eg. left. reflexivity. }
  destruct (du_param_map_asserts_iff (parent_pm pnames cnames d) (length cnames) key) as [Hiff _].
  - intros p v Hin. apply Hv in Hin. destruct Hin as (pv & cv & _ & Eg & ->).
    apply Hpos. apply (Hvals pv cv). apply dict_get_in. exact Eg.
  - rewrite Hiff. split.
    + intros (p & v1 & v2 & H1 & H2 & Hne). apply Hv in H1. apply Hv in H2.
      destruct H1 as (pv1 & cv1 & I1 & G1 & E1). destruct H2 as (pv2 & cv2 & I2 & G2 & E2).
      assert (cv1 = cv2).
      { destruct (Hpos cv1 (Hvals _ _ (dict_get_in _ _ _ G1))) as (_ & N1).
        destruct (Hpos cv2 (Hvals _ _ (dict_get_in _ _ _ G2))) as (_ & N2). rewrite <- N1, <- N2. congruence. }
      subst cv2. exists pv1, v1, pv2, v2, cv1. tauto.
    + intros (pv1 & x1 & pv2 & x2 & cv & I1 & I2 & G1 & G2 & Hne).
      exists (posn cnames cv), x1, x2. split; [|split; [|exact Hne]]; apply Hv; [exists pv1, cv|exists pv2, cv]; tauto.
Qed.
