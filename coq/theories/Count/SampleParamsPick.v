(* C08 with extra parameters — (1) the two walks of Count/SampleModelParams.v that return the
   dictionaries handed to the sub-samplers choose exactly what union_pick / prod_pick of
   Count/SampleModel.v choose (the functions compared with the real constructors draw by draw and
   counted by C08_threshold_union / C08_threshold_product); (2) the constructor
   EquivalencePathRule builds: its dictionary is C09's composition, every parameter of the last
   class is determined, and fixed_honest says exactly that the statistics of the last class which
   the first class does not track are identically 0. *)
From Coq Require Import ZArith List Bool Lia.
From CSS Require Import Gen.Prelude Count.Terms Count.Constructors Count.ConstructorsDict
  Count.SampleModel Count.SampleWalk Count.SamplePick Count.SampleModelParams Count.SampleParamsDict
  Count.SampleParamsSpec.
Import ListNotations.
Open Scope Z_scope.

Definition dpicks {A} (j : nat) (x : res (nat * A)) : bool :=
  match x with Ok (i, _) => Nat.eqb i j | Err _ => false end.

Lemma union_pick_dict_index pvars kids eps fixed n params extra r j :
  union_extra eps fixed params = Ok extra ->
  upicks j (union_pick pvars kids eps fixed n params r) = dpicks j (union_pick_dict pvars kids eps fixed n params r).
Proof.
  intros He. rewrite (upicks_walk pvars kids eps fixed n params extra He j r).
  unfold union_pick_dict. rewrite He.
  destruct (walk (union_weight n params) r 0 0%nat (union_branches pvars kids eps extra)) as [[i b]|e] eqn:W; [|reflexivity].
  apply walk_weighted in W. destruct W as (w & Hw). unfold union_weight in Hw.
  destruct (ub_extra b); [reflexivity|discriminate].
Qed.

(* same result or same exception; the tuples of union_pick are read off the dictionary *)
Lemma union_pick_of_dict pvars kids eps fixed n params r :
  match union_pick_dict pvars kids eps fixed n params r with
  | Err e => union_pick pvars kids eps fixed n params r = Err e
  | Ok (i, q) => union_pick pvars kids eps fixed n params r = Err E_KEY \/
                 exists t, union_pick pvars kids eps fixed n params r = Ok (Z.of_nat i, t)
  end.
Proof.
  unfold union_pick_dict, union_pick. destruct (union_extra eps fixed params) as [extra|e]; [|reflexivity].
  destruct (walk _ r 0 0%nat _) as [[i b]|e]; [|reflexivity].
  destruct (ub_extra b) as [q|]; [|reflexivity].
  destruct (tuple_of (ch_params (ub_child b)) q) as [t|]; [right; exists t; reflexivity|left; reflexivity].
Qed.

Lemma prod_pick_of_dict pvars pmins kids n params r :
  prod_pick pvars pmins kids n params r =
  match prod_pick_dict pvars pmins kids n params r with
  | Ok ex => prod_tokens kids ex
  | Err e => Err e
  end.
Proof.
  unfold prod_pick, prod_pick_dict. destruct kids as [|k0 ks]; [reflexivity|].
  destruct (tuple_of pvars params) as [pv|]; [|reflexivity].
  destruct (negb (Nat.eqb (length params) (length pvars))); [reflexivity|].
  destruct (walk _ r 0 0%nat _) as [[i comp]|e]; [|reflexivity].
  destruct (prod_extra pvars (k0 :: ks) comp) as [[ex|]|e]; reflexivity.
Qed.

(* ------------------------------------------------------------------ EquivalencePathRule.constructor *)
Lemma path_compose_dict_compose acc step : path_compose acc step = dict_compose acc step.
Proof.
  unfold path_compose, dict_compose. apply flat_map_ext. intros pc. rewrite dget_dict_get. reflexivity.
Qed.

(* the dictionary of the path is the one C09_path is about *)
Lemma path_dict_fold first steps : path_dict first steps = fold_left dict_compose steps (id_dict first).
Proof.
  unfold path_dict. change (map (fun k : Z => (k, k)) first) with (id_dict first).
  generalize (id_dict first). induction steps as [|s steps IH]; intros acc; simpl; [reflexivity|].
  rewrite path_compose_dict_compose. apply IH.
Qed.

Lemma path_fixed_in last (d : dict) k v :
  In (k, v) (path_fixed last d) <-> In k last /\ ~ In k (map snd d) /\ v = 0.
Proof.
  unfold path_fixed. rewrite in_map_iff. split.
  - intros (x & E & Hx). injection E as <- <-. apply filter_In in Hx. destruct Hx as [Hx Hn].
    apply negb_true_iff in Hn. split; [exact Hx|]. split; [|reflexivity].
    intros Hin. apply zmem_true in Hin. congruence.
  - intros (Hk & Hn & ->). exists k. split; [reflexivity|]. apply filter_In. split; [exact Hk|].
    apply negb_true_iff. destruct (zmem k (map snd d)) eqn:E; [|reflexivity]. apply zmem_true in E. contradiction.
Qed.

(* every parameter of the last class is the image of a parameter of the first or is fixed *)
Lemma path_fixed_determined last (d : dict) cv :
  In cv last -> In cv (map snd d) \/ In cv (map fst (path_fixed last d)).
Proof.
  intros Hcv. destruct (zmem cv (map snd d)) eqn:E; [left; apply zmem_true; exact E|].
  right. apply in_map_iff. exists (cv, 0). split; [reflexivity|]. apply path_fixed_in.
  split; [exact Hcv|]. split; [|reflexivity]. intros Hin. apply zmem_true in Hin. congruence.
Qed.

Lemma path_fixed_keys last (d : dict) k : In k (map fst (path_fixed last d)) -> In k last.
Proof.
  intros Hk. apply in_map_iff in Hk. destruct Hk as ([k' v] & <- & Hin). apply path_fixed_in in Hin. tauto.
Qed.

Lemma path_fixed_nodup last (d : dict) : NoDup last -> NoDup (map fst (path_fixed last d)).
Proof.
  intros Hnd. unfold path_fixed. rewrite map_map. simpl. rewrite map_id. apply NoDup_filter. exact Hnd.
Qed.

(* for a path rule  c = (one child ci, dictionary D, fixed values path_fixed (parameters of ci) D):
   fixed_honest <-> the statistics of ci that no parameter of c is mapped to are 0 on every object of ci *)
Lemma path_fixed_honest rule_of tab c ci (D : dict) :
  pk_kids (rule_of c) = [ci] -> pk_eps (rule_of c) = [D] ->
  pk_fixed (rule_of c) = [path_fixed (pars rule_of ci) D] ->
  (fixed_honest rule_of tab c <->
   forall k, In k (pars rule_of ci) -> ~ In k (map snd D) ->
   forall n q, pcnt tab ci n q <> 0 -> dget (combine (pars rule_of ci) q) k = Some 0).
Proof.
  intros Hk He Hf. unfold fixed_honest, kid_eps_fixed, kid_eps. rewrite Hk, He, Hf. simpl. split.
  - intros H k Hin Hn n q Hc.
    assert (Hf0 : In (k, 0) (path_fixed (pars rule_of ci) D)) by (apply path_fixed_in; auto).
    exact (H (ci, D, path_fixed (pars rule_of ci) D) (or_introl eq_refl) k 0 Hf0 n q Hc).
  - intros H d [<-|[]] k v Hin n q Hc. simpl in *. apply path_fixed_in in Hin. destruct Hin as (Hk' & Hn & ->).
    exact (H k Hk' Hn n q Hc).
Qed.
