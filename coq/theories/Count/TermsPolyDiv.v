(* The model's exact polynomial division (Count/Constructors.v poly_div: long division by
   leading terms in the lexicographic order, on canonical tables, with fuel box_size) returns
   THE exact quotient whenever one with non-negative coefficients and exponents exists — the
   situation of Quotient._b, where dividend, divisor and quotient are tables of counts.
   sympy.div is NOT modelled: it is trusted to return this same (unique) exact quotient.        *)
From Coq Require Import ZArith List Bool Lia Permutation.
From CSS Require Import Gen.Prelude Count.Terms Count.Constructors Count.TermsPoly Count.TermsPolyOrder.
Import ListNotations.
Open Scope Z_scope.

(* ---------------------------------------------------------------- one step *)
Lemma zip_sub_ok_add : forall kb kc, length kb = length kc -> Forall (fun x => 0 <= x) kb ->
  zip_sub_ok (zip_add kb kc) kc = Some kb.
Proof.
  induction kb as [|x kb IH]; intros [|y kc] Hl Hnn; simpl in *; try lia; [reflexivity|].
  inversion Hnn; subst. replace (x + y <? y) with false by lia.
  rewrite IH by (try lia; assumption). f_equal. f_equal. lia.
Qed.

Lemma poly_div_fuel_S fuel r c q :
  poly_div_fuel (S fuel) r c q =
  match lead r with
  | None => Ok q
  | Some (kr, vr) =>
      match lead c with
      | None => Err E_ZERODIV
      | Some (kc, vc) =>
          match zip_sub_ok kr kc with
          | None => Err E_ASSERT
          | Some km =>
              if (vr mod vc =? 0) then
                let m := (km, vr / vc) in
                poly_div_fuel fuel (tnorm (r ++ tneg (mono_mul m c))) c (m :: q)
              else Err E_ASSERT
          end
      end
  end.
Proof. reflexivity. Qed.

(* the leading entry of a canonical table equal to a product of canonical tables *)
Lemma lead_of_product L (r b0 : terms) kb vb (c0 : terms) kc vc :
  canon r -> canon (b0 ++ [(kb, vb)]) -> canon (c0 ++ [(kc, vc)]) ->
  klen L (b0 ++ [(kb, vb)]) -> klen L (c0 ++ [(kc, vc)]) ->
  teq r (pmul (b0 ++ [(kb, vb)]) (c0 ++ [(kc, vc)])) ->
  lead r = Some (zip_add kb kc, vb * vc).
Proof.
  intros Cr Cb Cc Lb Lc Hr.
  destruct (lead_pmul L b0 kb vb c0 kc vc Cb Cc Lb Lc) as [HK Hmax].
  destruct (canon_app_last _ _ _ Cb) as (_ & Hvb & _). destruct (canon_app_last _ _ _ Cc) as (_ & Hvc & _).
  assert (HV : vb * vc <> 0) by nia.
  set (K := zip_add kb kc) in *. set (V := vb * vc) in *.
  assert (HinK : In (K, V) r) by (apply (canon_in_iff r K V Cr HV); rewrite (Hr K); exact HK).
  destruct (list_last_case r) as [->|(r0 & [kr vr] & ->)]; [contradiction|].
  rewrite lead_app_last. f_equal.
  destruct (canon_app_last _ _ _ Cr) as (Cr0 & Hvr & Hlt).
  apply in_app_or in HinK. destruct HinK as [Hin0|[E|[]]]; [|exact E].
  exfalso. pose proof (Hlt K V Hin0) as HKkr.
  assert (Hkr : tget (r0 ++ [(kr, vr)]) kr = vr).
  { apply tget_ssorted_in; [exact (proj1 Cr)|]. apply in_or_app. right. left. reflexivity. }
  destruct (Hmax kr) as [E|Hlt2].
  - rewrite <- (Hr kr). intros Hz. apply Hvr. rewrite <- Hkr. exact Hz.
  - subst kr. rewrite ltb_irrefl in HKkr. discriminate.
  - eapply ltb_asym; eauto.
Qed.

Lemma poly_div_fuel_ok L (c0 : terms) kc vc :
  let c := c0 ++ [(kc, vc)] in
  canon c -> klen L c ->
  forall fuel Brem r q,
    canon Brem -> klen L Brem -> knonneg Brem -> canon r -> teq r (pmul Brem c) ->
    (length Brem < fuel)%nat ->
    exists q', poly_div_fuel fuel r c q = Ok q' /\ teq q' (q ++ Brem).
Proof.
  intros c Cc Lc. induction fuel as [|fuel IH]; intros Brem r q CB LB NB Cr Hr Hlen; [lia|].
  rewrite poly_div_fuel_S.
  destruct (list_last_case Brem) as [->|(B0 & [kb vb] & ->)].
  - assert (r = []) by (apply canon_zero_nil; [exact Cr|]; intros p; rewrite (Hr p); reflexivity).
    subst r. simpl. exists q. split; [reflexivity|]. rewrite app_nil_r. apply teq_refl.
  - rewrite (lead_of_product L r B0 kb vb c0 kc vc Cr CB Cc LB Lc Hr).
    unfold c at 1. rewrite lead_app_last.
    assert (Lkb : length kb = L) by (apply (LB kb vb); apply in_or_app; right; left; reflexivity).
    assert (Lkc : length kc = L) by (apply (Lc kc vc); apply in_or_app; right; left; reflexivity).
    assert (Nkb : Forall (fun x => 0 <= x) kb) by (apply (NB kb vb); apply in_or_app; right; left; reflexivity).
    rewrite zip_sub_ok_add by (try lia; assumption).
    destruct (canon_app_last _ _ _ Cc) as (_ & Hvc & _).
    destruct (canon_app_last _ _ _ CB) as (CB0 & Hvb & _).
    rewrite Z.mod_mul by exact Hvc. rewrite Z.eqb_refl. cbv zeta. rewrite Z.div_mul by exact Hvc.
    destruct (IH B0 (tnorm (r ++ tneg (mono_mul (kb, vb) c))) ((kb, vb) :: q)) as (q' & Hq' & Hteq).
    + exact CB0.
    + intros k v Hin. apply (LB k v). apply in_or_app. left. exact Hin.
    + intros k v Hin. apply (NB k v). apply in_or_app. left. exact Hin.
    + apply tnorm_canon.
    + intros p. rewrite tnorm_teq, tget_app, tget_tneg, mono_mul_pmul, (Hr p), pmul_app_l, tget_app. lia.
    + rewrite app_length in Hlen. simpl in Hlen. lia.
    + exists q'. split; [exact Hq'|]. intros p. rewrite (Hteq p). simpl. rewrite !tget_app. simpl. lia.
Qed.

(* ---------------------------------------------------------------- the fuel is enough *)
Fixpoint box (ms : list Z) : list params :=
  match ms with
  | [] => [[]]
  | m :: r => flat_map (fun x => map (cons x) (box r)) (map Z.of_nat (seq 0 (Z.to_nat (Z.max m 0 + 1))))
  end.

Lemma flat_map_const_length {A B} (g : A -> B -> B) (l : list A) (l' : list B) :
  length (flat_map (fun x => map (g x) l') l) = (length l * length l')%nat.
Proof. induction l as [|x l IH]; simpl; [reflexivity|]. rewrite app_length, map_length, IH. reflexivity. Qed.

Lemma box_prod_nonneg ms : 1 <= fold_right (fun m acc => (Z.max m 0 + 1) * acc) 1 ms.
Proof. induction ms as [|m ms IH]; simpl; [lia|]. nia. Qed.

Lemma box_length ms : length (box ms) = Z.to_nat (fold_right (fun m acc => (Z.max m 0 + 1) * acc) 1 ms).
Proof.
  induction ms as [|m ms IH]; simpl; [reflexivity|].
  rewrite flat_map_const_length, map_length, seq_length, IH.
  pose proof (box_prod_nonneg ms). rewrite Z2Nat.inj_mul by lia. reflexivity.
Qed.

Lemma in_box : forall ms k, Forall2 (fun x m => 0 <= x <= m) k ms -> In k (box ms).
Proof.
  induction ms as [|m ms IH]; intros k H; inversion H; subst; simpl; [left; reflexivity|].
  apply in_flat_map. exists x. split.
  - apply in_map_iff. exists (Z.to_nat x). split; [lia|]. apply in_seq. lia.
  - apply in_map_iff. exists l. split; [reflexivity|]. apply IH. assumption.
Qed.

Lemma map2_max_length : forall a b, length a = length b -> length (map2 Z.max a b) = length a.
Proof. induction a as [|x a IH]; intros [|y b] H; simpl in *; try lia. rewrite IH; lia. Qed.

Lemma map2_max_le_l : forall a b, length a = length b -> Forall2 Z.le a (map2 Z.max a b).
Proof. induction a as [|x a IH]; intros [|y b] H; simpl in *; try lia; constructor; [lia|]. apply IH. lia. Qed.

Lemma map2_max_le_r : forall a b, length a = length b -> Forall2 Z.le b (map2 Z.max a b).
Proof. induction a as [|x a IH]; intros [|y b] H; simpl in *; try lia; constructor; [lia|]. apply IH. lia. Qed.

Lemma Forall2_le_trans a b c : Forall2 Z.le a b -> Forall2 Z.le b c -> Forall2 Z.le a c.
Proof.
  intros H. revert c. induction H as [|x y a b Hxy H IH]; intros c Hc; inversion Hc; subst; constructor; [lia|].
  apply IH. assumption.
Qed.

Lemma Forall2_le_refl' a : Forall2 Z.le a a.
Proof. induction a; constructor; [lia|assumption]. Qed.

Lemma maxes_spec L (t : terms) : forall k0,
  klen L t -> length k0 = L ->
  let mx := fold_left (fun acc (e : entry) => map2 Z.max acc (fst e)) t k0 in
  length mx = L /\ Forall2 Z.le k0 mx /\ forall k v, In (k, v) t -> Forall2 Z.le k mx.
Proof.
  induction t as [|[k v] t IH]; intros k0 Hl H0; simpl.
  - split; [exact H0|]. split; [apply Forall2_le_refl'|intros ? ? []].
  - assert (Hk : length k = L) by (apply (Hl k v); left; reflexivity).
    destruct (IH (map2 Z.max k0 k)) as (H1 & H2 & H3).
    + intros k' v' Hin. apply (Hl k' v'). right. exact Hin.
    + rewrite map2_max_length; lia.
    + split; [exact H1|]. split.
      * apply (Forall2_le_trans _ (map2 Z.max k0 k)); [apply map2_max_le_l; lia|exact H2].
      * intros k' v' [E|Hin].
        -- inversion E; subst. apply (Forall2_le_trans _ (map2 Z.max k0 k')); [apply map2_max_le_r; lia|exact H2].
        -- apply (H3 k' v' Hin).
Qed.

Lemma in_box_of_sum : forall k kc mx, length k = length kc ->
  Forall (fun x => 0 <= x) k -> Forall (fun x => 0 <= x) kc -> Forall2 Z.le (zip_add k kc) mx ->
  Forall2 (fun x m => 0 <= x <= m) k mx.
Proof.
  induction k as [|x k IH]; intros kc mx Hl Hk Hc H.
  - destruct kc; simpl in *; [|discriminate]. inversion H. constructor.
  - destruct kc as [|y kc]; simpl in Hl; [discriminate|]. simpl in H.
    inversion H as [|? m ? mx' Hxm H']; subst. inversion Hk; inversion Hc; subst.
    constructor; [lia|]. apply (IH kc); try assumption. lia.
Qed.

Lemma box_size_bound L (a' Brem c0 : terms) kc vc :
  let c := c0 ++ [(kc, vc)] in
  canon a' -> canon Brem -> canon c -> klen L Brem -> klen L c -> knonneg Brem -> knonneg c ->
  nonneg Brem -> nonneg c -> teq a' (pmul Brem c) ->
  (length Brem <= box_size a')%nat.
Proof.
  intros c Ca CB Cc LB Lc NB Nc PB Pc Ha.
  destruct Brem as [|eb Brem']; [simpl; lia|]. set (Brem := eb :: Brem') in *.
  assert (Hinc : In (kc, vc) c) by (apply in_or_app; right; left; reflexivity).
  assert (Lkc : length kc = L) by (apply (Lc kc vc Hinc)).
  destruct (canon_app_last _ _ _ Cc) as (_ & Hvc & _).
  assert (Hvcpos : 0 < vc) by (pose proof (Pc kc vc Hinc); lia).
  (* every monomial of the quotient times the leading monomial of the divisor is a monomial of a' *)
  assert (Hkey : forall k v, In (k, v) Brem -> exists v', In (zip_add k kc, v') a').
  { intros k v Hin. apply tget_nonzero_in. rewrite (Ha (zip_add k kc)), tget_pmul_pairs.
    assert (Hv : 0 < v) by (pose proof (PB k v Hin); pose proof (proj2 CB k v Hin); lia).
    set (F := fun ea eb0 : entry => if params_eqb (zip_add (fst ea) (fst eb0)) (zip_add k kc) then snd ea * snd eb0 else 0).
    assert (Fnn : forall ea eb0, In ea Brem -> In eb0 c -> 0 <= F ea eb0).
    { intros [k1 v1] [k2 v2] H1 H2. unfold F. simpl. pose proof (PB k1 v1 H1). pose proof (Pc k2 v2 H2).
      destruct (params_eqb _ _); nia. }
    assert (H1 : F (k, v) (kc, vc) <= zsum (F (k, v)) c).
    { apply zsum_le_term; [|exact Hinc]. intros y Hy. apply Fnn; assumption. }
    assert (H2 : zsum (F (k, v)) c <= zsum (fun ea => zsum (F ea) c) Brem).
    { apply (zsum_le_term (fun ea => zsum (F ea) c)); [|exact Hin].
      intros y Hy. apply zsum_nonneg. intros z Hz. apply Fnn; assumption. }
    unfold F at 1 in H1. simpl in H1. rewrite params_eqb_refl in H1.
    change (zsum (fun ea : entry => zsum (F ea) c) Brem <> 0). nia. }
  assert (La : klen L a').
  { intros p v Hin. assert (Hp : tget (pmul Brem c) p <> 0).
    { rewrite <- (Ha p), (tget_ssorted_in a' p v (proj1 Ca) Hin). apply (proj2 Ca p v Hin). }
    rewrite tget_pmul_pairs in Hp. apply zsum_nonzero_term in Hp. destruct Hp as ([k1 v1] & H1 & Hp).
    apply zsum_nonzero_term in Hp. destruct Hp as ([k2 v2] & H2 & Hp). simpl in Hp.
    destruct (params_eqb (zip_add k1 k2) p) eqn:E; [|lia]. apply params_eqb_eq in E. subst p.
    rewrite zip_add_length; [apply (LB k1 v1 H1)|]. rewrite (LB k1 v1 H1), (Lc k2 v2 H2). reflexivity. }
  destruct a' as [|[k0 v0] a'']; [destruct eb as [k v]; destruct (Hkey k v (or_introl eq_refl)) as (? & [])|].
  unfold box_size.
  set (mx := fold_left (fun acc (e : entry) => map2 Z.max acc (fst e)) ((k0, v0) :: a'') k0).
  destruct (maxes_spec L ((k0, v0) :: a'') k0 La) as (Lmx & _ & Hmx); [apply (La k0 v0); left; reflexivity|].
  fold mx in Lmx, Hmx.
  rewrite <- box_length.
  apply (Nat.le_trans _ (length (map fst Brem))); [rewrite map_length; apply Nat.le_refl|].
  fold mx. apply NoDup_incl_length; [apply ssorted_nodup_keys; exact (proj1 CB)|].
  intros k Hk. apply in_map_iff in Hk. destruct Hk as ([k' v] & E & Hin). simpl in E. subst k'.
  apply in_box. destruct (Hkey k v Hin) as (v' & Hin').
  apply (in_box_of_sum k kc mx).
  - rewrite (LB k v Hin). symmetry. exact Lkc.
  - apply (NB k v Hin).
  - apply (Nc kc vc Hinc).
  - apply (Hmx _ v' Hin').
Qed.

(* ---------------------------------------------------------------- the theorem *)
(* statements about the SUPPORT of a polynomial (they do not depend on the representing list) *)
Definition slen (L : nat) (t : terms) : Prop := forall k, tget t k <> 0 -> length k = L.
Definition snonneg (t : terms) : Prop := forall k, tget t k <> 0 -> Forall (fun x => 0 <= x) k.

Lemma slen_teq L a b : teq a b -> slen L a -> slen L b.
Proof. intros H Ha k Hk. apply Ha. rewrite (H k). exact Hk. Qed.
Lemma snonneg_teq a b : teq a b -> snonneg a -> snonneg b.
Proof. intros H Ha k Hk. apply Ha. rewrite (H k). exact Hk. Qed.

Lemma tnorm_klen_s L t : slen L t -> klen L (tnorm t).
Proof. intros H k v Hin. destruct (tnorm_value _ _ _ Hin) as [E Hv]. apply H. lia. Qed.
Lemma tnorm_knonneg_s t : snonneg t -> knonneg (tnorm t).
Proof. intros H k v Hin. destruct (tnorm_value _ _ _ Hin) as [E Hv]. apply H. lia. Qed.

Lemma poly_div_nonempty a c : tnorm c <> [] ->
  poly_div a c = bind (poly_div_fuel (S (box_size (tnorm a))) (tnorm a) (tnorm c) []) (fun q => Ok (tnorm q)).
Proof. intros H. unfold poly_div. cbv zeta. destruct (tnorm c); [contradiction|reflexivity]. Qed.

(* a = B * c with B, c tables of counts over L variables (non-negative values and exponents),
   c <> 0: the model's division answers Ok b, b canonical and b = B as polynomials *)
Theorem poly_div_exact L a c B :
  slen L B -> slen L c -> snonneg B -> snonneg c ->
  (forall p, 0 <= tget B p) -> (forall p, 0 <= tget c p) -> ~ pzero c ->
  teq a (pmul B c) ->
  exists b, poly_div a c = Ok b /\ canon b /\ teq b B.
Proof.
  intros LB Lc NB Nc PB Pc Hc Ha.
  destruct (list_last_case (tnorm c)) as [E|(c0 & [kc vc] & E)]; [exfalso; apply Hc; apply pzero_tnorm; exact E|].
  rewrite poly_div_nonempty by (rewrite E; destruct c0; discriminate). rewrite E.
  pose proof (tnorm_canon c) as Cc. pose proof (tnorm_klen_s L c Lc) as Lc'. pose proof (tnorm_knonneg_s c Nc) as Nc'.
  pose proof (tnorm_nonneg c Pc) as Pc'. rewrite E in Cc, Lc', Nc', Pc'.
  assert (Ha' : teq (tnorm a) (pmul (tnorm B) (c0 ++ [(kc, vc)]))).
  { eapply teq_trans; [apply tnorm_teq|]. eapply teq_trans; [exact Ha|].
    apply teq_sym. apply pmul_teq; [apply tnorm_teq|]. intros p. rewrite <- (tnorm_teq c p), E. reflexivity. }
  pose proof (box_size_bound L (tnorm a) (tnorm B) c0 kc vc (tnorm_canon a) (tnorm_canon B) Cc
                (tnorm_klen_s L B LB) Lc' (tnorm_knonneg_s B NB) Nc' (tnorm_nonneg B PB) Pc' Ha') as Hfuel.
  destruct (poly_div_fuel_ok L c0 kc vc Cc Lc' (S (box_size (tnorm a))) (tnorm B) (tnorm a) [])
    as (q' & Hq' & Hteq).
  - apply tnorm_canon.
  - apply tnorm_klen_s. exact LB.
  - apply tnorm_knonneg_s. exact NB.
  - apply tnorm_canon.
  - exact Ha'.
  - lia.
  - exists (tnorm q'). split.
    { assert (Hcut : forall x : res terms, x = Ok q' -> bind x (fun q : terms => Ok (tnorm q)) = Ok (tnorm q'))
        by (intros x ->; reflexivity).
      apply Hcut. exact Hq'. }
    split; [apply tnorm_canon|].
    eapply teq_trans; [apply tnorm_teq|]. eapply teq_trans; [exact Hteq|]. simpl. apply tnorm_teq.
Qed.

(* ... and that b is THE exact quotient: any q over L variables with q * c = a equals it *)
Corollary poly_div_is_the_exact_quotient L a c B q :
  klen L B -> klen L c -> snonneg B -> snonneg c ->
  (forall p, 0 <= tget B p) -> (forall p, 0 <= tget c p) -> ~ pzero c ->
  teq a (pmul B c) -> klen L q -> exact_quotient a c q ->
  exists b, poly_div a c = Ok b /\ teq b q.
Proof.
  intros LB Lc NB Nc PB Pc Hc Ha Lq Hq.
  assert (LB' : slen L B) by (intros k Hk; destruct (tget_nonzero_in B k Hk) as (v & Hin); eapply LB; eauto).
  assert (Lc' : slen L c) by (intros k Hk; destruct (tget_nonzero_in c k Hk) as (v & Hin); eapply Lc; eauto).
  destruct (poly_div_exact L a c B LB' Lc' NB Nc PB Pc Hc Ha) as (b & Hb & _ & HbB).
  exists b. split; [exact Hb|]. eapply teq_trans; [exact HbB|].
  apply (exact_quotient_unique L a c B q Lc LB Lq Hc); [|exact Hq].
  unfold exact_quotient. apply teq_sym. exact Ha.
Qed.
