(* `describes` (Count/ParseTreesSample.v: hypothesis of C08_uniform_objects / C08_sampler_is_unparse), DECIDED on the
   two descriptor lists of one specification:
     descs   the C07 descriptors (Count/ObjectsRun.v: what harness/props/c07.py _rule_desc builds), read through the
             functions the C07 run builds from them: spec_of (map dec_rule descs), atom_run descs;
     cds     the C08 classes (Count/SampleRun.v dec_cls), read as  fun c => nth c cds no_cls  (spec_rule).
   describesb compares, for every label below the longer of the two lists, the kind, the list of children and - for an
   atom - the size written in the C07 descriptor [3, m, o] with the C08 minimum size.  Beyond both lists both sides
   are "no rule / EmptyStrategy, no children".
   The size function of the objects is not data: soundness is for every `size` that gives the atoms of the C07
   descriptors the size written there (atom_sizes_ok; the harness writes m = minimum_size_of_object() and
   o = the object of that size). *)
From Coq Require Import ZArith List Bool Lia Arith.
From CSS Require Import Base.Sx Base.PyList Gen.Prelude Count.ObjectsModel Count.ObjectsRun Count.SampleModel
                        Count.SampleRun Count.ParseTrees Count.ParseTreesRun Count.ParseTreesSample.
Import ListNotations.
Open Scope Z_scope.

Fixpoint nats_eqb (a b : list nat) : bool :=
  match a, b with
  | [], [] => true
  | x :: a', y :: b' => Nat.eqb x y && nats_eqb a' b'
  | _, _ => false
  end.

Lemma nats_eqb_eq a : forall b, nats_eqb a b = true -> a = b.
Proof.
  induction a as [|x a IH]; intros [|y b] H; simpl in H; try discriminate; [reflexivity|].
  apply andb_true_iff in H. destruct H as [H1 H2]. apply Nat.eqb_eq in H1. subst. f_equal. apply IH. assumption.
Qed.

Definition cls_at (cds : list cls) (c : nat) : cls := nth c cds no_cls.

Definition desc_atb (descs : list sx) (cds : list cls) (c : nat) : bool :=
  let r := spec_of (map dec_rule descs) c in
  let k := cls_at cds c in
  (c_kind k =? kind_of r (atom_run descs c)) &&
  nats_eqb (c_kids k) (ParseTreesSample.kids_of r) &&
  (if c_kind k =? K_ATOM then
     match nth_error descs c with
     | Some d => match atom_of_desc d with Some _ => sx_Z (sx_nth d 1) =? c_min k | None => true end
     | None => true
     end
   else true).

Definition describesb (descs : list sx) (cds : list cls) : bool :=
  forallb (desc_atb descs cds) (seq 0 (Nat.max (length descs) (length cds))).

Definition atom_sizes_ok (size : Z -> Z) (descs : list sx) : Prop :=
  forall c d o, nth_error descs c = Some d -> atom_of_desc d = Some o -> size o = sx_Z (sx_nth d 1).

Theorem describesb_sound (size : Z -> Z) descs cds :
  atom_sizes_ok size descs -> describesb descs cds = true ->
  describes size (spec_of (map dec_rule descs)) (atom_run descs) (cls_at cds).
Proof.
  intros Hsz H c. unfold describesb in H. rewrite forallb_forall in H.
  destruct (Nat.lt_ge_cases c (Nat.max (length descs) (length cds))) as [Hlt|Hge].
  - assert (Hin : In c (seq 0 (Nat.max (length descs) (length cds)))) by (apply in_seq; lia).
    specialize (H c Hin). unfold desc_atb in H.
    apply andb_true_iff in H. destruct H as [H H3]. apply andb_true_iff in H. destruct H as [H1 H2].
    apply Z.eqb_eq in H1. apply nats_eqb_eq in H2.
    split; [exact H1|]. split; [exact H2|].
    intros a Hk Ha. rewrite Hk in H3. rewrite Z.eqb_refl in H3.
    unfold atom_run in Ha. destruct (nth_error descs c) as [d|] eqn:Ed; [|discriminate].
    rewrite Ha in H3. apply Z.eqb_eq in H3. rewrite <- H3. exact (Hsz c d a Ed Ha).
  - assert (E1 : nth_error descs c = None) by (apply nth_error_None; lia).
    assert (E2 : cls_at cds c = no_cls) by (unfold cls_at; apply nth_overflow; lia).
    assert (E3 : spec_of (map dec_rule descs) c = None).
    { unfold spec_of. rewrite nth_error_map, E1. reflexivity. }
    assert (E4 : atom_run descs c = None) by (unfold atom_run; rewrite E1; reflexivity).
    rewrite E2, E3, E4. simpl. split; [reflexivity|]. split; [reflexivity|].
    intros a Hk. discriminate Hk.
Qed.
