(* C20 — the equation system of a productive specification has at most one
   power-series solution among the families that vanish below the classes'
   minimum sizes (univariate case; union, product, complement, atom, empty rules).

   The emitted equations use the FULL Cauchy product, which reads every factor up
   to order n; the recurrences the productivity analysis is about (Spec/Eval.v:
   operators that are `local` w.r.t. the declared shifts) read factor i only up to
   n - shift_i.  For a family that vanishes below the minimum sizes the two agree
   (Count/SeriesConv.v), so Spec/Eval.v's unique_solution applies.  Without that
   condition uniqueness FAILS: see unique_needs_minimum_sizes_refuted.          *)
From Coq Require Import ZArith List Bool Lia.
From CSS Require Import Forest.Spec Spec.Eval Gen.Prelude Gen.ProductShifts.
From CSS Require Import Count.Series Count.SeriesConv Count.Equations Count.EquationsProofs Count.EquationsRules.
Import ListNotations.
Open Scope Z_scope.

Definition nopars : Z -> list Z := fun _ => [].
Definition noO : Z -> poly := fun _ => [].
(* a univariate family of series as term tables: one entry per size *)
Definition T_of (W : nat -> Z -> Z) (l n : Z) : list (list Z * Z) := [([], W (Z.to_nat l) n)].
Definition zl (l : list nat) : list Z := map Z.of_nat l.
Definition noeps {A} (l : list A) : list (list (Z * Z)) := map (fun _ => []) l.

Inductive urule : Type :=
| UUnion (kids : list nat)
| UProduct (kids : list (nat * Z))              (* children with their declared minimum sizes *)
| UComplement (p : nat) (cs : list nat) (idx : nat)   (* this class is child idx of the union rule p -> cs *)
| UAtom (m : Z)
| UEmpty.

Definition to_rule (c : nat) (r : urule) : rule :=
  match r with
  | UUnion kids => RUnion (mkorule (Z.of_nat c) (zl kids) (noeps kids))
  | UProduct kids => RProduct (mkorule (Z.of_nat c) (zl (map fst kids)) (noeps kids))
  | UComplement p cs idx => RRevUnion (mkorule (Z.of_nat p) (zl cs) (noeps cs)) idx
  | UAtom m => RAtom (Z.of_nat c) m
  | UEmpty => REmpty (Z.of_nat c)
  end.

(* the family W satisfies the equation emitted for (c, r) at every order *)
Definition satisfies (W : nat -> Z -> Z) (c : nat) (r : urule) : Prop :=
  forall N, 0 <= N ->
    match rule_equation nopars (to_rule c r) with
    | Ok lhs rhs => holds (SN (T_of W) N) noO [0] N lhs rhs
    | _ => False
    end.

(* ranges a product rule reads: child i at sizes min_i .. n - (sum of the other minima) *)
Definition prod_ranges (mins : list Z) (n : Z) : list (Z * Z) :=
  map (fun mn => (mn, n - (py_sum mins - mn) + 1)) mins.

(* the recurrence operator of each rule form and its declared shifts
   (product: CartesianProductStrategy.shifts, re-translated in Gen/ProductShifts.v) *)
Definition to_srule (r : urule) : srule Z :=
  match r with
  | UUnion kids =>
      mkrule Z (map (fun k => (k, 0)) kids)
        (fun p _ n => if n <? 0 then 0 else psum (fun i => p i n) (seq 0 (length kids)))
  | UProduct kids =>
      mkrule Z (combine (map fst kids) (product_shifts (map (fun mn => (mn, false)) (map snd kids))))
        (fun p _ n => if n <? 0 then 0
                      else conv (map (fun i => p i) (seq 0 (length kids))) (prod_ranges (map snd kids) n) n)
  | UComplement par cs idx =>
      mkrule Z (map (fun k => (k, 0)) (par :: remove_nth idx cs))
        (fun p _ n => if n <? 0 then 0
                      else p O n - psum (fun i => p (Datatypes.S i) n) (seq 0 (length (remove_nth idx cs))))
  | UAtom m => mkrule Z [] (fun _ _ n => if n =? m then 1 else 0)
  | UEmpty => mkrule Z [] (fun _ _ _ => 0)
  end.

Definition urule_wf (c : nat) (r : urule) : Prop :=
  match r with
  | UProduct kids => Forall (fun k => 0 <= snd k) kids
  | UComplement p cs idx => (idx < length cs)%nat /\ nth idx cs O = c
  | UAtom m => 0 <= m
  | _ => True
  end.

(* ------------------------------------------------------------ the semantics, evaluated *)
Section Evaluated.
Variable W : nat -> Z -> Z.
Variable N : Z.
Let S := SN (T_of W) N.

Lemma S_eq l : S l = map (fun x : Z => (x :: [], W (Z.to_nat l) x)) (zrange 0 (N + 1)).
Proof.
  unfold S, SN, tbl, T_of. induction (zrange 0 (N + 1)) as [|x t IH]; simpl; auto.
Qed.

Lemma cser_utab l : peqv [0] (cser [] (S l)) (utab (W (Z.to_nat l)) 0 (N + 1)).
Proof.
  intros m. rewrite S_eq. unfold cser, utab. rewrite map_map. cbn [fst snd].
  apply (pcoef_map_ext [0] (fun x => fm [] [x]) (fun x => xmono x) (fun x => W (Z.to_nat l) x)).
  intros x _ u _. unfold fm, lincomb, xmono, mvar. simpl. destruct (u =? 0); lia.
Qed.

Lemma coef_class l n : 0 <= n <= N -> pcoef [0] (cser [] (S l)) (xmono n) = W (Z.to_nat l) n.
Proof. intros Hn. rewrite cser_utab. apply coef_utab. lia. Qed.

Lemma sem_class l : sem S noO (cfun nopars l) = Some (cser [] (S l)).
Proof. apply (sem_cfun S noO nopars l). Qed.

Lemma sem_plain_add ks : forall a pa, sem S noO a = Some pa ->
  sem S noO (fold_left (fun res fe => Add res (subs (full_subs (fst fe) (snd fe)) (fst fe)))
               (combine (map (cfun nopars) ks) (noeps ks)) a) =
  Some (fold_left padd (map (fun k => cser [] (S k)) ks) pa).
Proof.
  induction ks as [|k t IH]; intros a pa Ha; simpl; auto.
  apply IH. transitivity (lift2 padd (sem S noO a) (sem S noO (cfun nopars k))); [reflexivity|].
  rewrite Ha, sem_class. reflexivity.
Qed.

Lemma sem_plain_mul ks : forall a pa, sem S noO a = Some pa ->
  sem S noO (fold_left (fun res ef => Mul res (subs (full_subs (snd ef) (fst ef)) (snd ef)))
               (combine (noeps ks) (map (cfun nopars) ks)) a) =
  Some (fold_left pmul (map (fun k => cser [] (S k)) ks) pa).
Proof.
  induction ks as [|k t IH]; intros a pa Ha; simpl; auto.
  apply IH. transitivity (lift2 pmul (sem S noO a) (sem S noO (cfun nopars k))); [reflexivity|].
  rewrite Ha, sem_class. reflexivity.
Qed.

End Evaluated.

Lemma noeps_any {A} (l : list A) : any_params (noeps l) = false.
Proof. induction l; simpl; auto. Qed.

Lemma noeps_map {A B} (f : A -> B) (l : list A) : noeps (map f l) = noeps l.
Proof. unfold noeps. rewrite map_map. reflexivity. Qed.

Lemma utabs_map (W : nat -> Z -> Z) (ks : list nat) lo hi :
  utabs (map W ks) (map (fun _ => (lo, hi)) ks) = map (fun k => utab (W k) lo hi) ks.
Proof. induction ks as [|k t IH]; simpl; auto. rewrite IH. reflexivity. Qed.

Lemma py_sum_fold l : py_sum l = fold_right Z.add 0 l.
Proof. reflexivity. Qed.

Lemma nonneg_le_sum (l : list Z) x : Forall (fun y => 0 <= y) l -> In x l -> x <= fold_right Z.add 0 l.
Proof.
  induction 1 as [|y t Hy Ht IH]; simpl; intros Hin; [tauto|].
  assert (0 <= fold_right Z.add 0 t) as Hs.
  { clear IH Hin. induction Ht; simpl; lia. }
  destruct Hin as [->|Hin]; [lia|]. specialize (IH Hin). lia.
Qed.

(* ------------------------------------------------------------ equation -> recurrence *)
Section Bridge.
Variable W : nat -> Z -> Z.
Hypothesis W_neg : forall c m, m < 0 -> W c m = 0.

Lemma map_seq_nth {A B} (f : A -> B) (l : list A) (d : A) :
  map (fun i => f (nth i l d)) (seq 0 (length l)) = map f l.
Proof.
  induction l as [|x t IH]; simpl; auto. f_equal. rewrite <- seq_shift, map_map. exact IH.
Qed.

Lemma sat_union c kids n :
  satisfies W c (UUnion kids) -> 0 <= n -> W c n = psum (fun k => W k n) kids.
Proof.
  intros Hs Hn. specialize (Hs n Hn). unfold rule_equation in Hs; cbn [to_rule rule_equation_with o_parent o_children o_eps] in Hs.
  unfold union_equation, holds in Hs. rewrite undiv_fold_add in Hs by reflexivity. cbn [fst snd] in Hs.
  destruct Hs as [p [q [Hp [Hq H]]]]. rewrite sem_class in Hp. injection Hp as <-.
  unfold zl in Hq. rewrite <- (noeps_map Z.of_nat kids) in Hq.
  rewrite (sem_plain_add W n (map Z.of_nat kids) (Const 0) (pconst 0) eq_refl) in Hq.
  injection Hq as <-. specialize (H (xmono n)). unfold xmono at 1 2 in H. simpl in H.
  specialize (H ltac:(lia)). rewrite coef_class in H by lia. rewrite Nat2Z.id in H.
  rewrite H, pcoef_fold_padd.
  assert (pcoef [0] (pconst 0) (xmono n) = 0) as Z0.
  { unfold pcoef, pconst. cbn [psum fst snd]. destruct (meqb [0] mzero (xmono n)); reflexivity. }
  rewrite Z0, Z.add_0_l, !psum_map. apply psum_ext. intros k _. rewrite coef_class by lia. rewrite Nat2Z.id. reflexivity.
Qed.

Lemma sat_complement c p cs idx n :
  urule_wf c (UComplement p cs idx) ->
  satisfies W c (UComplement p cs idx) -> 0 <= n ->
  W c n = W p n - psum (fun k => W k n) (remove_nth idx cs).
Proof.
  intros [Hidx Hc] Hs Hn. specialize (Hs n Hn).
  unfold rule_equation in Hs; cbn [to_rule rule_equation_with o_parent o_children o_eps] in Hs.
  unfold complement_equation in Hs. rewrite noeps_any in Hs. cbn [map] in Hs.
  unfold holds in Hs. rewrite undiv_fold_sub in Hs by reflexivity. cbn [fst snd] in Hs.
  destruct Hs as [a [q [Hp [Hq H]]]]. rewrite sem_class in Hp. injection Hp as <-.
  rewrite (sem_fold_sub nopars noO _ _ _ _ (sem_class W n (Z.of_nat p))) in Hq. injection Hq as <-.
  specialize (H (xmono n)). unfold xmono at 1 2 in H. simpl in H. specialize (H ltac:(lia)).
  rewrite pcoef_fold_sub, !coef_class in H by lia.
  assert (nth idx (zl cs) (-1) = Z.of_nat c) as E.
  { unfold zl. rewrite (nth_indep _ (-1) (Z.of_nat O)) by (rewrite map_length; auto).
    rewrite map_nth. rewrite Hc. reflexivity. }
  rewrite E, !Nat2Z.id in H. rewrite H. f_equal.
  assert (remove_nth idx (zl cs) = map Z.of_nat (remove_nth idx cs)) as Er.
  { unfold zl, remove_nth. rewrite map_app, firstn_map, skipn_map. reflexivity. }
  rewrite Er, !psum_map.
  apply psum_ext. intros k _. unfold nopars. rewrite coef_class by lia. rewrite Nat2Z.id. reflexivity.
Qed.

Lemma sat_atom c m n :
  0 <= m -> satisfies W c (UAtom m) -> 0 <= n -> W c n = if n =? m then 1 else 0.
Proof.
  intros Hm Hs Hn. specialize (Hs n Hn). unfold rule_equation in Hs; cbn [to_rule rule_equation_with] in Hs. unfold nopars at 1 in Hs.
  unfold holds in Hs. cbn [undiv fst snd] in Hs.
  destruct Hs as [a [q [Hp [Hq H]]]]. rewrite sem_class in Hp. injection Hp as <-.
  cbn [sem] in Hq. destruct (Z.ltb_spec m 0); [lia|]. injection Hq as <-.
  specialize (H (xmono n)). unfold xmono at 1 2 in H. simpl in H. specialize (H ltac:(lia)).
  rewrite coef_class in H by lia. rewrite Nat2Z.id in H. rewrite H.
  rewrite (ppow_mono [0] (mvar 0) (Z.to_nat m) (xmono n)). unfold pcoef. cbn [psum fst snd].
  unfold meqb, mscale, mvar, xmono. cbn [forallb]. change (0 =? 0) with true. cbn iota.
  rewrite Z2Nat.id by lia. rewrite Z.mul_1_r, andb_true_r, Z.add_0_r, (Z.eqb_sym m n). reflexivity.
Qed.

Lemma sat_empty c n : satisfies W c UEmpty -> 0 <= n -> W c n = 0.
Proof.
  intros Hs Hn. specialize (Hs n Hn). unfold rule_equation in Hs; cbn [to_rule rule_equation_with] in Hs.
  unfold holds in Hs. cbn [undiv fst snd] in Hs.
  destruct Hs as [a [q [Hp [Hq H]]]]. rewrite sem_class in Hp. injection Hp as <-.
  cbn [sem] in Hq. injection Hq as <-.
  specialize (H (xmono n)). unfold xmono at 1 2 in H. simpl in H. specialize (H ltac:(lia)).
  rewrite coef_class in H by lia. rewrite Nat2Z.id in H. rewrite H.
  unfold pcoef, pconst. cbn [psum fst snd]. destruct (meqb [0] mzero (xmono n)); reflexivity.
Qed.

(* the full Cauchy product pruned by the minimum sizes *)
Lemma sat_product c kids n :
  Forall (fun k => 0 <= snd k) kids ->
  (forall k m, In k kids -> m < snd k -> W (fst k) m = 0) ->
  satisfies W c (UProduct kids) -> 0 <= n ->
  W c n = conv (map W (map fst kids)) (prod_ranges (map snd kids) n) n.
Proof.
  intros Hmin Hlow Hs Hn. specialize (Hs n Hn).
  unfold rule_equation in Hs; cbn [to_rule rule_equation_with o_parent o_children o_eps] in Hs.
  unfold product_equation, holds in Hs. rewrite undiv_fold_mul in Hs by reflexivity. cbn [fst snd] in Hs.
  destruct Hs as [a [q [Hp [Hq H]]]]. rewrite sem_class in Hp. injection Hp as <-.
  unfold zl in Hq.
  rewrite <- (noeps_map fst kids), <- (noeps_map Z.of_nat (map fst kids)) in Hq.
  rewrite (sem_plain_mul W n (map Z.of_nat (map fst kids)) (Const 1) pone eq_refl) in Hq.
  injection Hq as <-. specialize (H (xmono n)). unfold xmono at 1 2 in H. simpl in H.
  specialize (H ltac:(lia)). rewrite coef_class in H by lia. rewrite Nat2Z.id in H. rewrite H. clear H.
  set (ks := map fst kids).
  (* to the product of tabulated factors *)
  transitivity (pcoef [0] (prod_right (map (fun k => utab (W k) 0 (n + 1)) ks)) (xmono n)).
  { change (fold_left pmul (map (fun k : Z => cser [] (SN (T_of W) n k)) (map Z.of_nat ks)) pone)
      with (prod_left (map (fun k : Z => cser [] (SN (T_of W) n k)) (map Z.of_nat ks))).
    rewrite (prod_left_right [0]). apply prod_right_congr.
    rewrite map_map. clear. induction ks as [|k t IH]; simpl; constructor; auto.
    intros m. rewrite (cser_utab W n (Z.of_nat k) m), Nat2Z.id. reflexivity. }
  rewrite <- utabs_map, conv_pcoef by (rewrite !map_length; reflexivity).
  (* raise the lower ends to the minimum sizes *)
  set (mins := map snd kids).
  rewrite (conv_raise (map W ks) (map (fun _ => (0, n + 1)) ks) (map (fun mn => (mn, n + 1)) mins) n).
  2,3: unfold ks, mins; rewrite !map_length; reflexivity.
  2:{ unfold ks, mins. rewrite !map_map. apply map_ext. reflexivity. }
  2:{ unfold ks, mins. clear -Hmin Hlow W_neg. induction kids as [|k t IH]; simpl; constructor.
      - simpl. inversion Hmin; subst. split; auto. intros m Hm. apply Hlow; [left; auto|lia].
      - apply IH; [inversion Hmin; auto|]. intros k' m Hin. apply Hlow. right; auto. }
  (* lower the upper ends to what the declared shifts allow *)
  assert (map fst (map (fun mn : Z => (mn, n + 1)) mins) = mins) as Ef by (rewrite map_map; apply map_id).
  apply conv_prune.
  - unfold ks, mins. rewrite !map_length. reflexivity.
  - unfold prod_ranges, ks, mins. rewrite !map_length. reflexivity.
  - unfold prod_ranges. rewrite !map_map. reflexivity.
  - cbv zeta. rewrite Ef. fold (py_sum mins).
    assert (Forall (fun y => 0 <= y) mins) as Hnn.
    { unfold mins. clear -Hmin. induction Hmin; simpl; constructor; auto. }
    split; apply Forall_forall; intros r Hr; apply in_map_iff in Hr; destruct Hr as [mn [<- Hin]]; simpl.
    + pose proof (nonneg_le_sum mins mn Hnn Hin). rewrite py_sum_fold. lia.
    + lia.
Qed.

(* whatever satisfies the equation of (c, r) satisfies the recurrence of (c, r) *)
Lemma sat_op c r n :
  urule_wf c r ->
  (forall kids, r = UProduct kids -> forall k m, In k kids -> m < snd k -> W (fst k) m = 0) ->
  satisfies W c r -> 0 <= n ->
  r_op Z (to_srule r) (fun i m => W (kid Z (to_srule r) i) m) (W c) n = W c n.
Proof.
  intros Wf Hlow Hs Hn. destruct r as [kids|kids|p cs idx|m|]; cbn [to_srule r_op].
  - destruct (Z.ltb_spec n 0); [lia|]. rewrite (sat_union c kids n Hs Hn).
    rewrite <- (psum_map (fun i => kid Z (to_srule (UUnion kids)) i) (fun k => W k n)).
    f_equal. unfold kid. cbn [to_srule r_kids].
    rewrite <- (map_length (fun k : nat => (k, 0)) kids).
    rewrite (map_seq_nth (fun x : nat * Z => fst x) (map (fun k : nat => (k, 0)) kids) (O, 0)).
    rewrite map_map. apply map_id.
  - destruct (Z.ltb_spec n 0); [lia|]. rewrite (sat_product c kids n Wf (Hlow kids eq_refl) Hs Hn).
    f_equal. unfold kid. cbn [to_srule r_kids].
    set (sh := product_shifts _).
    assert (length sh = length kids) as Hl by (unfold sh, product_shifts; rewrite !map_length; reflexivity).
    transitivity (map (fun i => W (nth i (map fst kids) O)) (seq 0 (length (map fst kids)))).
    + rewrite map_length. apply map_ext_in. intros i Hi. apply in_seq in Hi.
      assert (nth i (combine (map fst kids) sh) (O, 0) = (nth i (map fst kids) O, nth i sh 0)) as E.
      { apply combine_nth. rewrite map_length. auto. }
      rewrite E. reflexivity.
    + apply (map_seq_nth W (map fst kids) O).
  - destruct (Z.ltb_spec n 0); [lia|]. rewrite (sat_complement c p cs idx n Wf Hs Hn).
    unfold kid. cbn [to_srule r_kids map nth fst]. f_equal.
    transitivity (psum (fun i => W (nth i (remove_nth idx cs) O) n) (seq 0 (length (remove_nth idx cs)))).
    { apply psum_ext. intros i _. change (O, 0) with ((fun k : nat => (k, 0)) O). rewrite map_nth. reflexivity. }
    rewrite <- (psum_map (fun i => nth i (remove_nth idx cs) O) (fun k => W k n)).
    rewrite (map_seq_nth (fun x : nat => x) (remove_nth idx cs) O), map_id. reflexivity.
  - symmetry. apply sat_atom; auto.
  - symmetry. apply sat_empty; auto.
Qed.

End Bridge.

(* ------------------------------------------------------------ locality of the recurrences *)
Lemma conv_ext_idx (p p' : nat -> Z -> Z) (rs : list (Z * Z)) (n : Z) : forall off,
  (forall j m, (j < length rs)%nat -> m < snd (nth j rs (0, 0)) -> p (off + j)%nat m = p' (off + j)%nat m) ->
  conv (map (fun i => p i) (seq off (length rs))) rs n = conv (map (fun i => p' i) (seq off (length rs))) rs n.
Proof.
  revert n. induction rs as [|[lo hi] rs IH]; intros n off H; simpl; auto.
  apply zsum_ext. intros m Hm. f_equal.
  - specialize (H O m). rewrite Nat.add_0_r in H. apply H; simpl; lia.
  - apply IH. intros j m' Hj Hm'. specialize (H (Datatypes.S j) m').
    rewrite Nat.add_succ_r in H. apply H; simpl; auto; lia.
Qed.

Lemma nth_prod_ranges mins n j : (j < length mins)%nat ->
  nth j (prod_ranges mins n) (0, 0) = (nth j mins 0, n - (py_sum mins - nth j mins 0) + 1).
Proof.
  intros Hj. unfold prod_ranges.
  rewrite (nth_indep _ (0, 0) ((fun mn => (mn, n - (py_sum mins - mn) + 1)) 0)) by (rewrite map_length; auto).
  apply (map_nth (fun mn => (mn, n - (py_sum mins - mn) + 1))).
Qed.

Lemma product_shifts_mins mins :
  product_shifts (map (fun mn : Z => (mn, false)) mins) = map (fun mn => py_sum mins - mn) mins.
Proof.
  assert (map (fun c : Z * bool => fst c) (map (fun mn : Z => (mn, false)) mins) = mins) as E.
  { rewrite map_map. cbn [fst]. apply map_id. }
  unfold product_shifts. cbv zeta. rewrite E. reflexivity.
Qed.

Lemma nth_product_shifts mins j : (j < length mins)%nat ->
  nth j (product_shifts (map (fun mn : Z => (mn, false)) mins)) 0 = py_sum mins - nth j mins 0.
Proof.
  intros Hj. rewrite product_shifts_mins.
  rewrite (nth_indep _ 0 ((fun mn => py_sum mins - mn) 0)) by (rewrite map_length; auto).
  apply (map_nth (fun mn => py_sum mins - mn)).
Qed.

Lemma to_srule_local r : local Z (to_srule r).
Proof.
  destruct r as [kids|kids|par cs idx|m|]; intros p p' o o' n Hk Ho; cbn [to_srule r_op r_kids] in *.
  - destruct (n <? 0); auto. apply psum_ext. intros i Hi. apply in_seq in Hi.
    apply Hk; [rewrite map_length; lia|]. unfold shift. cbn [r_kids].
    change (O, 0) with ((fun k : nat => (k, 0)) O). rewrite map_nth. simpl. lia.
  - destruct (n <? 0); auto.
    assert (length (prod_ranges (map snd kids) n) = length kids) as Hl
        by (unfold prod_ranges; rewrite !map_length; reflexivity).
    rewrite <- Hl. apply (conv_ext_idx p p' (prod_ranges (map snd kids) n) n 0).
    intros j m Hj Hm. simpl. rewrite Hl in Hj.
    set (sh := product_shifts (map (fun mn : Z => (mn, false)) (map snd kids))) in *.
    assert (length sh = length kids) as Hs by (unfold sh, product_shifts; rewrite !map_length; reflexivity).
    apply Hk; [rewrite combine_length, map_length, Hs; lia|].
    unfold shift.
    assert (nth j (combine (map fst kids) sh) (O, 0) = (nth j (map fst kids) O, nth j sh 0)) as E
        by (apply combine_nth; rewrite map_length; auto).
    cbn [r_kids]. rewrite E. cbn [snd].
    rewrite nth_prod_ranges in Hm by (rewrite map_length; auto). cbn [snd] in Hm.
    unfold sh. rewrite nth_product_shifts by (rewrite map_length; auto). lia.
  - destruct (n <? 0); auto. f_equal.
    + apply Hk; [simpl; lia|]. unfold shift. simpl. lia.
    + apply psum_ext. intros i Hi. apply in_seq in Hi. apply Hk; [simpl; rewrite map_length; lia|].
      unfold shift. cbn [r_kids map nth].
      change (O, 0) with ((fun k : nat => (k, 0)) O). rewrite map_nth. simpl. lia.
  - reflexivity.
  - reflexivity.
Qed.

(* ------------------------------------------------------------ uniqueness *)
Section Unique.
Variable uspec : nat -> option urule.
Variable keys : list fkey.
(* the forest keys are the rules of the specification with their declared shifts *)
Hypothesis keys_from_spec : forall k, In k keys ->
  exists r, uspec (parent k) = Some r /\ kids k = r_kids Z (to_srule r).
Hypothesis spec_wf : forall c r, uspec c = Some r -> urule_wf c r.

Definition solution (W : nat -> Z -> Z) : Prop :=
  (forall c m, m < 0 -> W c m = 0) /\
  (forall c r, uspec c = Some r -> satisfies W c r) /\
  (* W vanishes below the declared minimum sizes of the factors of products *)
  (forall c kids, uspec c = Some (UProduct kids) -> forall k m, In k kids -> m < snd k -> W (fst k) m = 0).

Theorem unique_series (T U : nat -> Z -> Z) :
  solution T -> solution U ->
  forall c, pumps keys c -> forall n, 0 <= n -> U c n = T c n.
Proof.
  intros [Tneg [Tsat Tlow]] [Uneg [Usat Ulow]] c Hp n Hn.
  set (spec := fun c => option_map to_srule (uspec c)).
  assert (forall c r, spec c = Some r -> exists u, uspec c = Some u /\ r = to_srule u) as Inv.
  { intros c0 r H. unfold spec in H. destruct (uspec c0) as [u|]; [|discriminate].
    injection H as <-. eauto. }
  apply (unique_solution Z 0 spec T Tneg).
  - intros c0 r H. destruct (Inv c0 r H) as [u [_ ->]]. apply to_srule_local.
  - intros c0 r H. destruct (Inv c0 r H) as [u [Hu ->]]. intros n0 Hn0.
    apply sat_op; auto. intros kids -> k m. apply (Tlow c0 kids Hu).
  - exact Uneg.
  - intros c0 r n0 H Hn0. destruct (Inv c0 r H) as [u [Hu ->]].
    apply sat_op; auto. intros kids -> k m. apply (Ulow c0 kids Hu).
  - apply (pumps_ev Z spec keys); auto.
    intros k Hk. destruct (keys_from_spec k Hk) as [r [Hr Hkids]].
    exists (to_srule r). unfold spec. rewrite Hr. auto.
Qed.

End Unique.
