(* C07 — counting and generating walk over the same structure: if the terms
   fed to get_terms are the numbers of objects in the dictionaries fed to
   get_sub_objects, and every backward map yields one object, then the terms of
   the level are the lengths of the generated lists, for every parameter tuple
   (the inductive step of  count_objects_of_size == len(generate_objects_of_size)). *)
From Coq Require Import ZArith List Bool Lia.
From CSS Require Import Base.PyList Count.ObjectsModel Count.ObjectsLists Count.ObjectsCountModel.
Import ListNotations.
Open Scope Z_scope.

Definition ysum (q : params) (l : list (params * Z)) : Z :=
  fold_right (fun (pv : params * Z) acc => if params_eqb (fst pv) q then snd pv + acc else acc) 0 l.

Lemma ysum_app q a b : ysum q (a ++ b) = ysum q a + ysum q b.
Proof.
  induction a as [|[p v] a IH]; simpl; [reflexivity|].
  destruct (params_eqb p q); rewrite IH; lia.
Qed.

Lemma counter_get_add d p v q :
  counter_get (counter_add d p v) q = if params_eqb p q then counter_get d q + v else counter_get d q.
Proof.
  induction d as [|[r v0] d IH]; simpl.
  - destruct (params_eqb p q); reflexivity.
  - destruct (params_eqb r p) eqn:Erp; simpl.
    + apply params_eqb_spec in Erp. subst r. destruct (params_eqb p q); reflexivity.
    + destruct (params_eqb r q) eqn:Erq.
      * destruct (params_eqb p q) eqn:Epq; [|reflexivity].
        apply params_eqb_spec in Erq. apply params_eqb_spec in Epq. subst.
        rewrite params_eqb_refl in Erp. discriminate.
      * apply IH.
Qed.

Lemma counter_fold_get adds d q :
  counter_get (fold_left (fun acc (pv : params * Z) => counter_add acc (fst pv) (snd pv)) adds d) q
  = counter_get d q + ysum q adds.
Proof.
  revert d. induction adds as [|[p v] adds IH]; intros d; simpl; [lia|].
  rewrite IH, counter_get_add. destruct (params_eqb p q); lia.
Qed.

Lemma counter_of_get adds q : counter_get (counter_of adds) q = ysum q adds.
Proof. unfold counter_of. rewrite counter_fold_get. reflexivity. Qed.

Lemma zlen_app {A} (a b : list A) : zlen (a ++ b) = zlen a + zlen b.
Proof. unfold zlen. rewrite app_length. lia. Qed.

Lemma zlen_map {A B} (f : A -> B) l : zlen (map f l) = zlen l.
Proof. unfold zlen. rewrite map_length. reflexivity. Qed.

Lemma zlen_cart {A} (ls : list (list A)) : zlen (cart ls) = zprod (map zlen ls).
Proof.
  induction ls as [|l ls IH]; simpl; [reflexivity|].
  rewrite <- IH. clear IH. induction l as [|x l IHl]; [reflexivity|].
  cbn [flat_map]. rewrite zlen_app, zlen_map, IHl.
  replace (zlen (x :: l)) with (1 + zlen l) by (unfold zlen; simpl length; lia). lia.
Qed.

Lemma cart_map {A B} (f : A -> B) (ls : list (list A)) :
  cart (map (map f) ls) = map (map f) (cart ls).
Proof.
  induction ls as [|l ls IH]; simpl; [reflexivity|].
  rewrite IH. clear IH. induction l as [|x l IHl]; simpl; [reflexivity|].
  rewrite map_app, IHl. f_equal. rewrite !map_map. reflexivity.
Qed.

Section Count.
Context {obj : Type}.

(* the number of objects stored under q = the number of visited pairs with key q *)
Lemma level_len (bwd : subobj obj -> list obj) (ys : list (yield obj)) q :
  (forall qt, In qt (pairs ys) -> length (bwd (snd qt)) = 1%nat) ->
  zlen (dict_get (build_level bwd ys) q)
  = ysum q (map (fun y : yield obj => (fst y, zlen (cart (snd y)))) ys).
Proof.
  rewrite build_level_get. unfold pairs.
  induction ys as [|[p lists] ys IH]; intros H1; simpl; [reflexivity|].
  rewrite flat_map_app, zlen_app.
  assert (IH' := IH (fun qt Hin => H1 qt (in_or_app _ _ _ (or_intror Hin)))).
  match goal with |- _ + ?x = _ => replace x with
    (ysum q (map (fun y : yield obj => (fst y, zlen (cart (snd y)))) ys)) by (symmetry; exact IH') end.
  assert (H1' : forall t, In t (cart lists) -> length (bwd t) = 1%nat).
  { intros t Ht. apply (H1 (p, t)). simpl. apply in_or_app. left. apply in_map. exact Ht. }
  clear H1 IH IH'.
  assert (E : zlen (flat_map (fun qt : params * subobj obj => if params_eqb (fst qt) q then bwd (snd qt) else [])
                             (map (pair p) (cart lists)))
              = if params_eqb p q then zlen (cart lists) else 0).
  { induction (cart lists) as [|t ts IHt]; simpl; [destruct (params_eqb p q); reflexivity|].
    rewrite zlen_app, IHt by (intros t' Ht'; apply H1'; right; exact Ht').
    destruct (params_eqb p q).
    - unfold zlen at 1. rewrite (H1' t (or_introl eq_refl)). unfold zlen. simpl length. lia.
    - reflexivity. }
  match goal with |- ?a + _ = _ =>
    replace a with (if params_eqb p q then zlen (cart lists) else 0) by (symmetry; exact E) end.
  destruct (params_eqb p q); lia.
Qed.

Lemma union_yields_adds K maps : forall (subs : list (objects obj)) i,
  (i + length subs = K)%nat ->
  map (fun y : yield obj => (fst y, zlen (cart (snd y)))) (union_yields_from K i maps subs)
  = union_adds_from i maps (map terms_of subs).
Proof.
  induction subs as [|d subs IH]; intros i HK; simpl; [reflexivity|].
  simpl in HK. rewrite map_app, IH by lia. f_equal.
  unfold terms_of. rewrite !map_map. apply map_ext. intros [p l]. simpl.
  rewrite set_nth_repeat_cart by lia. rewrite !zlen_map. reflexivity.
Qed.

Lemma product_yields_adds maps (per_comp : list (list (objects obj))) :
  map (fun y : yield obj => (fst y, zlen (cart (snd y)))) (product_yields maps per_comp)
  = product_adds maps (map (map terms_of) per_comp).
Proof.
  unfold product_yields, product_adds.
  induction per_comp as [|ds rest IH]; simpl; [reflexivity|].
  rewrite map_app. f_equal; [clear IH|exact IH].
  change (map terms_of ds) with (map (map (fun e : params * list obj => (fst e, zlen (snd e)))) ds).
  rewrite cart_map, !map_map. apply map_ext. intros combo. simpl.
  rewrite !map_map. simpl. f_equal.
  rewrite zlen_cart, map_map. f_equal. apply map_ext. intros e. apply zlen_map.
Qed.

(* step of count == len, union rule *)
Theorem count_union_step maps (bwd : subobj obj -> list obj) (subs : list (objects obj)) :
  (forall qt, In qt (pairs (union_yields maps subs)) -> length (bwd (snd qt)) = 1%nat) ->
  forall q, counter_get (union_terms maps (map terms_of subs)) q
            = zlen (dict_get (build_level bwd (union_yields maps subs)) q).
Proof.
  intros H q. rewrite level_len by assumption. unfold union_terms, union_yields.
  rewrite counter_of_get, union_yields_adds by lia. reflexivity.
Qed.

(* step of count == len, product rule *)
Theorem count_product_step maps (bwd : subobj obj -> list obj) (per_comp : list (list (objects obj))) :
  (forall qt, In qt (pairs (product_yields maps per_comp)) -> length (bwd (snd qt)) = 1%nat) ->
  forall q, counter_get (product_terms maps (map (map terms_of) per_comp)) q
            = zlen (dict_get (build_level bwd (product_yields maps per_comp)) q).
Proof.
  intros H q. rewrite level_len by assumption. unfold product_terms.
  rewrite counter_of_get, product_yields_adds. reflexivity.
Qed.

End Count.
