(* Size and parameter tuple of a parse tree, computed from LEAF DATA (definitions only; proofs in
   Count/ParseTreesStatsProofs.v).

   Count/ParseTreesProofs.v states the bijection objects <-> parse trees with  tsz t / tpr t : the size and the
   parameter tuple of the object a tree stands for, computed on the tree from  size (atom c)  and  par c (atom c)  at
   the leaves and the rules' parameter maps at the inner nodes.  `size` and `par` are Section variables there (the
   combinatorial meaning), so tsz / tpr cannot be extracted.  Here the same two functions take the leaf data as
   tables indexed by the class label
       asz c    the size of the single object of the verified class c      (descriptor [3, m, o, params]: m)
       apar c   its parameter tuple in class c                             (descriptor [3, m, o, params]: params)
   and are what the extracted run (Count/ParseTreesRun.v, query kind 7) executes.  ParseTreesStatsProofs.v:
   tszd = tsz and tprd = tpr as soon as the tables are truthful (leaf_data), hence for every object o of class c
   and parse f c o = Some t:  tszd t = size o  and  tprd t = par c o  (parse_stats). *)
From Coq Require Import ZArith List Bool.
From CSS Require Import Base.Sx Base.PyList Gen.Prelude Count.ObjectsModel Count.SampleModel.
Import ListNotations.
Open Scope Z_scope.

Section Stats.
Context {obj : Type}.
Variable spec : nat -> option (rule obj).
Variable asz : nat -> Z.
Variable apar : nat -> params.

Fixpoint tszd (t : tree) : Z :=
  match t with
  | Leaf c => asz c
  | UNode _ _ t' => tszd t'
  | PNode _ ts => py_sum (map tszd ts)
  end.

Fixpoint tprd (t : tree) : params :=
  match t with
  | Leaf c => apar c
  | UNode c i t' =>
      match spec c with
      | Some (RUnion _ maps _) => nth i maps (fun x => x) (tprd t')
      | _ => []
      end
  | PNode c ts =>
      match spec c with
      | Some (RProduct _ _ _ maps _) => new_param maps (map tprd ts)
      | _ => []
      end
  end.
End Stats.

(* ---------------------------------------------------------------- the leaf data of a list of descriptors
   (Count/ObjectsRun.v: [3, m, o] / [3, m, o, params] = a verification rule of a class with the single object o,
   of size m, with parameter tuple params (none when absent); [2, tbl] = a verification rule given by a table,
   which has no leaf; [4] = the empty class) *)
Definition desc_kind (d : sx) : Z := sx_Z (sx_nth d 0).

Definition asz_of_descs (descs : list sx) (c : nat) : Z :=
  match nth_error descs c with
  | Some d => if desc_kind d =? 3 then sx_Z (sx_nth d 1) else 0
  | None => 0
  end.
Definition apar_of_descs (descs : list sx) (c : nat) : params :=
  match nth_error descs c with
  | Some d => if desc_kind d =? 3 then sx_Zs (sx_nth d 3) else []
  | None => []
  end.

(* decidable part of `node_ok` at the leaves: no verification rule is given by a table (every verified class is
   one object - an atom, with or without parameters - or empty) *)
Definition leavesb (descs : list sx) : bool := forallb (fun d => negb (desc_kind d =? 2)) descs.
