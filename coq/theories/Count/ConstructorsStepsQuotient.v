(* C09, end to end for form 3 (ReverseRule of a product: Quotient): the executable quotient_step
   of Count/Constructors.v, run level by level by `levels` (Rule._ensure_level), is the qstep /
   qstep_p of the per-constructor theorems, and Quotient.param_map over the position map built by
   _build_parent_param_map sends the image of a tuple of the flipped child back to that tuple.   *)
From Coq Require Import ZArith List Bool Lia.
From CSS Require Import Gen.Prelude Gen.Compositions Gen.QuotientParentShift
  Count.CompositionsSpec Count.Terms Count.Constructors Count.ConstructorsUnionProduct
  Count.ConstructorsComplement Count.ConstructorsQuotient Count.ConstructorsDerived Count.ConstructorsDict
  Count.TermsPoly Count.TermsPolyOrder Count.TermsPolyDiv Count.ConstructorsConv Count.ConstructorsQuotientParams
  Count.ConstructorsSteps.
Import ListNotations.
Open Scope Z_scope.

(* ---------------------------------------------------------------- Quotient.param_map *)
Lemma q_fold (k : params) : forall (flat : list (nat * Z)) (l : list (option Z)),
  length l = length k ->
  (forall c, nth c l None = None \/ nth c l None = Some (nth c k 0)) ->
  (forall c v, In (c, v) flat -> (c < length k)%nat /\ v = nth c k 0) ->
  exists l', fold_left (fun acc (pz : nat * Z) => q_set acc (fst pz) (snd pz)) flat (Ok l) = Ok l' /\
             length l' = length k /\
             (forall c, nth c l' None = None \/ nth c l' None = Some (nth c k 0)) /\
             (forall c, nth c l None <> None -> nth c l' None <> None) /\
             (forall c v, In (c, v) flat -> nth c l' None <> None).
Proof.
  induction flat as [|[p v] flat IH]; intros l Hl Hinv Hflat.
  - exists l. simpl. repeat split; auto.
  - destruct (Hflat p v (or_introl eq_refl)) as [Hp Hv].
    assert (E : q_set (Ok l) p v = Ok (upd l p (fun _ => Some v))).
    { unfold q_set. simpl. destruct (Hinv p) as [H|H]; rewrite H; [reflexivity|]. rewrite Hv, Z.eqb_refl. reflexivity. }
    cbn [fold_left fst snd]. rewrite E.
    destruct (IH (upd l p (fun _ => Some v))) as (l' & H1 & H2 & H3 & H4 & H5).
    + rewrite upd_length. exact Hl.
    + intros c. destruct (Nat.eq_dec p c) as [->|Hne].
      * right. rewrite nth_upd_same by lia. rewrite Hv. reflexivity.
      * rewrite nth_upd_other by exact Hne. apply Hinv.
    + intros c w Hin. apply (Hflat c w). right. exact Hin.
    + exists l'. split; [exact H1|]. split; [exact H2|]. split; [exact H3|]. split.
      * intros c Hc. apply H4. destruct (Nat.eq_dec p c) as [->|Hne].
        -- rewrite nth_upd_same by lia. discriminate.
        -- rewrite nth_upd_other by exact Hne. exact Hc.
      * intros c w [E'|Hin]; [|apply (H5 c w Hin)]. inversion E'; subst. apply H4.
        rewrite nth_upd_same by lia. discriminate.
Qed.

Lemma all_some_unnone : forall (l : list (option Z)) (k : params),
  length l = length k -> (forall c, (c < length k)%nat -> nth c l None = Some (nth c k 0)) ->
  forallb (fun o : option Z => is_some o) l = true /\ unnone l = k.
Proof.
  induction l as [|o l IH]; intros [|x k] Hl H; simpl in Hl; try lia; [split; reflexivity|].
  pose proof (H 0%nat ltac:(simpl; lia)) as H0. simpl in H0. subst o.
  destruct (IH k ltac:(lia)) as [A B].
  - intros c Hc. apply (H (S c)). simpl. lia.
  - simpl. rewrite A. split; [reflexivity|]. unfold unnone in *. simpl. rewrite B. reflexivity.
Qed.

Lemma nth_repeat_none' c num : nth c (repeat (@None Z) num) None = None.
Proof. revert c. induction num as [|n IH]; intros [|c]; simpl; auto. Qed.

Lemma q_param_map_identity pm (k param : params) :
  (forall c v, In (c, v) (visits pm param) -> (c < length k)%nat /\ v = nth c k 0) ->
  (forall c, (c < length k)%nat -> exists v, In (c, v) (visits pm param)) ->
  q_param_map pm (length k) param = Ok k.
Proof.
  intros Hv Hcov. unfold q_param_map.
  rewrite (fold_visits (fun acc p v => q_set acc p v)). fold (visits pm param).
  destruct (q_fold k (visits pm param) (repeat None (length k))) as (l' & H1 & H2 & H3 & _ & H5).
  - apply repeat_length.
  - intros c. left. apply nth_repeat_none'.
  - exact Hv.
  - rewrite H1. simpl.
    destruct (all_some_unnone l' k H2) as [A B].
    + intros c Hc. destruct (Hcov c Hc) as (v & Hin). destruct (H3 c) as [E|E]; [|exact E].
      exfalso. apply (H5 c v Hin). exact E.
    + rewrite A, B. reflexivity.
Qed.

(* the position map _build_parent_param_map builds *)
Definition parent_pm (pnames cnames : list Z) (d : dict) : list (list nat) :=
  map (fun pv => match dict_get d pv with Some cv => [posn cnames cv] | None => [] end) pnames.

Lemma parent_pos_map_ok pnames cnames d :
  (forall a b, In (a, b) d -> In b cnames) -> NoDup cnames ->
  parent_pos_map pnames cnames d = Ok (parent_pm pnames cnames d).
Proof.
  intros Hvals Hcn. unfold parent_pos_map, parent_pm. apply mapM_ok. intros pv _.
  destruct (dict_get d pv) as [cv|] eqn:Eg; [|reflexivity].
  apply dict_get_in in Eg. apply Hvals in Eg.
  destruct (pos_of_in cnames cv Hcn Eg) as (q & _ & _ & E).
  unfold pos_or_keyerror, posn. rewrite E. reflexivity.
Qed.

Lemma visits_parent_pm pnames cnames d k :
  visits (parent_pm pnames cnames d) (dict_sem pnames cnames d k) =
  flat_map (fun pv => match dict_get d pv with
                      | Some cv => [(posn cnames cv, dict_val cnames d k pv)]
                      | None => [] end) pnames.
Proof.
  unfold visits, parent_pm, dict_sem. induction pnames as [|pv pn IH]; simpl; [reflexivity|].
  rewrite IH. destruct (dict_get d pv); reflexivity.
Qed.

(* child tuple -> parent tuple -> child tuple through Quotient.param_map is the identity and
   raises nothing, when every statistic of the flipped child is the image of a parent statistic
   (several parent statistics MAY be mapped onto one child statistic) *)
Theorem quotient_parent_map_round_trip pnames cnames d k :
  wf_dict pnames cnames d ->
  (forall a b, In (a, b) d -> In b cnames) ->
  (forall cv, In cv cnames -> In cv (map snd d)) ->
  length k = length cnames ->
  q_param_map (parent_pm pnames cnames d) (length cnames) (dict_sem pnames cnames d k) = Ok k.
Proof.
  intros (Hpn & Hcn & Hkeys & Hsub) Hvals Hcov Hl. rewrite <- Hl.
  apply q_param_map_identity; rewrite visits_parent_pm.
  - intros c v Hin. apply in_flat_map in Hin. destruct Hin as (pv & Hpv & Hin).
    destruct (dict_get d pv) as [cv|] eqn:Eg; [|contradiction]. destruct Hin as [E|[]]. inversion E; subst. clear E.
    pose proof (Hvals _ _ (dict_get_in _ _ _ Eg)) as Hcv.
    destruct (pos_of_in cnames cv Hcn Hcv) as (q & Hq & _ & Ep).
    unfold posn, dict_val. rewrite Eg, Ep. split; [lia|reflexivity].
  - intros c Hc. rewrite Hl in Hc. set (cv := nth c cnames 0).
    assert (Hin : In cv (map snd d)) by (apply Hcov; apply nth_In; exact Hc).
    apply in_map_iff in Hin. destruct Hin as ([pv cv'] & E & Hin). simpl in E. subst cv'.
    exists (dict_val cnames d k pv). apply in_flat_map. exists pv. split; [apply (Hsub _ _ Hin)|].
    rewrite (dict_get_of_in d pv cv Hkeys Hin). left. unfold posn, cv. rewrite pos_of_nth by assumption. reflexivity.
Qed.

(* ---------------------------------------------------------------- quotient_step *)
Lemma quotient_mins_kids kids : quotient_min_sizes (kid_descs kids) = kid_mins kids.
Proof. unfold quotient_min_sizes, kid_descs, kid_mins. rewrite map_map. reflexivity. Qed.

Lemma quotient_maxs_kids kids : quotient_max_sizes (kid_descs kids) = kid_maxs kids.
Proof. unfold quotient_max_sizes, kid_descs, kid_maxs. rewrite map_map. reflexivity. Qed.

Definition quot_ppm (pnames : list Z) (ki : kid) : params -> res params :=
  q_param_map (parent_pm pnames (k_names ki) (k_dict ki)) (length (k_names ki)).

(* refinement: for well-formed dictionaries the executable step is the Quotient.get_terms of the
   theorems (qstep_p; for a parent without parameters, length pnames = 0, this is qstep) *)
Theorem quotient_step_is_qstep_p pnames kids idx ptabs ktabs own n :
  let ki := nth idx kids default_kid in
  Forall (kid_wf pnames) kids -> NoDup (k_names ki) ->
  (forall a b, In (a, b) (k_dict ki) -> In b (k_names ki)) ->
  quotient_step pnames kids idx ptabs ktabs own n =
  qstep_p (map (kid_sum pnames) kids) (quot_ppm pnames ki) (length pnames) (kid_descs kids) idx
          (tab_at ptabs) (map tab_at ktabs) own n.
Proof.
  intros ki Hwf Hcn Hvals. unfold quotient_step. fold default_kid. fold ki.
  rewrite (mapM_sum_maps _ _ Hwf). cbn [bind].
  rewrite (parent_pos_map_ok _ _ _ Hvals Hcn). reflexivity.
Qed.

Lemma dict_val_nonneg cnames d k pv : Forall (fun y => 0 <= y) k -> 0 <= dict_val cnames d k pv.
Proof.
  intros H. unfold dict_val. destruct (dict_get d pv); [|lia]. destruct (pos_of cnames z) as [i|]; [|lia].
  destruct (Nat.lt_ge_cases i (length k)) as [Hi|Hi].
  - rewrite Forall_forall in H. apply H. apply nth_In. exact Hi.
  - rewrite nth_overflow by exact Hi. lia.
Qed.

Lemma kid_sem_nonneg pnames k key : Forall (fun y => 0 <= y) key -> Forall (fun y => 0 <= y) (kid_sem pnames k key).
Proof.
  intros H. unfold kid_sem, dict_sem. apply Forall_forall. intros x Hx. apply in_map_iff in Hx.
  destruct Hx as (pv & <- & _). apply dict_val_nonneg. exact H.
Qed.

Lemma nth_map_tab_at_fun : forall (ktabs : list (list terms)) idx, (idx < length ktabs)%nat ->
  nth idx (map tab_at ktabs) (fun _ : Z => @nil entry) = tab_at (nth idx ktabs []).
Proof.
  intros ktabs idx H. rewrite (nth_indep _ _ (tab_at [])) by (rewrite map_length; exact H). apply map_nth.
Qed.

(* form 3 end to end, WITH parameters *)
Theorem quotient_step_correct pnames kids idx ptabs ktabs N :
  let ki := nth idx kids default_kid in
  let psh := quotient_parent_shift (kid_descs kids) (Z.of_nat idx) in
  (idx < length kids)%nat -> (2 <= length kids)%nat -> length ktabs = length kids ->
  (1 <= length pnames)%nat ->
  Forall (kid_wf pnames) kids ->
  (* the flipped child: every statistic is the image of a parent statistic *)
  (forall a b, In (a, b) (k_dict ki) -> In b (k_names ki)) ->
  (forall cv, In cv (k_names ki) -> In cv (map snd (k_dict ki))) ->
  (* tables: keys have one entry per statistic, values are counts, statistics are non-negative *)
  Forall2 (fun k (tab : Z -> terms) => forall m, kid_keys k (tab m)) kids (map tab_at ktabs) ->
  Forall (fun tab : Z -> terms => forall m, nonneg (tab m)) (map tab_at ktabs) ->
  Forall (fun tab : Z -> terms => forall m, knonneg (tab m)) (map tab_at ktabs) ->
  (* minimum_size_of_object / is_atom contract *)
  Forall (fun m => 0 <= m) (kid_mins kids) ->
  Vanish (map tab_at ktabs) (kid_mins kids) (kid_maxs kids) ->
  (* the product rule is genuine at the sizes read, through the dictionary semantics *)
  (forall m, 0 <= m <= N + psh ->
     product_genuine (map (kid_sem pnames) kids) (map tab_at ktabs) (tab_at ptabs m) m) ->
  (* every sibling has an object of its minimum size *)
  hprod (remove_at idx (map tab_at ktabs)) (remove_at idx (kid_mins kids)) <> 0 ->
  0 <= N ->
  exists tl : list terms,
    levels (quotient_step pnames kids idx ptabs ktabs) N = (tl, None) /\ length tl = Z.to_nat (N + 1) /\
    forall m, (m < length tl)%nat -> teq (nth m tl []) (tab_at (nth idx ktabs []) (Z.of_nat m)).
Proof.
  intros ki psh Hi H2 Hl Hnum Hwf Hvals Hcov Hk Hnn Hkn Hm Hv Hg Hs HN.
  assert (Hwfi : kid_wf pnames ki) by (rewrite Forall_forall in Hwf; apply Hwf; apply nth_In; exact Hi).
  assert (Hcn : NoDup (k_names ki)) by (destruct Hwfi as (_ & H & _); exact H).
  rewrite (levels_ext _ _ N (fun own n => quotient_step_is_qstep_p pnames kids idx ptabs ktabs own n Hwf Hcn Hvals)).
  fold ki.
  assert (Lk : length (map tab_at ktabs) = length kids) by (rewrite map_length; exact Hl).
  assert (Hagree := kids_agree pnames kids (map tab_at ktabs) Hwf Hk).
  destruct (quotient_params_correct (map (kid_sum pnames) kids) (quot_ppm pnames ki) (length pnames) (kid_descs kids)
              idx (tab_at ptabs) (map tab_at ktabs) N) as (tl & H1 & H3 & H4).
  - unfold kid_descs. rewrite map_length. exact Hi.
  - unfold kid_descs. rewrite map_length. exact H2.
  - unfold kid_descs. rewrite !map_length. exact Hl.
  - unfold kid_descs. rewrite !map_length. reflexivity.
  - exact Hnum.
  - apply Forall_forall. intros f Hf. apply in_map_iff in Hf. destruct Hf as (k & <- & _). intros key.
    apply sum_param_map_length.
  - rewrite quotient_mins_kids. exact Hm.
  - rewrite quotient_mins_kids, quotient_maxs_kids. exact Hv.
  - exact Hnn.
  - clear -Hwf Hk Hkn. induction Hk as [|k tab kids' tabs' Hkk Hk IH]; simpl; [constructor|].
    inversion Hwf as [|? ? Hw1 Hw2]; subst. inversion Hkn as [|? ? Hn1 Hn2]; subst. constructor; [|apply IH; assumption].
    intros m key v Hin. rewrite kid_sum_sem by (try assumption; apply (Hkk m key v Hin)).
    apply kid_sem_nonneg. apply (Hn1 m key v Hin).
  - intros m Hmm. unfold product_genuine.
    rewrite (product_table_agree (map (kid_sum pnames) kids) (map (kid_sem pnames) kids)).
    + apply Hg. exact Hmm.
    + exact Hagree.
    + rewrite !map_length. lia.
    + rewrite !map_length. lia.
    + unfold zeros, zlen. rewrite repeat_length. lia.
    + unfold nones, zlen. rewrite repeat_length. lia.
  - rewrite quotient_mins_kids. exact Hs.
  - intros m key v Hin. rewrite nth_map_tab_at_fun in Hin by lia.
    rewrite (nth_indep _ (fun k => k) (kid_sum pnames default_kid)) by (rewrite map_length; exact Hi).
    rewrite (map_nth (kid_sum pnames)). fold ki.
    assert (Hkey : length key = length (k_names ki)).
    { pose proof (Forall2_nth (fun k (tab : Z -> terms) => forall m, kid_keys k (tab m)) default_kid (fun _ => [])
                    idx kids (map tab_at ktabs) Hk Hi) as Hx.
      rewrite nth_map_tab_at_fun in Hx by lia. apply (Hx m key v Hin). }
    rewrite kid_sum_sem by assumption. unfold quot_ppm, kid_sem.
    apply quotient_parent_map_round_trip; assumption.
  - exact HN.
  - exists tl. split; [exact H1|]. split; [exact H3|]. intros m Hmm.
    rewrite <- nth_map_tab_at_fun by lia. apply H4. exact Hmm.
Qed.

(* form 3 end to end, parameter-free: nobody has an extra parameter *)
Lemma sum_param_map_zero pm key : sum_param_map pm 0 key = [].
Proof. pose proof (sum_param_map_length pm 0 key) as H. destruct (sum_param_map pm 0 key); [reflexivity|discriminate]. Qed.

Theorem quotient_step_parameter_free_correct kids idx ptabs ktabs N :
  let psh := quotient_parent_shift (kid_descs kids) (Z.of_nat idx) in
  (idx < length kids)%nat -> (2 <= length kids)%nat -> length ktabs = length kids ->
  Forall (fun k => k_names k = [] /\ k_dict k = []) kids ->
  Forall (fun tab : Z -> terms => forall m, nonneg (tab m)) (map tab_at ktabs) ->
  (forall m, nokeys (tab_at ptabs m)) ->
  Forall (fun m => 0 <= m) (kid_mins kids) ->
  Vanish (map tab_at ktabs) (kid_mins kids) (kid_maxs kids) ->
  (forall m, 0 <= m <= N + psh ->
     product_genuine (map (kid_sum []) kids) (map tab_at ktabs) (tab_at ptabs m) m) ->
  hprod (remove_at idx (map tab_at ktabs)) (remove_at idx (kid_mins kids)) <> 0 ->
  0 <= N ->
  exists tl : list terms,
    levels (quotient_step [] kids idx ptabs ktabs) N = (tl, None) /\ length tl = Z.to_nat (N + 1) /\
    forall m, (m < length tl)%nat ->
      nokeys (nth m tl []) /\ tsum (nth m tl []) = tsum (tab_at (nth idx ktabs []) (Z.of_nat m)).
Proof.
  intros psh Hi H2 Hl Hnop Hnn Hpk Hm Hv Hg Hs HN.
  set (ki := nth idx kids default_kid).
  assert (Hwf : Forall (kid_wf []) kids).
  { apply Forall_forall. intros k Hk. rewrite Forall_forall in Hnop. destruct (Hnop k Hk) as [E1 E2].
    unfold kid_wf, wf_dict. rewrite E1, E2. repeat split; try constructor. intros a b []. }
  assert (Hki : k_names ki = [] /\ k_dict ki = []) by (rewrite Forall_forall in Hnop; apply Hnop; apply nth_In; exact Hi).
  destruct Hki as [En Ed].
  rewrite (levels_ext _ _ N (fun own n => quotient_step_is_qstep_p [] kids idx ptabs ktabs own n Hwf
             ltac:(fold ki; rewrite En; constructor) ltac:(fold ki; rewrite Ed; intros a b []))).
  fold ki. simpl length.
  assert (Lk : length (map tab_at ktabs) = length kids) by (rewrite map_length; exact Hl).
  change (qstep_p (map (kid_sum []) kids) (quot_ppm [] ki) 0 (kid_descs kids) idx (tab_at ptabs) (map tab_at ktabs))
    with (qstep (map (kid_sum []) kids) (quot_ppm [] ki) (kid_descs kids) idx (tab_at ptabs) (map tab_at ktabs)).
  destruct (quotient_nopar_correct (map (kid_sum []) kids) (quot_ppm [] ki) (kid_descs kids) idx (tab_at ptabs)
              (map tab_at ktabs) N) as (tl & H1 & H3 & H4).
  - unfold kid_descs. rewrite map_length. exact Hi.
  - unfold kid_descs. rewrite map_length. exact H2.
  - unfold kid_descs. rewrite !map_length. exact Hl.
  - apply Forall_forall. intros f Hf. apply in_map_iff in Hf. destruct Hf as (k & <- & _). intros key.
    apply sum_param_map_zero.
  - rewrite quotient_mins_kids. exact Hm.
  - rewrite quotient_mins_kids, quotient_maxs_kids. exact Hv.
  - exact Hnn.
  - exact Hpk.
  - exact Hg.
  - rewrite quotient_mins_kids. exact Hs.
  - unfold quot_ppm. rewrite En. reflexivity.
  - exact HN.
  - exists tl. split; [exact H1|]. split; [exact H3|]. intros m Hmm.
    rewrite <- nth_map_tab_at_fun by lia. apply H4. exact Hmm.
Qed.
