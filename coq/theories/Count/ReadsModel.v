(* MODEL (definitions only, no proofs: it still runs when a proof breaks).
   Which sub-term providers a constructor's get_terms(n) calls, and at which
   sizes — transcribed from strategies/constructor/{disjoint,cartesian}.py over
   the GENERATED compositions / product_shifts / union_shifts / reverse_shifts /
   quotient_* definitions (Gen/*.v, re-translated from /repo on every run).

   A rule is described by the descriptors of the ORIGINAL rule's children,
   c : list (minimum_size_of_object, is_atom).  A read is (provider, size):
   provider i >= 0 is the i-th child of the rule being counted (for a reverse
   rule: 0 = the original parent, then the original children without idx, as
   in ReverseRule.__init__), provider SELF = -1 is the rule's own earlier
   terms (the parent_terms argument of get_terms).                            *)
From Coq Require Import ZArith List Bool.
From CSS Require Import Gen.Prelude Gen.Compositions Gen.ReverseShifts Gen.ProductShifts
  Gen.UnionShifts Gen.QuotientParentShift.
Import ListNotations.
Open Scope Z_scope.

Definition desc := list (Z * bool).
Definition read := (Z * Z)%type.
Definition SELF : Z := -1.

(* ---------------------------------------------------------------- model *)
(* CartesianProduct.min_sizes / max_sizes: d["n"] of min_child_sizes, and
   d.get("n") of max_child_sizes which holds "n" only for atoms *)
Definition product_min_sizes (c : desc) : list Z := map (fun ch : Z * bool => fst ch) c.
Definition product_max_sizes (c : desc) : list (option Z) :=
  map (fun ch : Z * bool => if snd ch then Some (fst ch) else None) c.

(* params_value_pairs_combinations(sizes, getters): getter j is called at sizes[j],
   for every j (itertools.product receives the fully unpacked generator) *)
Definition reads_of_sizes (prov : Z -> Z) (sizes : list Z) : list read :=
  map (fun '(j, s) => (prov j, s)) (py_enumerate sizes).

(* DisjointUnion.get_terms: child_terms(n) for every child *)
Definition reads_union (c : desc) (n : Z) : list read :=
  map (fun '(i, _) => (i, n)) (py_enumerate c).

(* Complement.get_terms: subterms[0](n), then every subterms[1:] at n.
   The reverse rule has as many children as the original rule. *)
Definition reads_complement (c : desc) (idx n : Z) : list read :=
  (0, n) :: map (fun i => (i, n)) (py_range 1 (zlen c)).

(* CartesianProduct.get_terms *)
Definition reads_product (c : desc) (n : Z) : list read :=
  flat_map (reads_of_sizes (fun j => j))
    (compositions n (zlen c) (product_min_sizes c) (product_max_sizes c)).

(* xs[:idx] + xs[idx+1:]  for 0 <= idx *)
Definition remove_at {A} (idx : Z) (l : list A) : list A :=
  firstn (Z.to_nat idx) l ++ skipn (Z.to_nat (idx + 1)) l.

(* children_subterms = subterms[1:idx+1] + (parent_terms,) + subterms[idx+1:] *)
Definition quotient_prov (idx j : Z) : Z :=
  if j <? idx then j + 1 else if j =? idx then SELF else j.

(* Quotient.get_terms -> _b -> _a (parent at n + shift, then every composition
   with the flipped child capped at n-1) and _c (the siblings' compositions of
   the shift); other_children_subterms[j] = subterms[j+1] *)
Definition reads_quotient (c : desc) (idx n : Z) : list read :=
  let mins := quotient_min_sizes c in
  let maxs := quotient_max_sizes c in
  let psh := quotient_parent_shift c idx in
  let k := zlen c in
  if n <? py_get 0 mins idx then []
  else
    (0, n + psh)
    :: flat_map (reads_of_sizes (quotient_prov idx))
         (compositions (n + psh) k mins
            (firstn (Z.to_nat idx) maxs ++ [Some (n - 1)] ++ skipn (Z.to_nat (idx + 1)) maxs))
    ++ flat_map (reads_of_sizes (fun j => j + 1))
         (compositions psh (k - 1) (remove_at idx mins) (remove_at idx maxs)).


(* ---------------------------------------------------------------- the four rule forms
   form 0: DisjointUnionStrategy rule, 1: CartesianProductStrategy rule,
   2: ReverseRule of a union (Complement), 3: ReverseRule of a product (Quotient);
   rule_shifts is what AbstractRule.shifts() / ReverseRule.shifts() return. *)
Definition rule_shifts (form : Z) (c : desc) (idx : Z) : list Z :=
  match form with
  | 0 => union_shifts c
  | 1 => product_shifts c
  | 2 => reverse_shifts (union_shifts c) idx
  | _ => reverse_shifts (product_shifts c) idx
  end.

Definition rule_reads (form : Z) (c : desc) (idx n : Z) : list read :=
  match form with
  | 0 => reads_union c n
  | 1 => reads_product c n
  | 2 => reads_complement c idx n
  | _ => reads_quotient c idx n
  end.


(* ---------------------------------------------------------------- the three derived rule forms
   (strategies/rule.py: EquivalenceRule, EquivalencePathRule).  Each has exactly ONE child, is
   built on the strategy object of the rule it comes from and INHERITS AbstractRule.shifts, i.e.
   declares  strategy.shifts(comb_class, (the one child,)):  the strategy is asked about a
   (class, children) pair that its decomposition function may never have produced.

   form 4: EquivalenceRule(rule), rule a DisjointUnionStrategy rule with one non-empty child;
           children = (that child,); constructor DisjointUnion(parent, (child,), ..)
   form 5: EquivalenceRule(ReverseRule(rule, child_idx))  (= form 4 .to_reverse_rule(0));
           comb_class = the non-empty child, children = (the ORIGINAL parent,);
           constructor Complement(original parent, (child,), 0, ..): one provider, no sibling
   form 6: EquivalencePathRule(rules): strategy and comb_class of rules[0], children =
           rules[-1].children = (the last class,); constructor DisjointUnion(first, (last,), ..)

   strat says which shifts method the inherited strategy object has: 0 a DisjointUnionStrategy,
   anything else a CartesianProductStrategy.  d = (minimum size, is_atom) of the ONE class handed
   to strategy.shifts (form 4 the non-empty child, 5 the original parent, 6 the last class).
   The declared shifts go through the GENERATED shift functions on the one-element list [d];
   the reads through the constructor reads above on [d].

   CartesianProductStrategy (strat <> 0): such a rule has ONE factor.  Since fix 25e10f1
   EquivalenceRule.constructor builds a one-child DisjointUnion for it (form 4) and
   EquivalencePathRule.constructor accepts CartesianProduct / Quotient original constructors
   (form 6, also for paths of RAW one-child Rule / ReverseRule objects, which is what
   specification_extrator.py puts in a path), so these count like the union forms and their
   reads ARE compared with the implementation.  The one configuration whose constructor
   property still raises NotImplementedError is EquivalenceRule(ReverseRule(one-factor product))
   (form 5 with strat <> 0, or such a step inside a path): get_terms reads nothing at all
   there, the reads below are only an upper bound and only the declared shifts are compared.
   The plain reverse of a one-factor product is form 3 with c = [d], idx = 0 (Quotient without
   sibling: reads_quotient's third summand, the `_c` polynomial, is `compositions 0 0 [] []`
   = [], matching Quotient._c which returns the constant 1 without asking anybody). *)
Definition derived_shifts (strat : Z) (d : Z * bool) : list Z :=
  if strat =? 0 then union_shifts [d] else product_shifts [d].

Definition derived_reads (form : Z) (d : Z * bool) (n : Z) : list read :=
  match form with
  | 5 => reads_complement [d] 0 n
  | _ => reads_union [d] n
  end.

(* ---------------------------------------------------------------- every form, 0..6
   a rule as the theorems see it: a plain or reversed rule (forms 0..3, descriptors of the
   ORIGINAL rule's children, idx for the reversed ones) or a derived one (forms 4..6) *)
Inductive rule_desc : Type :=
  | PlainRule (form : Z) (c : desc) (idx : Z)
  | DerivedRule (form strat : Z) (d : Z * bool).

Definition rd_wf (r : rule_desc) : Prop :=
  match r with
  | PlainRule form c idx => 0 <= form <= 3 /\ (2 <= form -> 0 <= idx < zlen c)
  | DerivedRule form _ _ => 4 <= form <= 6
  end.

(* number of children of the rule being counted *)
Definition rd_nchildren (r : rule_desc) : Z :=
  match r with
  | PlainRule _ c _ => zlen c
  | DerivedRule _ _ _ => 1
  end.

Definition rd_shifts (r : rule_desc) : list Z :=
  match r with
  | PlainRule form c idx => rule_shifts form c idx
  | DerivedRule _ strat d => derived_shifts strat d
  end.

Definition rd_reads (r : rule_desc) (n : Z) : list read :=
  match r with
  | PlainRule form c idx => rule_reads form c idx n
  | DerivedRule form _ d => derived_reads form d n
  end.
