(* C08 with extra parameters — a concrete specification satisfying every hypothesis of
   C08_uniform_params (non-vacuity), and the same specification under a root that tracks nothing,
   reached by the constructor EquivalencePathRule builds (fixed_values = {k: 0}): there every
   hypothesis but fixed_honest holds and uniformity FAILS (the open finding
   "eqpath-child-statistic-untracked-by-parent-sampling").

   All words over {a, b} with the statistic k = number of a's:
       0 = S = eps + a.S + b.S      1 = eps (k = 0)
       2 = a.S = a x S              3 = a   (k = 1)
       4 = b.S = b x S              5 = b   (k = 0)
       6 = all words, no statistic = S  (unary union, only in the `bad` variant)
   count(S, n, k) = binomial(n, k). *)
From Coq Require Import ZArith List Bool Lia QArith FinFun.
From CSS Require Import Gen.Prelude Gen.Compositions Count.CompositionsSpec Count.Terms Count.Constructors
  Count.ConstructorsUnionProduct Count.ConstructorsDict
  Count.SampleModel Count.SampleWalk Count.SampleComps Count.SampleProb Count.SampleUniform
  Count.SampleModelParams Count.SampleParamsDict Count.SampleParamsSpec Count.SampleParamsSums.
Import ListNotations.
Open Scope Z_scope.

(* ------------------------------------------------------------------ binomials *)
Fixpoint binom (n k : nat) : Z :=
  match n, k with
  | _, O => 1
  | O, S _ => 0
  | S n', S k' => binom n' k' + binom n' k
  end.

Lemma binom_gt : forall n k, (n < k)%nat -> binom n k = 0.
Proof.
  induction n as [|n IH]; intros [|k] H; simpl; try lia.
  rewrite (IH k), (IH (S k)) by lia. reflexivity.
Qed.

Lemma binom_nonneg : forall n k, 0 <= binom n k.
Proof. induction n as [|n IH]; intros [|k]; simpl; try lia. pose proof (IH k). pose proof (IH (S k)). lia. Qed.

Lemma binom_pos : forall n k, (k <= n)%nat -> 1 <= binom n k.
Proof.
  induction n as [|n IH]; intros [|k] H; simpl; try lia.
  pose proof (IH k ltac:(lia)). pose proof (binom_nonneg n (S k)). lia.
Qed.

Definition bin (n k : Z) : Z := if (0 <=? k) && (k <=? n) then binom (Z.to_nat n) (Z.to_nat k) else 0.

Lemma bin_nonneg n k : 0 <= bin n k.
Proof. unfold bin. destruct ((0 <=? k) && (k <=? n)); [apply binom_nonneg|lia]. Qed.

Lemma bin_nonzero n k : bin n k <> 0 -> 0 <= k <= n.
Proof.
  unfold bin. destruct ((0 <=? k) && (k <=? n)) eqn:E; [|congruence].
  apply andb_true_iff in E. destruct E as [E1 E2]. apply Z.leb_le in E1. apply Z.leb_le in E2. lia.
Qed.

Lemma bin_pascal n k : 1 <= n -> bin n k = bin (n - 1) (k - 1) + bin (n - 1) k.
Proof.
  intros Hn. unfold bin.
  destruct (Z.leb_spec 0 k) as [H0|H0]; destruct (Z.leb_spec k n) as [H1|H1]; simpl.
  - destruct (Z.eq_dec k 0) as [->|Hk].
    + simpl. replace (0 <=? n - 1) with true by (symmetry; apply Z.leb_le; lia). simpl.
      destruct (Z.to_nat n); destruct (Z.to_nat (n - 1)); simpl; lia.
    + replace (0 <=? k - 1) with true by (symmetry; apply Z.leb_le; lia).
      replace (k - 1 <=? n - 1) with true by (symmetry; apply Z.leb_le; lia). simpl.
      replace (Z.to_nat n) with (S (Z.to_nat (n - 1))) by lia.
      replace (Z.to_nat k) with (S (Z.to_nat (k - 1))) by lia. simpl.
      destruct (Z.leb_spec k (n - 1)) as [H2|H2]; [reflexivity|].
      rewrite (binom_gt (Z.to_nat (n - 1)) (S (Z.to_nat (k - 1)))) by lia. reflexivity.
  - replace (k - 1 <=? n - 1) with false by (symmetry; apply Z.leb_gt; lia).
    replace (k <=? n - 1) with false by (symmetry; apply Z.leb_gt; lia). rewrite !andb_false_r. reflexivity.
  - replace (0 <=? k - 1) with false by (symmetry; apply Z.leb_gt; lia). reflexivity.
  - replace (0 <=? k - 1) with false by (symmetry; apply Z.leb_gt; lia). reflexivity.
Qed.

(* ------------------------------------------------------------------ tables with one statistic *)
Definition row (f : Z -> Z) (lo hi : Z) : terms := map (fun k => ([k], f k)) (py_range lo hi).

Lemma tget_map_single (g : Z -> Z) (f : Z -> Z) (L : list Z) x :
  NoDup L -> (forall a b, g a = g b -> a = b) ->
  tget (map (fun k => ([g k], f k)) L) [x]
  = zsum (fun k => if g k =? x then f k else 0) L.
Proof.
  intros _ _. rewrite tget_zsum, zsum_map. apply zsum_ext. intros k _. simpl.
  rewrite andb_true_r. reflexivity.
Qed.

Lemma tget_row f lo hi k : tget (row f lo hi) [k] = if (lo <=? k) && (k <? hi) then f k else 0.
Proof.
  unfold row. rewrite tget_zsum, zsum_map. simpl.
  destruct ((lo <=? k) && (k <? hi)) eqn:E.
  - apply andb_true_iff in E. destruct E as [E1 E2]. apply Z.leb_le in E1. apply Z.ltb_lt in E2.
    rewrite (zsum_single _ (py_range lo hi) k).
    + rewrite Z.eqb_refl. reflexivity.
    + apply NoDup_py_range'.
    + apply in_py_range'. lia.
    + intros y _ Hy. replace (y =? k) with false by (symmetry; apply Z.eqb_neq; exact Hy). reflexivity.
  - apply zsum_zero. intros y Hy. apply in_py_range' in Hy.
    destruct (y =? k) eqn:Ey; [|reflexivity]. apply Z.eqb_eq in Ey. subst y. exfalso.
    apply andb_false_iff in E. destruct E as [E|E]; [apply Z.leb_gt in E|apply Z.ltb_ge in E]; lia.
Qed.

Lemma tget_row_other f lo hi p : (forall k, p <> [k]) -> tget (row f lo hi) p = 0.
Proof.
  intros H. unfold row. rewrite tget_zsum, zsum_map. apply zsum_zero. intros y _. simpl.
  destruct p as [|a [|b p]]; simpl; try reflexivity.
  - exfalso. apply (H a). reflexivity.
  - destruct (y =? a); reflexivity.
Qed.

Lemma row_nodup f lo hi : NoDup (map fst (row f lo hi)).
Proof.
  unfold row. rewrite map_map. simpl. apply Injective_map_NoDup; [|apply NoDup_py_range'].
  intros a b E. injection E. auto.
Qed.

Lemma row_nonneg f lo hi : (forall k, 0 <= f k) -> nonneg (row f lo hi).
Proof. intros H k v Hin. unfold row in Hin. apply in_map_iff in Hin. destruct Hin as (x & E & _). injection E as _ <-. apply H. Qed.

Lemma row_keys f lo hi k v : In (k, v) (row f lo hi) -> exists x, k = [x].
Proof. intros Hin. unfold row in Hin. apply in_map_iff in Hin. destruct Hin as (x & E & _). injection E as <- _. eexists. reflexivity. Qed.

Lemma tget_nonzero_in (t : terms) p : tget t p <> 0 -> exists v, In (p, v) t.
Proof.
  induction t as [|[k v] t IH]; simpl; [congruence|]. intros H.
  destruct (params_eqb k p) eqn:E.
  - apply params_eqb_eq in E. subst. exists v. left. reflexivity.
  - destruct IH as (v' & Hv'); [lia|]. exists v'. right. exact Hv'.
Qed.

Lemma tget_row_nonzero f lo hi p : tget (row f lo hi) p <> 0 -> exists k, p = [k] /\ lo <= k < hi /\ f k <> 0.
Proof.
  intros H. destruct (tget_nonzero_in _ _ H) as (v & Hin). destruct (row_keys _ _ _ _ _ Hin) as (k & ->).
  exists k. split; [reflexivity|]. rewrite tget_row in H.
  destruct ((lo <=? k) && (k <? hi)) eqn:E; [|congruence].
  apply andb_true_iff in E. destruct E as [E1 E2]. apply Z.leb_le in E1. apply Z.ltb_lt in E2. split; [lia|exact H].
Qed.

Lemma nonneg_nil : nonneg [].
Proof. intros k v []. Qed.

Lemma nonneg_single (a : params) (v : Z) : 0 <= v -> nonneg [(a, v)].
Proof. intros H k w [E|[]]. injection E as _ <-. exact H. Qed.

(* ------------------------------------------------------------------ the specification *)
Definition K1 : dict := [(1, 1)].
Definition mkp k m a ks mv eps fx : pcls :=
  {| pk_kind := k; pk_min := m; pk_atom := a; pk_kids := ks; pk_params := [1]; pk_minval := [(1, mv)];
     pk_eps := eps; pk_fixed := fx |}.
Definition empty_cls : pcls :=
  {| pk_kind := K_EMPTY; pk_min := 0; pk_atom := false; pk_kids := []; pk_params := []; pk_minval := [];
     pk_eps := []; pk_fixed := [] |}.
(* a class tracking nothing, equivalent (one AddStat step with extra_parameters = ({},)) to class 0:
   the dictionary and the fixed values are the ones EquivalencePathRule.constructor computes *)
Definition root_cls : pcls :=
  {| pk_kind := K_UNION; pk_min := 0; pk_atom := false; pk_kids := [0%nat]; pk_params := []; pk_minval := [];
     pk_eps := [path_dict [] [[]]]; pk_fixed := [path_fixed [1] (path_dict [] [[]])] |}.

Definition ex_rule (bad : bool) (c : nat) : pcls :=
  match c with
  | 0%nat => mkp K_UNION 0 false [1; 2; 4]%nat 0 [K1; K1; K1] [[]; []; []]
  | 1%nat => mkp K_ATOM 0 true [] 0 [] []
  | 2%nat => mkp K_PRODUCT 1 false [3; 0]%nat 1 [K1; K1] []
  | 3%nat => mkp K_ATOM 1 true [] 1 [] []
  | 4%nat => mkp K_PRODUCT 1 false [5; 0]%nat 0 [K1; K1] []
  | 5%nat => mkp K_ATOM 1 true [] 0 [] []
  | 6%nat => if bad then root_cls else empty_cls
  | _ => empty_cls
  end.

Definition tab0 (n : Z) : terms := if n <? 0 then [] else row (bin n) 0 (n + 1).
Definition ex_tab (c : nat) (n : Z) : terms :=
  match c with
  | 0%nat => tab0 n
  | 1%nat => if n =? 0 then [([0], 1)] else []
  | 2%nat => if n <? 1 then [] else row (fun k => bin (n - 1) (k - 1)) 1 (n + 1)
  | 3%nat => if n =? 1 then [([1], 1)] else []
  | 4%nat => if n <? 1 then [] else row (bin (n - 1)) 0 n
  | 5%nat => if n =? 1 then [([0], 1)] else []
  | 6%nat => [([], tsum (tab0 n))]
  | _ => []
  end.

Example root_cls_constructor : pk_eps root_cls = [[]] /\ pk_fixed root_cls = [[(1, 0)]].
Proof. split; reflexivity. Qed.

Ltac cases7 c := destruct c as [|[|[|[|[|[|[|c]]]]]]].

(* the parameter map of every child here: the identity on one statistic *)
Definition f1 : params -> params := dict_sem [1] [1] K1.
Lemma f1_single k : f1 [k] = [k].
Proof. reflexivity. Qed.

Lemma rekey_f1_row g lo hi : rekey f1 (row g lo hi) = row g lo hi.
Proof. apply rekey_id_in. intros k v Hin. destruct (row_keys _ _ _ _ _ Hin) as (x & ->). reflexivity. Qed.

(* ------------------------------------------------------------------ tables_ok, contract_ok, atoms *)
Lemma ex_tables_ok bad : tables_ok (ex_rule bad) ex_tab.
Proof.
  split; [|split].
  - intros c. unfold pars. cases7 c; simpl; try (constructor; [intros []|constructor]); try constructor.
    destruct bad; simpl; constructor.
  - intros c n. cases7 c; simpl; unfold tab0;
      repeat match goal with |- context [if ?b then _ else _] => destruct b end;
      try apply row_nodup; simpl; try constructor; try (intros []); try constructor.
  - intros c n. cases7 c; simpl; unfold tab0;
      repeat match goal with |- context [if ?b then _ else _] => destruct b end;
      first [apply nonneg_nil
            |apply nonneg_single; simpl; lia
            |apply row_nonneg; intros; apply bin_nonneg
            |apply nonneg_single; apply tsum_nonneg; apply row_nonneg; intros; apply bin_nonneg].
Qed.

Lemma single_entry_nonzero (a : Z) (q : params) : tget [([a], 1)] q <> 0 -> q = [a].
Proof. cbn [tget fst snd]. destruct (params_eqb [a] q) eqn:E; [|lia]. apply params_eqb_eq in E. auto. Qed.

Lemma ex_contract_ok bad : contract_ok (ex_rule bad) ex_tab.
Proof.
  split.
  - intros c. unfold pmin. cases7 c; simpl; try lia. destruct bad; simpl; lia.
  - intros c m q. unfold pcnt, pmin, pars, mval, minval_of. cases7 c; simpl.
    + (* S *) unfold tab0. destruct (Z.ltb_spec m 0) as [Hm|Hm]; [simpl; congruence|].
      intros H. apply tget_row_nonzero in H. destruct H as (k & -> & Hk & Hb). apply bin_nonzero in Hb.
      split; [lia|]. split; [discriminate|]. intros j Hj. destruct j; [|lia]. simpl. split; [lia|discriminate].
    + destruct (Z.eqb_spec m 0) as [->|Hm]; [|simpl; congruence]. intros H. apply single_entry_nonzero in H. subst q.
      split; [lia|]. split; [lia|]. intros j Hj. destruct j; [|lia]. simpl. split; [lia|intros _; lia].
    + destruct (Z.ltb_spec m 1) as [Hm|Hm]; [simpl; congruence|].
      intros H. apply tget_row_nonzero in H. destruct H as (k & -> & Hk & Hb).
      split; [lia|]. split; [discriminate|]. intros j Hj. destruct j; [|lia]. simpl. split; [lia|discriminate].
    + destruct (Z.eqb_spec m 1) as [->|Hm]; [|simpl; congruence]. intros H. apply single_entry_nonzero in H. subst q.
      split; [lia|]. split; [lia|]. intros j Hj. destruct j; [|lia]. simpl. split; [lia|intros _; lia].
    + destruct (Z.ltb_spec m 1) as [Hm|Hm]; [simpl; congruence|].
      intros H. apply tget_row_nonzero in H. destruct H as (k & -> & Hk & Hb).
      split; [lia|]. split; [discriminate|]. intros j Hj. destruct j; [|lia]. simpl. split; [lia|discriminate].
    + destruct (Z.eqb_spec m 1) as [->|Hm]; [|simpl; congruence]. intros H. apply single_entry_nonzero in H. subst q.
      split; [lia|]. split; [lia|]. intros j Hj. destruct j; [|lia]. simpl. split; [lia|intros _; lia].
    + (* the root *)
      intros H.
      assert (Hm : 0 <= m).
      { destruct (Z.ltb_spec m 0) as [Hm|Hm]; [|exact Hm]. exfalso. apply H. unfold tab0.
        replace (m <? 0) with true by (symmetry; apply Z.ltb_lt; exact Hm). simpl. destruct q; reflexivity. }
      destruct bad; simpl; (split; [lia|]); (split; [discriminate|]); intros j Hj; lia.
    + congruence.
Qed.

Lemma ex_atoms_ok bad c : pk_kind (ex_rule bad c) = K_ATOM -> atom_ok (ex_rule bad) ex_tab c.
Proof.
  cases7 c; simpl; intros Hk; try discriminate Hk; try (destruct bad; discriminate Hk).
  - split; [reflexivity|]. intros m q. unfold pcnt, pmin. simpl.
    destruct (Z.eqb_spec m 0) as [->|Hm]; [|simpl; congruence]. intros H. apply single_entry_nonzero in H. auto.
  - split; [reflexivity|]. intros m q. unfold pcnt, pmin. simpl.
    destruct (Z.eqb_spec m 1) as [->|Hm]; [|simpl; congruence]. intros H. apply single_entry_nonzero in H. auto.
  - split; [reflexivity|]. intros m q. unfold pcnt, pmin. simpl.
    destruct (Z.eqb_spec m 1) as [->|Hm]; [|simpl; congruence]. intros H. apply single_entry_nonzero in H. auto.
Qed.

(* ------------------------------------------------------------------ the union S = eps + a.S + b.S *)
Lemma K1_child_ok bad c ci : pars (ex_rule bad) c = [1] -> pars (ex_rule bad) ci = [1] ->
  ep_ok (ex_rule bad) c (ci, K1).
Proof.
  intros Hc Hi. unfold ep_ok, wf_dict. simpl. rewrite Hc, Hi.
  assert (N1 : NoDup [1]) by (constructor; [intros []|constructor]).
  split; [split; [exact N1|split; [exact N1|split; [exact N1|]]]|].
  - intros a b [E|[]]. injection E as <- <-. left. reflexivity.
  - intros a b [E|[]]. injection E as <- <-. left. reflexivity.
Qed.

Lemma K1_union_child_ok bad c ci : pars (ex_rule bad) c = [1] -> pars (ex_rule bad) ci = [1] ->
  union_child_ok (ex_rule bad) c (ci, K1, []).
Proof.
  intros Hc Hi. split; [apply K1_child_ok; assumption|]. split; [constructor|]. split; [intros k []|].
  simpl. rewrite Hi. intros cv [<-|[]]. left. left. reflexivity.
Qed.

Lemma K1_prod_child_ok bad c ci : pars (ex_rule bad) c = [1] -> pars (ex_rule bad) ci = [1] ->
  ep_ok (ex_rule bad) c (ci, K1) /\ (forall cv, In cv (pars (ex_rule bad) (fst (ci, K1))) -> In cv (map snd (snd (ci, K1)))).
Proof.
  intros Hc Hi. split; [apply K1_child_ok; assumption|]. simpl. rewrite Hi. intros cv [<-|[]]. left. reflexivity.
Qed.

Lemma teq_single_stat (A B : terms) :
  (forall k, tget A [k] = tget B [k]) -> (forall p, (forall k, p <> [k]) -> tget A p = 0 /\ tget B p = 0) -> teq A B.
Proof.
  intros H1 H2 p. destruct p as [|a [|b p]].
  - destruct (H2 []) as [-> ->]; [intros k; discriminate|reflexivity].
  - apply H1.
  - destruct (H2 (a :: b :: p)) as [-> ->]; [intros k; discriminate|reflexivity].
Qed.

Lemma ex_union0 bad : union_ok (ex_rule bad) ex_tab 0.
Proof.
  split; [reflexivity|]. split; [reflexivity|]. split.
  - unfold kid_eps_fixed, kid_eps. simpl.
    constructor; [apply K1_union_child_ok; reflexivity|].
    constructor; [apply K1_union_child_ok; reflexivity|].
    constructor; [apply K1_union_child_ok; reflexivity|constructor].
  - intros n. change (cmaps (ex_rule bad) 0) with [f1; f1; f1]. simpl map.
    unfold union_table. simpl map2. simpl concat. rewrite app_nil_r.
    change (ex_tab 0 n) with (tab0 n). unfold tab0.
    destruct (Z.ltb_spec n 0) as [Hn|Hn].
    + replace (n =? 0) with false by (symmetry; apply Z.eqb_neq; lia).
      replace (n <? 1) with true by (symmetry; apply Z.ltb_lt; lia). intros p. reflexivity.
    + destruct (Z.eqb_spec n 0) as [->|Hn0].
      * (* size 0: only the empty word *) intros p. reflexivity.
      * replace (n <? 1) with false by (symmetry; apply Z.ltb_ge; lia).
        rewrite !rekey_f1_row. simpl app.
        apply teq_single_stat.
        -- intros k. rewrite tget_app, !tget_row. rewrite (bin_pascal n k) by lia.
           replace (n - 1 + 1) with n by lia.
           destruct (Z.leb_spec 0 k) as [H0|H0]; destruct (Z.ltb_spec k (n + 1)) as [H1|H1];
             destruct (Z.leb_spec 1 k) as [H2|H2]; destruct (Z.ltb_spec k n) as [H3|H3]; simpl; try lia;
             unfold bin;
             repeat match goal with
                    | |- context [?a <=? ?b] => destruct (Z.leb_spec a b)
                    end; simpl; lia.
        -- intros p Hp. rewrite tget_app, !tget_row_other by exact Hp. split; reflexivity.
Qed.

(* ------------------------------------------------------------------ the products a.S and b.S *)
Lemma comps_1_0 n : compositions n 2 [1; 0] [Some 1; None] = if 1 <=? n then [[1; n - 1]] else [].
Proof.
  set (L := compositions n 2 [1; 0] [Some 1; None]).
  assert (Hmem : forall t, In t L -> t = [1; n - 1] /\ 1 <= n).
  { intros t Ht. apply compositions_sound in Ht; [|reflexivity|reflexivity].
    destruct Ht as (Hz & Hs & Hle & Hb).
    inversion Hle as [|? a ? t1 Ha Hle1]; subst. inversion Hle1 as [|? b ? t2 Hb1 Hle2]; subst.
    inversion Hle2; subst.
    inversion Hb as [|? ? ? ? Hba Hb']; subst. simpl in Hba.
    rewrite !py_sum_cons in *. unfold py_sum. simpl. split; [|lia].
    f_equal; [lia|]. f_equal. lia. }
  assert (Hnd : NoDup L) by apply compositions_nodup.
  destruct (1 <=? n) eqn:E.
  - apply Z.leb_le in E.
    assert (Hin : In [1; n - 1] L).
    { apply compositions_complete; [lia|constructor; [lia|constructor; [lia|constructor]]|].
      split; [reflexivity|]. split; [unfold py_sum; cbn [fold_right]; lia|]. split.
      - constructor; [lia|]. constructor; [lia|]. constructor.
      - constructor; [simpl; lia|]. constructor; [exact I|]. constructor. }
    destruct L as [|x [|y L']]; [destruct Hin| |].
    + destruct (Hmem x (or_introl eq_refl)) as [-> _]. reflexivity.
    + exfalso. destruct (Hmem x (or_introl eq_refl)) as [-> _].
      destruct (Hmem y (or_intror (or_introl eq_refl))) as [-> _].
      inversion Hnd as [|? ? Hx _]. apply Hx. left; reflexivity.
  - apply Z.leb_gt in E. destruct L as [|x L']; [reflexivity|].
    destruct (Hmem x (or_introl eq_refl)). lia.
Qed.

(* the table CartesianProduct.get_terms builds for  atom(size 1, k = a) x (a table with one statistic) *)
Lemma atom_times_row (a : Z) (g : Z -> Z) (L : list Z) :
  map (combo_entry [f1; f1]) (combos [[([a], 1)]; map (fun k => ([k], g k)) L])
  = map (fun k => ([a + k], 1 * (g k * 1))) L.
Proof.
  simpl combos. rewrite app_nil_r. rewrite map_map.
  induction L as [|k L IH]; [reflexivity|]. simpl. f_equal. exact IH.
Qed.

Lemma shift_row (a : Z) (h : Z -> Z) lo hi :
  map (fun k => ([a + k], h k)) (py_range lo hi) = row (fun x => h (x - a)) (a + lo) (a + hi).
Proof.
  unfold row, py_range. rewrite !map_map. replace (a + hi - (a + lo)) with (hi - lo) by lia.
  apply map_ext. intros j. f_equal; [f_equal; lia|f_equal; lia].
Qed.

Lemma ex_product bad c (a : nat) (va : Z) :
  (c = 2%nat /\ a = 3%nat /\ va = 1) \/ (c = 4%nat /\ a = 5%nat /\ va = 0) ->
  product_ok (ex_rule bad) ex_tab c.
Proof.
  intros Hc.
  assert (Ek : pk_kids (ex_rule bad c) = [a; 0%nat]) by (destruct Hc as [(-> & -> & _)|(-> & -> & _)]; reflexivity).
  assert (Ee : pk_eps (ex_rule bad c) = [K1; K1]) by (destruct Hc as [(-> & _)|(-> & _)]; reflexivity).
  assert (Ep : pars (ex_rule bad) c = [1]) by (destruct Hc as [(-> & _)|(-> & _)]; reflexivity).
  assert (Epa : pars (ex_rule bad) a = [1]) by (destruct Hc as [(_ & -> & _)|(_ & -> & _)]; reflexivity).
  split; [rewrite Ek; discriminate|]. split; [rewrite Ek, Ee; reflexivity|]. split; [|split].
  - unfold kid_eps. rewrite Ek, Ee. simpl.
    constructor; [apply K1_prod_child_ok; assumption|].
    constructor; [apply K1_prod_child_ok; [assumption|reflexivity]|constructor].
  - intros k Hk. rewrite Ep in Hk. simpl in Hk.
    destruct Hc as [(-> & -> & _)|(-> & -> & _)]; destruct k as [|[|k]]; try lia; vm_compute; discriminate.
  - intros n.
    assert (Ecm : cmaps (ex_rule bad) c = [f1; f1]) by (destruct Hc as [(-> & -> & _)|(-> & -> & _)]; reflexivity).
    rewrite Ecm, Ek. clear Ecm.
    assert (Emins : map (pmin (ex_rule bad)) [a; 0%nat] = [1; 0]) by (destruct Hc as [(_ & -> & _)|(_ & -> & _)]; reflexivity).
    assert (Emaxs : map (pmax (ex_rule bad)) [a; 0%nat] = [Some 1; None]) by (destruct Hc as [(_ & -> & _)|(_ & -> & _)]; reflexivity).
    rewrite Emins, Emaxs. unfold product_table. change (zlen (map ex_tab [a; 0%nat])) with 2.
    rewrite comps_1_0.
    assert (Etab : ex_tab c n = if n <? 1 then [] else row (fun k => bin (n - 1) (k - va)) va (va + n)).
    { destruct Hc as [(-> & _ & ->)|(-> & _ & ->)]; unfold ex_tab; destruct (n <? 1); try reflexivity.
      - replace (1 + n) with (n + 1) by lia. reflexivity.
      - unfold row. apply map_ext. intros k. replace (k - 0) with k by lia. reflexivity. }
    rewrite Etab.
    destruct (Z.leb_spec 1 n) as [Hn|Hn].
    + replace (n <? 1) with false by (symmetry; apply Z.ltb_ge; lia).
      cbn [flat_map]. rewrite app_nil_r. unfold tabs_at. cbn [map2 map].
      assert (Ea : ex_tab a 1 = [([va], 1)]) by (destruct Hc as [(_ & -> & ->)|(_ & -> & ->)]; reflexivity).
      rewrite Ea. change (ex_tab 0 (n - 1)) with (tab0 (n - 1)). unfold tab0. replace (n - 1 <? 0) with false by (symmetry; apply Z.ltb_ge; lia).
      unfold row at 2. rewrite atom_times_row. replace (n - 1 + 1) with n by lia.
      rewrite (shift_row va (fun k => 1 * (bin (n - 1) k * 1)) 0 n).
      replace (va + 0) with va by lia.
      intros p. f_equal. unfold row. apply map_ext. intros k. f_equal. lia.
    + replace (n <? 1) with true by (symmetry; apply Z.ltb_lt; lia). intros p. reflexivity.
Qed.

(* ------------------------------------------------------------------ the root tracking nothing *)
Lemma tget_rekey_nil (T : terms) p : tget (rekey (fun _ => []) T) p = if params_eqb [] p then tsum T else 0.
Proof.
  induction T as [|[k v] T IH]; [simpl; destruct p; reflexivity|].
  cbn [rekey map tget tsum fst snd]. fold (rekey (fun _ : params => @nil Z) T). rewrite IH.
  destruct (params_eqb [] p); lia.
Qed.

Lemma ex_union6 : union_ok (ex_rule true) ex_tab 6.
Proof.
  split; [reflexivity|]. split; [reflexivity|]. split.
  - change (kid_eps_fixed (ex_rule true) 6) with [(0%nat, @nil (Z * Z), [(1, 0)])].
    constructor; [|constructor]. split; [|split; [|split]].
    + split; [|intros a b []]. unfold wf_dict. simpl.
      split; [constructor|]. split; [constructor; [intros []|constructor]|]. split; [constructor|intros a b []].
    + simpl. constructor; [intros []|constructor].
    + simpl. intros k [<-|[]]. left. reflexivity.
    + simpl. intros cv [<-|[]]. right. left. reflexivity.
  - intros n p. change (cmaps (ex_rule true) 6) with [dict_sem [] [1] []].
    change (map (fun ci : nat => ex_tab ci n) (pk_kids (ex_rule true 6))) with [tab0 n].
    unfold union_table. cbn [map2 concat]. rewrite app_nil_r.
    change (dict_sem [] [1] []) with (fun _ : params => @nil Z). rewrite tget_rekey_nil.
    cbn [ex_tab tget fst snd]. destruct (params_eqb [] p); lia.
Qed.

(* ------------------------------------------------------------------ all hypotheses *)
Lemma ex_unions_ok bad c : pk_kind (ex_rule bad c) = K_UNION -> union_ok (ex_rule bad) ex_tab c.
Proof.
  cases7 c; simpl; intros Hk; try discriminate Hk.
  - apply ex_union0.
  - destruct bad; [apply ex_union6|discriminate Hk].
Qed.

Lemma ex_products_ok bad c : pk_kind (ex_rule bad c) = K_PRODUCT -> product_ok (ex_rule bad) ex_tab c.
Proof.
  cases7 c; simpl; intros Hk; try discriminate Hk.
  - apply (ex_product bad 2 3 1). left. auto.
  - apply (ex_product bad 4 5 0). right. auto.
  - destruct bad; discriminate Hk.
Qed.

Lemma ex_honest bad c : (bad = false \/ c <> 6%nat) ->
  pk_kind (ex_rule bad c) = K_UNION -> fixed_honest (ex_rule bad) ex_tab c.
Proof.
  intros Hb. cases7 c; simpl; intros Hk; try discriminate Hk.
  - intros d Hd k v Hin. simpl in Hd. destruct Hd as [<-|[<-|[<-|[]]]]; destruct Hin.
  - destruct Hb as [->|Hb]; [discriminate Hk|congruence].
Qed.

(* in the bad variant the fixed value k = 0 of the root's child is not the value on all its objects:
   the word "a" has k = 1 *)
Lemma ex_not_honest : ~ fixed_honest (ex_rule true) ex_tab 6.
Proof.
  intros H. specialize (H (0%nat, [], [(1, 0)]) (or_introl eq_refl) 1 0 (or_introl eq_refl) 1 [1]).
  simpl in H. assert (X : Some 1 = Some 0) by (apply H; vm_compute; discriminate). discriminate X.
Qed.

(* "ab" as a parse tree of S; "a" and "b" as parse trees of the root *)
Definition t_b_S : tree := UNode 0 2 (PNode 4 [Leaf 5; UNode 0 0 (Leaf 1)]).
Definition t_a_S : tree := UNode 0 1 (PNode 2 [Leaf 3; UNode 0 0 (Leaf 1)]).
Definition t_ab : tree := UNode 0 1 (PNode 2 [Leaf 3; t_b_S]).
Definition t_a_root : tree := UNode 6 0 t_a_S.
Definition t_b_root : tree := UNode 6 0 t_b_S.

Lemma ex_trees bad :
  pwf (ex_rule bad) t_ab 0 /\ ptsize (ex_rule bad) t_ab = 2 /\ tpar (ex_rule bad) t_ab = [1] /\
  pcnt ex_tab 0 2 [1] = 2.
Proof.
  split; [|split; [|split]]; try reflexivity.
  cbv [pwf t_ab t_b_S ex_rule mkp pk_kind pk_kids all2 nth_error].
  repeat match goal with
         | |- _ /\ _ => split
         | |- exists _, _ => eexists
         | |- True => exact I
         | |- _ = _ => reflexivity
         end.
Qed.

Lemma ex_bad_trees :
  pwf (ex_rule true) t_a_root 6 /\ ptsize (ex_rule true) t_a_root = 1 /\ tpar (ex_rule true) t_a_root = [] /\
  pwf (ex_rule true) t_b_root 6 /\ ptsize (ex_rule true) t_b_root = 1 /\ tpar (ex_rule true) t_b_root = [] /\
  pcnt ex_tab 6 1 [] = 2.
Proof.
  repeat split; try reflexivity;
  cbv [pwf t_a_root t_b_root t_a_S t_b_S ex_rule root_cls mkp pk_kind pk_kids all2 nth_error];
  repeat match goal with
         | |- _ /\ _ => split
         | |- exists _, _ => eexists
         | |- True => exact I
         | |- _ = _ => reflexivity
         end.
Qed.

(* computed directly from the definitions: the root returns "b" with probability 1/2 and "a" never,
   and the draw r = 2 of the root raises RuntimeError *)
Lemma ex_bad_probabilities :
  (prob (tree_eqb t_a_root) (pspec_sample (ex_rule true) ex_tab 10 6 1 []) == 0)%Q /\
  (prob (tree_eqb t_b_root) (pspec_sample (ex_rule true) ex_tab 10 6 1 []) == 1 / inject_Z 2)%Q /\
  fst (fst (run (pspec_sample (ex_rule true) ex_tab 10 6 1 []) [2])) = Err E_RUNTIME.
Proof. split; [|split]; vm_compute; reflexivity. Qed.

Definition P_k1 : dict := [(1, 1)].      (* the call random_sample_object_of_size(2, k=1) *)
Lemma ex_good_probability :
  (prob (tree_eqb t_ab) (pspec_sample (ex_rule false) ex_tab 10 0 2 P_k1) == 1 / inject_Z 2)%Q.
Proof. vm_compute. reflexivity. Qed.

(* every hypothesis of C08_uniform_params but fixed_honest, and the conclusion fails *)
Lemma uniform_params_refuted :
  exists (rule_of : nat -> pcls) (tab : nat -> Z -> terms) (t : tree) (root fuel : nat) (P : dict),
    tables_ok rule_of tab /\ contract_ok rule_of tab /\
    (forall c, pk_kind (rule_of c) = K_ATOM -> atom_ok rule_of tab c) /\
    (forall c, pk_kind (rule_of c) = K_UNION -> union_ok rule_of tab c) /\
    (forall c, pk_kind (rule_of c) = K_PRODUCT -> product_ok rule_of tab c) /\
    (forall c, c <> root -> pk_kind (rule_of c) = K_UNION -> fixed_honest rule_of tab c) /\
    pk_kind (rule_of root) = K_UNION /\
    pk_eps (rule_of root) = [path_dict (pars rule_of root) [[]]] /\
    pk_fixed (rule_of root) = [path_fixed [1] (path_dict (pars rule_of root) [[]])] /\
    ~ fixed_honest rule_of tab root /\
    pwf rule_of t root /\ (height t < fuel)%nat /\ dict_for rule_of root P (tpar rule_of t) /\
    pcnt tab root (ptsize rule_of t) (tpar rule_of t) = 2 /\
    (prob (tree_eqb t) (pspec_sample rule_of tab fuel root (ptsize rule_of t) P) == 0)%Q /\
    fst (fst (run (pspec_sample rule_of tab fuel root (ptsize rule_of t) P) [2])) = Err E_RUNTIME.
Proof.
  exists (ex_rule true), ex_tab, t_a_root, 6%nat, 10%nat, [].
  destruct ex_bad_trees as (W1 & S1 & T1 & _ & _ & _ & C1).
  destruct ex_bad_probabilities as (P1 & _ & R1).
  split; [apply ex_tables_ok|]. split; [apply ex_contract_ok|]. split; [apply ex_atoms_ok|].
  split; [apply ex_unions_ok|]. split; [apply ex_products_ok|].
  split; [intros c Hc; apply ex_honest; right; exact Hc|].
  split; [reflexivity|]. split; [reflexivity|]. split; [reflexivity|].
  split; [exact ex_not_honest|]. split; [exact W1|]. split; [simpl; lia|].
  split; [rewrite T1; split; [constructor|split; [intros k []|reflexivity]]|].
  rewrite S1, T1. split; [exact C1|]. split; [exact P1|exact R1].
Qed.

Lemma ex_hypotheses_hold :
  tables_ok (ex_rule false) ex_tab /\ contract_ok (ex_rule false) ex_tab /\
  (forall c, pk_kind (ex_rule false c) = K_ATOM -> atom_ok (ex_rule false) ex_tab c) /\
  (forall c, pk_kind (ex_rule false c) = K_UNION -> union_ok (ex_rule false) ex_tab c) /\
  (forall c, pk_kind (ex_rule false c) = K_PRODUCT -> product_ok (ex_rule false) ex_tab c) /\
  (forall c, pk_kind (ex_rule false c) = K_UNION -> fixed_honest (ex_rule false) ex_tab c) /\
  pwf (ex_rule false) t_ab 0 /\ ptsize (ex_rule false) t_ab = 2 /\ tpar (ex_rule false) t_ab = [1] /\
  pcnt ex_tab 0 2 [1] = 2 /\ dict_for (ex_rule false) 0 P_k1 [1].
Proof.
  destruct (ex_trees false) as (W & S & T & C).
  split; [apply ex_tables_ok|]. split; [apply ex_contract_ok|]. split; [apply ex_atoms_ok|].
  split; [apply ex_unions_ok|]. split; [apply ex_products_ok|].
  split; [intros c Hc; apply ex_honest; [left; reflexivity|exact Hc]|].
  split; [exact W|]. split; [exact S|]. split; [exact T|]. split; [exact C|].
  split; [constructor; [intros []|constructor]|]. split; [intros k [<-|[]]; left; reflexivity|reflexivity].
Qed.

(* the keys carrying objects have the arity of their class (hypothesis of the total = count theorems) *)
Lemma ex_arity_ok bad : forall c n q, pcnt ex_tab c n q <> 0 -> length q = length (pars (ex_rule bad) c).
Proof.
  intros c n q. unfold pcnt, pars. cases7 c; simpl.
  - unfold tab0. destruct (n <? 0); [simpl; congruence|]. intros H. apply tget_row_nonzero in H. destruct H as (k & -> & _). reflexivity.
  - destruct (n =? 0); [|simpl; congruence]. intros H. apply single_entry_nonzero in H. subst. reflexivity.
  - destruct (n <? 1); [simpl; congruence|]. intros H. apply tget_row_nonzero in H. destruct H as (k & -> & _). reflexivity.
  - destruct (n =? 1); [|simpl; congruence]. intros H. apply single_entry_nonzero in H. subst. reflexivity.
  - destruct (n <? 1); [simpl; congruence|]. intros H. apply tget_row_nonzero in H. destruct H as (k & -> & _). reflexivity.
  - destruct (n =? 1); [|simpl; congruence]. intros H. apply single_entry_nonzero in H. subst. reflexivity.
  - intros H. destruct q; [destruct bad; reflexivity|]. exfalso. apply H. reflexivity.
  - congruence.
Qed.
