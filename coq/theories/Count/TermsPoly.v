(* Term tables as sparse polynomials in the parameter variables (C09, Quotient with parameters).

   A table t : terms MEANS the finitely supported function  p |-> tget t p  (Count/Terms.v);
   read as a polynomial, the entry (k, v) is the monomial  v * k_0^k[0] * k_1^k[1] * ...
   (Quotient._terms_to_poly).  Addition is ++, negation tneg, multiplication pmul
   (exponent tuples are added with zip_add).  Everything here is stated up to teq.     *)
From Coq Require Import ZArith List Bool Lia Permutation.
From CSS Require Import Gen.Prelude Count.Terms Count.Constructors.
Import ListNotations.
Open Scope Z_scope.

(* ---------------------------------------------------------------- exponent tuples *)
Lemma zip_add_comm : forall a b, zip_add a b = zip_add b a.
Proof. induction a as [|x a IH]; intros [|y b]; simpl; try reflexivity. rewrite IH. f_equal. lia. Qed.

Lemma zip_add_assoc : forall a b c, zip_add (zip_add a b) c = zip_add a (zip_add b c).
Proof.
  induction a as [|x a IH]; intros [|y b] [|z c]; simpl; try reflexivity. rewrite IH. f_equal. lia.
Qed.

Lemma zip_add_length : forall a b, length a = length b -> length (zip_add a b) = length a.
Proof. induction a as [|x a IH]; intros [|y b] H; simpl in *; try lia. rewrite IH; lia. Qed.

Lemma zip_add_zero_l : forall a, zip_add (repeat 0 (length a)) a = a.
Proof. induction a as [|x a IH]; simpl; [reflexivity|]. rewrite IH. reflexivity. Qed.

Lemma zip_add_cancel_r : forall a b c, length a = length b -> length c = length a ->
  zip_add a c = zip_add b c -> a = b.
Proof.
  induction a as [|x a IH]; intros [|y b] [|z c] H1 H2 H; simpl in *; try lia; [reflexivity|].
  inversion H. f_equal; [lia|]. apply (IH b c); [lia|lia|assumption].
Qed.

(* ---------------------------------------------------------------- sums *)
Lemma zsum_swap {A B} (F : A -> B -> Z) (a : list A) (b : list B) :
  zsum (fun x => zsum (fun y => F x y) b) a = zsum (fun y => zsum (fun x => F x y) a) b.
Proof.
  induction a as [|x a IH]; simpl.
  - rewrite zsum_zero; [reflexivity|]. intros. reflexivity.
  - rewrite IH, <- zsum_plus. reflexivity.
Qed.

Lemma zsum_le_term {A} (f : A -> Z) l x : (forall y, In y l -> 0 <= f y) -> In x l -> f x <= zsum f l.
Proof.
  induction l as [|y l IH]; intros Hnn Hin; [contradiction|]. simpl.
  assert (0 <= zsum f l) by (apply zsum_nonneg; intros z Hz; apply Hnn; right; exact Hz).
  destruct Hin as [->|Hin].
  - lia.
  - pose proof (Hnn y (or_introl eq_refl)). specialize (IH (fun z Hz => Hnn z (or_intror Hz)) Hin). lia.
Qed.

Lemma zsum_nonzero_term {A} (f : A -> Z) l : zsum f l <> 0 -> exists x, In x l /\ f x <> 0.
Proof.
  induction l as [|y l IH]; simpl; intros H; [lia|].
  destruct (Z.eq_dec (f y) 0) as [E|E].
  - destruct IH as (x & Hx & Hf); [lia|]. exists x. auto.
  - exists y. auto.
Qed.

(* a value-linear sum over the entries of a table only depends on the table's meaning *)
Lemma zsum_by_keys (H : params -> Z) t (K : list params) :
  NoDup K -> (forall k v, In (k, v) t -> In k K) ->
  zsum (fun e : entry => snd e * H (fst e)) t = zsum (fun k => tget t k * H k) K.
Proof.
  intros Hnd. induction t as [|[k v] t IH]; intros Hcov.
  - simpl. rewrite zsum_zero; [reflexivity|]. intros. lia.
  - simpl. rewrite IH by (intros k' v' Hin; apply (Hcov k' v'); right; exact Hin).
    assert (HkK : In k K) by (apply (Hcov k v); left; reflexivity).
    transitivity (zsum (fun x => (if params_eqb k x then v * H k else 0) + tget t x * H x) K).
    + rewrite zsum_plus, zsum_indicator by assumption. reflexivity.
    + apply zsum_ext. intros x _. destruct (params_eqb k x) eqn:E.
      * apply params_eqb_eq in E. subst x. lia.
      * lia.
Qed.

Lemma zsum_lin_teq (H : params -> Z) a b :
  teq a b -> zsum (fun e : entry => snd e * H (fst e)) a = zsum (fun e : entry => snd e * H (fst e)) b.
Proof.
  intros Hab.
  set (K := nodup params_eq_dec (map fst a ++ map fst b)).
  assert (Hnd : NoDup K) by apply NoDup_nodup.
  assert (Ha : forall k v, In (k, v) a -> In k K).
  { intros k v Hin. apply nodup_In. apply in_or_app. left. apply in_map_iff. exists (k, v). auto. }
  assert (Hb : forall k v, In (k, v) b -> In k K).
  { intros k v Hin. apply nodup_In. apply in_or_app. right. apply in_map_iff. exists (k, v). auto. }
  rewrite (zsum_by_keys H a K Hnd Ha), (zsum_by_keys H b K Hnd Hb).
  apply zsum_ext. intros k _. rewrite (Hab k). reflexivity.
Qed.

(* ---------------------------------------------------------------- negation, monomials *)
Lemma tget_tneg t p : tget (tneg t) p = - tget t p.
Proof. induction t as [|[k v] t IH]; simpl; [reflexivity|]. rewrite IH. destruct (params_eqb k p); lia. Qed.

(* ---------------------------------------------------------------- multiplication *)
Definition pmul (a b : terms) : terms :=
  flat_map (fun ea : entry => map (fun eb : entry => (zip_add (fst ea) (fst eb), snd ea * snd eb)) b) a.

Lemma mono_mul_pmul m c : mono_mul m c = pmul [m] c.
Proof. unfold pmul. simpl. rewrite app_nil_r. reflexivity. Qed.

Lemma pmul_app_l a a' b : pmul (a ++ a') b = pmul a b ++ pmul a' b.
Proof. unfold pmul. apply flat_map_app. Qed.

Lemma tget_rekey_zsum f t q :
  tget (rekey f t) q = zsum (fun e : entry => snd e * (if params_eqb (f (fst e)) q then 1 else 0)) t.
Proof.
  unfold rekey. rewrite tget_zsum, zsum_map. apply zsum_ext. intros [k v] _. simpl.
  destruct (params_eqb (f k) q); lia.
Qed.

Lemma tget_pmul a b p :
  tget (pmul a b) p = zsum (fun ea : entry => snd ea * tget (rekey (zip_add (fst ea)) b) p) a.
Proof.
  unfold pmul. rewrite tget_flat_map. apply zsum_ext. intros [ka va] _. simpl.
  rewrite tget_rekey_zsum, tget_zsum, zsum_map, <- zsum_scale.
  apply zsum_ext. intros [kb vb] _. simpl. destruct (params_eqb (zip_add ka kb) p); lia.
Qed.

Lemma tget_pmul_pairs a b p :
  tget (pmul a b) p =
  zsum (fun ea : entry => zsum (fun eb : entry =>
          if params_eqb (zip_add (fst ea) (fst eb)) p then snd ea * snd eb else 0) b) a.
Proof.
  rewrite tget_pmul. apply zsum_ext. intros [ka va] _. simpl.
  rewrite tget_rekey_zsum, <- zsum_scale. apply zsum_ext. intros [kb vb] _. simpl.
  destruct (params_eqb (zip_add ka kb) p); lia.
Qed.

Lemma pmul_teq_l a a' b : teq a a' -> teq (pmul a b) (pmul a' b).
Proof.
  intros H p. rewrite !tget_pmul.
  apply (zsum_lin_teq (fun k => tget (rekey (zip_add k) b) p) a a' H).
Qed.

Lemma pmul_teq_r a b b' : teq b b' -> teq (pmul a b) (pmul a b').
Proof.
  intros H p. rewrite !tget_pmul. apply zsum_ext. intros [ka va] _. simpl.
  rewrite (tget_rekey_ext (zip_add ka) b b' H p). reflexivity.
Qed.

Lemma pmul_teq a a' b b' : teq a a' -> teq b b' -> teq (pmul a b) (pmul a' b').
Proof. intros H1 H2. eapply teq_trans; [apply pmul_teq_l; exact H1|apply pmul_teq_r; exact H2]. Qed.

Lemma pmul_comm a b : teq (pmul a b) (pmul b a).
Proof.
  intros p. rewrite !tget_pmul_pairs. rewrite zsum_swap. apply zsum_ext. intros [kb vb] _.
  apply zsum_ext. intros [ka va] _. simpl. rewrite (zip_add_comm ka kb).
  destruct (params_eqb (zip_add kb ka) p); lia.
Qed.

Lemma pmul_nil_l b : pmul [] b = [].
Proof. reflexivity. Qed.

Lemma tget_pmul_zero_l a b p : (forall q, tget a q = 0) -> tget (pmul a b) p = 0.
Proof.
  intros H. rewrite (pmul_teq_l a [] b) by (intros q; rewrite H; reflexivity). reflexivity.
Qed.

(* the exact quotient: q is a quotient of p by d when q * d = p as polynomials *)
Definition exact_quotient (p d q : terms) : Prop := teq (pmul q d) p.
