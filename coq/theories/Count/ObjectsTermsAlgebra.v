(* C07 — Counter algebra for "count == number generated" through a whole specification:
   DisjointUnion.get_terms / CartesianProduct.get_terms (Count/ObjectsCountModel.v) depend on the
   children's Counters only through what `terms[p]` returns, PROVIDED the Counters are dictionaries
   (distinct keys).  This is what lets the induction through the terms caches replace the terms a
   child's rule computed by the numbers of objects in the dictionary the same child generates. *)
From Coq Require Import ZArith List Bool Lia.
From CSS Require Import Base.PyList Count.ObjectsModel Count.ObjectsLists Count.ObjectsCountModel
                        Count.ObjectsCount.
Import ListNotations.
Open Scope Z_scope.

Definition keys_ok (t : terms) : Prop := NoDup (map fst t).
Definition teq (t t' : terms) : Prop := forall p, counter_get t p = counter_get t' p.
(* two Counters that answer every lookup alike *)
Definition tagree (t t' : terms) : Prop := keys_ok t /\ keys_ok t' /\ teq t t'.

(* sum over the items of a Counter of value * g(key) *)
Definition wsum (g : params -> Z) (t : terms) : Z :=
  fold_right (fun (e : params * Z) acc => snd e * g (fst e) + acc) 0 t.

Definition tremove (p : params) (t : terms) : terms :=
  filter (fun e : params * Z => negb (params_eqb (fst e) p)) t.

Lemma counter_get_notin t p : ~ In p (map fst t) -> counter_get t p = 0.
Proof.
  induction t as [|[q v] t IH]; simpl; intros H; [reflexivity|].
  destruct (params_eqb q p) eqn:E.
  - apply params_eqb_spec in E. subst. exfalso. apply H. left. reflexivity.
  - apply IH. intros Hin. apply H. right. assumption.
Qed.

Lemma counter_get_tremove p t q :
  counter_get (tremove p t) q = if params_eqb p q then 0 else counter_get t q.
Proof.
  induction t as [|[r v] t IH]; simpl; [destruct (params_eqb p q); reflexivity|].
  destruct (params_eqb r p) eqn:Erp; simpl.
  - rewrite IH. apply params_eqb_spec in Erp. subst r.
    destruct (params_eqb p q); reflexivity.
  - rewrite IH. destruct (params_eqb r q) eqn:Erq; [|reflexivity].
    apply params_eqb_spec in Erq. subst r.
    destruct (params_eqb p q) eqn:Epq; [|reflexivity].
    apply params_eqb_spec in Epq. subst p. rewrite params_eqb_refl in Erp. discriminate.
Qed.

Lemma in_keys_tremove p t x : In x (map fst (tremove p t)) -> In x (map fst t).
Proof.
  unfold tremove. rewrite !in_map_iff. intros (e & E & Hin). apply filter_In in Hin.
  exists e. tauto.
Qed.

Lemma keys_tremove p t : keys_ok t -> keys_ok (tremove p t).
Proof.
  unfold keys_ok. induction t as [|[r v] t IH]; simpl; intros H; [constructor|].
  inversion H as [|? ? Hnotin Hnd]; subst.
  destruct (params_eqb r p); simpl; [apply IH; assumption|].
  constructor; [|apply IH; assumption].
  intros Hin. apply Hnotin. eapply in_keys_tremove. eassumption.
Qed.

Lemma wsum_remove g p t :
  keys_ok t -> wsum g t = counter_get t p * g p + wsum g (tremove p t).
Proof.
  unfold keys_ok. induction t as [|[r v] t IH]; simpl; intros H; [lia|].
  inversion H as [|? ? Hnotin Hnd]; subst. specialize (IH Hnd).
  destruct (params_eqb r p) eqn:E; simpl.
  - apply params_eqb_spec in E. subst r.
    rewrite (counter_get_notin t p Hnotin) in IH. lia.
  - lia.
Qed.

Lemma wsum_zero g t : keys_ok t -> (forall p, counter_get t p = 0) -> wsum g t = 0.
Proof.
  unfold keys_ok. induction t as [|[r v] t IH]; simpl; intros H H0; [reflexivity|].
  inversion H as [|? ? Hnotin Hnd]; subst.
  assert (Hv : v = 0) by (specialize (H0 r); rewrite params_eqb_refl in H0; assumption).
  subst v. rewrite IH; [lia|assumption|].
  intros p. specialize (H0 p). destruct (params_eqb r p) eqn:E; [|assumption].
  apply params_eqb_spec in E. subst p. apply counter_get_notin. assumption.
Qed.

Lemma wsum_teq g t : forall t', keys_ok t -> keys_ok t' -> teq t t' -> wsum g t = wsum g t'.
Proof.
  induction t as [|[p v] t IH]; intros t' Hk Hk' He.
  - simpl. symmetry. apply wsum_zero; [assumption|]. intros p. rewrite <- He. reflexivity.
  - unfold keys_ok in Hk. simpl in Hk. inversion Hk as [|? ? Hnotin Hnd]; subst.
    rewrite (wsum_remove g p t' Hk'). simpl.
    assert (Ev : counter_get t' p = v).
    { rewrite <- He. simpl. rewrite params_eqb_refl. reflexivity. }
    rewrite Ev. f_equal. apply IH; [assumption|apply keys_tremove; assumption|].
    intros q. rewrite counter_get_tremove. destruct (params_eqb p q) eqn:E.
    + apply params_eqb_spec in E. subst q. apply counter_get_notin. assumption.
    + rewrite <- He. simpl. rewrite E. reflexivity.
Qed.

Lemma wsum_ext g g' t : (forall p, g p = g' p) -> wsum g t = wsum g' t.
Proof. intros H. induction t as [|e t IH]; simpl; [reflexivity|]. rewrite IH, H. reflexivity. Qed.

Lemma ysum_map_wsum (f : pmap) q t :
  ysum q (map (fun e : params * Z => (f (fst e), snd e)) t)
  = wsum (fun p => if params_eqb (f p) q then 1 else 0) t.
Proof.
  induction t as [|[p v] t IH]; simpl; [reflexivity|].
  rewrite IH. destruct (params_eqb (f p) q); lia.
Qed.

(* ---------------------------------------------------------------- DisjointUnion.get_terms *)
Lemma union_adds_teq maps q : forall subs subs' i, Forall2 tagree subs subs' ->
  ysum q (union_adds_from i maps subs) = ysum q (union_adds_from i maps subs').
Proof.
  intros subs subs' i H. revert i. induction H as [|t t' subs subs' (Hk & Hk' & He) HF IH]; intros i; simpl;
    [reflexivity|].
  rewrite !ysum_app, !ysum_map_wsum, IH. f_equal. apply wsum_teq; assumption.
Qed.

Theorem union_terms_teq maps subs subs' :
  Forall2 tagree subs subs' -> teq (union_terms maps subs) (union_terms maps subs').
Proof.
  intros H q. unfold union_terms. rewrite !counter_of_get. apply union_adds_teq. assumption.
Qed.

(* ---------------------------------------------------------------- CartesianProduct.get_terms *)
Definition zsum (l : list Z) : Z := fold_right Z.add 0 l.

Lemma zsum_app a b : zsum (a ++ b) = zsum a + zsum b.
Proof. induction a as [|x a IH]; simpl; [reflexivity|]. rewrite IH. lia. Qed.

(* sum over the combinations of items of h(keys) * product of the values *)
Definition csum (h : list params -> Z) (ts : list terms) : Z :=
  zsum (map (fun combo : list (params * Z) => h (map fst combo) * zprod (map snd combo)) (cart ts)).

Lemma csum_cons h t ts :
  csum h (t :: ts) = wsum (fun p => csum (fun ps => h (p :: ps)) ts) t.
Proof.
  unfold csum. simpl cart. induction t as [|e t IH]; [reflexivity|].
  cbn [flat_map]. rewrite map_app, zsum_app, IH. cbn [wsum fold_right]. f_equal.
  rewrite map_map. clear IH. induction (cart ts) as [|combo l IHl]; simpl in *; [lia|].
  rewrite IHl. ring.
Qed.

Lemma csum_teq : forall ts ts', Forall2 tagree ts ts' -> forall h, csum h ts = csum h ts'.
Proof.
  induction 1 as [|t t' ts ts' (Hk & Hk' & He) HF IH]; intros h; [reflexivity|].
  rewrite !csum_cons.
  rewrite (wsum_ext _ (fun p => csum (fun ps => h (p :: ps)) ts') t) by (intros p; apply IH).
  apply wsum_teq; assumption.
Qed.

Lemma ysum_combos (np : list params -> params) q (l : list (list (params * Z))) :
  ysum q (map (fun combo : list (params * Z) => (np (map fst combo), zprod (map snd combo))) l)
  = zsum (map (fun combo : list (params * Z) =>
                 (if params_eqb (np (map fst combo)) q then 1 else 0) * zprod (map snd combo)) l).
Proof.
  induction l as [|combo l IH]; simpl; [reflexivity|].
  rewrite IH. destruct (params_eqb (np (map fst combo)) q); lia.
Qed.

Lemma product_adds_teq maps q : forall pc pc', Forall2 (Forall2 tagree) pc pc' ->
  ysum q (product_adds maps pc) = ysum q (product_adds maps pc').
Proof.
  unfold product_adds. induction 1 as [|ts ts' pc pc' Hts HF IH]; simpl; [reflexivity|].
  rewrite !ysum_app, IH. f_equal. rewrite !ysum_combos.
  exact (csum_teq ts ts' Hts (fun ps => if params_eqb (new_param maps ps) q then 1 else 0)).
Qed.

Theorem product_terms_teq maps pc pc' :
  Forall2 (Forall2 tagree) pc pc' -> teq (product_terms maps pc) (product_terms maps pc').
Proof.
  intros H q. unfold product_terms. rewrite !counter_of_get. apply product_adds_teq. assumption.
Qed.

(* ---------------------------------------------------------------- a Counter is a dictionary *)
Lemma in_keys_counter_add d p v x : In x (map fst (counter_add d p v)) -> x = p \/ In x (map fst d).
Proof.
  induction d as [|[r v0] d IH]; simpl.
  - intros [H|[]]; left; symmetry; assumption.
  - destruct (params_eqb r p) eqn:E; simpl.
    + intros H. right. assumption.
    + intros [H|H]; [right; left; assumption|]. destruct (IH H) as [H'|H']; [left|right; right]; assumption.
Qed.

Lemma counter_add_keys d p v : keys_ok d -> keys_ok (counter_add d p v).
Proof.
  unfold keys_ok. induction d as [|[r v0] d IH]; simpl; intros H.
  - constructor; [intros []|constructor].
  - inversion H as [|? ? Hnotin Hnd]; subst. destruct (params_eqb r p) eqn:E; simpl.
    + constructor; assumption.
    + constructor; [|apply IH; assumption].
      intros Hin. apply in_keys_counter_add in Hin. destruct Hin as [->|Hin]; [|contradiction].
      rewrite params_eqb_refl in E. discriminate.
Qed.

Lemma counter_of_keys adds : keys_ok (counter_of adds).
Proof.
  unfold counter_of.
  assert (G : forall d, keys_ok d ->
            keys_ok (fold_left (fun acc (pv : params * Z) => counter_add acc (fst pv) (snd pv)) adds d)).
  { induction adds as [|[p v] adds IH]; intros d Hd; simpl; [assumption|].
    apply IH. apply counter_add_keys. assumption. }
  apply G. constructor.
Qed.

(* the numbers of objects of a dictionary, looked up *)
Lemma counter_get_terms_of {obj} (d : objects obj) p : counter_get (terms_of d) p = zlen (dict_get d p).
Proof.
  induction d as [|[q l] d IH]; simpl; [reflexivity|].
  destruct (params_eqb q p); [reflexivity|assumption].
Qed.

Lemma keys_terms_of {obj} (d : objects obj) : NoDup (map fst d) -> keys_ok (terms_of d).
Proof. unfold keys_ok, terms_of. rewrite map_map. simpl. intros H. exact H. Qed.
