(* C08 — probability semantics of random computations, over Q.

   prob P m = probability that m returns a value satisfying P when every
   Draw lo hi is an independent uniform draw from lo..hi (an exception counts
   as "no value").  This is the standard reading of randint / choice; it is a
   DEFINITION (part of what the C08 theorems mean), kept as small as possible. *)
From Coq Require Import ZArith List Bool Lia QArith Qfield Setoid Morphisms.
From CSS Require Import Gen.Prelude Count.SampleModel Count.SampleWalk.
Import ListNotations.
Open Scope Z_scope.

Definition sumQ (l : list Q) : Q := fold_right Qplus 0%Q l.

Fixpoint prob {A} (P : A -> bool) (m : rc A) : Q :=
  match m with
  | Ret a => if P a then 1%Q else 0%Q
  | Fail _ => 0%Q
  | Draw lo hi k =>
      if hi <? lo then 0%Q
      else (sumQ (map (fun r => prob P (k r)) (py_range lo (hi + 1))) / inject_Z (hi - lo + 1))%Q
  end.

(* ------------------------------------------------------------------ sums *)
Lemma sumQ_ext {A} (f g : A -> Q) l :
  (forall x, In x l -> (f x == g x)%Q) -> (sumQ (map f l) == sumQ (map g l))%Q.
Proof.
  induction l as [|x l IH]; intros H; simpl; [reflexivity|].
  rewrite (H x (or_introl eq_refl)). rewrite IH; [reflexivity|]. intros y Hy. apply H. right; exact Hy.
Qed.

Lemma sumQ_scale {A} (f : A -> Q) (q : Q) l :
  (sumQ (map (fun x => f x * q) l) == sumQ (map f l) * q)%Q.
Proof. induction l as [|x l IH]; simpl; [ring|]. rewrite IH. ring. Qed.

Lemma sumQ_zero {A} (f : A -> Q) l : (forall x, In x l -> (f x == 0)%Q) -> (sumQ (map f l) == 0)%Q.
Proof.
  induction l as [|x l IH]; intros H; simpl; [reflexivity|].
  rewrite (H x (or_introl eq_refl)). rewrite IH; [ring|]. intros y Hy. apply H. right; exact Hy.
Qed.

Lemma sumQ_app (a b : list Q) : (sumQ (a ++ b) == sumQ a + sumQ b)%Q.
Proof. induction a as [|x a IH]; simpl; [ring|]. rewrite IH. ring. Qed.

(* a constant q on the members satisfying f, 0 elsewhere *)
Lemma sumQ_indicator {A} (f : A -> bool) (q : Q) l :
  (sumQ (map (fun x => if f x then q else 0) l) == inject_Z (Z.of_nat (length (filter f l))) * q)%Q.
Proof.
  induction l as [|x l IH]; simpl; [ring|]. rewrite IH. destruct (f x); simpl length.
  - rewrite Nat2Z.inj_succ. unfold Z.succ. rewrite inject_Z_plus. ring.
  - ring.
Qed.

(* ------------------------------------------------------------------ bind *)
(* If, whatever a is, the continuation hits Q with probability q when P a holds
   and never otherwise, then the composite hits Q with probability P(m) * q. *)
Lemma prob_bind {A B} (m : rc A) (f : A -> rc B) (P : A -> bool) (T : B -> bool) (q : Q) :
  (forall a, (prob T (f a) == if P a then q else 0)%Q) ->
  (prob T (bind m f) == prob P m * q)%Q.
Proof.
  intros H. induction m as [a|e|lo hi k IH]; simpl.
  - rewrite H. destruct (P a); ring.
  - ring.
  - destruct (hi <? lo); [ring|].
    rewrite (sumQ_ext (fun r => prob T (bind (k r) f)) (fun r => prob P (k r) * q)%Q).
    + rewrite sumQ_scale. unfold Qdiv. ring.
    + intros r _. apply IH.
Qed.

Lemma prob_bind_zero {A B} (m : rc A) (f : A -> rc B) (T : B -> bool) :
  (forall a, (prob T (f a) == 0)%Q) -> (prob T (bind m f) == 0)%Q.
Proof.
  intros H. rewrite (prob_bind m f (fun _ => false) T 0%Q).
  - ring.
  - intros a. simpl. apply H.
Qed.

Lemma prob_choice1 {A} (P : A -> bool) (a : A) : (prob P (choice1 a) == if P a then 1 else 0)%Q.
Proof.
  unfold choice1. simpl. unfold py_range. simpl. destruct (P a); vm_compute; reflexivity.
Qed.

Lemma prob_nonneg {A} (P : A -> bool) (m : rc A) : (0 <= prob P m)%Q.
Proof.
  induction m as [a|e|lo hi k IH]; simpl.
  - destruct (P a); discriminate.
  - apply Qle_refl.
  - destruct (hi <? lo) eqn:E; [apply Qle_refl|]. apply Z.ltb_ge in E.
    apply Qle_shift_div_l.
    + change 0%Q with (inject_Z 0). rewrite <- Zlt_Qlt. lia.
    + rewrite Qmult_0_l.
      induction (py_range lo (hi + 1)) as [|r l IHl]; simpl; [apply Qle_refl|].
      rewrite <- (Qplus_0_l 0). apply Qplus_le_compat; [apply IH|exact IHl].
Qed.

(* tuple of independent sub-samplers: the probability of a given tuple is the product *)
Section All2b.
  Context {A B : Type}.
  Variable f : A -> B -> bool.
  Fixpoint all2b (l : list A) (l' : list B) : bool :=
    match l, l' with
    | [], [] => true
    | x :: t, y :: t' => f x y && all2b t t'
    | _, _ => false
    end.
End All2b.

Fixpoint prodQ (l : list Q) : Q := match l with [] => 1%Q | x :: t => (x * prodQ t)%Q end.

Lemma prob_mapM {A B} (f : A -> rc B) (eqb : B -> B -> bool) : forall (l : list A) (ts : list B),
  length l = length ts ->
  (prob (fun ys => all2b eqb ts ys) (mapM f l)
   == prodQ (map (fun p : A * B => prob (eqb (snd p)) (f (fst p))) (combine l ts)))%Q.
Proof.
  induction l as [|x l IH]; intros [|t ts] Hl; simpl in Hl; try lia.
  - simpl. ring.
  - simpl mapM. simpl combine. simpl map. simpl prodQ.
    rewrite (prob_bind (f x) _ (eqb t) _
               (prodQ (map (fun p : A * B => prob (eqb (snd p)) (f (fst p))) (combine l ts)))).
    + reflexivity.
    + intros y. destruct (eqb t y) eqn:E.
      * rewrite (prob_bind (mapM f l) _ (fun ys => all2b eqb ts ys) _ 1%Q).
        -- rewrite IH by lia. ring.
        -- intros ys. simpl. rewrite E. simpl. reflexivity.
      * apply prob_bind_zero. intros ys. simpl. rewrite E. reflexivity.
Qed.

Lemma prob_mapM_length {A B} (f : A -> rc B) (eqb : B -> B -> bool) : forall (l : list A) (ts : list B),
  length l <> length ts -> (prob (fun ys => all2b eqb ts ys) (mapM f l) == 0)%Q.
Proof.
  induction l as [|x l IH]; intros [|t ts] Hl; simpl in Hl; try lia.
  - simpl. reflexivity.
  - simpl mapM. apply prob_bind_zero. intros y. apply prob_bind_zero. intros ys. reflexivity.
  - simpl mapM. apply prob_bind_zero. intros y.
    destruct (eqb t y) eqn:E.
    + rewrite (prob_bind (mapM f l) _ (fun ys => all2b eqb ts ys) _ 1%Q).
      * rewrite IH by lia. ring.
      * intros ys. simpl. rewrite E. reflexivity.
    + apply prob_bind_zero. intros ys. simpl. rewrite E. reflexivity.
Qed.

Lemma prodQ_zero (l : list Q) : (exists x, In x l /\ (x == 0)%Q) -> (prodQ l == 0)%Q.
Proof.
  induction l as [|y l IH]; intros (x & Hx & Hz); [destruct Hx|]. simpl. destruct Hx as [->|Hx].
  - rewrite Hz. ring.
  - rewrite IH; [ring|]. exists x. split; assumption.
Qed.

(* ------------------------------------------------------------------ one threshold draw *)
(* Draw 1 total, then branch on an interval test: the mass is (b - a) / total * q *)
Lemma prob_draw_interval {A} (P : A -> bool) (k : Z -> rc A) (total a b : Z) (q : Q) :
  0 <= a -> a <= b -> b <= total -> 1 <= total ->
  (forall r, 1 <= r <= total -> (prob P (k r) == if (a <? r) && (r <=? b) then q else 0)%Q) ->
  (prob P (Draw 1 total k) == inject_Z (b - a) / inject_Z total * q)%Q.
Proof.
  intros Ha Hab Hb Ht H. simpl. destruct (total <? 1) eqn:E; [apply Z.ltb_lt in E; lia|].
  rewrite (sumQ_ext _ (fun r => if (a <? r) && (r <=? b) then q else 0%Q)).
  - rewrite sumQ_indicator. rewrite count_interval by lia.
    replace (total - 1 + 1) with total by lia. unfold Qdiv. ring.
  - intros r Hr. apply in_py_range' in Hr. apply H. lia.
Qed.
