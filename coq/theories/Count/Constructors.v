(* MODEL (definitions only, no proofs) of how every rule form counts:
   strategies/constructor/base.py      Constructor.param_map
   strategies/constructor/disjoint.py  DisjointUnion.{param_map,_build_children_param_maps,get_terms}
                                       Complement.{_build_children_param_maps,_build_parent_param_map,get_terms}
   strategies/constructor/cartesian.py CartesianProduct.{_build_children_param_map,min_sizes,max_sizes,
                                       get_terms,_new_param,params_value_pairs_combinations}
                                       Quotient.{__init__,param_map,_build_parent_param_map,_new_param,
                                       _other_new_param,_a,_c,_terms_to_poly,_poly_to_terms,_b,get_terms}
   strategies/rule.py                  Rule._ensure_level, EquivalenceRule.{__init__,constructor},
                                       EquivalencePathRule.constructor, ReverseRule.constructor
   including fix 25e10f1 (a product rule with a SINGLE factor as an equivalence step and in
   reverse): Quotient._c without sibling (quotient_get_terms), the CartesianProduct branch of
   EquivalenceRule.constructor (equiv_product_step, equiv_quotient_step) and the raw one-child
   product rules / ReverseRules EquivalencePathRule.constructor accepts (kstep, path_step_k)
   over the GENERATED utils.compositions (Gen/Compositions.v) and Quotient.__init__
   arithmetic (Gen/QuotientParentShift.v).

   Parameter names (strings in Python) are integers here.  A dictionary
   extra_parameters[i] : parent_var -> child_var is an association list in
   insertion order with distinct keys.  Exceptions are results Err code.     *)
From Coq Require Import ZArith List Bool.
From CSS Require Import Gen.Prelude Gen.Compositions Gen.QuotientParentShift Count.Terms.
Import ListNotations.
Open Scope Z_scope.

Inductive res (A : Type) : Type :=
| Ok (a : A)
| Err (code : Z).
Arguments Ok {A} a.
Arguments Err {A} code.

Definition E_ASSERT : Z := 1.   (* AssertionError *)
Definition E_KEY : Z := 2.      (* KeyError *)
Definition E_ZERODIV : Z := 3.  (* ZeroDivisionError *)
Definition E_NOTIMPL : Z := 4.  (* NotImplementedError *)

Definition bind {A B} (x : res A) (f : A -> res B) : res B :=
  match x with Ok a => f a | Err c => Err c end.

Fixpoint mapM {A B} (f : A -> res B) (l : list A) : res (list B) :=
  match l with
  | [] => Ok []
  | x :: r => bind (f x) (fun y => bind (mapM f r) (fun ys => Ok (y :: ys)))
  end.

(* ---------------------------------------------------------------- dictionaries *)
Definition dict := list (Z * Z).

Fixpoint dict_get (d : dict) (k : Z) : option Z :=
  match d with
  | [] => None
  | (a, b) :: r => if a =? k then Some b else dict_get r k
  end.

(* {param: pos for pos, param in enumerate(names)}[x]  (a repeated name keeps its last position) *)
Fixpoint pos_of_from (s : nat) (names : list Z) (x : Z) : option nat :=
  match names with
  | [] => None
  | nm :: r =>
      match pos_of_from (S s) r x with
      | Some p => Some p
      | None => if nm =? x then Some s else None
      end
  end.
Definition pos_of (names : list Z) (x : Z) : option nat := pos_of_from 0 names x.

Definition pos_or_keyerror (names : list Z) (x : Z) : res nat :=
  match pos_of names x with Some p => Ok p | None => Err E_KEY end.

(* _build_children_param_map(s), one child: for every child parameter the
   positions of the parent parameters mapped to it (dictionary order) *)
Definition child_pos_map (pnames cnames : list Z) (d : dict) : res (list (list nat)) :=
  mapM (fun cp : Z =>
          mapM (pos_or_keyerror pnames)
               (map fst (filter (fun e : Z * Z => snd e =? cp) d)))
       cnames.

(* _build_parent_param_map (Complement, Quotient): for every parent parameter
   the position of the child parameter it maps to, if any *)
Definition parent_pos_map (pnames cnames : list Z) (d : dict) : res (list (list nat)) :=
  mapM (fun pv : Z =>
          match dict_get d pv with
          | Some cv => bind (pos_or_keyerror cnames cv) (fun p => Ok [p])
          | None => Ok []
          end)
       pnames.

(* ---------------------------------------------------------------- the three param_map variants
   `for pos, value in enumerate(param): for p in child_pos_to_parent_pos[pos]`
   is transcribed as a walk over zip(child_pos_to_parent_pos, param); Python
   raises IndexError when param is longer than the position map (never for
   parameter tuples of the class the map was built for).                     *)
Fixpoint upd {A} (l : list A) (n : nat) (f : A -> A) : list A :=
  match l, n with
  | [], _ => []
  | x :: t, O => f x :: t
  | x :: t, S n' => x :: upd t n' f
  end.

(* Constructor.param_map: new_params[p] += value *)
Definition sum_param_map (pm : list (list nat)) (num : nat) (param : params) : params :=
  fold_left (fun acc (pv : list nat * Z) =>
               fold_left (fun acc2 p => upd acc2 p (fun x => x + snd pv)) (fst pv) acc)
            (combine pm param) (repeat 0 num).

Definition unnone (l : list (option Z)) : params :=
  map (fun o : option Z => match o with Some v => v | None => 0 end) l.

(* DisjointUnion.param_map: first value wins, a different later value is an AssertionError *)
Definition du_set (acc : res (list (option Z))) (p : nat) (value : Z) : res (list (option Z)) :=
  bind acc (fun l =>
    match nth p l None with
    | None => Ok (upd l p (fun _ => Some value))
    | Some w => if w =? value then Ok l else Err E_ASSERT
    end).

Definition du_param_map (pm : list (list nat)) (num : nat) (param : params) : res params :=
  bind (fold_left (fun acc (pv : list nat * Z) =>
                     fold_left (fun acc2 p => du_set acc2 p (snd pv)) (fst pv) acc)
                  (combine pm param) (Ok (repeat None num)))
       (fun l => Ok (unnone l)).

(* Quotient.param_map: as above, and every position must have been set *)
Definition q_set (acc : res (list (option Z))) (p : nat) (value : Z) : res (list (option Z)) :=
  bind acc (fun l =>
    match nth p l None with
    | None => Ok (upd l p (fun _ => Some value))
    | Some w => if w =? value then Ok (upd l p (fun _ => Some value)) else Err E_ASSERT
    end).

Definition q_param_map (pm : list (list nat)) (num : nat) (param : params) : res params :=
  bind (fold_left (fun acc (pv : list nat * Z) =>
                     fold_left (fun acc2 p => q_set acc2 p (snd pv)) (fst pv) acc)
                  (combine pm param) (Ok (repeat None num)))
       (fun l => if forallb (fun o : option Z => is_some o) l then Ok (unnone l) else Err E_ASSERT).

(* ---------------------------------------------------------------- DisjointUnion.get_terms *)
(* for param, value in child_terms(n).items(): new_terms[param_map(param)] += value *)
Fixpoint rekey_res (pm : params -> res params) (t : terms) : res terms :=
  match t with
  | [] => Ok []
  | (k, v) :: r => bind (pm k) (fun k' => bind (rekey_res pm r) (fun r' => Ok ((k', v) :: r')))
  end.

Fixpoint union_get_terms (pms : list (params -> res params)) (subs : list terms) : res terms :=
  match subs, pms with
  | t :: ts, pm :: pms' =>
      bind (rekey_res pm t) (fun a => bind (union_get_terms pms' ts) (fun b => Ok (a ++ b)))
  | _, _ => Ok []
  end.

(* ---------------------------------------------------------------- CartesianProduct.get_terms *)
(* itertools.product over the items() of the children's tables, first child slowest *)
Fixpoint combos (tabs : list terms) : list (list entry) :=
  match tabs with
  | [] => [[]]
  | t :: r => flat_map (fun e => map (cons e) (combos r)) t
  end.

Fixpoint zip_add (a b : params) : params :=
  match a, b with
  | x :: a', y :: b' => (x + y) :: zip_add a' b'
  | _, _ => []
  end.

Fixpoint map2 {A B C} (f : A -> B -> C) (a : list A) (b : list B) : list C :=
  match a, b with
  | x :: a', y :: b' => f x y :: map2 f a' b'
  | _, _ => []
  end.

(* _new_param: the coordinate-wise sum of the mapped child parameters (zip truncates) *)
Definition new_param (fs : list (params -> params)) (ks : list params) : params :=
  match map2 (fun f k => f k) fs ks with
  | [] => []
  | x :: r => fold_left zip_add r x
  end.

Definition zprod (l : list Z) : Z := fold_right Z.mul 1 l.

Definition combo_entry (fs : list (params -> params)) (c : list entry) : entry :=
  (new_param fs (map fst c), zprod (map snd c)).

(* (sg(s) for sg, s in zip(sub_getters, sizes)) *)
Definition tabs_at (tabs : list (Z -> terms)) (sizes : list Z) : list terms :=
  map2 (fun g s => g s) tabs sizes.

(* the entries added for all compositions within the given bounds, in order *)
Definition product_table (fs : list (params -> params)) (mins : list Z) (maxs : list (option Z))
    (tabs : list (Z -> terms)) (n : Z) : terms :=
  flat_map (fun sizes => map (combo_entry fs) (combos (tabs_at tabs sizes)))
           (compositions n (zlen tabs) mins maxs).

Definition product_get_terms := product_table.

(* ---------------------------------------------------------------- Complement.get_terms *)
(* res[key] += sgn*value ; assert res[key] >= 0   (entry by entry, in order);
   mp maps the entry's parameter first and may raise *)
Fixpoint acc_mapped (sgn : Z) (mp : params -> res params) (acc : terms) (es : list entry) : res terms :=
  match es with
  | [] => Ok acc
  | (k, v) :: r =>
      bind (mp k) (fun k' =>
        let acc' := (k', sgn * v) :: acc in
        if 0 <=? tget acc' k' then acc_mapped sgn mp acc' r else Err E_ASSERT)
  end.

Definition acc_entries (sgn : Z) (acc : terms) (es : list entry) : res terms :=
  acc_mapped sgn (fun k => Ok k) acc es.

Fixpoint complement_subtract (ppm : params -> res params) (pms : list (params -> res params))
    (subs : list terms) (acc : terms) : res terms :=
  match subs, pms with
  | t :: ts, pm :: pms' =>
      bind (acc_mapped (-1) (fun k => bind (pm k) ppm) acc t) (complement_subtract ppm pms' ts)
  | _, _ => Ok acc
  end.

(* sub0 = subterms[0](n) (the original parent), subs = subterms[1:] (the siblings) *)
Definition complement_get_terms (ppm : params -> res params) (pms : list (params -> res params))
    (sub0 : terms) (subs : list terms) : res terms :=
  bind (rekey_res ppm (filter (fun e : entry => negb (snd e =? 0)) sub0))
       (complement_subtract ppm pms subs).

(* ---------------------------------------------------------------- polynomials (Quotient) *)
(* canonical form of a table: keys increasing in lexicographic order, each once, no zero value *)
Fixpoint params_ltb (a b : params) : bool :=
  match a, b with
  | [], [] => false
  | [], _ :: _ => true
  | _ :: _, [] => false
  | x :: a', y :: b' => (x <? y) || ((x =? y) && params_ltb a' b')
  end.

Fixpoint tinsert (k : params) (v : Z) (t : terms) : terms :=
  match t with
  | [] => [(k, v)]
  | (k', v') :: r =>
      if params_eqb k k' then (k', v' + v) :: r
      else if params_ltb k k' then (k, v) :: t
      else (k', v') :: tinsert k v r
  end.

Definition tnorm (t : terms) : terms :=
  filter (fun e : entry => negb (snd e =? 0))
         (fold_left (fun acc (e : entry) => tinsert (fst e) (snd e) acc) t []).

(* leading term w.r.t. lex order k_0 > k_1 > ... of a canonical table *)
Definition lead (t : terms) : option entry := last (map Some t) None.

Fixpoint zip_sub_ok (a b : params) : option params :=
  match a, b with
  | [], [] => Some []
  | x :: a', y :: b' =>
      if x <? y then None
      else match zip_sub_ok a' b' with Some r => Some ((x - y) :: r) | None => None end
  | _, _ => None
  end.

Definition mono_mul (m : entry) (t : terms) : terms :=
  map (fun e : entry => (zip_add (fst m) (fst e), snd m * snd e)) t.

Definition tneg (t : terms) : terms := map (fun e : entry => (fst e, - snd e)) t.

(* exact division a / c for canonical a, c (c <> 0): Ok q when a = q*c, else the
   remainder is not zero (Python: `assert remainder == 0`) *)
Fixpoint poly_div_fuel (fuel : nat) (r c q : terms) : res terms :=
  match lead r with
  | None => Ok q
  | Some (kr, vr) =>
      match fuel with
      | O => Err E_ASSERT
      | S fuel' =>
          match lead c with
          | None => Err E_ZERODIV
          | Some (kc, vc) =>
              match zip_sub_ok kr kc with
              | None => Err E_ASSERT
              | Some km =>
                  if (vr mod vc =? 0) then
                    let m := (km, vr / vc) in
                    poly_div_fuel fuel' (tnorm (r ++ tneg (mono_mul m c))) c (m :: q)
                  else Err E_ASSERT
              end
          end
      end
  end.

Definition box_size (t : terms) : nat :=
  match t with
  | [] => 1%nat
  | (k0, _) :: _ =>
      let maxes := fold_left (fun acc (e : entry) => map2 Z.max acc (fst e)) t k0 in
      Z.to_nat (fold_right (fun m acc => (Z.max m 0 + 1) * acc) 1 maxes)
  end.

Definition poly_div (a c : terms) : res terms :=
  let a' := tnorm a in
  let c' := tnorm c in
  match c' with
  | [] => Err E_ZERODIV
  | _ => bind (poly_div_fuel (S (box_size a')) a' c' []) (fun q => Ok (tnorm q))
  end.

(* _b: the two branches of the code *)
Definition quotient_divide (num : nat) (a c : terms) : res terms :=
  match num with
  | O =>
      let ai := tsum a in
      let ci := tsum c in
      if ci =? 0 then Err E_ZERODIV
      else if ai mod ci =? 0
           then Ok (if ai / ci =? 0 then [] else [([], ai / ci)])
           else Err E_ASSERT
  | _ => poly_div a c
  end.

(* ---------------------------------------------------------------- Quotient.get_terms *)
Definition remove_at {A} (idx : nat) (l : list A) : list A := firstn idx l ++ skipn (S idx) l.
Definition replace_at {A} (idx : nat) (x : A) (l : list A) : list A :=
  firstn idx l ++ [x] ++ skipn (S idx) l.

(* the final loop of get_terms: new_terms[mapped] = value, asserting consistency *)
Fixpoint quotient_collect (ppm : params -> res params) (b : terms) (acc : terms) : res terms :=
  match b with
  | [] => Ok acc
  | (k, v) :: r =>
      bind (ppm k) (fun k' =>
        if existsb (fun e : entry => params_eqb (fst e) k') acc
        then (if tget acc k' =? v then quotient_collect ppm r acc else Err E_ASSERT)
        else quotient_collect ppm r ((k', v) :: acc))
  end.

(* fs: the children's (summing) parameter maps, in the ORIGINAL rule's child order;
   cs: (minimum size, is_atom) of the original children; sub0: the original parent's
   terms; tabs: the original children's sub-term providers with the rule's own
   earlier terms at position idx (children_subterms of the code)              *)
Definition quotient_get_terms (fs : list (params -> params)) (ppm : params -> res params)
    (num : nat) (cs : list (Z * bool)) (idx : nat)
    (sub0 : Z -> terms) (tabs : list (Z -> terms)) (n : Z) : res terms :=
  let mins := quotient_min_sizes cs in
  let maxs := quotient_max_sizes cs in
  let psh := quotient_parent_shift cs (Z.of_nat idx) in
  if n <? py_get 0 mins (Z.of_nat idx) then Ok []
  else
    bind (acc_entries (-1) (sub0 (n + psh))
            (product_table fs mins (replace_at idx (Some (n - 1)) maxs) tabs (n + psh)))
      (fun a =>
    bind (if (length cs =? 1)%nat
          then Ok [(repeat 0 num, 1)]   (* _c, fix 25e10f1: no sibling = the constant polynomial 1 *)
          else acc_entries 1 []
            (product_table (remove_at idx fs) (remove_at idx mins) (remove_at idx maxs)
               (remove_at idx tabs) psh))
      (fun c =>
    bind (quotient_divide num a c)
      (fun b => quotient_collect ppm b []))).

(* ---------------------------------------------------------------- rule level *)
Record kid := mkKid {
  k_names : list Z;    (* child.extra_parameters *)
  k_dict : dict;       (* strategy.extra_parameters(...)[i] : parent_var -> child_var *)
  k_min : Z;           (* minimum_size_of_object() *)
  k_atom : bool;       (* is_atom() *)
  k_empty : bool       (* is_empty() *)
}.

Definition lift_ok (f : params -> params) : params -> res params := fun k => Ok (f k).

Definition failing_map (c : Z) : params -> res params := fun _ => Err c.

(* DisjointUnion.build_param_map for one child / the parent map of Complement *)
Definition du_map_of (r : res (list (list nat))) (num : nat) : res (params -> res params) :=
  bind r (fun pm => Ok (du_param_map pm num)).

Definition sum_map_of (r : res (list (list nat))) (num : nat) : res (params -> params) :=
  bind r (fun pm => Ok (sum_param_map pm num)).

Definition kid_descs (kids : list kid) : list (Z * bool) :=
  map (fun k => (k_min k, k_atom k)) kids.

(* TermsCache / Rule._ensure_level: levels 0..N computed in order, each seeing the
   earlier ones as the rule's own terms; the first exception ends the run *)
Fixpoint levels_from (step : (Z -> terms) -> Z -> res terms) (cache : list terms) (n : Z) (todo : nat)
  : list terms * option Z :=
  match todo with
  | O => (cache, None)
  | S todo' =>
      match step (fun m => if m <? 0 then [] else nth (Z.to_nat m) cache []) n with
      | Ok t => levels_from step (cache ++ [t]) (n + 1) todo'
      | Err c => (cache, Some c)
      end
  end.

Definition levels (step : (Z -> terms) -> Z -> res terms) (N : Z) : list terms * option Z :=
  levels_from step [] 0 (Z.to_nat (N + 1)).

Definition tab_at (tabs : list terms) (n : Z) : terms :=
  if n <? 0 then [] else nth (Z.to_nat n) tabs [].

(* form 0: Rule of a DisjointUnionStrategy *)
Definition union_step (pnames : list Z) (kids : list kid) (ktabs : list (list terms))
  : (Z -> terms) -> Z -> res terms :=
  fun _ n =>
    bind (mapM (fun k => du_map_of (child_pos_map pnames (k_names k) (k_dict k)) (length pnames)) kids)
         (fun pms => union_get_terms pms (map (fun t => tab_at t n) ktabs)).

(* form 1: Rule of a CartesianProductStrategy *)
Definition product_step (pnames : list Z) (kids : list kid) (ktabs : list (list terms))
  : (Z -> terms) -> Z -> res terms :=
  fun _ n =>
    bind (mapM (fun k => sum_map_of (child_pos_map pnames (k_names k) (k_dict k)) (length pnames)) kids)
         (fun fs =>
            Ok (product_get_terms fs (map k_min kids)
                  (map (fun k => if k_atom k then Some (k_min k) else None) kids)
                  (map tab_at ktabs) n)).

(* form 2: ReverseRule of a union w.r.t. child idx (Complement) *)
Definition complement_step (pnames : list Z) (kids : list kid) (idx : nat)
    (ptabs : list terms) (ktabs : list (list terms)) : (Z -> terms) -> Z -> res terms :=
  fun _ n =>
    let kid_i := nth idx kids (mkKid [] [] 0 false false) in
    bind (mapM (fun k => du_map_of (child_pos_map pnames (k_names k) (k_dict k)) (length pnames))
               (remove_at idx kids))
      (fun pms =>
    bind (du_map_of (parent_pos_map pnames (k_names kid_i) (k_dict kid_i)) (length (k_names kid_i)))
      (fun ppm =>
         complement_get_terms ppm pms (tab_at ptabs n)
           (map (fun t => tab_at t n) (remove_at idx ktabs)))).

(* form 3: ReverseRule of a product w.r.t. child idx (Quotient) *)
Definition quotient_step (pnames : list Z) (kids : list kid) (idx : nat)
    (ptabs : list terms) (ktabs : list (list terms)) : (Z -> terms) -> Z -> res terms :=
  fun own n =>
    let kid_i := nth idx kids (mkKid [] [] 0 false false) in
    bind (mapM (fun k => sum_map_of (child_pos_map pnames (k_names k) (k_dict k)) (length pnames)) kids)
      (fun fs =>
    bind (bind (parent_pos_map pnames (k_names kid_i) (k_dict kid_i))
               (fun pm => Ok (q_param_map pm (length (k_names kid_i)))))
      (fun ppm =>
         quotient_get_terms fs ppm (length pnames) (kid_descs kids) idx (tab_at ptabs)
           (replace_at idx own (map tab_at ktabs)) n)).

(* EquivalenceRule.__init__: the first non-empty child, and its index *)
Fixpoint first_nonempty_from (s : nat) (kids : list kid) : option nat :=
  match kids with
  | [] => None
  | k :: r => if k_empty k then first_nonempty_from (S s) r else Some s
  end.
Definition first_nonempty (kids : list kid) : option nat := first_nonempty_from 0 kids.

Definition default_kid : kid := mkKid [] [] 0 false false.

(* form 4: EquivalenceRule of a union rule:
   DisjointUnion(parent, (child,), (extra_parameters[child_idx],)) *)
Definition equiv_union_step (pnames : list Z) (kids : list kid) (ktabs : list (list terms))
  : (Z -> terms) -> Z -> res terms :=
  fun _ n =>
    match first_nonempty kids with
    | None => Err E_ASSERT
    | Some ci =>
        let k := nth ci kids default_kid in
        bind (du_map_of (child_pos_map pnames (k_names k) (k_dict k)) (length pnames))
             (fun pm => union_get_terms [pm] [tab_at (nth ci ktabs []) n])
    end.

(* form 5: EquivalenceRule of the ReverseRule (w.r.t. idx) of a union rule:
   Complement(original parent, (child idx,), 0,
              (extra_parameters[original_rule.to_equivalence_rule().child_idx],)) *)
Definition equiv_complement_step (pnames : list Z) (kids : list kid) (idx : nat)
    (ptabs : list terms) : (Z -> terms) -> Z -> res terms :=
  fun _ n =>
    match first_nonempty kids with
    | None => Err E_ASSERT
    | Some ci =>
        let kd := nth ci kids default_kid in
        let kc := nth idx kids default_kid in
        bind (du_map_of (parent_pos_map pnames (k_names kc) (k_dict kd)) (length (k_names kc)))
             (fun ppm => complement_get_terms ppm [] (tab_at ptabs n) [])
    end.

(* EquivalencePathRule.constructor: the composed dictionary.
   A step is (reverse?, parent names, kids, idx) of the ORIGINAL union rule. *)
Definition dict_injective (d : dict) : bool :=
  (fix go (l : list Z) : bool :=
     match l with
     | [] => true
     | x :: r => negb (existsb (Z.eqb x) r) && go r
     end) (map snd d).

Definition dict_compose (e rp : dict) : dict :=
  flat_map (fun pc : Z * Z =>
              match dict_get rp (snd pc) with
              | Some x => [(fst pc, x)]
              | None => []
              end) e.

Definition step_desc := (bool * list Z * list kid * nat)%type.

Definition path_dict_step (acc : res dict) (s : step_desc) : res dict :=
  bind acc (fun e =>
    let '(rev, _, kids, _) := s in
    match first_nonempty kids with
    | None => Err E_ASSERT
    | Some ci =>
        let d := k_dict (nth ci kids default_kid) in
        if rev then
          (if dict_injective d then Ok (dict_compose e (map (fun ab : Z * Z => (snd ab, fst ab)) d))
           else Err E_NOTIMPL)
        else Ok (dict_compose e d)
    end).

(* names of the class a step starts from / arrives at *)
Definition step_source (s : step_desc) : list Z :=
  let '(rev, pn, kids, idx) := s in
  if rev then k_names (nth idx kids default_kid) else pn.
Definition step_target (s : step_desc) : list Z :=
  let '(rev, pn, kids, idx) := s in
  if rev then pn
  else match first_nonempty kids with
       | Some ci => k_names (nth ci kids default_kid)
       | None => []
       end.

(* form 6: EquivalencePathRule; tabs = terms of the last class *)
Definition path_step (steps : list step_desc) (tabs : list terms) : (Z -> terms) -> Z -> res terms :=
  fun _ n =>
    match steps with
    | [] => Err E_ASSERT
    | s0 :: _ =>
        let first := step_source s0 in
        let lastn := step_target (last steps s0) in
        bind (fold_left path_dict_step steps (Ok (map (fun k => (k, k)) first)))
          (fun d =>
        bind (du_map_of (child_pos_map first lastn d) (length first))
          (fun pm => union_get_terms [pm] [tab_at tabs n]))
    end.

(* ---------------------------------------------------------------- fix 25e10f1: one-factor products *)
(* form 7: EquivalenceRule of a PRODUCT rule.  EquivalenceRule.constructor:
     isinstance(original_constructor, CartesianProduct) and len(self.actual_children) == 1
       -> DisjointUnion(parent, (child,), (extra_parameters[0],))
     else raise NotImplementedError                                                       *)
Definition equiv_product_step (pnames : list Z) (kids : list kid) (ktabs : list (list terms))
  : (Z -> terms) -> Z -> res terms :=
  fun _ n =>
    match first_nonempty kids with
    | None => Err E_ASSERT
    | Some _ =>
        match kids with
        | [k] =>
            bind (du_map_of (child_pos_map pnames (k_names k) (k_dict k)) (length pnames))
                 (fun pm => union_get_terms [pm] [tab_at (nth 0 ktabs []) n])
        | _ => Err E_NOTIMPL
        end
    end.

(* form 8: EquivalenceRule of the ReverseRule of a product rule: the original constructor is a
   Quotient, for which EquivalenceRule.constructor has no branch (also after 25e10f1) *)
Definition equiv_quotient_step : (Z -> terms) -> Z -> res terms := fun _ _ => Err E_NOTIMPL.

(* The rules of an EquivalencePathRule, by kind:
     0  EquivalenceRule of a union rule            (constructor DisjointUnion, one child)
     1  EquivalenceRule of the reverse of a union  (constructor Complement, no sibling)
     2  a RAW product rule with one factor         (constructor CartesianProduct; what
        SpecificationRuleExtractor._find_rule hands out: `rule if len(rule.children) == 1`)
     3  its RAW ReverseRule                        (constructor Quotient, no sibling)
   EquivalencePathRule.__init__ asserts len(rule.children) == 1; the constructor takes
   extra_parameters[0] of every rule and inverts it for kinds 1 and 3 (injective or
   NotImplementedError): a product step contributes the dictionary of its only factor, exactly
   what the union form of the same description contributes.                              *)
Definition kstep := (Z * list Z * list kid * nat)%type.

Definition kstep_lower (s : kstep) : res step_desc :=
  let '(kind, pn, kids, idx) := s in
  if kind <? 2 then Ok (negb (kind =? 0), pn, kids, idx)
  else match kids with
       | [_] => Ok (negb (kind =? 2), pn, kids, 0%nat)
       | _ => Err E_ASSERT
       end.

(* form 6 with typed steps *)
Definition path_step_k (steps : list kstep) (tabs : list terms) : (Z -> terms) -> Z -> res terms :=
  fun own n => bind (mapM kstep_lower steps) (fun ss => path_step ss tabs own n).
