(* Soundness of the deciders of Count/ParseTreesDeciders.v:
     rankb rules = true    ->  a rank certificate exists for the specification lspec rules, for ALL sizes
                               (the hypotheses productive_reads and productive_levels of C07_generate_exact,
                               C07_generate_perm, C07_count_*, C07_objects_are_parse_trees, and rank_reads of C08 / C12's
                               object-level theorems);
     closedb rules = true  ->  the hypothesis `closed` of the same theorems.
   Nothing is said in the other direction (rankb is a sufficient criterion, see the header of ParseTreesDeciders.v). *)
From Coq Require Import ZArith List Bool Arith Lia.
From CSS Require Import Base.PyList Gen.Prelude Gen.Compositions Count.CompositionsSpec Count.ObjectsModel
                        Count.ObjectsSpec Count.ParseTreesDeciders.
Import ListNotations.
Open Scope Z_scope.

Lemma nth_error_in_combine_seq {A} (l : list A) : forall s c x,
  nth_error l c = Some x -> In ((s + c)%nat, x) (combine (seq s (length l)) l).
Proof.
  induction l as [|a l IH]; intros s c x H.
  - destruct c; discriminate.
  - destruct c as [|c]; simpl in *.
    + inversion H; subst. left. f_equal. lia.
    + right. replace (s + S c)%nat with (S s + c)%nat by lia. apply IH. assumption.
Qed.

Lemma comb_min : forall (kids : list nat) mins t k m,
  Forall2 Z.le mins t -> In (k, m) (combine kids t) ->
  exists mn, In (k, mn) (combine kids mins) /\ mn <= m /\ py_sum mins - mn <= py_sum t - m.
Proof.
  intros kids mins t k m H. revert kids. induction H as [|mn0 x mins t Hle H IH]; intros kids Hin.
  - destruct kids; simpl in Hin; contradiction.
  - destruct kids as [|k0 kids]; [contradiction|]. simpl in Hin. destruct Hin as [E|Hin].
    + inversion E; subst. exists mn0. split; [left; reflexivity|]. rewrite !py_sum_cons.
      pose proof (Forall2_le_sum _ _ H). lia.
    + destruct (IH kids Hin) as (mn & H1 & H2 & H3). exists mn. split; [right; assumption|].
      rewrite !py_sum_cons. lia.
Qed.

Lemma in_nonneg_le_sum : forall mins mn,
  Forall (fun m => 0 <= m) mins -> In mn mins -> 0 <= mn <= py_sum mins.
Proof.
  induction mins as [|a mins IH]; intros mn HF Hin; [contradiction|].
  inversion HF as [|? ? Ha Hr]; subst. rewrite py_sum_cons.
  assert (0 <= py_sum mins).
  { clear -Hr. induction Hr; [unfold py_sum; simpl; lia|rewrite py_sum_cons; lia]. }
  destruct Hin as [->|Hin]; [lia|]. specialize (IH mn Hr Hin). lia.
Qed.

Section Proofs.
Context {obj : Type}.
Implicit Types rules : list (rule obj).

Definition productive_reads (spec : nat -> option (rule obj)) (rank : nat -> Z -> nat) : Prop :=
  forall c r n c' m, spec c = Some r -> 0 <= n -> In (c', m) (reads r n) ->
                     0 <= m /\ (rank c' m < rank c n)%nat.
Definition productive_levels (rank : nat -> Z -> nat) : Prop :=
  forall c m n, 0 <= m < n -> (rank c m < rank c n)%nat.
Definition closed (spec : nat -> option (rule obj)) : Prop :=
  forall c r n c' m, spec c = Some r -> 0 <= n -> In (c', m) (reads r n) -> spec c' <> None.

Lemma pos_le rules pos :
  forallb (fun p => Nat.leb p (length rules)) pos = true -> forall c, (pos_of pos c <= length rules)%nat.
Proof.
  intros H c. unfold pos_of. destruct (nth_in_or_default c pos 0%nat) as [Hin|E]; [|rewrite E; lia].
  rewrite forallb_forall in H. apply Nat.leb_le. apply H. assumption.
Qed.

Theorem check_pos_sound rules pos : check_pos rules pos = true ->
  productive_reads (lspec rules) (rank_of rules pos) /\ productive_levels (rank_of rules pos).
Proof.
  unfold check_pos. intros H. apply andb_true_iff in H. destruct H as [Hle Hnodes].
  pose proof (pos_le _ _ Hle) as Hp.
  split.
  - intros c r n c' m Hc Hn Hin.
    assert (Hnode : node_rankb pos c r = true).
    { rewrite forallb_forall in Hnodes. apply (Hnodes (c, r)).
      apply (nth_error_in_combine_seq rules 0 c r Hc). }
    unfold node_rankb in Hnode. apply andb_true_iff in Hnode. destruct Hnode as [Hshape Hkids].
    rewrite forallb_forall in Hkids.
    assert (Hcase : 0 <= m <= n /\ (m < n \/ (pos_of pos c' < pos_of pos c)%nat)).
    { destruct r as [kids maps bwd|kids mins maxs maps bwd|tbl]; simpl in Hin.
      + apply in_map_iff in Hin. destruct Hin as (k & E & Hk). inversion E; subst.
        split; [lia|]. right. apply Nat.ltb_lt. apply Hkids. exact Hk.
      + apply in_flat_map in Hin. destruct Hin as (sizes & Hs & Hin).
        simpl in Hshape. apply andb_true_iff in Hshape. destruct Hshape as [Hlen Hmins].
        apply andb_true_iff in Hlen. destruct Hlen as [Hl1 Hl2].
        apply Nat.eqb_eq in Hl1. apply Nat.eqb_eq in Hl2.
        apply compositions_sound in Hs; [|unfold zlen; lia|unfold zlen; lia].
        destruct Hs as (_ & Hsum & Hf2 & _).
        destruct (comb_min kids mins sizes c' m Hf2 Hin) as (mn & Hmn & Hle1 & Hle2).
        assert (Hnn : Forall (fun m => 0 <= m) mins).
        { apply Forall_forall. intros x Hx. rewrite forallb_forall in Hmins. apply Z.leb_le.
          apply Hmins. assumption. }
        destruct (in_nonneg_le_sum mins mn Hnn (in_combine_r _ _ _ _ Hmn)) as [H0 H1].
        split; [lia|].
        destruct (strict_kid mins mn) eqn:Es.
        * left. unfold strict_kid in Es. apply Z.leb_le in Es. lia.
        * right. apply Nat.ltb_lt. apply Hkids. simpl. apply in_map_iff. exists (c', mn).
          split; [reflexivity|]. apply filter_In. split; [assumption|]. simpl. rewrite Es. reflexivity.
      + contradiction. }
    destruct Hcase as [Hm Hor]. split; [lia|]. unfold rank_of.
    specialize (Hp c'). destruct Hor as [Hlt|Hlt].
    + assert (Z.to_nat m + 1 <= Z.to_nat n)%nat by lia. nia.
    + assert (Z.to_nat m <= Z.to_nat n)%nat by lia. nia.
  - intros c m n H. unfold rank_of. assert (Z.to_nat m + 1 <= Z.to_nat n)%nat by lia. nia.
Qed.

Theorem rankb_sound rules : rankb rules = true ->
  exists rank, productive_reads (lspec rules) rank /\ productive_levels rank.
Proof. intros H. exists (rank_of rules (find_pos rules)). apply check_pos_sound. exact H. Qed.

Lemma reads_kids (r : rule obj) n c' m : In (c', m) (reads r n) -> In c' (kids_of r).
Proof.
  destruct r as [kids maps bwd|kids mins maxs maps bwd|tbl]; simpl; intros Hin.
  - apply in_map_iff in Hin. destruct Hin as (k & E & Hk). inversion E; subst. assumption.
  - apply in_flat_map in Hin. destruct Hin as (sizes & _ & Hin). eapply in_combine_l. eassumption.
  - contradiction.
Qed.

Theorem closedb_sound rules : closedb rules = true -> closed (lspec rules).
Proof.
  unfold closedb, closed, lspec. intros H c r n c' m Hc _ Hin.
  rewrite forallb_forall in H. specialize (H r (nth_error_In _ _ Hc)).
  rewrite forallb_forall in H. specialize (H c' (reads_kids _ _ _ _ Hin)).
  apply Nat.ltb_lt in H. apply nth_error_Some. assumption.
Qed.

End Proofs.
