(* C09, part 1: DisjointUnion.get_terms and CartesianProduct.get_terms of the model
   (Count/Constructors.v) return the parent's true table when the rule is genuine. *)
From Coq Require Import ZArith List Bool Lia Permutation.
From CSS Require Import Gen.Prelude Gen.Compositions Count.CompositionsSpec Count.Terms Count.Constructors.
Import ListNotations.
Open Scope Z_scope.

(* ---------------------------------------------------------------- genuineness *)
(* the union's true table: every child's table re-keyed through its parameter map *)
Definition union_table (fs : list (params -> params)) (tabs : list terms) : terms :=
  concat (map2 rekey fs tabs).

Definition union_genuine (fs : list (params -> params)) (tabs : list terms) (Tp : terms) : Prop :=
  teq Tp (union_table fs tabs).

(* "no bounds": all compositions of n into k non-negative parts *)
Definition zeros (k : Z) : list Z := repeat 0 (Z.to_nat k).
Definition nones (k : Z) : list (option Z) := repeat None (Z.to_nat k).

(* the product's true table at size n: the FULL convolution over all compositions *)
Definition product_genuine (fs : list (params -> params)) (tabs : list (Z -> terms)) (Tp : terms) (n : Z) : Prop :=
  teq Tp (product_table fs (zeros (zlen tabs)) (nones (zlen tabs)) tabs n).

(* a (possibly raising) map agrees with a total one on the keys of a table *)
Definition maps_ok (pm : params -> res params) (f : params -> params) (t : terms) : Prop :=
  forall k v, In (k, v) t -> pm k = Ok (f k).

Inductive MapsOk : list (params -> res params) -> list (params -> params) -> list terms -> Prop :=
| MapsOk_nil : MapsOk [] [] []
| MapsOk_cons pm f t pms fs ts :
    maps_ok pm f t -> MapsOk pms fs ts -> MapsOk (pm :: pms) (f :: fs) (t :: ts).

(* ---------------------------------------------------------------- union *)
Lemma rekey_res_ok pm f t : maps_ok pm f t -> rekey_res pm t = Ok (rekey f t).
Proof.
  induction t as [|[k v] t IH]; intros H; simpl; [reflexivity|].
  rewrite (H k v (or_introl eq_refl)). simpl.
  rewrite IH; [reflexivity|]. intros k' v' Hin. apply (H k' v'). right. exact Hin.
Qed.

Lemma union_get_terms_ok pms fs tabs :
  MapsOk pms fs tabs -> union_get_terms pms tabs = Ok (union_table fs tabs).
Proof.
  induction 1 as [|pm f t pms fs ts Hok _ IH]; simpl; [reflexivity|].
  rewrite (rekey_res_ok pm f t Hok). simpl. rewrite IH. reflexivity.
Qed.

Lemma union_correct pms fs tabs Tp :
  MapsOk pms fs tabs -> union_genuine fs tabs Tp ->
  exists r, union_get_terms pms tabs = Ok r /\ teq r Tp.
Proof.
  intros Hok Hg. exists (union_table fs tabs). split.
  - apply union_get_terms_ok. exact Hok.
  - apply teq_sym. exact Hg.
Qed.

(* ---------------------------------------------------------------- combinations *)
Lemma in_combos_cons e c t r : In (e :: c) (combos (t :: r)) <-> In e t /\ In c (combos r).
Proof.
  simpl. rewrite in_flat_map. split.
  - intros (e' & He & Hc). apply in_map_iff in Hc. destruct Hc as (c' & E & Hc'). inversion E; subst. auto.
  - intros (He & Hc). exists e. split; [exact He|]. apply in_map_iff. exists c. auto.
Qed.

Lemma combos_cons_inv x t r : In x (combos (t :: r)) -> exists e c, x = e :: c /\ In e t /\ In c (combos r).
Proof.
  simpl. rewrite in_flat_map. intros (e & He & Hc). apply in_map_iff in Hc.
  destruct Hc as (c & E & Hc). exists e, c. auto.
Qed.

Lemma combos_allzero tl : Exists allzero tl -> forall c, In c (combos tl) -> zprod (map snd c) = 0.
Proof.
  induction tl as [|t r IH]; intros Hex c Hc; [inversion Hex|].
  apply combos_cons_inv in Hc. destruct Hc as ([k v] & c' & -> & He & Hc').
  simpl. unfold zprod in *. simpl.
  inversion Hex as [? ? Hz|? ? Hz]; subst.
  - rewrite (Hz k v He). reflexivity.
  - rewrite (IH Hz c' Hc'). lia.
Qed.

Lemma combo_table_allzero fs tl : Exists allzero tl -> allzero (map (combo_entry fs) (combos tl)).
Proof.
  intros Hex k v Hin. apply in_map_iff in Hin. destruct Hin as (c & E & Hc).
  unfold combo_entry in E. inversion E; subst. apply combos_allzero with (tl := tl); assumption.
Qed.

Lemma combos_nonneg tl : Forall nonneg tl -> forall c, In c (combos tl) -> 0 <= zprod (map snd c).
Proof.
  induction tl as [|t r IH]; intros Hall c Hc.
  - simpl in Hc. destruct Hc as [<-|[]]. unfold zprod. simpl. lia.
  - apply combos_cons_inv in Hc. destruct Hc as ([k v] & c' & -> & He & Hc').
    inversion Hall as [|? ? Hn Hr]; subst. unfold zprod in *. simpl.
    pose proof (Hn k v He). pose proof (IH Hr c' Hc'). nia.
Qed.

Lemma combo_table_nonneg fs tl : Forall nonneg tl -> nonneg (map (combo_entry fs) (combos tl)).
Proof.
  intros Hall k v Hin. apply in_map_iff in Hin. destruct Hin as (c & E & Hc).
  unfold combo_entry in E. inversion E; subst. apply combos_nonneg with (tl := tl); assumption.
Qed.

(* the number of objects of a product of tables is the product of the numbers *)
Lemma tsum_combo_table fs tl : tsum (map (combo_entry fs) (combos tl)) = zprod (map tsum tl).
Proof.
  rewrite tsum_zsum, zsum_map. unfold combo_entry. simpl.
  induction tl as [|t r IH]; [unfold zprod; simpl; lia|].
  simpl combos. rewrite zsum_flat_map.
  transitivity (zsum (fun e : entry => snd e * zprod (map tsum r)) t).
  - apply zsum_ext. intros e _. rewrite zsum_map. simpl.
    rewrite <- IH. rewrite <- zsum_scale. apply zsum_ext. intros c _. unfold zprod. simpl. reflexivity.
  - unfold zprod at 2. simpl. fold (zprod (map tsum r)). rewrite tsum_zsum.
    rewrite Z.mul_comm. rewrite <- zsum_scale. apply zsum_ext. intros e _. lia.
Qed.

(* ---------------------------------------------------------------- bounds *)
Fixpoint in_bounds (mins : list Z) (maxs : list (option Z)) (t : list Z) : bool :=
  match mins, maxs, t with
  | [], [], [] => true
  | lo :: mins', hi :: maxs', x :: t' =>
      (lo <=? x) && (match hi with Some M => x <=? M | None => true end) && in_bounds mins' maxs' t'
  | _, _, _ => false
  end.

Lemma in_bounds_spec mins maxs t :
  in_bounds mins maxs t = true <-> (Forall2 Z.le mins t /\ Forall2 bounded t maxs).
Proof.
  revert maxs t. induction mins as [|lo mins IH]; intros [|hi maxs] [|x t]; simpl; split;
    try (intros H; discriminate H); try (intros [H1 H2]; inversion H1; inversion H2; fail).
  - intros _. split; constructor.
  - reflexivity.
  - intros H. apply andb_true_iff in H. destruct H as [H H3]. apply andb_true_iff in H. destruct H as [H1 H2].
    apply IH in H3. destruct H3 as [Ha Hb]. split; constructor; try assumption; [lia|].
    destruct hi as [M|]; simpl; [lia|exact I].
  - intros [H1 H2]. inversion H1; subst. inversion H2; subst.
    apply andb_true_iff. split; [apply andb_true_iff; split|].
    + lia.
    + destruct hi as [M|]; simpl in *; [lia|reflexivity].
    + apply IH. split; assumption.
Qed.

(* a child's table vanishes outside [minimum size, maximum size] *)
Inductive Vanish : list (Z -> terms) -> list Z -> list (option Z) -> Prop :=
| Vanish_nil : Vanish [] [] []
| Vanish_cons tab lo hi tabs mins maxs :
    (forall m, (m < lo \/ ~ bounded m hi) -> allzero (tab m)) ->
    Vanish tabs mins maxs -> Vanish (tab :: tabs) (lo :: mins) (hi :: maxs).

Lemma Vanish_length tabs mins maxs :
  Vanish tabs mins maxs -> length mins = length tabs /\ length maxs = length tabs.
Proof. induction 1; simpl; lia. Qed.

Lemma Vanish_exists_zero tabs mins maxs :
  Vanish tabs mins maxs -> forall t, length t = length tabs ->
  in_bounds mins maxs t = false -> Exists allzero (tabs_at tabs t).
Proof.
  induction 1 as [|tab lo hi tabs mins maxs Hz _ IH]; intros t Hlen Hb.
  - destruct t; simpl in *; [discriminate|lia].
  - destruct t as [|x t]; simpl in Hlen; [lia|]. simpl in Hb. unfold tabs_at. simpl.
    destruct (lo <=? x) eqn:E1; simpl in Hb.
    + destruct (match hi with Some M => x <=? M | None => true end) eqn:E2; simpl in Hb.
      * apply Exists_cons_tl. apply IH; [lia|exact Hb].
      * apply Exists_cons_hd. apply Hz. right. destruct hi as [M|]; simpl; [lia|discriminate].
    + apply Exists_cons_hd. apply Hz. left. lia.
Qed.

(* ---------------------------------------------------------------- all compositions *)
Lemma zlen_repeat {A} (x : A) k : 0 <= k -> zlen (repeat x (Z.to_nat k)) = k.
Proof. intros H. unfold zlen. rewrite repeat_length. lia. Qed.

Lemma Forall_zeros k : Forall (fun m => 0 <= m) (zeros k).
Proof. unfold zeros. induction (Z.to_nat k); simpl; constructor; [lia|assumption]. Qed.

Lemma Forall2_zeros_le mins t :
  Forall (fun m => 0 <= m) mins -> Forall2 Z.le mins t -> Forall2 Z.le (repeat 0 (length t)) t.
Proof.
  intros H0 H. induction H as [|m x mins t Hmx H IH]; simpl; [constructor|].
  inversion H0; subst. constructor; [lia|apply IH; assumption].
Qed.

Lemma Forall2_bounded_nones t : Forall2 bounded t (repeat None (length t)).
Proof. induction t; simpl; constructor; [exact I|assumption]. Qed.

Lemma is_comp_all n k mins maxs t :
  Forall (fun m => 0 <= m) mins -> is_comp n k mins maxs t -> is_comp n k (zeros k) (nones k) t.
Proof.
  intros H0 (L & S & Hle & Hb). unfold is_comp. repeat split; try assumption.
  - unfold zeros. rewrite <- L. unfold zlen. rewrite Nat2Z.id. eapply Forall2_zeros_le; eauto.
  - unfold nones. rewrite <- L. unfold zlen. rewrite Nat2Z.id. apply Forall2_bounded_nones.
Qed.

(* summing over the pruned compositions = summing the in-bounds summands over all compositions *)
Lemma zsum_compositions_pruned (h : list Z -> Z) n k mins maxs :
  1 <= k -> zlen mins = k -> zlen maxs = k -> Forall (fun m => 0 <= m) mins ->
  zsum h (compositions n k mins maxs) =
  zsum (fun t => if in_bounds mins maxs t then h t else 0) (compositions n k (zeros k) (nones k)).
Proof.
  intros Hk Hm HM H0.
  apply zsum_sublist; try apply compositions_nodup.
  intros t. split.
  - intros Hin. apply compositions_sound in Hin; try assumption. split.
    + apply compositions_complete; [exact Hk|apply Forall_zeros|]. eapply is_comp_all; eauto.
    + apply in_bounds_spec. destruct Hin as (_ & _ & Hle & Hb). split; assumption.
  - intros [Hin Hb]. apply compositions_sound in Hin;
      [|apply zlen_repeat; lia|apply zlen_repeat; lia].
    apply compositions_complete; try assumption.
    destruct Hin as (L & S & _ & _). apply in_bounds_spec in Hb. destruct Hb as [Hle Hbd].
    unfold is_comp. repeat split; assumption.
Qed.

Lemma all_comps_length n k t : 0 <= k -> In t (compositions n k (zeros k) (nones k)) -> zlen t = k.
Proof.
  intros Hk Hin. apply compositions_sound in Hin; [|apply zlen_repeat; lia|apply zlen_repeat; lia].
  destruct Hin as (L & _). exact L.
Qed.

(* ---------------------------------------------------------------- product *)
Definition comp_table (fs : list (params -> params)) (tabs : list (Z -> terms)) (sizes : list Z) : terms :=
  map (combo_entry fs) (combos (tabs_at tabs sizes)).

Lemma product_table_tget fs mins maxs tabs n q :
  tget (product_table fs mins maxs tabs n) q =
  zsum (fun t => tget (comp_table fs tabs t) q) (compositions n (zlen tabs) mins maxs).
Proof. unfold product_table. rewrite tget_flat_map. reflexivity. Qed.

Lemma product_table_tsum fs mins maxs tabs n :
  tsum (product_table fs mins maxs tabs n) =
  zsum (fun t => tsum (comp_table fs tabs t)) (compositions n (zlen tabs) mins maxs).
Proof. unfold product_table. rewrite tsum_flat_map. reflexivity. Qed.

(* pruning compositions by minimum sizes and atom sizes loses nothing *)
Lemma product_pruning fs mins maxs tabs n :
  1 <= zlen tabs -> Forall (fun m => 0 <= m) mins -> Vanish tabs mins maxs ->
  teq (product_table fs mins maxs tabs n)
      (product_table fs (zeros (zlen tabs)) (nones (zlen tabs)) tabs n).
Proof.
  intros Hk H0 Hv q. set (k := zlen tabs) in *.
  destruct (Vanish_length _ _ _ Hv) as [Lm LM].
  assert (Hm : zlen mins = k) by (unfold k, zlen; lia).
  assert (HM : zlen maxs = k) by (unfold k, zlen; lia).
  rewrite !product_table_tget. fold k.
  rewrite (zsum_compositions_pruned _ n k mins maxs Hk Hm HM H0).
  apply zsum_ext. intros t Hin.
  destruct (in_bounds mins maxs t) eqn:Hb; [reflexivity|].
  symmetry. apply tget_allzero. unfold comp_table. apply combo_table_allzero.
  apply (Vanish_exists_zero _ _ _ Hv); [|exact Hb].
  apply all_comps_length in Hin; [|lia]. unfold k, zlen in Hin. lia.
Qed.

Lemma product_correct fs mins maxs tabs Tp n :
  1 <= zlen tabs -> Forall (fun m => 0 <= m) mins -> Vanish tabs mins maxs ->
  product_genuine fs tabs Tp n ->
  teq (product_get_terms fs mins maxs tabs n) Tp.
Proof.
  intros Hk H0 Hv Hg. unfold product_get_terms.
  eapply teq_trans; [apply product_pruning; assumption|]. apply teq_sym. exact Hg.
Qed.
