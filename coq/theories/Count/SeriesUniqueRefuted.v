(* C20 — uniqueness of the power-series solution NEEDS the minimum-size
   condition.  The smallest witness inside the model: the (empty) class E with the
   rule  E -> E x E  and declared minimum size 1 pumps (every term is computed
   from earlier ones), its emitted equation is  F = 1 * F * F,  and both the zero
   series (the true one) and the constant series 1 satisfy it at every order.
   The natural instance is  A = x + A*A  (plane binary trees by leaves: universe
   `Tree((2,))` of the harness), solved by both branches 1/2 -+ sqrt(1-4x)/2, which
   are both power series with integer coefficients; get_genf tells them apart by
   initial conditions, i.e. by the minimum-size condition of C20_unique_series. *)
From Coq Require Import ZArith List Bool Lia.
From CSS Require Import Forest.Spec Spec.Eval Gen.Prelude Gen.ProductShifts.
From CSS Require Import Count.Series Count.SeriesConv Count.Equations Count.EquationsProofs
  Count.EquationsRules Count.SeriesUnique.
Import ListNotations.
Open Scope Z_scope.

(* the equation of a product rule from the numeric Cauchy identity *)
Lemma product_sat_intro (W : nat -> Z -> Z) c kids :
  (forall N n, 0 <= n <= N ->
     W c n = conv (map W (map fst kids)) (map (fun _ => (0, N + 1)) (map fst kids)) n) ->
  satisfies W c (UProduct kids).
Proof.
  intros H N HN. unfold rule_equation; cbn [to_rule rule_equation_with o_parent o_children o_eps].
  unfold product_equation, holds. rewrite undiv_fold_mul by reflexivity. cbn [fst snd].
  eexists. eexists. split; [apply sem_class|]. split.
  - unfold zl. rewrite <- (noeps_map fst kids), <- (noeps_map Z.of_nat (map fst kids)).
    apply (sem_plain_mul W N (map Z.of_nat (map fst kids)) (Const 1) pone eq_refl).
  - intros m Hm.
    assert (forall P, pcoef [0] P m = pcoef [0] P (xmono (m 0))) as X.
    { intros P. apply pcoef_target_ext. intros u [<-|[]]. reflexivity. }
    rewrite X, (X (fold_left _ _ _)). rewrite coef_class by lia. rewrite Nat2Z.id.
    rewrite (H N (m 0) Hm). symmetry.
    set (ks := map fst kids).
    change (fold_left pmul (map (fun k : Z => cser [] (SN (T_of W) N k)) (map Z.of_nat ks)) pone)
      with (prod_left (map (fun k : Z => cser [] (SN (T_of W) N k)) (map Z.of_nat ks))).
    rewrite (prod_left_right [0]).
    rewrite <- (conv_pcoef (map W ks) (map (fun _ => (0, N + 1)) ks)) by (rewrite !map_length; reflexivity).
    rewrite utabs_map. apply prod_right_congr.
    rewrite map_map. clear. induction ks as [|k t IH]; simpl; constructor; auto.
    intros m. rewrite (cser_utab W N (Z.of_nat k) m), Nat2Z.id. reflexivity.
Qed.

Definition rf_spec (c : nat) : option urule :=
  match c with O => Some (UProduct [(O, 1); (O, 1)]) | _ => None end.
Definition rf_keys : list fkey := [mkkey O [(O, 1); (O, 1)]].
Definition rf_T : nat -> Z -> Z := fun _ _ => 0.
Definition rf_U : nat -> Z -> Z := fun c n => match c with O => if n =? 0 then 1 else 0 | _ => 0 end.

Lemma zsum_delta lo hi (g : Z -> Z) : lo <= 0 < hi ->
  zsum lo hi (fun i => (if i =? 0 then 1 else 0) * g i) = g 0.
Proof.
  intros H. unfold zsum. rewrite (psum_single _ (zrange lo hi) 0).
  - rewrite Z.eqb_refl. lia.
  - apply zrange_nodup.
  - apply in_zrange. exact H.
  - intros x _ Hx. destruct (Z.eqb_spec x 0); [congruence|lia].
Qed.

Lemma rf_pumps : pumps rf_keys O.
Proof.
  assert (forall v, 0 <= v -> derivable rf_keys O v) as H.
  { intros v Hv. pattern v. apply natlike_ind; auto.
    - apply der_zero. lia.
    - intros x Hx IH. apply (der_rule rf_keys (mkkey O [(O, 1); (O, 1)])); [left; reflexivity|].
      intros c s [E|[E|[]]]; injection E as <- <-; replace (Z.succ x - 1) with x by lia; exact IH. }
  intros v. destruct (Z_le_gt_dec 0 v); [apply H; auto|apply der_zero; lia].
Qed.

Theorem unique_needs_minimum_sizes_refuted :
  (forall k, In k rf_keys -> exists r, rf_spec (parent k) = Some r /\ kids k = r_kids Z (to_srule r)) /\
  (forall c r, rf_spec c = Some r -> urule_wf c r) /\
  solution rf_spec rf_T /\
  (forall c m, m < 0 -> rf_U c m = 0) /\
  (forall c r, rf_spec c = Some r -> satisfies rf_U c r) /\
  pumps rf_keys O /\ rf_U O 0 <> rf_T O 0.
Proof.
  split; [|split; [|split; [|split; [|split; [|split]]]]].
  - intros k [<-|[]]. eexists. split; reflexivity.
  - intros [|c] r E; [|discriminate]. injection E as <-. simpl. repeat constructor; simpl; lia.
  - split; [reflexivity|]. split.
    + intros [|c] r E; [|discriminate]. injection E as <-. apply product_sat_intro.
      intros N n Hn. unfold rf_T. simpl. symmetry. apply zsum_zero. intros; lia.
    + intros; reflexivity.
  - intros [|c] m Hm; simpl; auto. destruct (Z.eqb_spec m 0); [lia|reflexivity].
  - intros [|c] r E; [|discriminate]. injection E as <-. apply product_sat_intro.
    intros N n Hn. cbn [map fst conv]. unfold rf_U at 2.
    rewrite (zsum_delta 0 (N + 1)) by lia.
    unfold rf_U at 2. rewrite (zsum_delta 0 (N + 1)) by lia.
    unfold rf_U. replace (n - 0 - 0) with n by lia. reflexivity.
  - apply rf_pumps.
  - simpl. discriminate.
Qed.
