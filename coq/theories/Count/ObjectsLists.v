(* C07 — list lemmas used by the object-generation proofs: duplicate-freeness
   of nested enumerations, itertools.product, and the defaultdict(list). *)
From Coq Require Import ZArith List Bool Lia.
From CSS Require Import Base.PyList Count.ObjectsModel.
Import ListNotations.
Open Scope Z_scope.

Lemma params_eqb_spec a b : params_eqb a b = true <-> a = b.
Proof.
  revert b. induction a as [|x a IH]; intros [|y b]; simpl; split; intros H; try congruence; auto.
  - apply andb_true_iff in H. destruct H as [H1 H2]. apply Z.eqb_eq in H1. apply IH in H2. congruence.
  - inversion H; subst. apply andb_true_iff. split; [apply Z.eqb_refl|apply IH; reflexivity].
Qed.

Lemma params_eqb_refl a : params_eqb a a = true.
Proof. apply params_eqb_spec. reflexivity. Qed.

Lemma params_eqb_neq a b : a <> b -> params_eqb a b = false.
Proof.
  intros H. destruct (params_eqb a b) eqn:E; auto. apply params_eqb_spec in E. contradiction.
Qed.

(* ---------------------------------------------------------------- NoDup *)
Lemma NoDup_flat_map {A B} (g : A -> list B) (l : list A) :
  NoDup l -> (forall x, In x l -> NoDup (g x)) ->
  (forall x x' y, In x l -> In x' l -> In y (g x) -> In y (g x') -> x = x') ->
  NoDup (flat_map g l).
Proof.
  intros Hl. induction Hl as [|x l Hx Hl IH]; intros Hg Hd; simpl; [constructor|].
  assert (Hgx : NoDup (g x)) by (apply Hg; left; reflexivity).
  assert (Hrest : NoDup (flat_map g l)).
  { apply IH; [intros; apply Hg; right; assumption|].
    intros a a' y Ha Ha'. apply Hd; right; assumption. }
  assert (Hdis : forall y, In y (g x) -> ~ In y (flat_map g l)).
  { intros y Hy Hin. apply in_flat_map in Hin. destruct Hin as (x' & Hx' & Hy').
    assert (x = x') by (apply (Hd x x' y); [left; reflexivity|right; assumption|assumption|assumption]).
    subst. contradiction. }
  clear - Hgx Hrest Hdis. induction Hgx as [|y gx Hy Hgx IHg]; simpl; [assumption|].
  constructor.
  - rewrite in_app_iff. intros [H|H]; [contradiction|]. apply (Hdis y); [left; reflexivity|assumption].
  - apply IHg. intros z Hz. apply Hdis. right. assumption.
Qed.

Lemma NoDup_map_inj {A B} (f : A -> B) (l : list A) :
  NoDup l -> (forall x x', In x l -> In x' l -> f x = f x' -> x = x') -> NoDup (map f l).
Proof.
  intros Hl. induction Hl as [|x l Hx Hl IH]; intros Hinj; simpl; constructor.
  - rewrite in_map_iff. intros (x' & E & Hx').
    assert (x' = x) by (apply Hinj; [right; assumption|left; reflexivity|assumption]).
    subst. contradiction.
  - apply IH. intros a a' Ha Ha'. apply Hinj; right; assumption.
Qed.

Lemma NoDup_map_fst_entries {A B} (l : list (A * B)) : NoDup (map fst l) -> NoDup l.
Proof.
  induction l as [|[a b] l IH]; simpl; intros H; [constructor|].
  inversion H as [|? ? Hnotin Hnd']; subst. constructor; [|apply IH; assumption].
  intros Hin. apply Hnotin. apply in_map_iff. exists (a, b). split; [reflexivity|assumption].
Qed.

Lemma NoDup_fst_unique {A B} (l : list (A * B)) a b b' :
  NoDup (map fst l) -> In (a, b) l -> In (a, b') l -> b = b'.
Proof.
  induction l as [|[x y] l IH]; simpl; intros H H1 H2; [contradiction|].
  inversion H as [|? ? Hnotin Hnd']; subst.
  destruct H1 as [E1|H1], H2 as [E2|H2].
  - congruence.
  - inversion E1; subst. exfalso. apply Hnotin. apply in_map_iff. exists (a, b'). split; [reflexivity|assumption].
  - inversion E2; subst. exfalso. apply Hnotin. apply in_map_iff. exists (a, b). split; [reflexivity|assumption].
  - apply IH; assumption.
Qed.

(* ---------------------------------------------------------------- itertools.product *)
Lemma in_cart {A} (ls : list (list A)) (t : list A) :
  In t (cart ls) <-> Forall2 (fun l x => In x l) ls t.
Proof.
  revert t. induction ls as [|l ls IH]; intros t; simpl.
  - split; [intros [<-|[]]; constructor|intros H; inversion H; left; reflexivity].
  - rewrite in_flat_map. split.
    + intros (x & Hx & Ht). apply in_map_iff in Ht. destruct Ht as (t' & <- & Ht').
      constructor; [assumption|apply IH; assumption].
    + intros H. inversion H as [|l' x ls' t' Hx Ht']; subst.
      exists x. split; [assumption|]. apply in_map_iff. exists t'. split; [reflexivity|apply IH; assumption].
Qed.

Lemma NoDup_cart {A} (ls : list (list A)) : Forall (@NoDup A) ls -> NoDup (cart ls).
Proof.
  induction 1 as [|l ls Hl Hls IH]; simpl; [constructor; [intros []|constructor]|].
  apply NoDup_flat_map; [assumption| |].
  - intros x _. apply NoDup_map_inj; [assumption|]. intros a b _ _ E. congruence.
  - intros x x' y _ _ Hy Hy'. apply in_map_iff in Hy. apply in_map_iff in Hy'.
    destruct Hy as (t & <- & _). destruct Hy' as (t' & E & _). congruence.
Qed.

(* ---------------------------------------------------------------- set_nth / slot *)
Lemma set_nth_repeat_cart {A} (k i : nat) (l : list A) (d : A) :
  (i < k)%nat ->
  cart (set_nth (repeat [d] k) i l) = map (fun x => set_nth (repeat d k) i x) l.
Proof.
  revert i. induction k as [|k IH]; intros i Hi; [lia|].
  destruct i as [|i]; simpl.
  - assert (Hc : cart (repeat [d] k) = [repeat d k]).
    { clear. induction k as [|k IHk]; simpl; [reflexivity|]. rewrite IHk. reflexivity. }
    rewrite Hc. clear. simpl. induction l as [|x l IHl]; simpl; [reflexivity|]. rewrite IHl. reflexivity.
  - rewrite IH by lia. rewrite app_nil_r. rewrite map_map. reflexivity.
Qed.

Lemma nth_error_set_nth_repeat {A} (k i j : nat) (d x : A) :
  (i < k)%nat -> nth_error (set_nth (repeat d k) i x) j =
                 if Nat.eqb j i then Some x else if Nat.ltb j k then Some d else None.
Proof.
  intros Hi. destruct (Nat.eqb_spec j i) as [->|Hne].
  - apply nth_error_set_nth_same. rewrite repeat_length. assumption.
  - rewrite nth_error_set_nth_other by auto.
    destruct (Nat.ltb_spec j k) as [Hj|Hj].
    + rewrite nth_error_nth' with (d := d) by (rewrite repeat_length; assumption).
      f_equal. apply nth_repeat.
    + apply nth_error_None. rewrite repeat_length. assumption.
Qed.

Section Slot.
Context {obj : Type}.

Lemma slot_inj (k i i' : nat) (o o' : obj) :
  (i < k)%nat -> (i' < k)%nat -> slot k i o = slot k i' o' -> i = i' /\ o = o'.
Proof.
  unfold slot. intros Hi Hi' E.
  assert (E1 := f_equal (fun t => nth_error t i) E). simpl in E1.
  rewrite !nth_error_set_nth_repeat in E1 by assumption.
  rewrite Nat.eqb_refl in E1.
  destruct (Nat.eqb_spec i i') as [->|Hne].
  - split; [reflexivity|congruence].
  - destruct (Nat.ltb i k); discriminate.
Qed.

(* ---------------------------------------------------------------- the defaultdict *)
Lemma dict_get_in (d : objects obj) p l :
  NoDup (map fst d) -> In (p, l) d -> dict_get d p = l.
Proof.
  induction d as [|[q l0] d IH]; simpl; intros Hnd Hin; [contradiction|].
  inversion Hnd as [|? ? Hnotin Hnd']; subst.
  destruct Hin as [E|Hin].
  - inversion E; subst. rewrite params_eqb_refl. reflexivity.
  - destruct (params_eqb q p) eqn:Eq.
    + apply params_eqb_spec in Eq. subst. exfalso. apply Hnotin.
      apply in_map_iff. exists (p, l). split; [reflexivity|assumption].
    + apply IH; assumption.
Qed.

Lemma dict_get_notin (d : objects obj) p : ~ In p (map fst d) -> dict_get d p = [].
Proof.
  induction d as [|[q l0] d IH]; simpl; intros H; [reflexivity|].
  destruct (params_eqb q p) eqn:Eq.
  - apply params_eqb_spec in Eq. subst. exfalso. apply H. left. reflexivity.
  - apply IH. intros Hin. apply H. right. assumption.
Qed.

Lemma dict_get_extend (d : objects obj) p l q :
  dict_get (dict_extend d p l) q = if params_eqb p q then dict_get d q ++ l else dict_get d q.
Proof.
  induction d as [|[r l0] d IH]; simpl.
  - destruct (params_eqb p q); reflexivity.
  - destruct (params_eqb r p) eqn:Erp; simpl.
    + apply params_eqb_spec in Erp. subst r.
      destruct (params_eqb p q); reflexivity.
    + destruct (params_eqb r q) eqn:Erq.
      * destruct (params_eqb p q) eqn:Epq; [|reflexivity].
        apply params_eqb_spec in Erq. apply params_eqb_spec in Epq. subst.
        rewrite params_eqb_refl in Erp. discriminate.
      * apply IH.
Qed.

Lemma dict_extend_keys (d : objects obj) p l :
  NoDup (map fst d) -> NoDup (map fst (dict_extend d p l)).
Proof.
  induction d as [|[r l0] d IH]; simpl; intros H.
  - constructor; [intros []|constructor].
  - inversion H as [|? ? Hnotin Hnd']; subst. destruct (params_eqb r p) eqn:E; simpl.
    + constructor; assumption.
    + constructor; [|apply IH; assumption].
      intros Hin. apply Hnotin.
      clear - Hin E. induction d as [|[a b] d IHd]; simpl in *; [destruct Hin as [Hin|[]]; subst; rewrite params_eqb_refl in E; discriminate|].
      destruct (params_eqb a p) eqn:Ea; simpl in Hin.
      * assumption.
      * destruct Hin as [Hin|Hin]; [left; assumption|right; apply IHd; assumption].
Qed.

(* what ends up under key q: the backward images of the pairs with key q, in order *)
Lemma build_fold_get (bwd : subobj obj -> list obj) (ps : list (params * subobj obj)) d q :
  dict_get (fold_left (fun d (qt : params * subobj obj) => dict_extend d (fst qt) (bwd (snd qt))) ps d) q
  = dict_get d q ++ flat_map (fun qt : params * subobj obj => if params_eqb (fst qt) q then bwd (snd qt) else []) ps.
Proof.
  revert d. induction ps as [|[p t] ps IH]; intros d; simpl; [rewrite app_nil_r; reflexivity|].
  rewrite IH. rewrite dict_get_extend. simpl.
  destruct (params_eqb p q); simpl; [rewrite app_assoc|]; reflexivity.
Qed.

Lemma build_fold_keys (bwd : subobj obj -> list obj) (ps : list (params * subobj obj)) d :
  NoDup (map fst d) ->
  NoDup (map fst (fold_left (fun d (qt : params * subobj obj) => dict_extend d (fst qt) (bwd (snd qt))) ps d)).
Proof.
  revert d. induction ps as [|[p t] ps IH]; intros d H; simpl; [assumption|].
  apply IH. apply dict_extend_keys. assumption.
Qed.

Lemma build_level_get bwd (ys : list (yield obj)) q :
  dict_get (build_level bwd ys) q =
  flat_map (fun qt : params * subobj obj => if params_eqb (fst qt) q then bwd (snd qt) else []) (pairs ys).
Proof. unfold build_level. rewrite build_fold_get. reflexivity. Qed.

Lemma build_level_keys bwd (ys : list (yield obj)) : NoDup (map fst (build_level bwd ys)).
Proof. unfold build_level. apply build_fold_keys. constructor. Qed.

End Slot.
