(* C20 — what the repaired selection of get_genf guarantees, and what it does not. *)
From Coq Require Import ZArith List Bool Lia.
From CSS Require Import Forest.Spec Spec.Eval Count.Series Count.SeriesConv Count.Equations Count.SeriesUnique
  Count.SeriesClosedForm Count.GenfSelect.
Import ListNotations.
Open Scope Z_scope.

Lemma agree_spec check g w : agree check g w = true <-> forall n, 0 <= n <= check -> g n = w n.
Proof.
  unfold agree. rewrite forallb_forall. split.
  - intros H n Hn. apply Z.eqb_eq. apply H. apply in_zrange. lia.
  - intros H n Hn. apply in_zrange in Hn. apply Z.eqb_eq. apply H. lia.
Qed.

Lemma class_ok_spec check W b c :
  class_ok check W b c = true <-> exists g, b c = Some g /\ forall n, 0 <= n <= check -> g n = W c n.
Proof.
  unfold class_ok. destruct (b c) as [g|].
  - rewrite agree_spec. split; [intros H; exists g; auto|intros [g' [E H]]; injection E as <-; auto].
  - split; [discriminate|intros [g [E _]]; discriminate].
Qed.

Lemma first_ok_spec ok bs b :
  first_ok ok bs = Some b ->
  exists pre post, bs = pre ++ b :: post /\ ok b = true /\ forall b', In b' pre -> ok b' = false.
Proof.
  induction bs as [|x t IH]; simpl; [discriminate|].
  destruct (ok x) eqn:E.
  - intros H. injection H as <-. exists [], t. split; [reflexivity|]. split; [exact E|]. intros b' [].
  - intros H. destruct (IH H) as [pre [post [Ht [Hb Hpre]]]].
    exists (x :: pre), post. split; [rewrite Ht; reflexivity|]. split; [exact Hb|].
    intros b' [<-|Hin]; auto.
Qed.

Lemma first_ok_none ok bs : first_ok ok bs = None <-> forall b, In b bs -> ok b = false.
Proof.
  induction bs as [|x t IH]; simpl.
  - split; [intros _ b []|reflexivity].
  - destruct (ok x) eqn:E.
    + split; [discriminate|]. intros H. rewrite (H x (or_introl eq_refl)) in E. discriminate.
    + rewrite IH. split; [intros H b [<-|Hb]; auto|intros H b Hb; apply H; right; auto].
Qed.

(* the repaired selection: the returned branch is one of the solver's, the first that passes, and EVERY
   class's series (the root's included) agrees with the specification's counts on the check+1 compared
   terms *)
Theorem genf_selection check root classes W bs b :
  genf_select check root classes W bs = Some b ->
  In b bs /\
  (forall c, c = root \/ In c classes ->
     exists g, b c = Some g /\ forall n, 0 <= n <= check -> g n = W c n) /\
  (exists pre post, bs = pre ++ b :: post /\
     forall b', In b' pre -> class_ok check W b' root && all_classes_agree check classes W b' = false).
Proof.
  intros H. unfold genf_select in H. destruct (first_ok_spec _ _ _ H) as [pre [post [E [Hok Hpre]]]].
  apply andb_true_iff in Hok. destruct Hok as [Hr Ha].
  split; [rewrite E; apply in_or_app; right; left; reflexivity|]. split.
  - intros c [->|Hc]; [apply class_ok_spec; exact Hr|].
    unfold all_classes_agree in Ha. rewrite forallb_forall in Ha. apply class_ok_spec. apply Ha. exact Hc.
  - exists pre, post. split; auto.
Qed.

(* it raises exactly when no branch passes *)
Theorem genf_selection_fails check root classes W bs :
  genf_select check root classes W bs = None <->
  forall b, In b bs -> class_ok check W b root && all_classes_agree check classes W b = false.
Proof. apply first_ok_none. Qed.

(* in terms of the coefficient family: agreement on the compared terms, for every class *)
Corollary genf_selection_family check root classes W bs b :
  genf_select check root classes W bs = Some b ->
  forall c, c = root \/ In c classes -> forall n, 0 <= n <= check -> family b c n = W c n.
Proof.
  intros H c Hc n Hn. destruct (genf_selection _ _ _ _ _ _ H) as [_ [A _]].
  destruct (A c Hc) as [g [E Hg]]. unfold family. rewrite E. auto.
Qed.

(* hence the selected family vanishes below every minimum size that lies within the compared terms, when
   the counts do: the third premise of the closed-form criterion comes for free there *)
Corollary genf_selection_minimum_sizes check root classes W bs b :
  genf_select check root classes W bs = Some b ->
  forall c mn m, In c classes -> mn <= check + 1 -> (forall m', m' < mn -> W c m' = 0) ->
  0 <= m < mn -> family b c m = 0.
Proof.
  intros H c mn m Hc Hmn HW Hm.
  rewrite (genf_selection_family _ _ _ _ _ _ H c (or_intror Hc) m) by lia. apply HW. lia.
Qed.

(* ------------------------------------------------------------ what the selection alone does NOT give *)
(* agreement BEYOND the compared terms: a branch that passes and differs from the counts at x^(check+1).
   (One class whose counts are 1,1,1,...; the branch 1 + x + .. + x^6.)  Agreement at every order needs the
   identity check -- the solved functions satisfy every emitted equation -- which stays per instance. *)
Definition ne_W : nat -> Z -> Z := fun _ n => if n <? 0 then 0 else 1.
Definition ne_b : branch := fun _ => Some (fun n => if (0 <=? n) && (n <=? 6) then 1 else 0).

Theorem genf_selection_not_enough :
  genf_select 6 O [O] ne_W [ne_b] = Some ne_b /\ family ne_b O 7 <> ne_W O 7.
Proof. split; [reflexivity|]. vm_compute. discriminate. Qed.

(* ------------------------------------------------------------ HISTORY: the selection before the fix *)
(* root = atom^7 x T (class 0), T (class 1) with one object of size 1.  The solver lists the branch with
   T(0) = 1 first: its root series is x^7, which has the coefficients 0,..,0 of the counts on the 7
   compared terms.  The old selection returns it (coefficient of x^7: 1, there are 0 objects); the repaired
   selection rejects it (T's series does not start with 0) and returns the right branch. *)
Definition hs_W : nat -> Z -> Z :=
  fun c n => match c with O => if n =? 8 then 1 else 0 | _ => if n =? 1 then 1 else 0 end.
Definition hs_wrong : branch :=
  fun c => match c with O => Some (fun n => if n =? 7 then 1 else 0) | _ => Some (fun n => if n =? 0 then 1 else 0) end.
Definition hs_right : branch := fun c => Some (hs_W c).

Theorem genf_selection_old_refuted :
  genf_select_old 6 O hs_W [hs_wrong; hs_right] = Some hs_wrong /\
  family hs_wrong O 7 <> hs_W O 7 /\
  genf_select 6 O [O; 1%nat] hs_W [hs_wrong; hs_right] = Some hs_right.
Proof. split; [reflexivity|]. split; [vm_compute; discriminate|reflexivity]. Qed.

(* ------------------------------------------------------------ selection + identity check = every order *)
(* The selected branch, read as a family of coefficient sequences, has the true counts at EVERY order on
   every class that pumps, PROVIDED (per instance, not implied by the selection): it satisfies every
   emitted equation at every order (the identity check) and is 0 at negative sizes; and the hypotheses of
   the closed-form criterion on the counts W hold (every rule genuine, W = the true counts = the
   specification's counts).  The minimum-size premise of the criterion is discharged by the selection
   itself when the declared minima lie within the compared terms. *)
Section Combined.
Variable uspec : nat -> option urule.
Variable keys : list fkey.
Hypothesis keys_from_spec : forall k, In k keys ->
  exists r, uspec (parent k) = Some r /\ kids k = r_kids Z (to_srule r).
Hypothesis spec_wf : forall c r, uspec c = Some r -> urule_wf c r.

Theorem genf_selected_closed_form check root classes W bs b :
  genf_select check root classes W bs = Some b ->
  (forall c r, uspec c = Some r -> genuine_u W c r) ->
  (forall c m, m < 0 -> W c m = 0) ->
  (forall c kids, uspec c = Some (UProduct kids) -> forall k m, In k kids -> m < snd k -> W (fst k) m = 0) ->
  (* the factors of products are classes of the specification, their minima within the compared terms *)
  (forall c kids, uspec c = Some (UProduct kids) -> forall k, In k kids -> In (fst k) classes /\ snd k <= check + 1) ->
  (* per instance: *)
  (forall c m, m < 0 -> family b c m = 0) ->
  (forall c r, uspec c = Some r -> satisfies (family b) c r) ->
  forall c, pumps keys c -> forall n, 0 <= n -> family b c n = W c n.
Proof.
  intros Hsel GW Wneg Wlow Hcl Gneg Gsat c Hp n Hn.
  apply (closed_form_criterion uspec keys keys_from_spec spec_wf W (family b)); auto.
  intros c0 kids E k m Hk Hm. destruct (Hcl c0 kids E k Hk) as [Hin Hmn].
  destruct (Z_lt_le_dec m 0) as [Hneg|Hpos]; [apply Gneg; auto|].
  refine (genf_selection_minimum_sizes check root classes W bs b Hsel (fst k) (snd k) m Hin Hmn _ _).
  - intros m' Hm'. apply (Wlow c0 kids E k m' Hk Hm').
  - lia.
Qed.

End Combined.
