(* C08 — what CartesianProduct._valid_compositions enumerates.

   helper d mms p  (= _helper(minmaxes, parameters)) lists, without repetition,
   exactly the matrices M (one row per child, one column per parent parameter,
   column 0 = the size) whose entries lie in the boxes mms and whose columns
   sum to p.  valid_comps adds the reliance-profile boxes.  In the
   parameter-free case the enumerated rows are the compositions that
   utils.compositions (Gen/Compositions.v, regenerated from the source) hands
   to CartesianProduct.get_terms. *)
From Coq Require Import ZArith List Bool Lia FinFun.
From CSS Require Import Gen.Prelude Gen.Compositions Count.CompositionsSpec Count.SampleModel Count.SampleWalk.
Import ListNotations.
Open Scope Z_scope.

(* ------------------------------------------------------------------ vectors *)
Lemma idxs_length d : length (idxs d) = d.
Proof. apply seq_length. Qed.

Lemma in_idxs d k : In k (idxs d) <-> (k < d)%nat.
Proof. unfold idxs. rewrite in_seq. lia. Qed.

Lemma nth_map_seq (g : nat -> Z) : forall d s k, (k < d)%nat -> nth k (map g (seq s d)) 0 = g (s + k)%nat.
Proof.
  induction d as [|d IH]; intros s k Hk; [lia|]. simpl. destruct k as [|k].
  - f_equal. lia.
  - rewrite IH by lia. f_equal. lia.
Qed.

Lemma vget_map_idxs (g : nat -> Z) d k : (k < d)%nat -> vget (map g (idxs d)) k = g k.
Proof. intros H. unfold vget, idxs. rewrite nth_map_seq by exact H. reflexivity. Qed.

Lemma map_idxs_length (g : nat -> Z) d : length (map g (idxs d)) = d.
Proof. rewrite map_length. apply idxs_length. Qed.

Lemma vec_ext : forall (u v : vec), length u = length v ->
  (forall k, (k < length u)%nat -> vget u k = vget v k) -> u = v.
Proof.
  induction u as [|x u IH]; intros [|y v] Hl H; simpl in Hl; try lia; [reflexivity|].
  f_equal.
  - apply (H 0%nat). simpl; lia.
  - apply IH; [lia|]. intros k Hk. apply (H (S k)). simpl; lia.
Qed.

Lemma map_vget_idxs (v : vec) d : length v = d -> map (vget v) (idxs d) = v.
Proof.
  intros H. apply vec_ext.
  - rewrite map_idxs_length. lia.
  - intros k Hk. rewrite map_idxs_length in Hk. apply vget_map_idxs. exact Hk.
Qed.

(* ------------------------------------------------------------------ itertools.product *)
Lemma cartesian_in : forall rs v, In v (cartesian rs) <-> Forall2 (fun x r => In x r) v rs.
Proof.
  induction rs as [|r rs IH]; intros v; simpl.
  - split.
    + intros [<-|[]]. constructor.
    + intros H. inversion H. left; reflexivity.
  - rewrite in_flat_map. split.
    + intros (x & Hx & Hv). apply in_map_iff in Hv. destruct Hv as (v' & <- & Hv').
      constructor; [exact Hx|]. apply IH. exact Hv'.
    + intros H. inversion H as [|x r' v' rs' Hx Hv']; subst. exists x. split; [exact Hx|].
      apply in_map. apply IH. exact Hv'.
Qed.

Lemma NoDup_flat_map_cons' {A} (g : A -> list (list A)) l :
  NoDup l -> (forall x, In x l -> NoDup (g x)) -> NoDup (flat_map (fun x => map (cons x) (g x)) l).
Proof.
  induction l as [|x l IH]; intros Hl Hg; simpl; [constructor|].
  inversion Hl as [|? ? Hx Hl']; subst.
  assert (D : forall (a b : list (list A)), NoDup a -> NoDup b ->
               (forall y, In y a -> ~ In y b) -> NoDup (a ++ b)).
  { induction a as [|z a IHa]; intros b Ha Hb Hd; simpl; [exact Hb|].
    inversion Ha; subst. constructor.
    - rewrite in_app_iff. intros [H|H]; [contradiction|]. apply (Hd z); [left; reflexivity|exact H].
    - apply IHa; [assumption|exact Hb|]. intros y Hy. apply Hd. right; exact Hy. }
  apply D.
  - apply Injective_map_NoDup; [intros a b E; injection E; auto|].
    apply Hg. left; reflexivity.
  - apply IH; [exact Hl'|]. intros y Hy. apply Hg. right; exact Hy.
  - intros y Hy Hy'. apply in_map_iff in Hy. destruct Hy as (t & <- & _).
    apply in_flat_map in Hy'. destruct Hy' as (x' & Hx' & Hy').
    apply in_map_iff in Hy'. destruct Hy' as (t' & E & _). injection E as -> _. contradiction.
Qed.

Lemma cartesian_nodup : forall rs, Forall (@NoDup Z) rs -> NoDup (cartesian rs).
Proof.
  induction rs as [|r rs IH]; intros H; simpl.
  - constructor; [intros []|constructor].
  - inversion H; subst. apply (NoDup_flat_map_cons' (fun _ => cartesian rs)); [assumption|].
    intros _ _. apply IH. assumption.
Qed.

Lemma NoDup_py_range' a b : NoDup (py_range a b).
Proof.
  unfold py_range. apply Injective_map_NoDup; [intros x y; lia|apply seq_NoDup].
Qed.

(* membership in a product of index-given ranges *)
Lemma Forall2_in_ranges (a b : nat -> Z) : forall d s v,
  Forall2 (fun x r => In x r) v (map (fun k => py_range (a k) (b k)) (seq s d)) <->
  length v = d /\ forall k, (k < d)%nat -> a (s + k)%nat <= nth k v 0 < b (s + k)%nat.
Proof.
  induction d as [|d IH]; intros s v; simpl.
  - split.
    + intros H. inversion H. split; [reflexivity|]. intros k Hk; lia.
    + intros [Hl _]. destruct v; [constructor|discriminate].
  - split.
    + intros H. inversion H as [|x r v' rs' Hx Hv']; subst.
      apply IH in Hv'. destruct Hv' as [Hl Hk]. split; [simpl; lia|].
      intros k Hk'. destruct k as [|k]; simpl.
      * apply in_py_range' in Hx. replace (s + 0)%nat with s by lia. exact Hx.
      * replace (s + S k)%nat with (S s + k)%nat by lia. apply Hk. lia.
    + intros [Hl Hk]. destruct v as [|x v]; [discriminate|]. constructor.
      * apply in_py_range'. specialize (Hk 0%nat ltac:(lia)). simpl in Hk.
        replace (s + 0)%nat with s in Hk by lia. exact Hk.
      * apply IH. split; [simpl in Hl; lia|]. intros k Hk'.
        specialize (Hk (S k) ltac:(lia)). simpl in Hk.
        replace (s + S k)%nat with (S s + k)%nat in Hk by lia. exact Hk.
Qed.

Lemma cartesian_ranges_in (a b : nat -> Z) d v :
  In v (cartesian (map (fun k => py_range (a k) (b k)) (idxs d))) <->
  length v = d /\ forall k, (k < d)%nat -> a k <= vget v k < b k.
Proof. rewrite cartesian_in. unfold idxs. rewrite Forall2_in_ranges. reflexivity. Qed.

(* ------------------------------------------------------------------ the specification of _helper *)
Definition row_ok (d : nat) (mm : list (Z * Z)) (v : vec) : Prop :=
  length v = d /\ forall k, (k < d)%nat -> mm_lo mm k <= vget v k <= mm_hi mm k.

Fixpoint colsum (k : nat) (M : list vec) : Z :=
  match M with [] => 0 | v :: t => vget v k + colsum k t end.

Definition is_split (d : nat) (mms : list (list (Z * Z))) (p : vec) (M : list vec) : Prop :=
  Forall2 (row_ok d) mms M /\ forall k, (k < d)%nat -> colsum k M = vget p k.

Lemma colsum_bounds d k : forall mms M, (k < d)%nat -> Forall2 (row_ok d) mms M ->
  col_lo k mms <= colsum k M <= col_hi k mms.
Proof.
  intros mms M Hk H. induction H as [|mm v mms M [_ Hr] _ IH]; simpl; [lia|].
  specialize (Hr k Hk). lia.
Qed.

Lemma helper_spec d : forall mms p M, mms <> [] ->
  (In M (helper d mms p) <-> is_split d mms p M).
Proof.
  induction mms as [|mm rest IH]; intros p M Hne; [congruence|].
  destruct rest as [|mm2 rest'].
  - (* one child left *)
    simpl.
    set (chk := forallb _ _).
    assert (Hchk : chk = true <-> forall k, (k < d)%nat -> mm_lo mm k <= vget p k <= mm_hi mm k).
    { unfold chk. rewrite forallb_forall. split.
      - intros H k Hk. specialize (H k (proj2 (in_idxs d k) Hk)). apply andb_true_iff in H. lia.
      - intros H k Hk. apply in_idxs in Hk. specialize (H k Hk). apply andb_true_iff. lia. }
    split.
    + intros HM. destruct chk eqn:E; [|destruct HM].
      destruct HM as [<-|[]]. split.
      * constructor; [|constructor]. split; [apply map_idxs_length|].
        intros k Hk. rewrite vget_map_idxs by exact Hk. apply (proj1 Hchk eq_refl); exact Hk.
      * intros k Hk. simpl. rewrite vget_map_idxs by exact Hk. lia.
    + intros [HF Hc]. inversion HF as [|? v ? M' Hrow HM']; subst. inversion HM'; subst. destruct Hrow as [Hl Hr].
      assert (Hv : v = map (vget p) (idxs d)).
      { apply vec_ext; [rewrite map_idxs_length; exact Hl|].
        intros k Hk. rewrite Hl in Hk. rewrite vget_map_idxs by exact Hk.
        specialize (Hc k Hk). simpl in Hc. lia. }
      assert (E : chk = true).
      { apply Hchk. intros k Hk. specialize (Hc k Hk). specialize (Hr k Hk). simpl in Hc. lia. }
      rewrite E. left. rewrite Hv. reflexivity.
  - (* at least two children *)
    set (rest := mm2 :: rest') in *.
    change (helper d (mm :: rest) p) with
      (flat_map (fun values : vec =>
                   map (cons values) (helper d rest (map (fun k => vget p k - vget values k) (idxs d))))
                (cartesian (map (fun k => py_range (Z.max (mm_lo mm k) (vget p k - col_hi k rest))
                                                   (Z.min (mm_hi mm k) (vget p k - col_lo k rest) + 1))
                                (idxs d)))).
    rewrite in_flat_map. split.
    + intros (v & Hv & HM). apply in_map_iff in HM. destruct HM as (M' & <- & HM').
      apply cartesian_ranges_in in Hv. destruct Hv as [Hl Hv].
      apply IH in HM'; [|discriminate]. destruct HM' as [HF Hc]. split.
      * constructor; [|exact HF]. split; [exact Hl|]. intros k Hk. specialize (Hv k Hk). lia.
      * intros k Hk. simpl. rewrite (Hc k Hk). rewrite vget_map_idxs by exact Hk. lia.
    + intros [HF Hc]. inversion HF as [|? v ? M' Hrow HM']; subst. destruct Hrow as [Hl Hr].
      exists v. split.
      * apply cartesian_ranges_in. split; [exact Hl|]. intros k Hk.
        specialize (Hc k Hk). simpl in Hc. specialize (Hr k Hk).
        pose proof (colsum_bounds d k rest M' Hk HM'). lia.
      * apply in_map. apply IH; [discriminate|]. split; [exact HM'|].
        intros k Hk. rewrite vget_map_idxs by exact Hk. specialize (Hc k Hk). simpl in Hc. lia.
Qed.

Lemma helper_nodup d : forall mms p, NoDup (helper d mms p).
Proof.
  induction mms as [|mm rest IH]; intros p; [constructor|].
  destruct rest as [|mm2 rest'].
  - simpl. destruct (forallb _ _); [constructor; [intros []|constructor]|constructor].
  - set (rest := mm2 :: rest') in *.
    change (helper d (mm :: rest) p) with
      (flat_map (fun values : vec =>
                   map (cons values) (helper d rest (map (fun k => vget p k - vget values k) (idxs d))))
                (cartesian (map (fun k => py_range (Z.max (mm_lo mm k) (vget p k - col_hi k rest))
                                                   (Z.min (mm_hi mm k) (vget p k - col_lo k rest) + 1))
                                (idxs d)))).
    apply (NoDup_flat_map_cons'
             (fun values : vec => helper d rest (map (fun k => vget p k - vget values k) (idxs d)))).
    + apply cartesian_nodup. apply Forall_forall. intros r Hr. apply in_map_iff in Hr.
      destruct Hr as (k & <- & _). apply NoDup_py_range'.
    + intros v _. apply IH.
Qed.

(* ------------------------------------------------------------------ _valid_compositions *)
(* the box reliance_profile puts around child i, coordinate k *)
Definition in_profile (d : nat) (pmins P mins : vec) (maxs : list (option Z)) (v : vec) : Prop :=
  length v = d /\
  forall k, (k < d)%nat ->
    vget mins k <= vget v k /\
    vget v k <= vget P k - vget pmins k + vget mins k /\
    (forall M, nth k maxs None = Some M -> vget v k <= M).

Lemma mm_minmax_of d pmins P mins maxs k : (k < d)%nat ->
  mm_lo (minmax_of d pmins P mins maxs) k = fst (profile_range pmins P mins maxs k) /\
  mm_hi (minmax_of d pmins P mins maxs) k = snd (profile_range pmins P mins maxs k) - 1.
Proof.
  intros Hk. unfold mm_lo, mm_hi, minmax_of, idxs.
  assert (G : forall (g : nat -> Z * Z) n s j, (j < n)%nat -> nth j (map g (seq s n)) (0, 0) = g (s + j)%nat).
  { induction n as [|n IHn]; intros s j Hj; [lia|]. simpl. destruct j; [f_equal; lia|].
    rewrite IHn by lia. f_equal. lia. }
  rewrite G by exact Hk. simpl. destruct (profile_range pmins P mins maxs k). simpl. split; reflexivity.
Qed.

Lemma row_ok_profile d pmins P mins maxs v :
  row_ok d (minmax_of d pmins P mins maxs) v <-> in_profile d pmins P mins maxs v.
Proof.
  unfold row_ok, in_profile. split; intros [Hl H]; (split; [exact Hl|]); intros k Hk;
    specialize (H k Hk); destruct (mm_minmax_of d pmins P mins maxs k Hk) as [E1 E2].
  - rewrite E1, E2 in H. unfold profile_range in H. simpl in H.
    destruct (nth k maxs None) as [M|]; simpl in H.
    + split; [lia|]. split; [lia|]. intros M' E. injection E as <-. lia.
    + split; [lia|]. split; [lia|]. intros M' E. discriminate.
  - rewrite E1, E2. unfold profile_range. simpl. destruct H as (H1 & H2 & H3).
    destruct (nth k maxs None) as [M|]; simpl.
    + specialize (H3 M eq_refl). lia.
    + lia.
Qed.

Definition comp_ok (d : nat) (pmins : vec) (mins : list vec) (maxs : list (list (option Z))) (P : vec)
           (M : list vec) : Prop :=
  Forall2 (fun (c : vec * list (option Z)) v => in_profile d pmins P (fst c) (snd c) v) (combine mins maxs) M /\
  forall k, (k < d)%nat -> colsum k M = vget P k.

(* C08_valid_compositions_spec, first half: exactly the in-profile splits, each once *)
Lemma valid_comps_spec d pmins mins maxs P M :
  combine mins maxs <> [] ->
  (In M (valid_comps d pmins mins maxs P) <-> comp_ok d pmins mins maxs P M).
Proof.
  intros Hne. unfold valid_comps, comp_ok.
  set (cm := combine mins maxs) in *.
  assert (HF : forall M, Forall2 (row_ok d) (map (fun c : vec * list (option Z) => minmax_of d pmins P (fst c) (snd c)) cm) M
                 <-> Forall2 (fun (c : vec * list (option Z)) v => in_profile d pmins P (fst c) (snd c) v) cm M).
  { clear Hne. induction cm as [|c cm IHc]; intros M0; simpl.
    - split; intros H; inversion H; constructor.
    - split; intros H; inversion H; subst; constructor;
        try (apply row_ok_profile; assumption); try (apply IHc; assumption). }
  destruct (forallb _ cm) eqn:E.
  - rewrite helper_spec by (destruct cm; [congruence|discriminate]).
    unfold is_split. rewrite HF. reflexivity.
  - split; [intros []|]. intros [HM _]. exfalso.
    assert (G : forallb (fun c : vec * list (option Z) => profile_nonempty d pmins P (fst c) (snd c)) cm = true).
    { clear E Hne HF. induction HM as [|c v cm M' Hin _ IHM]; [reflexivity|]. simpl.
      apply andb_true_iff. split; [|exact IHM].
      unfold profile_nonempty. apply forallb_forall. intros k Hk. apply in_idxs in Hk.
      destruct Hin as [_ Hin]. specialize (Hin k Hk). destruct Hin as (H1 & H2 & H3).
      unfold profile_range. destruct (nth k (snd c) None) as [Mx|].
      - specialize (H3 Mx eq_refl). apply Z.ltb_lt. lia.
      - apply Z.ltb_lt. lia. }
    congruence.
Qed.

Lemma valid_comps_nodup d pmins mins maxs P : NoDup (valid_comps d pmins mins maxs P).
Proof. unfold valid_comps. destruct (forallb _ _); [apply helper_nodup|constructor]. Qed.

(* ------------------------------------------------------------------ nothing countable is pruned *)
(* A split whose rows respect the children's own bounds (mins below, maxs above
   when present) lies in the reliance profile as soon as the parent's declared
   minimum does not exceed the sum of the children's minima. *)
Definition in_bounds (d : nat) (mins : vec) (maxs : list (option Z)) (v : vec) : Prop :=
  length v = d /\
  forall k, (k < d)%nat -> vget mins k <= vget v k /\ (forall M, nth k maxs None = Some M -> vget v k <= M).

Lemma excess_le_total d k : forall (cm : list (vec * list (option Z))) M, (k < d)%nat ->
  Forall2 (fun c v => in_bounds d (fst c) (snd c) v) cm M ->
  forall c v, In (c, v) (combine cm M) ->
    vget v k - vget (fst c) k <= colsum k M - colsum k (map fst cm).
Proof.
  intros cm M Hk H. induction H as [|c0 v0 cm M [_ H0] HF IH]; intros c v Hin; [destruct Hin|].
  simpl in Hin. simpl.
  assert (T : colsum k (map fst cm) <= colsum k M).
  { clear IH Hin. induction HF as [|c1 v1 cm M [_ H1] _ IHF]; simpl; [lia|].
    specialize (H1 k Hk). lia. }
  specialize (H0 k Hk). destruct Hin as [E|Hin].
  - injection E as <- <-. lia.
  - specialize (IH c v Hin). lia.
Qed.

Lemma valid_comps_complete d pmins mins maxs P M :
  combine mins maxs <> [] ->
  (forall k, (k < d)%nat -> vget pmins k <= colsum k (map fst (combine mins maxs))) ->
  Forall2 (fun (c : vec * list (option Z)) v => in_bounds d (fst c) (snd c) v) (combine mins maxs) M ->
  (forall k, (k < d)%nat -> colsum k M = vget P k) ->
  In M (valid_comps d pmins mins maxs P).
Proof.
  intros Hne Hp HF Hc. apply valid_comps_spec; [exact Hne|]. split; [|exact Hc].
  set (cm := combine mins maxs) in *.
  assert (G : forall c v, In (c, v) (combine cm M) -> in_profile d pmins P (fst c) (snd c) v).
  { intros c v Hin.
    assert (Hb : in_bounds d (fst c) (snd c) v).
    { clear Hp Hc Hne. induction HF as [|c0 v0 cm0 M0 H0 _ IH]; [destruct Hin|].
      destruct Hin as [E|Hin]; [injection E as <- <-; exact H0|apply IH; exact Hin]. }
    destruct Hb as [Hl Hb]. split; [exact Hl|]. intros k Hk. destruct (Hb k Hk) as [B1 B2].
    split; [exact B1|]. split; [|exact B2].
    pose proof (excess_le_total d k cm M Hk HF c v Hin). specialize (Hp k Hk). specialize (Hc k Hk). lia. }
  clear Hp Hc Hne. induction HF as [|c0 v0 cm0 M0 H0 HF0 IH]; constructor.
  - apply G. left; reflexivity.
  - apply IH. intros c v Hin. apply G. right; exact Hin.
Qed.

(* ------------------------------------------------------------------ the parameter-free case *)
(* One column (the size).  The rows enumerated by _valid_compositions are then
   exactly the compositions utils.compositions(n, k, min_sizes, max_sizes)
   yields for CartesianProduct.get_terms, provided the parent's minimum size is
   at most the sum of the children's (non-negative) minimum sizes. *)
Definition col1 (l : list Z) : list vec := map (fun s => [s]) l.
Definition col1o (l : list (option Z)) : list (list (option Z)) := map (fun s => [s]) l.
Definition sizes_of (M : list vec) : list Z := map (fun v => vget v 0) M.

Lemma sizes_of_col1 t : sizes_of (col1 t) = t.
Proof. unfold sizes_of, col1. rewrite map_map. simpl. apply map_id. Qed.

Lemma colsum0_col1 t : colsum 0 (col1 t) = py_sum t.
Proof. induction t as [|x t IH]; simpl; [reflexivity|]. unfold vget at 1. simpl. rewrite IH. reflexivity. Qed.

Lemma colsum0_sizes M : colsum 0 M = py_sum (sizes_of M).
Proof. induction M as [|v M IH]; simpl; [reflexivity|]. rewrite IH. reflexivity. Qed.

Lemma combine_col1 : forall mins maxs,
  combine (col1 mins) (col1o maxs) = map (fun c : Z * option Z => ([fst c], [snd c])) (combine mins maxs).
Proof.
  induction mins as [|m mins IH]; intros [|x maxs]; simpl; try reflexivity. rewrite IH. reflexivity.
Qed.

Lemma colsum0_fst_col1 : forall mins maxs, length mins = length maxs ->
  colsum 0 (map fst (combine (col1 mins) (col1o maxs))) = py_sum mins.
Proof.
  induction mins as [|m mins IH]; intros [|x maxs] Hl; simpl in *; try lia.
  - reflexivity.
  - unfold vget at 1. simpl. rewrite IH by lia. reflexivity.
Qed.

(* rows of a 1-column matrix within the children's bounds <-> the composition conditions *)
Lemma bounds_col1 : forall mins maxs M,
  Forall2 (fun (c : vec * list (option Z)) v => in_bounds 1 (fst c) (snd c) v) (combine (col1 mins) (col1o maxs)) M ->
  length mins = length maxs ->
  M = col1 (sizes_of M) /\ Forall2 Z.le mins (sizes_of M) /\ Forall2 bounded (sizes_of M) maxs.
Proof.
  induction mins as [|m mins IH]; intros [|x maxs] M H Hl; simpl in *; try lia.
  - inversion H; subst. repeat split; constructor.
  - inversion H as [|c v cm M' [Hlen Hb] HF]; subst. simpl in *.
    destruct (IH maxs M' HF ltac:(lia)) as (E & L1 & L2).
    destruct v as [|s [|? ?]]; try discriminate.
    specialize (Hb 0%nat ltac:(lia)). unfold vget in Hb. simpl in Hb. destruct Hb as [B1 B2].
    split; [unfold vget; simpl; f_equal; exact E|]. split.
    + constructor; [exact B1|exact L1].
    + constructor; [|exact L2]. unfold vget; simpl. destruct x as [Mx|]; simpl; [apply B2; reflexivity|exact I].
Qed.

Lemma col1_bounds : forall mins maxs t,
  Forall2 Z.le mins t -> Forall2 bounded t maxs ->
  Forall2 (fun (c : vec * list (option Z)) v => in_bounds 1 (fst c) (snd c) v) (combine (col1 mins) (col1o maxs)) (col1 t).
Proof.
  intros mins maxs t H. revert maxs. induction H as [|m s mins t Hms H IH]; intros maxs Hb.
  - inversion Hb; subst. simpl. constructor.
  - inversion Hb as [|? x ? maxs' Hx Hb']; subst. simpl. constructor; [|apply IH; exact Hb'].
    split; [reflexivity|]. intros k Hk. assert (k = 0%nat) by lia. subst k. unfold vget. simpl.
    split; [exact Hms|]. intros M E. subst x. exact Hx.
Qed.

Lemma in_profile_in_bounds d pmins P mins maxs v :
  in_profile d pmins P mins maxs v -> in_bounds d mins maxs v.
Proof.
  intros [Hl H]. split; [exact Hl|]. intros k Hk. destruct (H k Hk) as (A & _ & C). split; assumption.
Qed.

Lemma Forall2_len {A B} (R : A -> B -> Prop) l l' : Forall2 R l l' -> length l = length l'.
Proof. induction 1; simpl; congruence. Qed.

(* C08_valid_compositions_spec, second half *)
Lemma valid_comps_compositions n pmin mins maxs t :
  1 <= zlen mins -> zlen maxs = zlen mins -> Forall (fun m => 0 <= m) mins -> pmin <= py_sum mins ->
  (In (col1 t) (valid_comps 1 [pmin] (col1 mins) (col1o maxs) [n])
   <-> In t (compositions n (zlen mins) mins maxs)).
Proof.
  intros Hk Hl Hnn Hp.
  assert (Hlen : length mins = length maxs) by (unfold zlen in Hl; lia).
  assert (Hne : combine (col1 mins) (col1o maxs) <> []).
  { destruct mins as [|m mins]; [unfold zlen in Hk; simpl in Hk; lia|].
    destruct maxs as [|x maxs]; [simpl in Hlen; lia|]. simpl. discriminate. }
  split.
  - intros H. apply valid_comps_spec in H; [|exact Hne]. destruct H as [HF Hc].
    apply compositions_complete; [exact Hk|exact Hnn|].
    assert (HB : Forall2 (fun (c : vec * list (option Z)) v => in_bounds 1 (fst c) (snd c) v)
                         (combine (col1 mins) (col1o maxs)) (col1 t)).
    { clear Hc. revert HF. generalize (col1 t). generalize (combine (col1 mins) (col1o maxs)).
      induction 1; constructor; [eapply in_profile_in_bounds; eassumption|assumption]. }
    destruct (bounds_col1 mins maxs (col1 t) HB Hlen) as (_ & L1 & L2).
    rewrite sizes_of_col1 in L1, L2.
    specialize (Hc 0%nat ltac:(lia)). rewrite colsum0_col1 in Hc. unfold vget in Hc; simpl in Hc.
    split; [|split; [exact Hc|split; [exact L1|exact L2]]].
    unfold zlen. f_equal. symmetry. eapply Forall2_len. exact L1.
  - intros H. apply compositions_sound in H; [|reflexivity|exact Hl].
    destruct H as (_ & Hs & L1 & L2).
    apply valid_comps_complete.
    + exact Hne.
    + intros k Hk'. assert (k = 0%nat) by lia. subst k.
      rewrite colsum0_fst_col1 by exact Hlen. unfold vget; simpl. exact Hp.
    + apply col1_bounds; assumption.
    + intros k Hk'. assert (k = 0%nat) by lia. subst k. rewrite colsum0_col1. unfold vget; simpl. exact Hs.
Qed.

(* every enumerated matrix of the one-column case has this shape *)
Lemma valid_comps_col1_shape n pmin mins maxs M :
  length mins = length maxs -> mins <> [] ->
  In M (valid_comps 1 [pmin] (col1 mins) (col1o maxs) [n]) -> M = col1 (sizes_of M).
Proof.
  intros Hl Hne H.
  assert (Hne' : combine (col1 mins) (col1o maxs) <> []).
  { destruct mins as [|m mins]; [congruence|]. destruct maxs as [|x maxs]; [simpl in Hl; lia|]. simpl. discriminate. }
  apply valid_comps_spec in H; [|exact Hne']. destruct H as [HF _].
  assert (HB : Forall2 (fun (c : vec * list (option Z)) v => in_bounds 1 (fst c) (snd c) v)
                       (combine (col1 mins) (col1o maxs)) M).
  { revert HF. generalize (combine (col1 mins) (col1o maxs)).
    induction 1; constructor; [eapply in_profile_in_bounds; eassumption|assumption]. }
  exact (proj1 (bounds_col1 mins maxs M HB Hl)).
Qed.
