(* Invariants of the class-database model and the facts C15 is made of. *)
From Coq Require Import ZArith List Bool Lia.
From CSS Require Import Base.PyList ClassDB.Model.
Import ListNotations.
Open Scope Z_scope.

Ltac csplit := repeat match goal with |- _ /\ _ => split end.

Section Proofs.
Context {cls key : Type}.
Variable key_eqb : key -> key -> bool.
Hypothesis key_eqb_spec : forall a b, key_eqb a b = true <-> a = b.
Variable compress : cls -> key.
Variable decompress : key -> cls.
Hypothesis decompress_compress : forall c, decompress (compress c) = c.
Variable oracle : cls -> bool.

Notation db := (@db key).
Notation dict_get := (dict_get key_eqb).
Notation step := (step key_eqb compress decompress oracle).
Notation exec := (exec key_eqb compress decompress oracle).
Notation run_state := (run_state key_eqb compress decompress oracle).
Notation add_key := (add_key key_eqb).
Notation get_label := (get_label key_eqb compress).
Notation get_class := (get_class key_eqb compress decompress).
Notation set_empty := (set_empty key_eqb compress).
Notation is_empty := (is_empty key_eqb compress oracle).
Notation contains := (contains key_eqb compress).
Notation cti_get := (cti_get key_eqb).

Lemma key_eqb_refl k : key_eqb k k = true.
Proof. apply key_eqb_spec; reflexivity. Qed.

Lemma key_eqb_false a b : key_eqb a b = false <-> a <> b.
Proof.
  split.
  - intros H E. apply key_eqb_spec in E. congruence.
  - intros H. destruct (key_eqb a b) eqn:E; auto. apply key_eqb_spec in E. contradiction.
Qed.

(* label_dict as the enumeration of comb_class_list *)
Fixpoint zip_from (n : nat) (l : list key) : list (key * Z) :=
  match l with
  | [] => []
  | k :: t => (k, Z.of_nat n) :: zip_from (S n) t
  end.

Lemma zip_from_app n l k :
  zip_from n (l ++ [k]) = zip_from n l ++ [(k, Z.of_nat (n + length l))].
Proof.
  revert n; induction l as [|h t IH]; intros n; simpl.
  - rewrite Nat.add_0_r; reflexivity.
  - rewrite IH. replace (S n + length t)%nat with (n + S (length t))%nat by lia. reflexivity.
Qed.

Lemma dict_get_zip_some n l k i :
  dict_get (zip_from n l) k = Some i ->
  exists j, i = Z.of_nat (n + j) /\ nth_error l j = Some k.
Proof.
  revert n; induction l as [|h t IH]; intros n; simpl; [discriminate|].
  destruct (key_eqb h k) eqn:E.
  - intros [= <-]. apply key_eqb_spec in E; subst. exists 0%nat. rewrite Nat.add_0_r; auto.
  - intros H. destruct (IH _ H) as (j & -> & Hj). exists (S j). split; [f_equal; lia|auto].
Qed.

Lemma dict_get_zip_none n l k :
  dict_get (zip_from n l) k = None <-> ~ In k l.
Proof.
  revert n; induction l as [|h t IH]; intros n; simpl.
  - tauto.
  - destruct (key_eqb h k) eqn:E.
    + apply key_eqb_spec in E; subst. split; [discriminate|tauto].
    + apply key_eqb_false in E. rewrite IH. tauto.
Qed.

Lemma nodup_dict_get n l j k :
  NoDup l -> nth_error l j = Some k ->
  dict_get (zip_from n l) k = Some (Z.of_nat (n + j)).
Proof.
  revert n j; induction l as [|h t IH]; intros n j Hnd Hj; [destruct j; discriminate|].
  inversion Hnd as [|? ? Hnotin Hnd']; subst.
  destruct j as [|j]; simpl in *.
  - injection Hj as ->. rewrite key_eqb_refl. rewrite Nat.add_0_r; reflexivity.
  - destruct (key_eqb h k) eqn:E.
    + apply key_eqb_spec in E; subst. exfalso. apply Hnotin. eapply nth_error_In; eauto.
    + rewrite (IH (S n) j Hnd' Hj). f_equal. lia.
Qed.

Definition WF (s : db) : Prop :=
  dict s = zip_from 0 (classes s) /\
  length (empties s) = length (classes s) /\
  NoDup (classes s).

Definition label_of (s : db) (c : cls) : option Z := dict_get (dict s) (compress c).
Definition known (s : db) (c : cls) : Prop := In (compress c) (classes s).
Definition nlabels (s : db) : Z := zlen (classes s).

Lemma WF_init : WF init.
Proof. unfold WF; csplit; simpl; auto. constructor. Qed.

Lemma compress_inj c1 c2 : compress c1 = compress c2 -> c1 = c2.
Proof. intros H. rewrite <- (decompress_compress c1), H. apply decompress_compress. Qed.

Lemma label_of_range s c l : WF s -> label_of s c = Some l ->
  0 <= l < nlabels s /\ nth_error (classes s) (Z.to_nat l) = Some (compress c).
Proof.
  intros (Hd & _ & _) H. unfold label_of in H. rewrite Hd in H.
  destruct (dict_get_zip_some _ _ _ _ H) as (j & -> & Hj). simpl.
  assert (j < length (classes s))%nat by (apply nth_error_Some; congruence).
  unfold nlabels, zlen. rewrite Nat2Z.id. split; [lia|auto].
Qed.

Lemma label_of_none s c : WF s -> (label_of s c = None <-> ~ known s c).
Proof. intros (Hd & _ & _). unfold label_of, known. rewrite Hd. apply dict_get_zip_none. Qed.

Lemma label_of_nth s c j : WF s -> nth_error (classes s) j = Some (compress c) ->
  label_of s c = Some (Z.of_nat j).
Proof.
  intros (Hd & _ & Hnd) H. unfold label_of. rewrite Hd.
  rewrite (nodup_dict_get 0 _ j _ Hnd H). reflexivity.
Qed.

(* different classes never share a label *)
Lemma label_injective s c1 c2 l :
  WF s -> label_of s c1 = Some l -> label_of s c2 = Some l -> c1 = c2.
Proof.
  intros W H1 H2.
  destruct (label_of_range _ _ _ W H1) as [_ E1].
  destruct (label_of_range _ _ _ W H2) as [_ E2].
  apply compress_inj. congruence.
Qed.

(* labels are dense: every 0 <= l < n is the label of exactly the class stored at l *)
Lemma label_dense s l : WF s -> 0 <= l < nlabels s ->
  exists k, nth_error (classes s) (Z.to_nat l) = Some k /\ dict_get (dict s) k = Some l.
Proof.
  intros (Hd & _ & Hnd) Hl. unfold nlabels, zlen in Hl.
  destruct (nth_error (classes s) (Z.to_nat l)) as [k|] eqn:E.
  - exists k; split; auto. rewrite Hd, (nodup_dict_get 0 _ _ _ Hnd E). f_equal. simpl. lia.
  - apply nth_error_None in E. lia.
Qed.

(* ---- add_key ---- *)
Lemma add_key_spec s k : WF s ->
  let s' := add_key s k in
  WF s' /\
  ((In k (classes s) /\ s' = s) \/
   (~ In k (classes s) /\ classes s' = classes s ++ [k] /\
    empties s' = empties s ++ [None] /\ ncalls s' = ncalls s)).
Proof.
  intros W. pose proof W as (Hd & Hl & Hnd). unfold Model.add_key.
  destruct (dict_get (dict s) k) as [l|] eqn:E; simpl.
  - split; auto. left; split; auto.
    rewrite Hd in E. destruct (dict_get_zip_some _ _ _ _ E) as (j & _ & Hj).
    eapply nth_error_In; eauto.
  - rewrite Hd in E. apply dict_get_zip_none in E.
    split; [|right; auto].
    unfold WF; csplit; simpl.
    + rewrite zip_from_app, Hd. unfold zlen. rewrite Hl. reflexivity.
    + rewrite !app_length; simpl; lia.
    + apply NoDup_rev in Hnd. rewrite <- (rev_involutive (classes s ++ [k])).
      apply NoDup_rev. rewrite rev_app_distr; simpl. constructor; auto.
      rewrite <- in_rev; auto.
Qed.

Definition extends (s s' : db) : Prop :=
  exists ext, classes s' = classes s ++ ext.

Lemma extends_refl s : extends s s.
Proof. exists []. rewrite app_nil_r; auto. Qed.

Lemma extends_trans a b c : extends a b -> extends b c -> extends a c.
Proof. intros [e1 H1] [e2 H2]. exists (e1 ++ e2). rewrite H2, H1, app_assoc; auto. Qed.

Lemma label_of_extends s s' c l :
  WF s -> WF s' -> extends s s' -> label_of s c = Some l -> label_of s' c = Some l.
Proof.
  intros W W' [ext He] H.
  destruct (label_of_range _ _ _ W H) as [[Hl0 Hl1] Hn].
  assert (label_of s' c = Some (Z.of_nat (Z.to_nat l))) as R.
  { apply label_of_nth; auto. rewrite He. rewrite nth_error_app1; auto.
    apply nth_error_Some; congruence. }
  rewrite R. f_equal. lia.
Qed.

(* ---- mk_info under WF ---- *)
Lemma mk_info_in_range s l : WF s -> 0 <= l < nlabels s ->
  exists k e, nth_error (classes s) (Z.to_nat l) = Some k /\
              nth_error (empties s) (Z.to_nat l) = Some e /\
              mk_info s l = Info k l e.
Proof.
  intros (Hd & Hl & Hnd) Hr. unfold nlabels, zlen in Hr.
  destruct (nth_error (classes s) (Z.to_nat l)) as [k|] eqn:Ek;
    [|apply nth_error_None in Ek; lia].
  destruct (nth_error (empties s) (Z.to_nat l)) as [e|] eqn:Ee;
    [|apply nth_error_None in Ee; lia].
  exists k, e. csplit; auto. unfold mk_info.
  rewrite !py_nth_nonneg by lia. unfold zlen. rewrite Hl.
  destruct (l <? Z.of_nat (length (classes s))) eqn:E; [|lia].
  rewrite Ek, Ee. reflexivity.
Qed.

Lemma cti_get_known s c l : WF s -> label_of s c = Some l ->
  exists e, nth_error (empties s) (Z.to_nat l) = Some e /\
            cti_get s (compress c) = Info (compress c) l e.
Proof.
  intros W H. destruct (label_of_range _ _ _ W H) as [Hr Hn].
  destruct (mk_info_in_range _ _ W Hr) as (k & e & Hk & He & Hm).
  exists e; split; auto. unfold Model.cti_get. unfold label_of in H. rewrite H, Hm. congruence.
Qed.

Lemma cti_get_unknown s c : label_of s c = None -> cti_get s (compress c) = InfoNone.
Proof. unfold label_of, Model.cti_get. intros ->. reflexivity. Qed.

Lemma lti_get_spec s l : WF s ->
  (0 <= l < nlabels s /\ exists k e, nth_error (classes s) (Z.to_nat l) = Some k /\
       nth_error (empties s) (Z.to_nat l) = Some e /\ lti_get s l = Info k l e)
  \/ (~ (0 <= l < nlabels s) /\ lti_get s l = InfoNone).
Proof.
  intros W. unfold lti_get.
  destruct (l <? 0) eqn:E0; [right; split; auto; lia|].
  destruct (Z_lt_dec l (nlabels s)) as [Hlt|Hge].
  - left. assert (0 <= l < nlabels s) as Hr by lia. split; auto.
    destruct (mk_info_in_range _ _ W Hr) as (k & e & Hk & He & Hm).
    exists k, e. rewrite Hm. auto.
  - right. split; [lia|]. destruct W as (Hd & Hl & Hnd). unfold mk_info, nlabels in *.
    rewrite !py_nth_nonneg by lia. unfold zlen in *. rewrite Hl.
    destruct (l <? Z.of_nat (length (classes s))) eqn:E; [lia|]. reflexivity.
Qed.

(* ---- get_label on a class: stable, dense ---- *)
Lemma get_label_class s c : WF s ->
  exists s' l, get_label s (KC c) = (s', inl l) /\ WF s' /\ extends s s' /\
    label_of s' c = Some l /\
    ncalls s' = ncalls s /\
    ((label_of s c = Some l /\ s' = s) \/
     (label_of s c = None /\ l = nlabels s /\ classes s' = classes s ++ [compress c] /\
      empties s' = empties s ++ [None])).
Proof.
  intros W. unfold Model.get_label, get_info, get_info_c.
  destruct (label_of s c) as [l|] eqn:E.
  - destruct (cti_get_known _ _ _ W E) as (e & He & Hc). rewrite Hc.
    exists s, l. csplit; auto using extends_refl.
  - rewrite (cti_get_unknown _ _ E).
    destruct (add_key_spec s (compress c) W) as (W' & [[Hin _]|(Hnin & Hc & He & Hn)]).
    { apply label_of_none in E; auto. contradiction. }
    set (s' := add_key s (compress c)) in *.
    assert (label_of s' c = Some (nlabels s)) as Hl.
    { unfold nlabels, zlen. apply label_of_nth; auto. rewrite Hc.
      rewrite nth_error_app2, Nat.sub_diag by lia. reflexivity. }
    destruct (cti_get_known _ _ _ W' Hl) as (e & _ & Hg). rewrite Hg.
    exists s', (nlabels s). csplit; auto.
    exists [compress c]; auto.
Qed.

Lemma get_label_int s l : WF s ->
  get_label s (KI l) = (s, if (0 <=? l) && (l <? nlabels s) then inl l else inr KeyError).
Proof.
  intros W. unfold Model.get_label, get_info, get_info_i.
  destruct (lti_get_spec s l W) as [(Hr & k & e & _ & _ & ->)|(Hr & ->)].
  - destruct ((0 <=? l) && (l <? nlabels s)) eqn:E; auto; lia.
  - destruct ((0 <=? l) && (l <? nlabels s)) eqn:E; auto; lia.
Qed.

(* get_class(label) returns the class that received that label *)
Lemma get_class_of_label s c l : WF s -> label_of s c = Some l ->
  get_class s (KI l) = (s, RClass c).
Proof.
  intros W H. destruct (label_of_range _ _ _ W H) as [Hr Hn].
  unfold Model.get_class, get_info, get_info_i.
  destruct (lti_get_spec s l W) as [(_ & k & e & Hk & _ & ->)|(Hr' & _)]; [|lia].
  rewrite Hn in Hk. injection Hk as <-. rewrite decompress_compress. reflexivity.
Qed.

Lemma get_class_int_unknown s l : WF s -> ~ (0 <= l < nlabels s) ->
  get_class s (KI l) = (s, RErr KeyError).
Proof.
  intros W H. unfold Model.get_class, get_info, get_info_i.
  destruct (lti_get_spec s l W) as [(Hr & _)|(_ & ->)]; [lia|reflexivity].
Qed.

Lemma get_class_class s c : WF s ->
  exists s', get_class s (KC c) = (s', RClass c) /\ WF s' /\ extends s s'.
Proof.
  intros W. pose proof (get_label_class s c W) as (s' & l & Hg & W' & Hx & Hl & _).
  unfold Model.get_label in Hg. unfold Model.get_class.
  destruct (get_info key_eqb compress s (KC c)) as [s1 r] eqn:Er.
  injection Hg as -> Hr.
  unfold get_info, get_info_c in Er.
  exists s'. split; auto.
  destruct (cti_get_known _ _ _ W' Hl) as (e & _ & Hc).
  destruct (cti_get s (compress c)) as [k0 l0 e0| |] eqn:E0.
  - injection Er as <- <-.
    rewrite Hc in E0. injection E0 as <- <- <-. rewrite decompress_compress; auto.
  - injection Er as <- <-. rewrite Hc. rewrite decompress_compress; auto.
  - injection Er as <- <-. discriminate.
Qed.

(* membership tests are total *)
Lemma contains_int s l : WF s ->
  contains s (KI l) = RBool ((0 <=? l) && (l <? nlabels s)).
Proof.
  intros W. unfold Model.contains.
  destruct (lti_get_spec s l W) as [(Hr & k & e & _ & _ & ->)|(Hr & ->)]; f_equal; lia.
Qed.

Lemma contains_class s c : WF s ->
  contains s (KC c) = RBool (match label_of s c with Some _ => true | None => false end).
Proof.
  intros W. unfold Model.contains. destruct (label_of s c) as [l|] eqn:E.
  - destruct (cti_get_known _ _ _ W E) as (e & _ & ->). reflexivity.
  - rewrite (cti_get_unknown _ _ E). reflexivity.
Qed.

(* ---- emptiness cache ---- *)
Definition EmptyOK (s : db) : Prop :=
  forall i k b, nth_error (classes s) i = Some k ->
                nth_error (empties s) i = Some (Some b) -> b = oracle (decompress k).

Definition is_set (e : option bool) : bool := match e with Some _ => true | None => false end.
Definition nset (s : db) : nat := length (filter is_set (empties s)).
Definition CallsOK (s : db) : Prop := (ncalls s <= nset s)%nat.

(* the caller passes values/labels that belong to the class it talks about *)
Definition honest (s : db) (o : op) : Prop :=
  match o with
  | OpSetEmpty (KC c) v => v = oracle c
  | OpSetEmpty (KI l) v =>
      forall k, nth_error (classes s) (Z.to_nat l) = Some k -> v = oracle (decompress k)
  | OpIsEmpty c (Some l) => label_of s c = Some l
  | _ => True
  end.

Lemma nset_app s1 s2 : length (filter is_set (s1 ++ s2)) =
  (length (filter is_set s1) + length (filter is_set s2))%nat.
Proof. rewrite filter_app, app_length; auto. Qed.

Lemma nset_set_nth (l : list (option bool)) n v :
  (n < length l)%nat ->
  (length (filter is_set l) <= length (filter is_set (set_nth l n (Some v))))%nat /\
  (nth_error l n = Some None ->
   length (filter is_set (set_nth l n (Some v))) = S (length (filter is_set l))).
Proof.
  revert n; induction l as [|h t IH]; intros [|n] H; simpl in *; try lia.
  - destruct h as [b|]; simpl; split; try lia; intros E; try discriminate; reflexivity.
  - destruct (IH n ltac:(lia)) as [A B]. destruct h as [b|]; simpl; split; try lia; intros E;
      rewrite (B E); auto.
Qed.

Lemma py_set_in_range {A} (l : list A) k v : 0 <= k < zlen l ->
  py_set l k v = Some (set_nth l (Z.to_nat k) v).
Proof.
  intros H. unfold py_set. destruct ((0 <=? k) && (k <? zlen l)) eqn:E; auto; lia.
Qed.

Lemma set_empty_int_spec s l v : WF s -> 0 <= l < nlabels s ->
  set_empty s (KI l) v =
    (mk (classes s) (dict s) (set_nth (empties s) (Z.to_nat l) (Some v)) (ncalls s), RNone).
Proof.
  intros W Hr. unfold Model.set_empty. rewrite get_label_int by auto.
  destruct ((0 <=? l) && (l <? nlabels s)) eqn:E; [|lia].
  destruct W as (_ & Hl & _). unfold nlabels, zlen in *.
  rewrite py_set_in_range; [reflexivity|]. unfold zlen. lia.
Qed.

Lemma WF_set_empties s em :
  WF s -> length em = length (empties s) ->
  WF (mk (classes s) (dict s) em (ncalls s)).
Proof. intros (A & B & C) H. unfold WF; csplit; simpl; auto. lia. Qed.

Lemma EmptyOK_set s n v :
  EmptyOK s ->
  (forall k, nth_error (classes s) n = Some k -> v = oracle (decompress k)) ->
  EmptyOK (mk (classes s) (dict s) (set_nth (empties s) n (Some v)) (ncalls s)).
Proof.
  intros H Hv i k b Hk He; simpl in *.
  destruct (Nat.eq_dec n i) as [->|Hne].
  - destruct (Nat.lt_ge_cases i (length (empties s))) as [Hlt|Hge].
    + rewrite nth_error_set_nth_same in He by auto. injection He as <-. auto.
    + assert (nth_error (set_nth (empties s) i (Some v)) i = None) as E
        by (apply nth_error_None; rewrite set_nth_length; lia).
      congruence.
  - rewrite nth_error_set_nth_other in He by auto. eauto.
Qed.

(* one step preserves all invariants, for honest callers *)
Lemma step_inv s o : WF s -> let s' := fst (step s o) in
  WF s' /\ extends s s' /\
  (EmptyOK s -> honest s o -> EmptyOK s') /\
  (CallsOK s -> honest s o -> CallsOK s').
Proof.
  intros W. destruct o as [k|k|k|c lab|k v|c]; simpl.
  - (* get_label *)
    destruct k as [c|l].
    + destruct (get_label_class s c W) as (s' & l & Hg & W' & Hx & _ & Hn & Hcase).
      rewrite Hg; simpl. csplit; auto.
      * intros HE _. destruct Hcase as [[_ ->]|(_ & _ & Hc & Hem)]; auto.
        intros i k b Hk Hb. rewrite Hc in Hk. rewrite Hem in Hb.
        destruct (Nat.lt_ge_cases i (length (empties s))) as [Hlt|Hge].
        -- rewrite nth_error_app1 in Hb by auto.
           destruct W as (_ & Hl & _). rewrite nth_error_app1 in Hk by lia. eauto.
        -- rewrite nth_error_app2 in Hb by auto.
           destruct (i - length (empties s))%nat as [|[|n]]; simpl in Hb; discriminate.
      * intros HC _. unfold CallsOK, nset in *.
        destruct Hcase as [[_ ->]|(_ & _ & _ & Hem)]; auto.
        rewrite Hn, Hem, nset_app. simpl. lia.
    + rewrite get_label_int by auto. simpl. csplit; auto using extends_refl.
  - (* get_class *)
    destruct k as [c|l].
    + pose proof (get_label_class s c W) as (s' & l & Hg & W' & Hx & _ & Hn & Hcase).
      destruct (get_class_class s c W) as (s2 & Hg2 & W2 & Hx2).
      assert (s2 = s') as ->.
      { unfold Model.get_label in Hg. unfold Model.get_class in Hg2.
        destruct (get_info key_eqb compress s (KC c)) as [s1 r]. congruence. }
      rewrite Hg2; simpl. csplit; auto.
      * intros HE _. destruct Hcase as [[_ ->]|(_ & _ & Hc & Hem)]; auto.
        intros i k b Hk Hb. rewrite Hc in Hk. rewrite Hem in Hb.
        destruct (Nat.lt_ge_cases i (length (empties s))) as [Hlt|Hge].
        -- rewrite nth_error_app1 in Hb by auto.
           destruct W as (_ & Hl & _). rewrite nth_error_app1 in Hk by lia. eauto.
        -- rewrite nth_error_app2 in Hb by auto.
           destruct (i - length (empties s))%nat as [|[|n]]; simpl in Hb; discriminate.
      * intros HC _. unfold CallsOK, nset in *.
        destruct Hcase as [[_ ->]|(_ & _ & _ & Hem)]; auto.
        rewrite Hn, Hem, nset_app. simpl. lia.
    + destruct (Z_lt_dec l 0) as [Hn|Hn]; [rewrite get_class_int_unknown by (auto; lia)|].
      { simpl. csplit; auto using extends_refl. }
      unfold Model.get_class, get_info. simpl. csplit; auto using extends_refl.
  - (* contains *) csplit; auto using extends_refl.
  - (* is_empty *)
    unfold Model.is_empty.
    set (lo := match lab with Some l => Some l | None => Model.dict_get key_eqb (dict s) (compress c) end).
    destruct lo as [l|] eqn:Elo; simpl; [|csplit; auto using extends_refl].
    destruct (py_nth (empties s) l) as [[b|]|] eqn:En; simpl;
      try solve [csplit; auto using extends_refl].
    (* cache miss: oracle is called *)
    set (s1 := mk (classes s) (dict s) (empties s) (S (ncalls s))).
    assert (WF s1) as W1 by (destruct W as (A & B & C); unfold WF; csplit; auto).
    destruct (Z_lt_dec l 0) as [Hneg|Hnn].
    { (* negative label given: set_empty fails with KeyError, state = s1 *)
      unfold Model.set_empty. rewrite get_label_int by auto.
      destruct ((0 <=? l) && (l <? nlabels s1)) eqn:E; [lia|]. simpl.
      csplit; auto using extends_refl.
      - exists []. simpl. rewrite app_nil_r; auto.
      - intros _ Hh. exfalso. unfold lo in Elo. destruct lab as [l'|]; simpl in Hh.
        + injection Elo as ->. destruct (label_of_range _ _ _ W Hh). lia.
        + destruct (label_of_range s c l W Elo). lia. }
    assert (0 <= l < nlabels s) as Hr.
    { rewrite py_nth_nonneg in En by lia. destruct (l <? zlen (empties s)) eqn:E; [|discriminate].
      destruct W as (_ & Hl & _). unfold nlabels, zlen in *. lia. }
    rewrite (set_empty_int_spec s1 l (oracle c) W1 Hr). simpl.
    assert (nth_error (empties s) (Z.to_nat l) = Some None) as Hnone.
    { rewrite py_nth_nonneg in En by lia. destruct (l <? zlen (empties s)); [auto|discriminate]. }
    split; [|split; [|split]].
    + apply (WF_set_empties s1); auto. simpl. apply set_nth_length.
    + exists []. simpl. rewrite app_nil_r; auto.
    + intros HE Hh. apply (EmptyOK_set s1 (Z.to_nat l) (oracle c) HE).
      intros k Hk.
      assert (label_of s c = Some l) as Hl.
      { unfold lo in Elo. destruct lab; simpl in Hh; [congruence|exact Elo]. }
      destruct (label_of_range _ _ _ W Hl) as [_ Hn]. simpl in Hk. rewrite Hn in Hk.
      injection Hk as <-. rewrite decompress_compress; auto.
    + intros HC _. unfold CallsOK, nset in *. simpl.
      assert (Z.to_nat l < length (empties s))%nat as Hlt.
      { destruct W as (_ & Hl & _). unfold nlabels, zlen in Hr. lia. }
      destruct (nset_set_nth (empties s) (Z.to_nat l) (oracle c) Hlt) as [_ B].
      rewrite (B Hnone). lia.
  - (* set_empty *)
    destruct k as [c|l].
    + unfold Model.set_empty.
      destruct (get_label_class s c W) as (s' & l & Hg & W' & Hx & Hl & Hn & Hcase).
      rewrite Hg.
      destruct (label_of_range _ _ _ W' Hl) as [Hr Hnth].
      assert (0 <= l < zlen (empties s')) as Hr'.
      { destruct W' as (_ & Hl' & _). unfold nlabels, zlen in *. lia. }
      rewrite py_set_in_range by auto. simpl.
      split; [apply WF_set_empties; auto; rewrite set_nth_length; auto|].
      split; [destruct Hx as [ext Hx]; exists ext; auto|].
      assert (EmptyOK s -> EmptyOK s') as HE'.
      { intros HE. destruct Hcase as [[_ ->]|(_ & _ & Hc & Hem)]; auto.
        intros i k b Hk Hb. rewrite Hc in Hk. rewrite Hem in Hb.
        destruct (Nat.lt_ge_cases i (length (empties s))) as [Hlt|Hge].
        -- rewrite nth_error_app1 in Hb by auto.
           destruct W as (_ & Hl0 & _). rewrite nth_error_app1 in Hk by lia. eauto.
        -- rewrite nth_error_app2 in Hb by auto.
           destruct (i - length (empties s))%nat as [|[|n]]; simpl in Hb; discriminate. }
      split.
      * intros HE Hh. simpl in Hh. subst v.
        apply (EmptyOK_set s' (Z.to_nat l) (oracle c) (HE' HE)).
        intros k Hk. rewrite Hnth in Hk. injection Hk as <-. rewrite decompress_compress; auto.
      * intros HC _. unfold CallsOK, nset in *. simpl.
        assert (Z.to_nat l < length (empties s'))%nat as Hlt by (unfold zlen in Hr'; lia).
        destruct (nset_set_nth (empties s') (Z.to_nat l) v Hlt) as [A _].
        assert (length (filter is_set (empties s)) <= length (filter is_set (empties s')))%nat.
        { destruct Hcase as [[_ ->]|(_ & _ & _ & Hem)]; auto. rewrite Hem, nset_app. lia. }
        lia.
    + destruct (Z_lt_dec l 0) as [Hneg|Hnn]; [|destruct (Z_lt_dec l (nlabels s)) as [Hlt|Hge]].
      * unfold Model.set_empty. rewrite get_label_int by auto.
        destruct ((0 <=? l) && (l <? nlabels s)) eqn:E; [lia|]. simpl.
        csplit; auto using extends_refl.
      * rewrite set_empty_int_spec by (auto; lia). simpl.
        split; [apply WF_set_empties; auto; rewrite set_nth_length; auto|].
        split; [exists []; simpl; rewrite app_nil_r; auto|]. split.
        -- intros HE Hh. apply EmptyOK_set; auto.
        -- intros HC _. unfold CallsOK, nset in *. simpl.
           assert (Z.to_nat l < length (empties s))%nat as Hlt'.
           { destruct W as (_ & Hl & _). unfold nlabels, zlen in *. lia. }
           destruct (nset_set_nth (empties s) (Z.to_nat l) v Hlt') as [A _]. lia.
      * unfold Model.set_empty. rewrite get_label_int by auto.
        destruct ((0 <=? l) && (l <? nlabels s)) eqn:E; [lia|]. simpl.
        csplit; auto using extends_refl.
  - (* add *)
    destruct (add_key_spec s (compress c) W) as (W' & [[Hin ->]|(Hnin & Hc & He & Hn)]).
    + csplit; auto using extends_refl.
    + split; auto. split; [exists [compress c]; auto|]. split.
      * intros HE _ i k b Hk Hb. rewrite Hc in Hk. rewrite He in Hb.
        destruct (Nat.lt_ge_cases i (length (empties s))) as [Hlt|Hge].
        -- rewrite nth_error_app1 in Hb by auto.
           destruct W as (_ & Hl0 & _). rewrite nth_error_app1 in Hk by lia. eauto.
        -- rewrite nth_error_app2 in Hb by auto.
           destruct (i - length (empties s))%nat as [|[|n]]; simpl in Hb; discriminate.
      * intros HC _. unfold CallsOK, nset in *. rewrite Hn, He, nset_app. simpl. lia.
Qed.

(* histories in which every caller is honest *)
Fixpoint honest_hist (s : db) (ops : list op) : Prop :=
  match ops with
  | [] => True
  | o :: t => honest s o /\ honest_hist (fst (step s o)) t
  end.

Lemma run_state_cons s o t : run_state s (o :: t) = run_state (fst (step s o)) t.
Proof.
  unfold Model.run_state. simpl. destruct (step s o) as [s1 r]; simpl.
  destruct (exec s1 t); reflexivity.
Qed.

Lemma run_inv ops : forall s, WF s ->
  WF (run_state s ops) /\ extends s (run_state s ops) /\
  (EmptyOK s -> honest_hist s ops -> EmptyOK (run_state s ops)) /\
  (CallsOK s -> honest_hist s ops -> CallsOK (run_state s ops)).
Proof.
  induction ops as [|o t IH]; intros s W.
  - unfold Model.run_state; simpl. csplit; auto using extends_refl.
  - rewrite run_state_cons. destruct (step_inv s o W) as (W1 & X1 & E1 & C1).
    destruct (IH _ W1) as (W2 & X2 & E2 & C2).
    split; auto. split; [eapply extends_trans; eauto|].
    split; intros H [Hh Ht]; auto.
Qed.

Lemma EmptyOK_init : EmptyOK init.
Proof. intros [|i] k b H; simpl in H; discriminate. Qed.
Lemma CallsOK_init : CallsOK init.
Proof. unfold CallsOK; simpl; lia. Qed.

(* is_empty answers with the class's own answer *)
Lemma is_empty_correct s c lab s' b : WF s -> EmptyOK s -> honest s (OpIsEmpty c lab) ->
  is_empty s c lab = (s', RBool b) -> b = oracle c.
Proof.
  intros W HE Hh. unfold Model.is_empty.
  set (lo := match lab with Some l => Some l | None => Model.dict_get key_eqb (dict s) (compress c) end).
  destruct lo as [l|] eqn:Elo; [|intros [= ]].
  assert (label_of s c = Some l) as Hl.
  { unfold lo in Elo. destruct lab; simpl in Hh; [congruence|exact Elo]. }
  destruct (label_of_range _ _ _ W Hl) as [Hr Hn].
  destruct (py_nth (empties s) l) as [[b0|]|] eqn:En; simpl; intros Heq.
  - injection Heq as <- <-. rewrite py_nth_nonneg in En by lia.
    destruct (l <? zlen (empties s)); [|discriminate].
    rewrite (HE _ _ _ Hn En), decompress_compress; auto.
  - destruct (set_empty _ _ _) as [s2 r]. destruct r; try discriminate; injection Heq as _ <-; auto.
  - discriminate.
Qed.

End Proofs.
