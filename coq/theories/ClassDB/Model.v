(* Executable model of comb_spec_searcher/class_db.py (ClassDB, ClassToInfo,
   LabelToInfo), transcribed method by method.  Python behaviour is modelled as
   it is: list indexing wraps negative indices and raises IndexError (not
   KeyError) out of range; Mapping.get only swallows KeyError.
   The class type, its compression and its emptiness test are Section
   variables: the theorems hold for every instantiation. *)
From Coq Require Import ZArith List Bool.
From CSS Require Import Base.PyList.
Import ListNotations.
Open Scope Z_scope.

Inductive err := KeyError | IndexError | TypeError | ValueError.

Section ClassDB.
Context {cls key : Type}.
Variable key_eqb : key -> key -> bool.
Variable compress : cls -> key.      (* ClassDB._compress *)
Variable decompress : key -> cls.    (* ClassDB._decompress *)
Variable oracle : cls -> bool.       (* comb_class.is_empty() *)

Record db := mk {
  classes : list key;            (* comb_class_list *)
  dict : list (key * Z);         (* label_dict, insertion ordered *)
  empties : list (option bool);  (* empty_list *)
  ncalls : nat                   (* _empty_num_application *)
}.

Definition init : db := mk [] [] [] 0.

Inductive res :=
| RLabel (l : Z) | RClass (c : cls) | RBool (b : bool) | RNone | RErr (e : err).

Fixpoint dict_get (d : list (key * Z)) (k : key) : option Z :=
  match d with
  | [] => None
  | (k', l) :: t => if key_eqb k' k then Some l else dict_get t k
  end.

Inductive info_res :=
| Info (c : key) (l : Z) (e : option bool)
| InfoNone
| InfoIndexError.

(* Info(self.comb_class_list[label], label, self.empty_list[label]) *)
Definition mk_info (s : db) (l : Z) : info_res :=
  match py_nth (classes s) l, py_nth (empties s) l with
  | Some c, Some e => Info c l e
  | _, _ => InfoIndexError
  end.

(* ClassToInfo.__getitem__ : only KeyError is caught *)
Definition cti_get (s : db) (k : key) : info_res :=
  match dict_get (dict s) k with
  | None => InfoNone
  | Some l => mk_info s l
  end.

(* LabelToInfo.__getitem__ : negative labels are absent; KeyError and
   IndexError are caught *)
Definition lti_get (s : db) (l : Z) : info_res :=
  if l <? 0 then InfoNone
  else match mk_info s l with
       | InfoIndexError => InfoNone
       | i => i
       end.

(* ClassDB.add(compressed_class, compressed=True) *)
Definition add_key (s : db) (k : key) : db :=
  match dict_get (dict s) k with     (* compressed_class not in self.class_to_info *)
  | Some _ => s
  | None =>
      let label := zlen (empties s) in    (* len(self.class_to_info) *)
      mk (classes s ++ [k]) (dict s ++ [(k, label)]) (empties s ++ [None]) (ncalls s)
  end.

(* ClassDB._get_info, class key *)
Definition get_info_c (s : db) (c : cls) : db * info_res :=
  let k := compress c in
  match cti_get s k with
  | InfoNone => let s' := add_key s k in (s', cti_get s' k)
  | i => (s, i)
  end.

(* ClassDB._get_info, int key: None -> KeyError *)
Definition get_info_i (s : db) (l : Z) : info_res := lti_get s l.

Inductive keyarg := KC (c : cls) | KI (l : Z).

Definition get_info (s : db) (k : keyarg) : db * (info_res + err) :=
  match k with
  | KC c => let '(s', i) := get_info_c s c in
            (s', match i with InfoIndexError => inr IndexError | _ => inl i end)
  | KI l => (s, match get_info_i s l with
                | InfoNone => inr KeyError
                | InfoIndexError => inr IndexError
                | i => inl i
                end)
  end.

Definition get_label (s : db) (k : keyarg) : db * (Z + err) :=
  let '(s', r) := get_info s k in
  (s', match r with
       | inl (Info _ l _) => inl l
       | inl _ => inr KeyError
       | inr e => inr e
       end).

Definition get_class (s : db) (k : keyarg) : db * res :=
  let '(s', r) := get_info s k in
  (s', match r with
       | inl (Info c _ _) => RClass (decompress c)
       | inl _ => RErr KeyError
       | inr e => RErr e
       end).

(* ClassDB.__contains__ : Mapping.get catches KeyError only *)
Definition contains (s : db) (k : keyarg) : res :=
  match k with
  | KC c => match cti_get s (compress c) with
            | Info _ _ _ => RBool true
            | InfoNone => RBool false
            | InfoIndexError => RErr IndexError
            end
  | KI l => match lti_get s l with
            | Info _ _ _ => RBool true
            | InfoNone => RBool false
            | InfoIndexError => RErr IndexError
            end
  end.

(* ClassDB.set_empty(key, empty) *)
Definition set_empty (s : db) (k : keyarg) (v : bool) : db * res :=
  let '(s', r) := get_label s k in
  match r with
  | inr e => (s', RErr e)
  | inl l => match py_set (empties s') l (Some v) with
             | Some em => (mk (classes s') (dict s') em (ncalls s'), RNone)
             | None => (s', RErr IndexError)
             end
  end.

(* ClassDB.is_empty(comb_class, label) *)
Definition is_empty (s : db) (c : cls) (lab : option Z) : db * res :=
  match (match lab with
         | Some l => Some l
         | None => dict_get (dict s) (compress c)
         end) with
  | None => (s, RErr KeyError)
  | Some l =>
      match py_nth (empties s) l with
      | None => (s, RErr IndexError)
      | Some (Some b) => (s, RBool b)
      | Some None =>
          let b := oracle c in
          let s1 := mk (classes s) (dict s) (empties s) (S (ncalls s)) in
          let '(s2, r) := set_empty s1 (KI l) b in
          match r with
          | RErr e => (s2, RErr e)
          | _ => (s2, RBool b)
          end
      end
  end.

Inductive op :=
| OpGetLabel (k : keyarg)
| OpGetClass (k : keyarg)
| OpContains (k : keyarg)
| OpIsEmpty (c : cls) (lab : option Z)
| OpSetEmpty (k : keyarg) (v : bool)
| OpAdd (c : cls).

Definition step (s : db) (o : op) : db * res :=
  match o with
  | OpGetLabel k => let '(s', r) := get_label s k in
                    (s', match r with inl l => RLabel l | inr e => RErr e end)
  | OpGetClass k => get_class s k
  | OpContains k => (s, contains s k)
  | OpIsEmpty c lab => is_empty s c lab
  | OpSetEmpty k v => set_empty s k v
  | OpAdd c => (add_key s (compress c), RNone)
  end.

Fixpoint exec (s : db) (ops : list op) : db * list res :=
  match ops with
  | [] => (s, [])
  | o :: t => let '(s1, r) := step s o in
              let '(s2, rs) := exec s1 t in
              (s2, r :: rs)
  end.

Definition run_state (s : db) (ops : list op) : db := fst (exec s ops).

End ClassDB.
