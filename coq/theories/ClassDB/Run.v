(* sx interface of the class-database model: classes are integers (indices into
   the harness's class pool), compression is the identity, the emptiness
   oracle is the table sent with the case. *)
From Coq Require Import ZArith List Bool.
From CSS Require Import Base.Sx Base.PyList ClassDB.Model.
Import ListNotations.
Open Scope Z_scope.

Definition oracle_of (bits : list Z) (c : Z) : bool :=
  negb (Z.eqb (nth (Z.to_nat c) bits 0) 0).

Definition dec_key (kind v : Z) : @keyarg Z := if Z.eqb kind 0 then KC v else KI v.

Definition dec_op (s : sx) : @op Z :=
  let a := sx_Zs s in
  let g n := nth n a 0 in
  match g 0%nat with
  | 0 => OpGetLabel (dec_key (g 1%nat) (g 2%nat))
  | 1 => OpGetClass (dec_key (g 1%nat) (g 2%nat))
  | 2 => OpContains (dec_key (g 1%nat) (g 2%nat))
  | 3 => OpIsEmpty (g 1%nat) (match a with [_; _; l] => Some l | _ => None end)
  | 4 => OpSetEmpty (dec_key (g 1%nat) (g 2%nat)) (negb (Z.eqb (g 3%nat) 0))
  | _ => OpAdd (g 1%nat)
  end.

Definition err_code (e : err) : Z :=
  match e with KeyError => 1 | IndexError => 2 | TypeError => 3 | ValueError => 4 end.

Definition enc_res (r : @res Z) : sx :=
  match r with
  | RLabel l => L [I 0; I l]
  | RClass c => L [I 1; I c]
  | RBool b => L [I 2; of_bool b]
  | RNone => L [I 3]
  | RErr e => L [I 4; I (err_code e)]
  end.

Definition enc_empty (e : option bool) : sx :=
  match e with None => I (-1) | Some b => of_bool b end.

Definition run_c15 (inp : sx) : sx :=
  let bits := sx_Zs (sx_nth inp 0) in
  let ops := map dec_op (sx_list (sx_nth inp 1)) in
  let '(s, rs) := exec Z.eqb (fun c => c) (fun k => k) (oracle_of bits) init ops in
  L [ L (map enc_res rs);
      L [ of_nat (ncalls s); of_Zs (classes s); L (map enc_empty (empties s));
          of_Zs (map snd (dict s)) ] ].
