(* find_path: the breadth-first search returns a path of recorded edges from
   the first label to the second whenever the two labels are equivalent. *)
From Coq Require Import ZArith List Bool Lia.
From CSS Require Import Equiv.Model Equiv.Ref Equiv.UF Equiv.Inv Equiv.Hist.
Import ListNotations.
Open Scope Z_scope.

(* consecutive labels are joined by recorded edges *)
Fixpoint epath (E : Z -> Z -> Prop) (p : list Z) : Prop :=
  match p with
  | [] => True
  | u :: t => match t with
              | [] => True
              | v :: _ => E u v /\ epath E t
              end
  end.

Lemma epath_app E : forall p ne, epath E p -> E (last p 0) ne -> epath E (p ++ [ne]).
Proof.
  induction p as [|u p IH]; intros ne H He; simpl; auto.
  destruct p as [|v p]; simpl.
  - split; auto.
  - destruct H as (H1 & H2). split; auto. apply (IH ne H2). exact He.
Qed.

Lemma epath_impl (E E' : Z -> Z -> Prop) : (forall a b, E a b -> E' a b) ->
  forall p, epath E p -> epath E' p.
Proof.
  intros HE. induction p as [|u p IH]; simpl; auto.
  destruct p as [|v p]; auto. intros (H1 & H2). split; auto.
Qed.

Lemma In_removelast_or_last (p : list Z) x :
  In x p -> In x (removelast p) \/ x = last p 0.
Proof.
  intros H. destruct p as [|u p]; [destruct H|].
  assert (N : u :: p <> []) by discriminate.
  rewrite (app_removelast_last 0 N) in H at 1.
  apply in_app_iff in H. destruct H as [H|[H|[]]]; auto.
Qed.

Lemma fp_push_In path : forall nes deque q,
  In q (fp_push path deque nes) <->
  In q deque \/ exists ne, In ne nes /\ mem ne path = false /\ q = path ++ [ne].
Proof.
  induction nes as [|ne nes IH]; intros deque q; simpl.
  - split; auto. intros [H|(ne & [] & _)]; auto.
  - rewrite IH. destruct (mem ne path) eqn:E.
    + split.
      * intros [H|(x & H1 & H2 & H3)]; eauto 6.
      * intros [H|(x & [->|H1] & H2 & H3)]; eauto 6. congruence.
    + rewrite in_app_iff. simpl. split.
      * intros [[H|[H|[]]]|(x & H1 & H2 & H3)]; eauto 7.
      * intros [H|(x & [->|H1] & H2 & H3)]; eauto 7.
Qed.

Section BFS.
Variable order : list Z -> list Z.
Hypothesis order_In : forall l x, In x (order l) <-> In x l.
Variable vs : dict (list Z).
Variables a b : Z.
Hypothesis Hab : reach vs a b.

Record J (deque : list (list Z)) (visited : list Z) : Prop := {
  j_paths : forall p, In p deque ->
     hd_error p = Some a /\ epath (edge vs) p /\ forall x, In x (removelast p) -> In x visited;
  j_closed : forall u w, In u visited -> edge vs u w ->
     In w visited \/ exists p, In p deque /\ last p 0 = w;
  j_start : In a visited \/ exists p, In p deque /\ last p 0 = a;
  j_target : ~ In b visited
}.

Lemma J_empty_absurd visited : J [] visited -> False.
Proof.
  intros [_ Hc Hs Ht]. apply Ht.
  assert (Ha : In a visited) by (destruct Hs as [H|(p & [] & _)]; auto).
  assert (Cl : forall x y, reach vs x y -> In x visited -> In y visited).
  { intros x y Rxy. induction Rxy as [x|x y z Rxy IHr Eyz]; auto.
    intros Hx. destruct (Hc y z (IHr Hx) Eyz) as [H|(p & [] & _)]; auto. }
  exact (Cl a b Hab Ha).
Qed.

Lemma fp_loop_valid : forall fuel s deque visited cur s' p,
  veq s vs -> J deque visited ->
  fp_loop order fuel s b deque visited cur = Some (s', p) ->
  hd_error p = Some a /\ last p 0 = b /\ epath (edge vs) p.
Proof.
  induction fuel as [|fuel IH]; intros s deque visited cur s' p E HJ H.
  - destruct deque; simpl in H; [|discriminate]. destruct (J_empty_absurd _ HJ).
  - destruct deque as [|path rest]; simpl in H.
    { destruct (J_empty_absurd _ HJ). }
    destruct HJ as [Hp Hc Hs Ht].
    destruct (Hp path (or_introl eq_refl)) as (P1 & P2 & P3).
    destruct (Z.eqb (last path 0) b) eqn:Eb.
    { apply Z.eqb_eq in Eb. inv H. auto. }
    apply Z.eqb_neq in Eb.
    destruct (mem (last path 0) visited) eqn:Ev.
    + apply mem_In in Ev. eapply IH; [exact E| |exact H].
      constructor; auto.
      * intros q Hq. apply Hp; simpl; auto.
      * intros u w Hu Hw. destruct (Hc u w Hu Hw) as [X|(q & [<-|Hq] & X)]; eauto.
        left. rewrite <- X. auto.
      * destruct Hs as [X|(q & [<-|Hq] & X)]; eauto. left. rewrite <- X. auto.
    + assert (Nv : ~ In (last path 0) visited).
      { intros X. apply mem_In in X. congruence. }
      eapply IH; [| |exact H].
      { intros k. simpl. rewrite dget_touch. apply E. }
      assert (Hall : forall x, In x path -> In x (last path 0 :: visited)).
      { intros x Hx. apply In_removelast_or_last in Hx. destruct Hx as [Hx| ->]; simpl; auto. }
      assert (Hnes : forall ne, In ne (order (dget (vertices (with_vertices s (touch (vertices s) (last path 0)))) (last path 0)))
                       <-> edge vs (last path 0) ne).
      { intros ne. rewrite order_In. simpl. rewrite dget_touch. unfold edge. rewrite E. tauto. }
      constructor.
      * intros q Hq. apply fp_push_In in Hq.
        destruct Hq as [Hq|(ne & H1 & H2 & ->)].
        -- destruct (Hp q (or_intror Hq)) as (Q1 & Q2 & Q3). repeat split; auto.
           intros x Hx. simpl; auto.
        -- split; [|split].
           ++ destruct path; [discriminate|]. exact P1.
           ++ apply epath_app; auto. apply Hnes; auto.
           ++ rewrite removelast_last. exact Hall.
      * intros u w [<-|Hu] Hw.
        -- destruct (mem w path) eqn:Em.
           ++ left. apply Hall. apply mem_In; auto.
           ++ right. exists (path ++ [w]). split; [|apply last_last].
              apply fp_push_In. right. exists w. split; [apply Hnes; auto|auto].
        -- destruct (Hc u w Hu Hw) as [X|(q & [<-|Hq] & X)].
           ++ left; simpl; auto.
           ++ left. rewrite <- X. simpl; auto.
           ++ right. exists q. split; auto. apply fp_push_In. auto.
      * destruct Hs as [X|(q & [<-|Hq] & X)].
        -- left; simpl; auto.
        -- left. rewrite <- X. simpl; auto.
        -- right. exists q. split; auto. apply fp_push_In. auto.
      * intros [X|X]; auto.
Qed.

End BFS.

Section Order.
Variable order : list Z -> list Z.
Hypothesis order_In : forall l x, In x (order l) <-> In x l.

Lemma find_path_valid (M : Z -> Prop) (T R : Z -> Z -> Prop) s a b s' p :
  Inv M T R s -> find_path order s a b = Some (s', PathOk p) ->
  hd_error p = Some a /\ last p 0 = b /\ epath R p.
Proof.
  intros I. unfold find_path.
  destruct (equivalent s a b) as [[s1 e]|] eqn:EQ; [|discriminate].
  apply equivalent_spec in EQ. destruct EQ as (P & He).
  destruct e; [|discriminate].
  destruct (fp_loop _ _ _ _ _ _ _) as [[s2 q]|] eqn:F; [|discriminate].
  intros H; inv H.
  assert (Hab : reach (vertices s) a b).
  { eapply inv_sound; eauto. apply He; auto. }
  apply (fp_loop_valid order order_In (vertices s) a b Hab) in F.
  - destruct F as (F1 & F2 & F3). split; auto. split; auto.
    eapply epath_impl; [|exact F3]. intros x y. apply (inv_edges _ _ _ _ I).
  - intros k. apply P.
  - constructor.
    + intros q0 [<-|[]]. simpl. repeat split; auto.
    + intros u w [].
    + right. exists [a]. simpl; auto.
    + intros [].
Qed.

End Order.
