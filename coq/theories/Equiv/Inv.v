(* The invariant of the EquivalenceDB model and its preservation by every
   operation, for every set-iteration order. *)
From Coq Require Import ZArith List Bool Lia.
From CSS Require Import Equiv.Model Equiv.Ref Equiv.UF.
Import ListNotations.
Open Scope Z_scope.

(* ------------------------------------------------------------ graphs *)
Lemma reach_mono vs vs' :
  (forall a b, edge vs a b -> edge vs' a b) ->
  forall a b, reach vs a b -> reach vs' a b.
Proof. intros H a b R. induction R; eauto using reach. Qed.

Definition veq (s : db) (vs : dict (list Z)) : Prop :=
  forall k, dget (vertices s) k = dget vs k.

Lemma reach_veq vs vs' a b :
  (forall k, dget vs k = dget vs' k) -> reach vs a b -> reach vs' a b.
Proof. intros E. apply reach_mono. intros x y. unfold edge. rewrite E. auto. Qed.

Lemma reach_veq_iff vs vs' a b :
  (forall k, dget vs k = dget vs' k) -> (reach vs a b <-> reach vs' a b).
Proof. intros E. split; apply reach_veq; auto. Qed.

(* every entry of a one-way table is backed by a path of recorded edges *)
Definition ow_ok (vs d : dict (list Z)) : Prop :=
  forall k l e, In (k, l) d -> In e l -> reach vs k e.

Lemma get_In {V} (d : dict V) k v : get d k = Some v -> In (k, v) d.
Proof.
  induction d as [|[k0 v0] d IH]; simpl; [discriminate|].
  destruct (Z.eqb k0 k) eqn:E.
  - apply Z.eqb_eq in E. intros H; inv H. auto.
  - auto.
Qed.

Lemma In_set {V} (d : dict V) k v k' v' :
  In (k', v') (set d k v) -> In (k', v') d \/ (k' = k /\ v' = v).
Proof.
  induction d as [|[k0 v0] d IH]; simpl.
  - intros [H|[]]; inv H; auto.
  - destruct (Z.eqb k0 k) eqn:E; simpl.
    + apply Z.eqb_eq in E. subst k0. intros [H|H]; [inv H|]; auto.
    + intros [H|H]; auto. destruct (IH H); auto.
Qed.

Lemma ow_ok_dget vs d k e : ow_ok vs d -> In e (dget d k) -> reach vs k e.
Proof.
  unfold dget. intros H. destruct (get d k) eqn:G; [|intros []].
  intros He. eapply H; eauto. apply get_In; auto.
Qed.

Lemma ow_ok_dadd vs d k x : ow_ok vs d -> reach vs k x -> ow_ok vs (dadd d k x).
Proof.
  intros H R k' l e Hin He. unfold dadd in Hin. apply In_set in Hin.
  destruct Hin as [Hin|(-> & ->)]; [eapply H; eauto|].
  apply In_sadd in He. destruct He as [He| ->]; auto. eapply ow_ok_dget; eauto.
Qed.

Lemma ow_ok_touch vs d k : ow_ok vs d -> ow_ok vs (touch d k).
Proof.
  intros H k' l e Hin He. unfold touch in Hin. destruct (get d k); [eapply H; eauto|].
  apply in_app_iff in Hin. destruct Hin as [Hin|[Hin|[]]]; [eapply H; eauto|].
  inv Hin. destruct He.
Qed.

Lemma ow_ok_veq vs vs' d : (forall k, dget vs k = dget vs' k) -> ow_ok vs d -> ow_ok vs' d.
Proof. intros E H k l e H1 H2. eapply reach_veq; eauto. Qed.

(* every element of every entry of d is still in an entry of d' with the same key *)
Definition ow_sub (d d' : dict (list Z)) : Prop :=
  forall k l e, In (k, l) d -> In e l -> exists l', In (k, l') d' /\ In e l'.

Lemma ow_sub_refl d : ow_sub d d.
Proof. intros k l e H1 H2. eauto. Qed.

Lemma ow_sub_trans d1 d2 d3 : ow_sub d1 d2 -> ow_sub d2 d3 -> ow_sub d1 d3.
Proof.
  intros A B k l e H1 H2. destruct (A k l e H1 H2) as (l' & H3 & H4). eauto.
Qed.

Lemma ow_sub_touch d k : ow_sub d (touch d k).
Proof.
  intros k' l e H1 H2. exists l. split; auto. unfold touch.
  destruct (get d k); auto. apply in_app_iff. auto.
Qed.

Lemma In_set_same {V} (d : dict V) k v : In (k, v) (set d k v).
Proof.
  induction d as [|[k0 v0] d IH]; simpl; auto.
  destruct (Z.eqb k0 k) eqn:E; simpl; auto.
  apply Z.eqb_eq in E. subst. auto.
Qed.

Lemma In_set_other {V} (d : dict V) k v k' v' :
  In (k', v') d -> k' <> k -> In (k', v') (set d k v).
Proof.
  induction d as [|[k0 v0] d IH]; simpl; auto.
  intros [H|H] N.
  - inv H. destruct (Z.eqb k' k) eqn:E; [apply Z.eqb_eq in E; congruence|]. simpl; auto.
  - destruct (Z.eqb k0 k); simpl; auto.
Qed.

Lemma In_get {V} (d : dict V) k v : In (k, v) d -> exists v', get d k = Some v'.
Proof.
  induction d as [|[k0 v0] d IH]; simpl; [intros []|].
  intros [H|H].
  - inv H. rewrite Z.eqb_refl. eauto.
  - destruct (Z.eqb k0 k); eauto.
Qed.

Lemma ow_sub_set d k v :
  (forall l0, get d k = Some l0 -> incl l0 v) -> ow_sub d (set d k v).
Proof.
  induction d as [|[k0 v0] d IH]; intros Hv k' l e H1 H2; [destruct H1|].
  simpl in *. destruct (Z.eqb k0 k) eqn:E.
  - destruct H1 as [H1|H1].
    + inv H1. exists v. split; [left; reflexivity|]. apply (Hv l eq_refl); auto.
    + exists l. split; [right; auto|auto].
  - destruct H1 as [H1|H1].
    + inv H1. exists l. split; [left; reflexivity|auto].
    + destruct (IH Hv k' l e H1 H2) as (l' & H3 & H4). exists l'. split; [right; auto|auto].
Qed.

Lemma ow_sub_dadd d k x : ow_sub d (dadd d k x).
Proof.
  apply ow_sub_set. intros l0 G y Hy. apply In_sadd. left. unfold dget. rewrite G. auto.
Qed.

Lemma dadd_has d k x : exists l, In (k, l) (dadd d k x) /\ In x l.
Proof.
  exists (sadd (dget d k) x). split; [apply In_set_same|]. apply In_sadd; auto.
Qed.

(* ------------------------------------------------------------ the invariant *)
(* M = labels passed to set_verified so far, T = two-way edges requested so
   far, R = the recorded directed edges *)
Record Inv (M : Z -> Prop) (T R : Z -> Z -> Prop) (s : db) : Prop := {
  inv_total : forall x, exists r, root s x r;
  inv_sound : forall a b, same s a b -> reach (vertices s) a b;
  inv_ow : ow_ok (vertices s) (oneway s);
  inv_ver1 : forall b, M b -> exists r, root s b r /\ In r (verified s);
  inv_ver2 : forall v, In v (verified s) -> exists b, M b /\ same s v b;
  inv_tw : forall a b, T a b -> same s a b;
  inv_edges : forall a b, edge (vertices s) a b <-> R a b
}.

(* monotone extension of the partition; edges unchanged *)
Definition ext (s s' : db) : Prop :=
  (forall x y, same s x y -> same s' x y) /\
  (forall k, dget (vertices s') k = dget (vertices s) k).

Lemma ext_refl s : ext s s.
Proof. split; auto. Qed.

Lemma ext_trans s1 s2 s3 : ext s1 s2 -> ext s2 s3 -> ext s1 s3.
Proof. intros (A1 & B1) (A2 & B2). split; auto. intros k. rewrite B2; auto. Qed.

Lemma pres_ext s s' : pres s s' -> ext s s'.
Proof.
  intros P. split; [|apply P]. intros x y H. apply (pres_same _ _ x y P); auto.
Qed.

Lemma ext_veq s s' vs : ext s s' -> veq s vs -> veq s' vs.
Proof. intros (_ & B) H k. rewrite B; auto. Qed.

Section WithParams.
Variables (M : Z -> Prop) (T R : Z -> Z -> Prop).

Lemma same_refl s x : Inv M T R s -> same s x x.
Proof. intros I. destruct (inv_total _ _ _ _ I x) as (r & H). exists r; auto. Qed.

Lemma inv_sound_vs s vs a b : Inv M T R s -> veq s vs -> same s a b -> reach vs a b.
Proof. intros I E H. eapply reach_veq; [exact E|]. eapply inv_sound; eauto. Qed.

Lemma Inv_pres s s' : pres s s' -> Inv M T R s -> Inv M T R s'.
Proof.
  intros P I. pose proof P as (A & B & C & D).
  constructor.
  - intros x. destruct (inv_total _ _ _ _ I x) as (r & H). exists r. apply A; auto.
  - intros a b H. apply (pres_same _ _ a b P) in H.
    eapply reach_veq; [symmetry; apply C|]. eapply inv_sound; eauto.
  - rewrite D. eapply ow_ok_veq; [symmetry; apply C|]. eapply inv_ow; eauto.
  - intros b Hb. destruct (inv_ver1 _ _ _ _ I b Hb) as (r & H1 & H2).
    exists r. rewrite B. split; auto. apply A; auto.
  - intros v Hv. rewrite B in Hv. destruct (inv_ver2 _ _ _ _ I v Hv) as (b & H1 & H2).
    exists b. split; auto. apply (pres_same _ _ v b P); auto.
  - intros a b H. apply (pres_same _ _ a b P). eapply inv_tw; eauto.
  - intros a b. unfold edge. rewrite C. apply (inv_edges _ _ _ _ I).
Qed.

Lemma Inv_with_oneway s o :
  Inv M T R s -> ow_ok (vertices s) o -> Inv M T R (with_oneway s o).
Proof. intros I H. destruct I. constructor; auto. Qed.

(* a merge of two mutually reachable labels keeps the invariant *)
Lemma Inv_merge s a b s' :
  Inv M T R s -> reach (vertices s) a b -> reach (vertices s) b a ->
  set_equivalent s a b = Some s' ->
  Inv M T R s' /\ same s' a b /\ ext s s' /\ oneway s' = oneway s /\
  (forall x y, same s' x y <->
     same s x y \/ (same s x a /\ same s y b) \/ (same s x b /\ same s y a)).
Proof.
  intros I Rab Rba H.
  apply set_equivalent_spec in H.
  destruct H as (ra & rb & w & Ra & Rb & Hw & Mg & C & D & Vf).
  pose proof (merged_same s s' ra rb w a b (inv_total _ _ _ _ I) Ra Rb Hw Mg) as SS.
  assert (Mono : forall x y, same s x y -> same s' x y) by (intros x y H; apply SS; auto).
  assert (Sab : same s' a b).
  { apply SS. right. left. split; eapply same_refl; eauto. }
  assert (Sra : same s' ra a) by (apply Mono, same_sym, same_root; auto).
  assert (Srb : same s' rb b) by (apply Mono, same_sym, same_root; auto).
  assert (Swa : same s' w a).
  { destruct Hw as [-> | ->]; auto. eapply same_trans; [exact Srb|]. apply same_sym; auto. }
  assert (Snd : forall x y, same s' x y -> reach (vertices s) x y).
  { intros x y H. apply SS in H.
    pose proof (inv_sound _ _ _ _ I) as Sd.
    destruct H as [H|[(H1 & H2)|(H1 & H2)]]; auto.
    - eapply reach_trans; [apply Sd; exact H1|]. eapply reach_trans; [exact Rab|].
      apply Sd. apply same_sym; auto.
    - eapply reach_trans; [apply Sd; exact H1|]. eapply reach_trans; [exact Rba|].
      apply Sd. apply same_sym; auto. }
  split; [|split; [|split; [|split]]]; auto; [|split; auto].
  constructor.
  - intros x. destruct (inv_total _ _ _ _ I x) as (r & H).
    destruct (Z.eq_dec r ra) as [->|N1]; [exists w; apply Mg; auto|].
    destruct (Z.eq_dec r rb) as [->|N2]; [exists w; apply Mg; auto|].
    exists r; apply Mg; auto.
  - intros x y H. eapply reach_veq; [symmetry; apply C|]. auto.
  - rewrite D. eapply ow_ok_veq; [symmetry; apply C|]. eapply inv_ow; eauto.
  - intros b0 Hb. destruct (inv_ver1 _ _ _ _ I b0 Hb) as (r & H1 & H2).
    destruct (Z.eq_dec r ra) as [->|N1].
    { exists w. split; [apply Mg; auto|]. apply Vf. auto. }
    destruct (Z.eq_dec r rb) as [->|N2].
    { exists w. split; [apply Mg; auto|]. apply Vf. auto. }
    exists r. split; [apply Mg; auto|]. apply Vf; auto.
  - intros v Hv. apply Vf in Hv. destruct Hv as [Hv|(-> & Hv)].
    + destruct (inv_ver2 _ _ _ _ I v Hv) as (b0 & H1 & H2). eauto.
    + destruct Hv as [Hv|Hv]; destruct (inv_ver2 _ _ _ _ I _ Hv) as (b0 & H1 & H2);
        exists b0; split; auto; apply Mono in H2.
      * eapply same_trans; [exact Swa|]. eapply same_trans; [apply same_sym; exact Sra|]. auto.
      * eapply same_trans; [exact Swa|]. eapply same_trans; [exact Sab|].
        eapply same_trans; [apply same_sym; exact Srb|]. auto.
  - intros x y H. apply Mono. eapply inv_tw; eauto.
  - intros x y. unfold edge. rewrite C. apply (inv_edges _ _ _ _ I).
Qed.

(* ------------------------------------------------------------ connect_cycles *)
Section Order.
Variable order : list Z -> list Z.
Hypothesis order_In : forall l x, In x (order l) <-> In x l.

Fixpoint pathok (vs : dict (list Z)) (p : list Z) : Prop :=
  match p with
  | [] => True
  | u :: t => match t with
              | [] => True
              | v :: _ => reach vs u v /\ pathok vs t
              end
  end.

Lemma pathok_head vs : forall p u x, pathok vs (u :: p) -> In x (u :: p) -> reach vs u x.
Proof.
  induction p as [|v p IH]; intros u x H [E|Hx]; try (subst x; constructor).
  - destruct Hx.
  - destruct H as (H1 & H2). eapply reach_trans; [exact H1|]. apply IH; auto.
Qed.

Lemma pathok_last vs : forall p x, pathok vs p -> In x p -> reach vs x (last p 0).
Proof.
  induction p as [|u p IH]; intros x H Hx; [destruct Hx|].
  destruct p as [|v p].
  - destruct Hx as [E|[]]. subst x. constructor.
  - destruct H as (H1 & H2).
    change (last (u :: v :: p) 0) with (last (v :: p) 0).
    destruct Hx as [E|Hx].
    + subst x. eapply reach_trans; [exact H1|]. apply IH; simpl; auto.
    + apply IH; auto.
Qed.

Lemma pathok_app vs : forall p ne, pathok vs p -> reach vs (last p 0) ne -> pathok vs (p ++ [ne]).
Proof.
  induction p as [|u p IH]; intros ne H Hr; simpl; auto.
  destruct p as [|v p]; simpl.
  - split; auto.
  - destruct H as (H1 & H2). split; auto. apply (IH ne H2). exact Hr.
Qed.

Lemma merge_all_spec vs ne : forall l s s',
  Inv M T R s -> veq s vs ->
  (forall v, In v l -> reach vs v ne /\ reach vs ne v) ->
  merge_all s l ne = Some s' ->
  Inv M T R s' /\ ext s s' /\ oneway s' = oneway s.
Proof.
  induction l as [|v l IH]; intros s s' I E Hl H; simpl in H.
  - inv H. split; auto. split; auto. apply ext_refl.
  - destruct (set_equivalent s v ne) as [s1|] eqn:SE; [|discriminate].
    destruct (Hl v (or_introl eq_refl)) as (R1 & R2).
    apply (Inv_merge s v ne s1 I) in SE;
      [|eapply reach_veq; [symmetry; apply E|]; auto
       |eapply reach_veq; [symmetry; apply E|]; auto].
    destruct SE as (I1 & _ & X1 & O1 & _).
    apply IH in H; auto.
    + destruct H as (I2 & X2 & O2). split; auto. split; [eapply ext_trans; eauto|congruence].
    + eapply ext_veq; eauto.
    + intros x Hx. apply Hl; simpl; auto.
Qed.

Lemma scan_cycle_spec vs ne : forall suffix s s',
  Inv M T R s -> veq s vs -> pathok vs suffix -> reach vs (last suffix 0) ne ->
  scan_cycle s suffix ne = Some s' ->
  Inv M T R s' /\ ext s s' /\ oneway s' = oneway s.
Proof.
  induction suffix as [|v t IH]; intros s s' I E Hp Hr H.
  - inv H. split; auto. split; auto. apply ext_refl.
  - destruct t as [|t0 t1].
    + inv H. split; auto. split; auto. apply ext_refl.
    + cbn [scan_cycle] in H.
      destruct (equivalent s v ne) as [[s1 e]|] eqn:EQ; [|discriminate].
      apply equivalent_spec in EQ. destruct EQ as (P & He).
      pose proof (Inv_pres _ _ P I) as I1.
      pose proof (ext_veq _ _ _ (pres_ext _ _ P) E) as E1.
      assert (O1 : oneway s1 = oneway s) by apply P.
      destruct e.
      * assert (Rnv : reach vs ne v).
        { apply (inv_sound_vs s vs ne v I E). apply same_sym. apply He; auto. }
        apply (merge_all_spec vs ne) in H; auto.
        -- destruct H as (I2 & X2 & O2). split; auto.
           split; [eapply ext_trans; [apply pres_ext; eauto|auto]|congruence].
        -- intros x Hx. split.
           ++ eapply reach_trans; [|exact Hr]. apply pathok_last; auto.
           ++ eapply reach_trans; [exact Rnv|]. eapply pathok_head; eauto.
      * change (last (v :: t0 :: t1) 0) with (last (t0 :: t1) 0) in Hr.
        apply IH in H; auto.
        -- destruct H as (I2 & X2 & O2). split; auto.
           split; [eapply ext_trans; [apply pres_ext; eauto|auto]|congruence].
        -- apply Hp.
Qed.

Lemma cc_ends_spec vs path : forall nes s stack s' stack',
  Inv M T R s -> veq s vs -> pathok vs path ->
  (forall p, In p stack -> pathok vs p) ->
  (forall ne, In ne nes -> reach vs (last path 0) ne) ->
  cc_ends s path stack nes = Some (s', stack') ->
  Inv M T R s' /\ ext s s' /\ oneway s' = oneway s /\
  (forall p, In p stack' -> pathok vs p).
Proof.
  induction nes as [|ne nes IH]; intros s stack s' stack' I E Hp Hs Hn H; simpl in H.
  - inv H. split; auto. split; auto. apply ext_refl.
  - destruct (scan_cycle s path ne) as [s1|] eqn:SC; [|discriminate].
    apply (scan_cycle_spec vs) in SC; auto; [|apply Hn; simpl; auto].
    destruct SC as (I1 & X1 & O1).
    apply IH in H; auto.
    + destruct H as (I2 & X2 & O2 & S2). split; auto.
      split; [eapply ext_trans; eauto|]. split; [congruence|auto].
    + eapply ext_veq; eauto.
    + intros p Hin. destruct (mem ne path); auto.
      destruct Hin as [<-|Hin]; auto. apply pathok_app; auto. apply Hn; simpl; auto.
    + intros x Hx. apply Hn; simpl; auto.
Qed.

Lemma cc_loop_spec vs : forall fuel s stack visited s',
  Inv M T R s -> veq s vs ->
  (forall p, In p stack -> pathok vs p) ->
  cc_loop order fuel s stack visited = Some s' ->
  Inv M T R s' /\ ext s s' /\ ow_sub (oneway s) (oneway s').
Proof.
  induction fuel as [|fuel IH]; intros s stack visited s' I E Hs H.
  - destruct stack; simpl in H; [|discriminate]. inv H. split; auto.
    split; [apply ext_refl|apply ow_sub_refl].
  - destruct stack as [|path rest]; simpl in H.
    { inv H. split; auto. split; [apply ext_refl|apply ow_sub_refl]. }
    destruct (mem (last path 0) visited).
    { apply IH in H; auto. intros p Hp. apply Hs; simpl; auto. }
    set (s1 := with_oneway s (touch (oneway s) (last path 0))) in *.
    assert (I1 : Inv M T R s1).
    { apply Inv_with_oneway; auto. apply ow_ok_touch. eapply inv_ow; eauto. }
    destruct (cc_ends s1 path rest _) as [[s2 st2]|] eqn:CE; [|discriminate].
    apply (cc_ends_spec vs) in CE; auto.
    + destruct CE as (I2 & X2 & O2 & S2).
      apply IH in H; auto; [|eapply ext_veq; eauto].
      destruct H as (I3 & X3 & W3). split; auto.
      split; [eapply ext_trans; [|exact X3]; exact X2|].
      eapply ow_sub_trans; [|exact W3]. rewrite O2. simpl. apply ow_sub_touch.
    + apply Hs; simpl; auto.
    + intros p Hp. apply Hs; simpl; auto.
    + intros ne Hne. apply (proj1 (order_In _ _)) in Hne.
      eapply reach_veq; [exact E|].
      eapply ow_ok_dget; [|exact Hne]. exact (inv_ow _ _ _ _ I1).
Qed.

Lemma gow_ends_spec vs rs : forall ends s res s' res',
  Inv M T R s -> veq s vs ->
  (forall e, In e ends -> reach vs rs e) -> ow_ok vs res ->
  gow_ends s res rs ends = Some (s', res') ->
  pres s s' /\ ow_ok vs res'.
Proof.
  induction ends as [|e ends IH]; intros s res s' res' I E He Hres H; simpl in H.
  - inv H. split; auto. apply pres_refl.
  - destruct (find s e) as [[s1 re]|] eqn:F; [|discriminate].
    apply find_spec in F. destruct F as (Re & P).
    assert (reach vs e re) by (eapply inv_sound_vs; eauto; apply same_root; auto).
    apply IH in H; auto.
    + destruct H as (P2 & O2). split; auto. eapply pres_trans; eauto.
    + eapply Inv_pres; eauto.
    + eapply ext_veq; eauto. apply pres_ext; auto.
    + intros x Hx. apply He; simpl; auto.
    + destruct (Z.eqb rs re); auto. apply ow_ok_dadd; auto.
      eapply reach_trans; [apply He; simpl; auto|]. auto.
Qed.

Lemma gow_items_spec vs : forall items s res s' res',
  Inv M T R s -> veq s vs -> ow_ok vs items -> ow_ok vs res ->
  gow_items order s res items = Some (s', res') ->
  pres s s' /\ ow_ok vs res'.
Proof.
  induction items as [|[st ends] items IH]; intros s res s' res' I E Hi Hres H; simpl in H.
  - inv H. split; auto. apply pres_refl.
  - destruct (find s st) as [[s1 rs]|] eqn:F; [|discriminate].
    apply find_spec in F. destruct F as (Rs & P).
    assert (reach vs rs st).
    { eapply inv_sound_vs; eauto. apply same_sym, same_root; auto. }
    destruct (gow_ends s1 res rs (order ends)) as [[s2 res2]|] eqn:GE; [|discriminate].
    assert (I1 : Inv M T R s1) by (eapply Inv_pres; eauto).
    assert (E1 : veq s1 vs) by (eapply ext_veq; eauto; apply pres_ext; auto).
    apply (gow_ends_spec vs) in GE; auto.
    + destruct GE as (P2 & O2).
      apply IH in H; auto.
      * destruct H as (P3 & O3). split; auto.
        eapply pres_trans; [exact P|]. eapply pres_trans; eauto.
      * eapply Inv_pres; eauto.
      * eapply ext_veq; eauto. apply pres_ext; auto.
      * intros k l e Hin. apply Hi. simpl; auto.
    + intros e He. apply (proj1 (order_In _ _)) in He.
      eapply reach_trans; [eassumption|]. eapply Hi; [left; reflexivity|exact He].
Qed.

Lemma connect_cycles_spec s s' :
  Inv M T R s -> connect_cycles order s = Some s' -> Inv M T R s' /\ ext s s'.
Proof.
  intros I H. unfold connect_cycles, get_one_way_vertices in H.
  destruct (gow_items order s [] (oneway s)) as [[s1 res]|] eqn:G; [|discriminate].
  apply (gow_items_spec (vertices s)) in G; auto.
  - destruct G as (P & O).
    assert (I1 : Inv M T R (with_oneway s1 res)).
    { apply Inv_with_oneway; [eapply Inv_pres; eauto|].
      eapply ow_ok_veq; [|exact O]. intros k. symmetry. apply P. }
    apply (cc_loop_spec (vertices s)) in H; auto.
    + destruct H as (I2 & X2 & _). split; auto.
      eapply ext_trans; [apply pres_ext; exact P|]. exact X2.
    + intros k. apply P.
    + intros p Hp. apply in_rev in Hp. apply in_map_iff in Hp.
      destruct Hp as (kv & <- & _). simpl. auto.
  - intros k; reflexivity.
  - eapply inv_ow; eauto.
  - intros k l e [].
Qed.

Lemma fp_loop_pres : forall fuel s b deque visited cur s' p,
  fp_loop order fuel s b deque visited cur = Some (s', p) -> pres s s'.
Proof.
  induction fuel as [|fuel IH]; intros s b deque visited cur s' p H.
  - destruct deque; simpl in H; [|discriminate]. inv H. apply pres_refl.
  - destruct deque as [|path rest]; simpl in H.
    { inv H. apply pres_refl. }
    destruct (Z.eqb (last path 0) b). { inv H. apply pres_refl. }
    destruct (mem (last path 0) visited). { eapply IH; eauto. }
    apply IH in H. eapply pres_trans; [|exact H].
    repeat split; auto. intros k. simpl. apply dget_touch.
Qed.

Lemma find_path_pres s a b s' r :
  find_path order s a b = Some (s', r) -> pres s s'.
Proof.
  unfold find_path. destruct (equivalent s a b) as [[s1 e]|] eqn:EQ; [|discriminate].
  apply equivalent_spec in EQ. destruct EQ as (P & _).
  destruct e.
  - destruct (fp_loop _ _ _ _ _ _ _) as [[s2 p]|] eqn:F; [|discriminate].
    intros H; inv H. apply fp_loop_pres in F. eapply pres_trans; eauto.
  - intros H; inv H. auto.
Qed.

End Order.
End WithParams.
