(* Totality of the EquivalenceDB model: on every state reachable from a fresh
   database no loop of the model runs out of the fuel the model passes, and no
   internal dictionary lookup (`self.parents[root]` in __getitem__) misses.

   `None` in Equiv/Model.v has exactly two sources:
     (a) `climb` (the while loop of __getitem__): fuel `length (parents s)`
         exhausted, or `get p root = None` (a KeyError on self.parents[root]);
     (b) `cc_loop` / `fp_loop`: fuel exhausted.
   (The KeyError RAISED by find_path on non-equivalent labels is the explicit
   result `PathKeyError`, not `None`.)

   (a) is excluded by the invariant `wf`: the parent table is closed (every
   parent is itself a key) and parent chains are well founded (every label has
   a root); a chain of n proper steps visits n distinct keys, so n <= length.
   (b) is excluded by a potential argument: every popped entry costs one unit
   of fuel; entries are pushed only when a NOT yet visited vertex is expanded,
   at most one per element of its adjacency set, and then the vertex is
   visited: #pops <= #initial entries + sum of the sizes of the adjacency sets.

   The second argument needs that iterating over a set yields every element
   ONCE: hypothesis `order_len` (length (order l) <= length l).  With
   `order_In` alone the statement is false: see `total_needs_order_len`. *)
From Coq Require Import ZArith List Bool Lia.
From CSS Require Import Equiv.Model Equiv.Ref Equiv.UF Equiv.Inv.
Import ListNotations.
Open Scope Z_scope.

(* ------------------------------------------------------------ keys *)
Definition haskey {V} (p : dict V) (k : Z) : Prop := get p k <> None.

Definition closedp (p : dict Z) : Prop :=
  forall k v, get p k = Some v -> haskey p v.

Definition kle (s s' : db) : Prop :=
  forall k, haskey (parents s) k -> haskey (parents s') k.

Definition rtotal (s : db) : Prop := forall x, exists r, root s x r.

Definition wf (s : db) : Prop := closedp (parents s) /\ rtotal s.

Lemma kle_refl s : kle s s.
Proof. intros k H; exact H. Qed.

Lemma kle_trans s1 s2 s3 : kle s1 s2 -> kle s2 s3 -> kle s1 s3.
Proof. intros A B k H. apply B, A, H. Qed.

Lemma haskey_set {V} (p : dict V) a v k :
  haskey (set p a v) k <-> haskey p k \/ k = a.
Proof.
  unfold haskey. rewrite get_set. destruct (Z.eqb a k) eqn:E.
  - apply Z.eqb_eq in E. subst. split; [auto|discriminate].
  - apply Z.eqb_neq in E. split; [auto|]. intros [H|H]; [auto|congruence].
Qed.

Lemma closedp_set p a r :
  closedp p -> haskey p r \/ r = a -> closedp (set p a r).
Proof.
  intros C Hr k v G. rewrite get_set in G. apply haskey_set.
  destruct (Z.eqb a k) eqn:E.
  - inv G. exact Hr.
  - left. eapply C; eauto.
Qed.

Lemma closedp_compress r : forall path p,
  closedp p -> haskey p r -> closedp (compress p path r) /\
  (forall k, haskey p k -> haskey (compress p path r) k).
Proof.
  unfold compress. induction path as [|a path IH]; intros p C Hr; simpl.
  - split; auto.
  - destruct (IH (set p a r)) as (C' & K').
    + apply closedp_set; auto.
    + apply haskey_set; auto.
    + split; auto. intros k Hk. apply K'. apply haskey_set; auto.
Qed.

(* ------------------------------------------------------------ chains with length *)
Inductive chainN (f : Z -> Z) : Z -> Z -> nat -> Prop :=
| cn_root x : f x = x -> chainN f x x 0
| cn_step x r n : f x <> x -> chainN f (f x) r n -> chainN f x r (S n).

Lemma chain_chainN f x r : chain f x r -> exists n, chainN f x r n.
Proof.
  induction 1 as [x Hx|x r Hx H (n & IH)].
  - exists 0%nat. constructor; auto.
  - exists (S n). constructor; auto.
Qed.

Lemma chainN_det f x r n r' n' : chainN f x r n -> chainN f x r' n' -> n = n'.
Proof.
  intros H; revert r' n'; induction H; intros r' n' H'; inv H'; auto; try contradiction.
  f_equal. eauto.
Qed.

(* the n proper steps of a chain start at n pairwise distinct non-roots *)
Lemma chainN_nodes f x r n : chainN f x r n ->
  exists l, length l = n /\ NoDup l /\
    forall y, In y l -> f y <> y /\ exists m r', (m <= n)%nat /\ (0 < m)%nat /\ chainN f y r' m.
Proof.
  induction 1 as [x Hx|x r n Hx H (l & L & ND & P)].
  - exists []. split; [reflexivity|]. split; [constructor|]. intros y [].
  - exists (x :: l). split; [simpl; congruence|]. split.
    + constructor; auto. intros Hin. destruct (P x Hin) as (_ & m & r' & Hm & _ & C).
      assert (E : S n = m).
      { eapply chainN_det; [|exact C]. constructor; eauto. }
      lia.
    + intros y [<-|Hy].
      * split; auto. exists (S n), r. split; [lia|]. split; [lia|]. constructor; auto.
      * destruct (P y Hy) as (N & m & r' & Hm & Hm0 & C). split; auto.
        exists m, r'. split; [lia|]. auto.
Qed.

Definition parf (p : dict Z) (x : Z) : Z :=
  match get p x with Some q => q | None => x end.

Lemma chainN_bound p x r n : chainN (parf p) x r n -> (n <= length p)%nat.
Proof.
  intros H. destruct (chainN_nodes _ _ _ _ H) as (l & <- & ND & P).
  rewrite <- (map_length fst p). apply NoDup_incl_length; auto.
  intros y Hy. destruct (P y Hy) as (N & _). unfold parf in N.
  destruct (get p y) as [v|] eqn:G; [|congruence].
  apply get_In in G. apply (in_map fst) in G. exact G.
Qed.

(* ------------------------------------------------------------ __getitem__ *)
Lemma climb_total p : closedp p ->
  forall fuel last r n acc,
    haskey p last -> chainN (parf p) last r n -> (n <= fuel)%nat ->
    exists path, climb fuel p acc last (parf p last) = Some (path, r) /\ haskey p r.
Proof.
  intros C. induction fuel as [|fuel IH]; intros last r n acc K H Hn.
  - assert (n = 0)%nat by lia. subst n. inv H.
    simpl. rewrite H0, Z.eqb_refl. eauto.
  - inv H.
    + simpl. rewrite H0, Z.eqb_refl. eauto.
    + simpl. destruct (Z.eqb (parf p last) last) eqn:E;
        [apply Z.eqb_eq in E; contradiction|].
      assert (K1 : haskey p (parf p last)).
      { unfold parf in *. destruct (get p last) as [v|] eqn:G; [|congruence].
        eapply C; eauto. }
      destruct (get p (parf p last)) as [nr|] eqn:G; [|destruct (K1 G)].
      assert (Enr : nr = parf p (parf p last)) by (unfold parf at 1; rewrite G; reflexivity).
      rewrite Enr. eapply IH; eauto. lia.
Qed.

Lemma root_parf s x r : root s x r <-> chain (parf (parents s)) x r.
Proof. unfold root. split; apply chain_ext; intros; reflexivity. Qed.

(* db[x]: answers on every well-formed state; the result is again well formed *)
Lemma find_total s x : wf s ->
  exists s' r, find s x = Some (s', r) /\ wf s' /\ kle s s' /\
               haskey (parents s') r /\ haskey (parents s') x.
Proof.
  intros (C & T). unfold find.
  destruct (get (parents s) x) as [rt|] eqn:G.
  - destruct (T x) as (r & R). apply root_parf in R.
    destruct (chain_chainN _ _ _ R) as (n & RN).
    assert (K : haskey (parents s) x) by (unfold haskey; congruence).
    destruct (climb_total (parents s) C (length (parents s)) x r n [x] K RN
                (chainN_bound _ _ _ _ RN)) as (path & CL & Kr).
    assert (E : parf (parents s) x = rt) by (unfold parf; rewrite G; reflexivity).
    rewrite E in CL. rewrite CL.
    destruct (closedp_compress r path (parents s) C Kr) as (C' & K').
    exists (with_parents s (compress (parents s) path r)), r.
    split; [reflexivity|].
    assert (F : find s x = Some (with_parents s (compress (parents s) path r), r)).
    { unfold find. rewrite G, CL. reflexivity. }
    apply find_spec in F. destruct F as (_ & (A & _)).
    split; [split; [exact C'|]|].
    { intros y. destruct (T y) as (q & Q). exists q. apply A. exact Q. }
    split; [exact K'|]. split; simpl; auto.
  - eexists _, x. split; [reflexivity|].
    assert (F : find s x = Some (mk (set (parents s) x x) (set (weights s) x 1) (verified s)
                                    (vertices s) (oneway s), x)).
    { unfold find. rewrite G. reflexivity. }
    apply find_spec in F. destruct F as (_ & (A & _)).
    split; [split|].
    + simpl. apply closedp_set; auto.
    + intros y. destruct (T y) as (q & Q). exists q. apply A. exact Q.
    + split; [intros k Hk; simpl; apply haskey_set; auto|].
      split; simpl; apply haskey_set; auto.
Qed.

Lemma is_verified_total s x : wf s ->
  exists s' v, is_verified s x = Some (s', v) /\ wf s' /\ kle s s' /\ oneway s' = oneway s.
Proof.
  intros W. destruct (find_total s x W) as (s1 & r & F & W1 & K1 & _).
  unfold is_verified. rewrite F. eexists _, _. split; [reflexivity|].
  split; auto. split; auto. apply find_spec in F. apply F.
Qed.

Lemma rtotal_iff s s' :
  (forall y q, root s' y q <-> root s y q) -> rtotal s -> rtotal s'.
Proof. intros A T y. destruct (T y) as (q & Q). exists q. apply A. exact Q. Qed.

Lemma set_verified_total s x : wf s ->
  exists s', set_verified s x = Some s' /\ wf s' /\ kle s s' /\ oneway s' = oneway s.
Proof.
  intros W. destruct (is_verified_total s x W) as (s1 & v & IV & W1 & K1 & O1).
  unfold set_verified. rewrite IV. destruct v.
  - eauto.
  - destruct (find_total s1 x W1) as (s2 & r & F & (C2 & T2) & K2 & _).
    rewrite F. eexists. split; [reflexivity|].
    split; [split; [exact C2|exact T2]|].
    split; [eapply kle_trans; eauto|].
    simpl. apply find_spec in F. destruct F as (_ & (_ & _ & _ & D)). congruence.
Qed.

Lemma equivalent_total s a b : wf s ->
  exists s' e, equivalent s a b = Some (s', e) /\ wf s' /\ oneway s' = oneway s.
Proof.
  intros W. destruct (find_total s a W) as (s1 & ra & F1 & W1 & _).
  destruct (find_total s1 b W1) as (s2 & rb & F2 & W2 & _).
  unfold equivalent. rewrite F1, F2. eexists _, _. split; [reflexivity|]. split; auto.
  apply find_spec in F1. apply find_spec in F2.
  destruct F1 as (_ & (_ & _ & _ & D1)). destruct F2 as (_ & (_ & _ & _ & D2)). congruence.
Qed.

(* linking a root under a root keeps the state well formed *)
Lemma link_wf s h r :
  wf s -> root s h h -> root s r r -> haskey (parents s) h -> wf (link s h r).
Proof.
  intros (C & T) Hh Hr Kh. unfold link. destruct (Z.eqb r h) eqn:E; [split; auto|].
  apply Z.eqb_neq in E. split.
  - simpl. apply closedp_set; auto.
  - intros y. destruct (T y) as (q & Q).
    assert (L : forall z w, root (mk (set (parents s) r h)
                  (set (weights s) h (wget s h + wget s r)) (verified s) (vertices s) (oneway s)) z w
                <-> chain (upd (par s) r h) z w).
    { intros z w. unfold root. split; apply chain_ext; intros u; rewrite par_set; reflexivity. }
    pose proof (link_chain (par s) r h (chain_fix _ _ _ Hr) (chain_fix _ _ _ Hh) E) as LC.
    destruct (Z.eq_dec q r) as [->|N].
    + exists h. apply L, LC. right. auto.
    + exists q. apply L, LC. left. auto.
Qed.

Lemma link_root s h r x :
  root s h h -> root s r r -> root s x x -> x <> r \/ r = h -> root (link s h r) x x.
Proof.
  intros Hh Hr Hx Hn. unfold link. destruct (Z.eqb r h) eqn:E; auto.
  apply Z.eqb_neq in E. apply chain_root. rewrite par_set.
  rewrite upd_other; [eapply chain_fix; eauto|]. destruct Hn; congruence.
Qed.

Lemma link_keys s h r k : haskey (parents s) k -> haskey (parents (link s h r)) k.
Proof.
  unfold link. destruct (Z.eqb r h); auto. simpl. intros H. apply haskey_set; auto.
Qed.

Lemma link_oneway s h r : oneway (link s h r) = oneway s.
Proof. unfold link. destruct (Z.eqb r h); reflexivity. Qed.

Lemma set_equivalent_total s a b : wf s ->
  exists s', set_equivalent s a b = Some s' /\ wf s' /\ oneway s' = oneway s.
Proof.
  intros W. unfold set_equivalent.
  destruct (is_verified_total s a W) as (s1 & va & IV1 & W1 & K1 & O1). rewrite IV1.
  assert (X : exists s2 v, (if va then Some (s1, true) else is_verified s1 b) = Some (s2, v) /\
                           wf s2 /\ oneway s2 = oneway s1).
  { destruct va; [eauto|].
    destruct (is_verified_total s1 b W1) as (s2 & v & IV2 & W2 & _ & O2). eauto. }
  destruct X as (s2 & v & -> & W2 & O2).
  destruct (find_total s2 a W2) as (s3 & ra & F3 & W3 & K3 & Kra & _). rewrite F3.
  destruct (find_total s3 b W3) as (s4 & rb & F4 & W4 & K4 & Krb & _). rewrite F4.
  apply find_spec in F3. apply find_spec in F4.
  destruct F3 as (Ra & P3). destruct F4 as (Rb & P4).
  assert (Ra4 : root s4 ra ra).
  { apply P4. apply P3. apply chain_root. eapply chain_fix; eauto. }
  assert (Rb4 : root s4 rb rb).
  { apply P4. apply chain_root. eapply chain_fix; eauto. }
  assert (Kra4 : haskey (parents s4) ra) by (apply K4; auto).
  set (h := heaviest s4 ra rb).
  assert (Hh : h = ra \/ h = rb) by (unfold h, heaviest; destruct (_ || _); auto).
  assert (Rh : root s4 h h) by (destruct Hh as [-> | ->]; auto).
  assert (Kh : haskey (parents s4) h) by (destruct Hh as [-> | ->]; auto).
  pose proof (link_wf s4 h ra W4 Rh Ra4 Kh) as W5a.
  assert (Rh5 : root (link s4 h ra) h h).
  { apply link_root; auto. destruct (Z.eq_dec h ra); auto. }
  assert (Rb5 : root (link s4 h ra) rb rb).
  { apply link_root; auto. destruct (Z.eq_dec rb ra); auto.
    destruct Hh as [E|E]; [auto|]. right. congruence. }
  pose proof (link_wf (link s4 h ra) h rb W5a Rh5 Rb5 (link_keys _ _ _ _ Kh)) as W5.
  assert (O5 : oneway (link (link s4 h ra) h rb) = oneway s).
  { rewrite !link_oneway.
    destruct P3 as (_ & _ & _ & D3). destruct P4 as (_ & _ & _ & D4). congruence. }
  destruct v.
  - destruct (set_verified_total _ a W5) as (s6 & SV & W6 & _ & O6).
    exists s6. split; auto. split; auto. congruence.
  - eauto.
Qed.

Lemma add_edge_wf s a b : wf s -> wf (add_edge s a b).
Proof. unfold add_edge. destruct (Z.eqb a b); auto. Qed.

Lemma with_oneway_wf s o : wf s -> wf (with_oneway s o).
Proof. auto. Qed.

Lemma with_vertices_wf s v : wf s -> wf (with_vertices s v).
Proof. auto. Qed.

Lemma add_two_way_total s a b : wf s -> exists s', add_two_way s a b = Some s' /\ wf s'.
Proof.
  intros W. unfold add_two_way.
  destruct (set_equivalent_total (add_edge (add_edge s a b) b a) a b) as (s' & E & W' & _).
  - apply add_edge_wf, add_edge_wf, W.
  - eauto.
Qed.

Lemma add_one_way_total s a b : wf s -> exists s', add_one_way s a b = Some s' /\ wf s'.
Proof.
  intros W. unfold add_one_way.
  destruct (find_total (add_edge s a b) a (add_edge_wf _ _ _ W)) as (s1 & ra & F1 & W1 & _).
  rewrite F1.
  destruct (find_total (with_oneway s1 (touch (oneway s1) ra)) b (with_oneway_wf _ _ W1))
    as (s2 & rb & F2 & W2 & _).
  rewrite F2. eexists. split; [reflexivity|]. apply with_oneway_wf. exact W2.
Qed.

(* ------------------------------------------------------------ the potential *)
(* what the not yet visited keys of an adjacency table can still push *)
Fixpoint pot (d : dict (list Z)) (vis : list Z) : nat :=
  match d with
  | [] => 0
  | (k, l) :: t => ((if mem k vis then 0 else length l) + pot t vis)%nat
  end.

Lemma nedges_fold d : forall n,
  fold_left (fun n (kv : Z * list Z) => (n + length (snd kv))%nat) d n = (n + pot d [])%nat.
Proof.
  induction d as [|[k l] d IH]; intros n; simpl; [lia|]. rewrite IH. lia.
Qed.

Lemma pot_nil d : pot d [] = nedges d.
Proof. unfold nedges. rewrite nedges_fold. reflexivity. Qed.

Lemma pot_app d d' vis : pot (d ++ d') vis = (pot d vis + pot d' vis)%nat.
Proof. induction d as [|[k l] d IH]; simpl; [reflexivity|]. rewrite IH. lia. Qed.

Lemma pot_touch d e vis : pot (touch d e) vis = pot d vis.
Proof.
  unfold touch. destruct (get d e); [reflexivity|].
  rewrite pot_app. simpl. destruct (mem e vis); lia.
Qed.

Lemma pot_mono d e vis : (pot d (e :: vis) <= pot d vis)%nat.
Proof.
  induction d as [|[k l] d IH]; simpl; [lia|].
  destruct (Z.eqb k e); simpl; [lia|]. destruct (mem k vis); lia.
Qed.

Lemma pot_visit d e vis : mem e vis = false ->
  (pot d (e :: vis) + length (dget d e) <= pot d vis)%nat.
Proof.
  intros Hm. induction d as [|[k l] d IH]; simpl; [reflexivity|].
  unfold dget in *. simpl. destruct (Z.eqb k e) eqn:E; simpl.
  - apply Z.eqb_eq in E. subst k. rewrite Hm. pose proof (pot_mono d e vis). lia.
  - destruct (mem k vis); lia.
Qed.

Section Order.
Variable order : list Z -> list Z.
(* iterating over a set yields every element once *)
Hypothesis order_len : forall l, (length (order l) <= length l)%nat.

(* ------------------------------------------------------------ find_path *)
Lemma fp_push_length path : forall nes deque,
  (length (fp_push path deque nes) <= length deque + length nes)%nat.
Proof.
  induction nes as [|ne nes IH]; intros deque; simpl; [lia|].
  destruct (mem ne path).
  - specialize (IH deque). lia.
  - specialize (IH (deque ++ [path ++ [ne]])). rewrite app_length in IH. simpl in IH. lia.
Qed.

Lemma fp_loop_total : forall fuel s b deque visited cur,
  (length deque + pot (vertices s) visited <= fuel)%nat ->
  exists s' p, fp_loop order fuel s b deque visited cur = Some (s', p).
Proof.
  induction fuel as [|fuel IH]; intros s b deque visited cur Hf.
  - destruct deque; simpl in *; [eauto|lia].
  - destruct deque as [|path rest]; simpl; [eauto|].
    destruct (Z.eqb (last path 0) b); [eauto|].
    destruct (mem (last path 0) visited) eqn:Ev.
    + apply IH. simpl in Hf. lia.
    + apply IH. simpl. rewrite dget_touch, pot_touch.
      pose proof (fp_push_length path (order (dget (vertices s) (last path 0))) rest).
      pose proof (order_len (dget (vertices s) (last path 0))).
      pose proof (pot_visit (vertices s) (last path 0) visited Ev).
      simpl in Hf. lia.
Qed.

Lemma fp_loop_parents : forall fuel s b deque visited cur s' p,
  fp_loop order fuel s b deque visited cur = Some (s', p) -> parents s' = parents s.
Proof.
  induction fuel as [|fuel IH]; intros s b deque visited cur s' p H.
  - destruct deque; simpl in H; [|discriminate]. inv H. reflexivity.
  - destruct deque as [|path rest]; simpl in H; [inv H; reflexivity|].
    destruct (Z.eqb (last path 0) b); [inv H; reflexivity|].
    destruct (mem (last path 0) visited); [eapply IH; eauto|].
    apply IH in H. exact H.
Qed.

Lemma find_path_total s a b : wf s ->
  exists s' r, find_path order s a b = Some (s', r) /\ wf s'.
Proof.
  intros W. unfold find_path.
  destruct (equivalent_total s a b W) as (s1 & e & EQ & W1 & _). rewrite EQ.
  destruct e; [|eauto].
  destruct (fp_loop_total (S (S (nedges (vertices s1)))) s1 b [[a]] [] []) as (s2 & p & F).
  { rewrite pot_nil. simpl. lia. }
  rewrite F. eexists _, _. split; [reflexivity|].
  pose proof (fp_loop_parents _ _ _ _ _ _ _ _ F) as EP.
  destruct W1 as (C1 & T1). split.
  - rewrite EP. exact C1.
  - intros y. destruct (T1 y) as (q & Q). exists q. unfold root, par in *. rewrite EP. exact Q.
Qed.

(* ------------------------------------------------------------ connect_cycles *)
Lemma gow_ends_total rs : forall ends s res, wf s ->
  exists s' res', gow_ends s res rs ends = Some (s', res') /\ wf s'.
Proof.
  induction ends as [|e ends IH]; intros s res W; simpl; [eauto|].
  destruct (find_total s e W) as (s1 & re & F & W1 & _). rewrite F. apply IH; auto.
Qed.

Lemma gow_items_total : forall items s res, wf s ->
  exists s' res', gow_items order s res items = Some (s', res') /\ wf s'.
Proof.
  induction items as [|[st ends] items IH]; intros s res W; simpl; [eauto|].
  destruct (find_total s st W) as (s1 & rs & F & W1 & _). rewrite F.
  destruct (gow_ends_total rs (order ends) s1 res W1) as (s2 & res2 & G & W2). rewrite G.
  apply IH; auto.
Qed.

Lemma merge_all_total ne : forall l s, wf s ->
  exists s', merge_all s l ne = Some s' /\ wf s' /\ oneway s' = oneway s.
Proof.
  induction l as [|v l IH]; intros s W; simpl; [eauto|].
  destruct (set_equivalent_total s v ne W) as (s1 & E & W1 & O1). rewrite E.
  destruct (IH s1 W1) as (s2 & M & W2 & O2). exists s2. split; auto. split; auto. congruence.
Qed.

Lemma scan_cycle_total ne : forall suffix s, wf s ->
  exists s', scan_cycle s suffix ne = Some s' /\ wf s' /\ oneway s' = oneway s.
Proof.
  induction suffix as [|v t IH]; intros s W; [simpl; eauto|].
  destruct t as [|t0 t1]; [simpl; eauto|].
  cbn [scan_cycle].
  destruct (equivalent_total s v ne W) as (s1 & e & EQ & W1 & O1). rewrite EQ.
  destruct e.
  - destruct (merge_all_total ne (v :: t0 :: t1) s1 W1) as (s2 & M & W2 & O2).
    exists s2. split; auto. split; auto. congruence.
  - destruct (IH s1 W1) as (s2 & M & W2 & O2).
    exists s2. split; auto. split; auto. congruence.
Qed.

Lemma cc_ends_total path : forall nes s stack, wf s ->
  exists s' stack', cc_ends s path stack nes = Some (s', stack') /\ wf s' /\
    oneway s' = oneway s /\ (length stack' <= length stack + length nes)%nat.
Proof.
  induction nes as [|ne nes IH]; intros s stack W; simpl.
  - eexists _, _. split; [reflexivity|]. split; auto. split; auto. lia.
  - destruct (scan_cycle_total ne path s W) as (s1 & SC & W1 & O1). rewrite SC.
    destruct (IH s1 (if mem ne path then stack else (path ++ [ne]) :: stack) W1)
      as (s2 & st2 & CE & W2 & O2 & L2).
    exists s2, st2. split; auto. split; auto. split; [congruence|].
    destruct (mem ne path); simpl in L2; lia.
Qed.

Lemma cc_loop_total : forall fuel s stack visited, wf s ->
  (length stack + pot (oneway s) visited <= fuel)%nat ->
  exists s', cc_loop order fuel s stack visited = Some s' /\ wf s'.
Proof.
  induction fuel as [|fuel IH]; intros s stack visited W Hf.
  - destruct stack; simpl in *; [eauto|lia].
  - destruct stack as [|path rest]; simpl; [eauto|].
    destruct (mem (last path 0) visited) eqn:Ev.
    + apply IH; auto. simpl in Hf. lia.
    + set (e := last path 0) in *.
      destruct (cc_ends_total path (order (dget (touch (oneway s) e) e))
                  (with_oneway s (touch (oneway s) e)) rest (with_oneway_wf _ _ W))
        as (s2 & st2 & CE & W2 & O2 & L2).
      simpl. rewrite CE. apply IH; auto.
      rewrite O2. simpl. rewrite pot_touch. rewrite dget_touch in L2.
      pose proof (order_len (dget (oneway s) e)).
      pose proof (pot_visit (oneway s) e visited Ev).
      simpl in Hf. lia.
Qed.

Lemma connect_cycles_total s : wf s ->
  exists s', connect_cycles order s = Some s' /\ wf s'.
Proof.
  intros W. unfold connect_cycles, get_one_way_vertices.
  destruct (gow_items_total (oneway s) s [] W) as (s1 & res & G & W1). rewrite G.
  apply cc_loop_total; [apply with_oneway_wf; exact W1|].
  simpl. rewrite rev_length, map_length, pot_nil. lia.
Qed.

(* ------------------------------------------------------------ histories *)
Lemma step_total s o : wf s -> exists s' r, step order s o = Some (s', r) /\ wf s'.
Proof.
  intros W. destruct o as [a b|a b|a| |a b|a|a|a b]; simpl.
  - destruct (add_two_way_total s a b W) as (s' & -> & W'). eauto.
  - destruct (add_one_way_total s a b W) as (s' & -> & W'). eauto.
  - destruct (set_verified_total s a W) as (s' & -> & W' & _). eauto.
  - destruct (connect_cycles_total s W) as (s' & -> & W'). eauto.
  - destruct (equivalent_total s a b W) as (s' & e & -> & W' & _). eauto.
  - destruct (is_verified_total s a W) as (s' & e & -> & W' & _). eauto.
  - destruct (find_total s a W) as (s' & e & -> & W' & _). eauto.
  - destruct (find_path_total s a b W) as (s' & e & -> & W'). eauto.
Qed.

Lemma exec_total : forall ops s, wf s ->
  exists s' rs, exec order s ops = Some (s', rs) /\ wf s'.
Proof.
  induction ops as [|o ops IH]; intros s W; simpl; [eauto|].
  destruct (step_total s o W) as (s1 & r & -> & W1).
  destruct (IH s1 W1) as (s2 & rs & -> & W2). eauto.
Qed.

Lemma wf_init : wf init.
Proof.
  split.
  - intros k v G. discriminate G.
  - intros x. exists x. apply chain_root. reflexivity.
Qed.

Lemma exec_wf : forall ops s s' rs, wf s -> exec order s ops = Some (s', rs) -> wf s'.
Proof.
  intros ops s s' rs W E. destruct (exec_total ops s W) as (s2 & rs2 & E2 & W2).
  rewrite E in E2. inv E2. exact W2.
Qed.

End Order.

(* `order_In` alone is NOT enough: an "iteration order" that yields every
   element three times enumerates the right elements, and the BFS of find_path
   (fuel 2 + number of recorded edges) runs out of fuel *)
Definition order3 (l : list Z) : list Z := l ++ l ++ l.

Lemma total_needs_order_len :
  (forall l x, In x (order3 l) <-> In x l) /\
  exec order3 init [TwoWay 1 2; TwoWay 1 3; TwoWay 1 4; TwoWay 2 5; TwoWay 3 5; TwoWay 4 5;
                    TwoWay 5 6; QPath 1 6] = None.
Proof.
  split; [|vm_compute; reflexivity].
  intros l x. unfold order3. rewrite !in_app_iff. tauto.
Qed.

(* the runnable instance (ascending order) satisfies order_len *)
Lemma insert_length x l : length (insert x l) = S (length l).
Proof.
  induction l as [|y l IH]; simpl; [reflexivity|]. destruct (x <=? y); simpl; congruence.
Qed.

Lemma isort_length l : length (isort l) = length l.
Proof. induction l as [|x l IH]; simpl; [reflexivity|]. rewrite insert_length. congruence. Qed.

Lemma isort_len l : (length (isort l) <= length l)%nat.
Proof. rewrite isort_length. lia. Qed.
