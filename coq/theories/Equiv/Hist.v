(* Histories: the invariant holds after every sequence of operations on a
   fresh database, with M/T/R read off the history. *)
From Coq Require Import ZArith List Bool Lia.
From CSS Require Import Equiv.Model Equiv.Ref Equiv.UF Equiv.Inv.
Import ListNotations.
Open Scope Z_scope.

(* labels passed to set_verified *)
Definition marked (H : list op) (b : Z) : Prop := In (SetVerified b) H.
(* two-way edges requested *)
Definition twoway (H : list op) (a b : Z) : Prop := In (TwoWay a b) H.
(* the recorded directed graph: _add_edge ignores self loops *)
Definition recorded (H : list op) (a b : Z) : Prop :=
  a <> b /\ (In (TwoWay a b) H \/ In (TwoWay b a) H \/ In (OneWay a b) H).

Definition HInv (H : list op) (s : db) : Prop :=
  Inv (marked H) (twoway H) (recorded H) s.

Lemma Inv_iff (M : Z -> Prop) (T R : Z -> Z -> Prop) (M' : Z -> Prop) (T' R' : Z -> Z -> Prop) s :
  (forall b, M b <-> M' b) -> (forall a b, T' a b -> T a b) ->
  (forall a b, R a b <-> R' a b) -> Inv M T R s -> Inv M' T' R' s.
Proof.
  intros HM HT HR I. destruct I. constructor; auto.
  - intros b Hb. apply inv_ver1. apply HM; auto.
  - intros v Hv. destruct (inv_ver2 v Hv) as (b & H1 & H2). exists b. split; auto. apply HM; auto.
  - intros a b. rewrite inv_edges. apply HR.
Qed.

Lemma Inv_T_add (M : Z -> Prop) (T R : Z -> Z -> Prop) s a b :
  Inv M T R s -> same s a b -> Inv M (fun x y => T x y \/ (x = a /\ y = b)) R s.
Proof.
  intros I S. destruct I. constructor; auto.
  intros x y [H|(-> & ->)]; auto.
Qed.

Lemma add_edge_inv (M : Z -> Prop) (T R : Z -> Z -> Prop) s a b :
  Inv M T R s ->
  Inv M T (fun x y => R x y \/ (a <> b /\ x = a /\ y = b)) (add_edge s a b).
Proof.
  intros I. unfold add_edge. destruct (Z.eqb a b) eqn:E.
  - apply Z.eqb_eq in E. eapply Inv_iff; [| |intros x y|exact I]; try tauto; auto.
  - apply Z.eqb_neq in E.
    assert (Ed : forall x y, edge (dadd (vertices s) a b) x y <->
                             edge (vertices s) x y \/ (x = a /\ y = b)).
    { intros x y. unfold edge. rewrite dget_dadd. destruct (Z.eqb a x) eqn:E2.
      - apply Z.eqb_eq in E2. subst x. rewrite In_sadd. intuition.
      - apply Z.eqb_neq in E2. intuition congruence. }
    assert (Mono : forall x y, reach (vertices s) x y -> reach (dadd (vertices s) a b) x y).
    { apply reach_mono. intros x y H. apply Ed; auto. }
    destruct I. constructor; simpl; auto.
    + intros k l e H1 H2. apply Mono. eapply inv_ow; eauto.
    + intros x y. rewrite Ed, inv_edges. intuition.
Qed.

Lemma chain_id x r : chain (fun y => y) x r -> r = x.
Proof. induction 1; auto. Qed.

Lemma HInv_init : HInv [] init.
Proof.
  constructor.
  - intros x. exists x. apply chain_root. reflexivity.
  - intros a b (r & H1 & H2).
    assert (forall x q, root init x q -> q = x).
    { intros x q H. apply chain_id. eapply chain_ext; [|exact H]. reflexivity. }
    apply H in H1. apply H in H2. subst. constructor.
  - intros k l e [].
  - intros b [].
  - intros v [].
  - intros a b [].
  - intros a b. unfold edge, recorded. simpl. intuition.
Qed.

Lemma insert_In x l y : In y (insert x l) <-> y = x \/ In y l.
Proof.
  induction l as [|z l IH]; simpl; [intuition|].
  destruct (x <=? z); simpl; [intuition|]. rewrite IH. intuition.
Qed.

Lemma isort_In l x : In x (isort l) <-> In x l.
Proof.
  induction l as [|z l IH]; simpl; [tauto|].
  rewrite insert_In, IH. intuition.
Qed.

Section Order.
Variable order : list Z -> list Z.
Hypothesis order_In : forall l x, In x (order l) <-> In x l.

Lemma in_snoc {A} (l : list A) o x : In x (l ++ [o]) <-> In x l \/ o = x.
Proof. rewrite in_app_iff. simpl. tauto. Qed.

Lemma HInv_query H s s' o :
  pres s s' -> HInv H s ->
  (forall a b, o <> TwoWay a b) -> (forall a b, o <> OneWay a b) ->
  (forall a, o <> SetVerified a) -> HInv (H ++ [o]) s'.
Proof.
  intros P I N1 N2 N3. eapply Inv_iff; [| | |eapply Inv_pres; eauto].
  - intros b. unfold marked. rewrite in_snoc. split; auto. intros [X|X]; auto. destruct (N3 _ X).
  - intros a b. unfold twoway. rewrite in_snoc. intros [X|X]; auto. destruct (N1 _ _ X).
  - intros a b. unfold recorded. rewrite !in_snoc. split; [tauto|].
    intros (N & [[X|X]|[[X|X]|[X|X]]]); auto; try (destruct (N1 _ _ X)); destruct (N2 _ _ X).
Qed.

Lemma step_inv H s o s' r :
  HInv H s -> step order s o = Some (s', r) -> HInv (H ++ [o]) s'.
Proof.
  intros I St. destruct o as [a b|a b|a| |a b|a|a|a b]; simpl in St.
  - (* add_two_way_edge *)
    destruct (add_two_way s a b) as [s1|] eqn:X; [|discriminate]. inv St.
    unfold add_two_way in X.
    pose proof (add_edge_inv _ _ _ _ b a (add_edge_inv _ _ _ _ a b I)) as I0.
    set (s0 := add_edge (add_edge s a b) b a) in *.
    assert (Rab : reach (vertices s0) a b /\ reach (vertices s0) b a).
    { destruct (Z.eq_dec a b) as [->|N]; [split; constructor|].
      split; apply reach_edge; apply (inv_edges _ _ _ _ I0); [left|]; right; auto. }
    destruct Rab as (Rab & Rba).
    apply (Inv_merge _ _ _ s0 a b s' I0 Rab Rba) in X.
    destruct X as (I1 & S1 & _).
    eapply Inv_iff; [| | |apply (Inv_T_add _ _ _ _ a b I1 S1)].
    + intros x. unfold marked. rewrite in_snoc. split; auto. intros [X|X]; auto. discriminate.
    + intros x y. unfold twoway. rewrite in_snoc. intros [X|X]; auto. inv X; auto.
    + intros x y. unfold recorded. rewrite !in_snoc. split.
      * intros [[(N & X)|(N & -> & ->)]|(N & -> & ->)]; auto; tauto.
      * intros (N & [[X|X]|[[X|X]|[X|X]]]); try discriminate; try tauto.
        -- inv X. left. right. auto.
        -- inv X. right. auto.
  - (* add_one_way_edge *)
    destruct (add_one_way s a b) as [s1|] eqn:X; [|discriminate]. inv St.
    unfold add_one_way in X.
    pose proof (add_edge_inv _ _ _ _ a b I) as I0.
    set (s0 := add_edge s a b) in *.
    destruct (find s0 a) as [[s1 ra]|] eqn:F1; [|discriminate].
    apply find_spec in F1. destruct F1 as (Ra & P1).
    pose proof (Inv_pres _ _ _ _ _ P1 I0) as I1.
    set (s1' := with_oneway s1 (touch (oneway s1) ra)) in *.
    assert (I1' : Inv (marked H) (twoway H)
                      (fun x y => recorded H x y \/ (a <> b /\ x = a /\ y = b)) s1').
    { apply Inv_with_oneway; auto. apply ow_ok_touch. eapply inv_ow; eauto. }
    destruct (find s1' b) as [[s2 rb]|] eqn:F2; [|discriminate].
    apply find_spec in F2. destruct F2 as (Rb & P2).
    pose proof (Inv_pres _ _ _ _ _ P2 I1') as I2.
    inv X.
    assert (V2 : forall k, dget (vertices s2) k = dget (vertices s0) k).
    { intros k. destruct P2 as (_ & _ & C2 & _). rewrite C2. simpl. apply P1. }
    assert (Rab : reach (vertices s0) ra rb).
    { eapply reach_trans; [eapply inv_sound; [exact I0|]; apply same_sym, same_root; exact Ra|].
      assert (Rb0 : root s0 b rb). { apply P1. exact Rb. }
      eapply reach_trans; [|eapply inv_sound; [exact I0|]; apply same_root; exact Rb0].
      destruct (Z.eq_dec a b) as [->|N]; [constructor|].
      apply reach_edge. apply (inv_edges _ _ _ _ I0). right. auto. }
    eapply Inv_iff; [| | |apply (Inv_with_oneway _ _ _ s2 (dadd (oneway s2) ra rb) I2)].
    + intros x. unfold marked. rewrite in_snoc. split; auto. intros [X|X]; auto. discriminate.
    + intros x y. unfold twoway. rewrite in_snoc. intros [X|X]; auto. discriminate.
    + intros x y. unfold recorded. rewrite !in_snoc. split.
      * intros [(N & X)|(N & -> & ->)]; auto; tauto.
      * intros (N & [[X|X]|[[X|X]|[X|X]]]); try discriminate; try tauto.
        inv X. right. auto.
    + apply ow_ok_dadd; [eapply inv_ow; eauto|].
      eapply reach_veq; [symmetry; apply V2|]. exact Rab.
  - (* set_verified *)
    destruct (set_verified s a) as [s1|] eqn:X; [|discriminate]. inv St.
    apply set_verified_spec in X. destruct X as (A & C & D & r & Rr & Vf).
    assert (SS : forall x y, same s' x y <-> same s x y).
    { intros x y. unfold same. split; intros (q & H1 & H2); exists q; split; apply A; auto. }
    destruct I. constructor.
    + intros x. destruct (inv_total x) as (q & Hq). exists q. apply A; auto.
    + intros x y Hxy. apply SS in Hxy. eapply reach_veq; [symmetry; apply C|]. auto.
    + rewrite D. eapply ow_ok_veq; [symmetry; apply C|]. auto.
    + intros b Hb. unfold marked in Hb. apply in_snoc in Hb. destruct Hb as [Hb|Hb].
      * destruct (inv_ver1 b Hb) as (q & H1 & H2). exists q. split; [apply A; auto|apply Vf; auto].
      * inv Hb. exists r. split; [apply A; auto|apply Vf; auto].
    + intros v Hv. apply Vf in Hv. destruct Hv as [Hv| ->].
      * destruct (inv_ver2 v Hv) as (b & H1 & H2). exists b. split; [|apply SS; auto].
        unfold marked. apply in_snoc. auto.
      * exists a. split; [unfold marked; apply in_snoc; auto|].
        apply SS. apply same_sym, same_root; auto.
    + intros x y Hxy. unfold twoway in Hxy. apply in_snoc in Hxy.
      destruct Hxy as [Hxy|Hxy]; [|discriminate]. apply SS. auto.
    + intros x y. unfold edge. rewrite C. rewrite (inv_edges x y).
      unfold recorded. rewrite !in_snoc. split; [tauto|].
      intros (N & [[X|X]|[[X|X]|[X|X]]]); try discriminate; tauto.
  - (* connect_cycles *)
    destruct (connect_cycles order s) as [s1|] eqn:X; [|discriminate]. inv St.
    apply (connect_cycles_spec (marked H) (twoway H) (recorded H) order order_In) in X; [|exact I].
    destruct X as (I1 & _).
    eapply Inv_iff; [| | |exact I1].
    + intros x. unfold marked. rewrite in_snoc. split; auto. intros [X|X]; auto. discriminate.
    + intros x y. unfold twoway. rewrite in_snoc. intros [X|X]; auto. discriminate.
    + intros x y. unfold recorded. rewrite !in_snoc. split; [tauto|].
      intros (N & [[X|X]|[[X|X]|[X|X]]]); try discriminate; tauto.
  - destruct (equivalent s a b) as [[s1 e]|] eqn:X; [|discriminate]. inv St.
    apply equivalent_spec in X. destruct X as (P & _).
    eapply HInv_query; eauto; intros; discriminate.
  - destruct (is_verified s a) as [[s1 e]|] eqn:X; [|discriminate]. inv St.
    apply is_verified_spec in X. destruct X as (P & _).
    eapply HInv_query; eauto; intros; discriminate.
  - destruct (find s a) as [[s1 e]|] eqn:X; [|discriminate]. inv St.
    apply find_spec in X. destruct X as (_ & P).
    eapply HInv_query; eauto; intros; discriminate.
  - destruct (find_path order s a b) as [[s1 e]|] eqn:X; [|discriminate]. inv St.
    apply find_path_pres in X.
    eapply HInv_query; eauto; intros; discriminate.
Qed.

Lemma exec_inv : forall ops H s s' rs,
  HInv H s -> exec order s ops = Some (s', rs) -> HInv (H ++ ops) s'.
Proof.
  induction ops as [|o ops IH]; intros H s s' rs I E; simpl in E.
  - inv E. rewrite app_nil_r. auto.
  - destruct (step order s o) as [[s1 r]|] eqn:St; [|discriminate].
    destruct (exec order s1 ops) as [[s2 rs2]|] eqn:Ex; [|discriminate]. inv E.
    replace (H ++ o :: ops) with ((H ++ [o]) ++ ops) by (rewrite <- app_assoc; reflexivity).
    eapply IH; eauto. eapply step_inv; eauto.
Qed.

Theorem reach_inv ops s rs :
  exec order init ops = Some (s, rs) -> HInv ops s.
Proof. intros E. apply (exec_inv ops [] init s rs HInv_init E). Qed.

End Order.
