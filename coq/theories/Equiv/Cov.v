(* A first half of completeness: no recorded edge is ever forgotten.  After
   every history, each recorded edge a -> b either lies inside a class or is
   represented in the one-way table by an entry between the classes of a and
   b (in particular after the re-keying done by get_one_way_vertices).  What
   is missing for C06_complete is the depth-first argument that connect_cycles
   merges every cycle of that table. *)
From Coq Require Import ZArith List Bool Lia.
From CSS Require Import Equiv.Model Equiv.Ref Equiv.UF Equiv.Inv Equiv.Hist.
Import ListNotations.
Open Scope Z_scope.

(* the pair (k, e) is represented, up to the partition of s, by the table d *)
Definition rep (s : db) (d : dict (list Z)) (k e : Z) : Prop :=
  same s k e \/
  exists k' l' e', In (k', l') d /\ In e' l' /\ same s k' k /\ same s e' e.

Definition cov (s : db) (a b : Z) : Prop := rep s (oneway s) a b.
Definition Cov (R : Z -> Z -> Prop) (s : db) : Prop := forall a b, R a b -> cov s a b.

Lemma rep_mono s s' d d' k e :
  (forall x y, same s x y -> same s' x y) -> ow_sub d d' -> rep s d k e -> rep s' d' k e.
Proof.
  intros Hm Hs [H|(k' & l' & e' & H1 & H2 & H3 & H4)]; [left; auto|].
  destruct (Hs k' l' e' H1 H2) as (l2 & H5 & H6). right. exists k', l2, e'. auto.
Qed.

Definition req (s s0 : db) : Prop := forall y q, root s y q <-> root s0 y q.

Lemma req_pres s s' s0 : pres s s' -> req s s0 -> req s' s0.
Proof. intros (A & _) H y q. rewrite A. apply H. Qed.

Lemma gow_ends_cov s0 st rs : root s0 st rs -> forall ends s res s' res',
  req s s0 -> gow_ends s res rs ends = Some (s', res') ->
  req s' s0 /\ ow_sub res res' /\ forall e, In e ends -> rep s0 res' st e.
Proof.
  intros Rs. induction ends as [|e ends IH]; intros s res s' res' Q H; simpl in H.
  - inv H. split; auto. split; [apply ow_sub_refl|]. intros e [].
  - destruct (find s e) as [[s1 re]|] eqn:F; [|discriminate].
    apply find_spec in F. destruct F as (Re & P). apply Q in Re.
    apply IH in H; [|eapply req_pres; eauto].
    destruct H as (Q' & S' & C'). split; auto.
    destruct (Z.eqb rs re) eqn:E.
    + split; auto. intros x [<-|Hx]; auto.
      apply Z.eqb_eq in E. subst re. left. exists rs; auto.
    + split; [eapply ow_sub_trans; [apply ow_sub_dadd|exact S']|].
      intros x [<-|Hx]; auto.
      destruct (dadd_has res rs re) as (l & H1 & H2).
      destruct (S' rs l re H1 H2) as (l2 & H3 & H4).
      right. exists rs, l2, re. split; auto. split; auto.
      split; apply same_sym, same_root; auto.
Qed.

Section Order.
Variable order : list Z -> list Z.
Hypothesis order_In : forall l x, In x (order l) <-> In x l.

Lemma gow_items_cov s0 : forall items s res s' res',
  req s s0 -> gow_items order s res items = Some (s', res') ->
  req s' s0 /\ ow_sub res res' /\
  forall k l e, In (k, l) items -> In e l -> rep s0 res' k e.
Proof.
  induction items as [|[st ends] items IH]; intros s res s' res' Q H; simpl in H.
  - inv H. split; auto. split; [apply ow_sub_refl|]. intros k l e [].
  - destruct (find s st) as [[s1 rs]|] eqn:F; [|discriminate].
    apply find_spec in F. destruct F as (Rs & P). apply Q in Rs.
    destruct (gow_ends s1 res rs (order ends)) as [[s2 res2]|] eqn:GE; [|discriminate].
    apply (gow_ends_cov s0 st rs Rs) in GE; [|eapply req_pres; eauto].
    destruct GE as (Q2 & S2 & C2).
    apply IH in H; auto. destruct H as (Q3 & S3 & C3).
    split; auto. split; [eapply ow_sub_trans; eauto|].
    intros k l e [Hin|Hin] He; [|eapply C3; eauto].
    inv Hin. eapply rep_mono; [| |apply C2; apply order_In; exact He]; auto.
Qed.

Lemma connect_cycles_cov (M : Z -> Prop) (T R : Z -> Z -> Prop) s s' :
  Inv M T R s -> Cov R s -> connect_cycles order s = Some s' -> Cov R s'.
Proof.
  intros I C H. unfold connect_cycles, get_one_way_vertices in H.
  destruct (gow_items order s [] (oneway s)) as [[s1 res]|] eqn:G; [|discriminate].
  pose proof G as G2.
  apply (gow_items_cov s) in G2; [|intros y q; tauto].
  destruct G2 as (Q & _ & CR).
  apply (gow_items_spec M T R order order_In (vertices s)) in G; auto;
    [|intros k; reflexivity|eapply inv_ow; eauto|intros k l e []].
  destruct G as (P & O).
  assert (I1 : Inv M T R (with_oneway s1 res)).
  { apply Inv_with_oneway; [eapply Inv_pres; eauto|].
    eapply ow_ok_veq; [|exact O]. intros k. symmetry. apply P. }
  assert (S1 : forall x y, same (with_oneway s1 res) x y <-> same s x y).
  { intros x y. apply (pres_same _ _ x y P). }
  assert (C1 : Cov R (with_oneway s1 res)).
  { intros a b Hab. destruct (C a b Hab) as [Hs|(k & l & e & H1 & H2 & H3 & H4)].
    - left. apply S1; auto.
    - destruct (CR k l e H1 H2) as [Hs|(k' & l' & e' & H5 & H6 & H7 & H8)].
      + left. apply S1. eapply same_trans; [apply same_sym; exact H3|].
        eapply same_trans; [exact Hs|exact H4].
      + right. exists k', l', e'. simpl. split; auto. split; auto.
        split; apply S1; eapply same_trans; eauto. }
  apply (cc_loop_spec M T R order order_In (vertices s)) in H; auto.
  - destruct H as (_ & (Mono & _) & W). intros a b Hab.
    eapply rep_mono; [exact Mono|exact W|]. apply C1; auto.
  - intros k. apply P.
  - intros p Hp. apply in_rev in Hp. apply in_map_iff in Hp.
    destruct Hp as (kv & <- & _). simpl. auto.
Qed.

Lemma Cov_pres (R : Z -> Z -> Prop) s s' : pres s s' -> Cov R s -> Cov R s'.
Proof.
  intros P C a b Hab. pose proof P as (_ & _ & _ & D).
  unfold cov. rewrite D. eapply rep_mono; [| apply ow_sub_refl |apply C; auto].
  intros x y H. apply (pres_same _ _ x y P); auto.
Qed.

Lemma step_cov H s o s' r :
  HInv H s -> Cov (recorded H) s -> step order s o = Some (s', r) ->
  Cov (recorded (H ++ [o])) s'.
Proof.
  intros I C St.
  assert (Q : forall o', o = o' ->
     (forall a b, o <> TwoWay a b) -> (forall a b, o <> OneWay a b) ->
     forall a b, recorded (H ++ [o]) a b -> recorded H a b).
  { intros o' _ N1 N2 a b (N & X). split; auto. rewrite !in_snoc in X.
    destruct X as [[X|X]|[[X|X]|[X|X]]]; auto; try (destruct (N1 _ _ X)); destruct (N2 _ _ X). }
  destruct o as [a b|a b|a| |a b|a|a|a b]; simpl in St.
  - (* add_two_way_edge *)
    destruct (add_two_way s a b) as [s1|] eqn:X; [|discriminate]. inv St.
    unfold add_two_way in X.
    pose proof (add_edge_inv _ _ _ _ b a (add_edge_inv _ _ _ _ a b I)) as I0.
    set (s0 := add_edge (add_edge s a b) b a) in *.
    assert (S0 : (forall x y, same s0 x y <-> same s x y) /\ oneway s0 = oneway s).
    { unfold s0, add_edge. destruct (Z.eqb a b), (Z.eqb b a); split; reflexivity || tauto. }
    destruct S0 as (S0 & O0).
    assert (Rab : reach (vertices s0) a b /\ reach (vertices s0) b a).
    { destruct (Z.eq_dec a b) as [->|N]; [split; constructor|].
      split; apply reach_edge; apply (inv_edges _ _ _ _ I0); [left|]; right; auto. }
    destruct Rab as (Rab & Rba).
    destruct (Inv_merge _ _ _ s0 a b s' I0 Rab Rba X) as (_ & Sab & (Mono & _) & O1 & _).
    intros x y (N & Hxy). rewrite !in_snoc in Hxy.
    assert (Old : recorded H x y -> cov s' x y).
    { intros Hr. unfold cov. rewrite O1, O0.
      eapply rep_mono; [|apply ow_sub_refl|apply C; exact Hr].
      intros u v Huv. apply Mono. apply S0; auto. }
    destruct Hxy as [[X1|X1]|[[X1|X1]|[X1|X1]]]; try discriminate;
      try (apply Old; split; auto; fail).
    + inv X1. left; auto.
    + inv X1. left; apply same_sym; auto.
  - (* add_one_way_edge *)
    destruct (add_one_way s a b) as [s1|] eqn:X; [|discriminate]. inv St.
    unfold add_one_way in X.
    set (s0 := add_edge s a b) in *.
    assert (S0 : (forall y q, root s0 y q <-> root s y q) /\ oneway s0 = oneway s).
    { unfold s0, add_edge. destruct (Z.eqb a b); split; reflexivity || tauto. }
    destruct S0 as (S0 & O0).
    destruct (find s0 a) as [[s1 ra]|] eqn:F1; [|discriminate].
    apply find_spec in F1. destruct F1 as (Ra & P1).
    set (s1' := with_oneway s1 (touch (oneway s1) ra)) in *.
    destruct (find s1' b) as [[s2 rb]|] eqn:F2; [|discriminate].
    apply find_spec in F2. destruct F2 as (Rb & P2).
    inv X.
    assert (RR : forall y q, root s2 y q <-> root s y q).
    { intros y q. destruct P2 as (A2 & _). destruct P1 as (A1 & _).
      rewrite A2. change (root s1' y q) with (root s1 y q). rewrite A1. apply S0. }
    assert (SS : forall x y, same (with_oneway s2 (dadd (oneway s2) ra rb)) x y <-> same s x y).
    { intros x y. unfold same. split; intros (q & H1 & H2); exists q; split; apply RR; auto. }
    assert (W : ow_sub (oneway s) (dadd (oneway s2) ra rb)).
    { eapply ow_sub_trans; [|apply ow_sub_dadd].
      destruct P2 as (_ & _ & _ & D2). rewrite D2. simpl.
      destruct P1 as (_ & _ & _ & D1). rewrite D1, O0. apply ow_sub_touch. }
    intros x y (N & Hxy). rewrite !in_snoc in Hxy.
    assert (Old : recorded H x y -> cov (with_oneway s2 (dadd (oneway s2) ra rb)) x y).
    { intros Hr. unfold cov. simpl.
      eapply rep_mono; [|exact W|apply C; exact Hr]. intros u v Huv. apply SS; auto. }
    destruct Hxy as [[X1|X1]|[[X1|X1]|[X1|X1]]]; try discriminate;
      try (apply Old; split; auto; fail).
    inv X1. destruct (dadd_has (oneway s2) ra rb) as (l & H1 & H2).
    right. exists ra, l, rb. simpl. split; auto. split; auto.
    split; apply SS; apply same_sym, same_root.
    + apply S0; auto.
    + apply S0. apply P1. exact Rb.
  - (* set_verified *)
    destruct (set_verified s a) as [s1|] eqn:X; [|discriminate]. inv St.
    apply set_verified_spec in X. destruct X as (A & _ & D & _).
    intros x y Hxy. apply (Q _ eq_refl) in Hxy; try (intros; discriminate).
    unfold cov. rewrite D. eapply rep_mono; [|apply ow_sub_refl|apply C; auto].
    intros u v (q & H1 & H2). exists q. split; apply A; auto.
  - (* connect_cycles *)
    destruct (connect_cycles order s) as [s1|] eqn:X; [|discriminate]. inv St.
    intros x y Hxy. apply (Q _ eq_refl) in Hxy; try (intros; discriminate).
    eapply connect_cycles_cov; eauto.
  - destruct (equivalent s a b) as [[s1 e]|] eqn:X; [|discriminate]. inv St.
    apply equivalent_spec in X. destruct X as (P & _).
    intros x y Hxy. apply (Q _ eq_refl) in Hxy; try (intros; discriminate).
    eapply Cov_pres; eauto.
  - destruct (is_verified s a) as [[s1 e]|] eqn:X; [|discriminate]. inv St.
    apply is_verified_spec in X. destruct X as (P & _).
    intros x y Hxy. apply (Q _ eq_refl) in Hxy; try (intros; discriminate).
    eapply Cov_pres; eauto.
  - destruct (find s a) as [[s1 e]|] eqn:X; [|discriminate]. inv St.
    apply find_spec in X. destruct X as (_ & P).
    intros x y Hxy. apply (Q _ eq_refl) in Hxy; try (intros; discriminate).
    eapply Cov_pres; eauto.
  - destruct (find_path order s a b) as [[s1 e]|] eqn:X; [|discriminate]. inv St.
    apply find_path_pres in X.
    intros x y Hxy. apply (Q _ eq_refl) in Hxy; try (intros; discriminate).
    eapply Cov_pres; eauto.
Qed.

Lemma exec_cov : forall ops H s s' rs,
  HInv H s -> Cov (recorded H) s -> exec order s ops = Some (s', rs) ->
  Cov (recorded (H ++ ops)) s'.
Proof.
  induction ops as [|o ops IH]; intros H s s' rs I C E; simpl in E.
  - inv E. rewrite app_nil_r. auto.
  - destruct (step order s o) as [[s1 r]|] eqn:St; [|discriminate].
    destruct (exec order s1 ops) as [[s2 rs2]|] eqn:Ex; [|discriminate]. inv E.
    replace (H ++ o :: ops) with ((H ++ [o]) ++ ops) by (rewrite <- app_assoc; reflexivity).
    eapply IH; [| |exact Ex].
    + eapply step_inv; eauto.
    + eapply step_cov; eauto.
Qed.

Theorem edges_covered ops s rs :
  exec order init ops = Some (s, rs) -> Cov (recorded ops) s.
Proof.
  intros E. apply (exec_cov ops [] init s rs HInv_init); auto.
  intros a b (_ & [[]|[[]|[]]]).
Qed.

End Order.
