(* The union-by-weight choice of the equivalence-database model is the
   expression of the SOURCE.  Gen/EquivHeaviest.v is re-translated on every run
   from comb_spec_searcher/equiv_db.py, EquivalenceDB._set_equivalent:
       roots = [self[label], self[other_label]]
       heaviest = max(((self.weights[r], r) for r in roots))[1]
   (tuples compare lexicographically; max keeps the first maximal element).
   This file proves that Equiv/Model.v `heaviest` is that expression, for all
   weight tables and roots.  A source edit that changes which root survives a
   union (min for max, another tie-break) changes the generated definition and
   breaks this lemma, hence the obligation of Props/C06.v. *)
From Coq Require Import ZArith List Bool Lia.
From CSS Require Import Gen.Prelude Equiv.Model Gen.EquivHeaviest.
Import ListNotations.
Open Scope Z_scope.

(* self.weights[r] (0 for a missing key in both readings) *)
Lemma wget_is_dget : forall s k, wget s k = py_dget 0 (weights s) k.
Proof.
  intros s k. unfold wget. induction (weights s) as [|[k' v] t IH]; cbn [get py_dget]; [reflexivity|].
  destruct (k' =? k); [reflexivity|exact IH].
Qed.

Lemma heaviest_is_source : forall s ra rb,
  heaviest s ra rb = equiv_heaviest (weights s) ra rb.
Proof.
  intros s ra rb. unfold heaviest, equiv_heaviest. rewrite !wget_is_dget.
  cbn [map py_max_lex fold_left py_lex_ltb].
  rewrite andb_false_r, orb_false_r.
  destruct ((py_dget 0 (weights s) ra <? py_dget 0 (weights s) rb)
            || (py_dget 0 (weights s) ra =? py_dget 0 (weights s) rb) && (ra <? rb)); reflexivity.
Qed.
