(* Executable model of comb_spec_searcher/equiv_db.py (EquivalenceDB),
   transcribed method by method.  No proofs here.

   Python behaviour modelled as it is:
   - `parents`, `weights`, `vertices`, `_one_way_vertices` are dicts: association
     lists in insertion order (an update keeps the position, a new key is
     appended); `vertices` and `_one_way_vertices` are defaultdict(set): reading a
     missing key creates it with an empty set (`touch`).
   - a set of ints is the list of its elements in insertion order; the order
     in which CPython ITERATES over a set is the Section variable `order`
     (the theorems hold for every `order` that returns the same elements;
     the runnable instance uses ascending order, which is what CPython does
     for sets of small non-negative ints, see harness/props/c06.py).
   - every loop runs on explicit fuel; `None` = out of fuel, or a KeyError
     on `self.parents[root]` (both excluded by the theorems' hypothesis
     `exec ... = Some ...`; the harness reports a `None` as an error).
   - `self.weights[r]` of a missing key is modelled as 0 (it cannot be missing:
     `__getitem__` creates both entries together). *)
From Coq Require Import ZArith List Bool.
Import ListNotations.
Open Scope Z_scope.

Definition dict (V : Type) := list (Z * V).

Fixpoint get {V} (d : dict V) (k : Z) : option V :=
  match d with
  | [] => None
  | (k', v) :: t => if Z.eqb k' k then Some v else get t k
  end.

(* d[k] = v *)
Fixpoint set {V} (d : dict V) (k : Z) (v : V) : dict V :=
  match d with
  | [] => [(k, v)]
  | (k', v') :: t => if Z.eqb k' k then (k', v) :: t else (k', v') :: set t k v
  end.

Definition mem (x : Z) (l : list Z) : bool := existsb (Z.eqb x) l.
(* set.add *)
Definition sadd (l : list Z) (x : Z) : list Z := if mem x l then l else l ++ [x].
(* value of d[k] for a defaultdict(set) *)
Definition dget (d : dict (list Z)) (k : Z) : list Z :=
  match get d k with Some l => l | None => [] end.
(* side effect of reading d[k] on a defaultdict(set) *)
Definition touch (d : dict (list Z)) (k : Z) : dict (list Z) :=
  match get d k with Some _ => d | None => d ++ [(k, [])] end.
(* d[k].add(x) *)
Definition dadd (d : dict (list Z)) (k x : Z) : dict (list Z) :=
  set d k (sadd (dget d k) x).

Notation "'do' p <- a ; b" :=
  (match a with Some p => b | None => None end)
  (at level 200, p pattern, a at level 100, b at level 200).

Record db := mk {
  parents : dict Z;
  weights : dict Z;
  verified : list Z;            (* verified_roots *)
  vertices : dict (list Z);
  oneway : dict (list Z)        (* _one_way_vertices *)
}.

Definition init : db := mk [] [] [] [] [].

Definition with_parents s p := mk p (weights s) (verified s) (vertices s) (oneway s).
Definition with_weights s w := mk (parents s) w (verified s) (vertices s) (oneway s).
Definition with_verified s v := mk (parents s) (weights s) v (vertices s) (oneway s).
Definition with_vertices s v := mk (parents s) (weights s) (verified s) v (oneway s).
Definition with_oneway s o := mk (parents s) (weights s) (verified s) (vertices s) o.

Definition wget (s : db) (k : Z) : Z :=
  match get (weights s) k with Some w => w | None => 0 end.

(* the while loop of __getitem__:  path.append(root); root = self.parents[root]
   `acc` holds the labels of `path` (order irrelevant), `last` = path[-1] *)
Fixpoint climb (fuel : nat) (p : dict Z) (acc : list Z) (last root : Z)
  : option (list Z * Z) :=
  if Z.eqb root last then Some (acc, root)
  else match fuel with
       | O => None
       | S f => match get p root with
                | None => None
                | Some nr => climb f p (root :: acc) root nr
                end
       end.

(* for ancestor in path: self.parents[ancestor] = root *)
Definition compress (p : dict Z) (path : list Z) (root : Z) : dict Z :=
  fold_left (fun p a => set p a root) path p.

(* EquivalenceDB.__getitem__ *)
Definition find (s : db) (x : Z) : option (db * Z) :=
  match get (parents s) x with
  | None =>
      Some (mk (set (parents s) x x) (set (weights s) x 1) (verified s)
               (vertices s) (oneway s), x)
  | Some root =>
      do (path, r) <- climb (length (parents s)) (parents s) [x] x root;
      Some (with_parents s (compress (parents s) path r), r)
  end.

(* EquivalenceDB.is_verified *)
Definition is_verified (s : db) (x : Z) : option (db * bool) :=
  do (s1, r) <- find s x;
  Some (s1, mem r (verified s1)).

(* EquivalenceDB.set_verified *)
Definition set_verified (s : db) (x : Z) : option db :=
  do (s1, v) <- is_verified s x;
  if v then Some s1
  else do (s2, r) <- find s1 x;
       Some (with_verified s2 (sadd (verified s2) r)).

(* EquivalenceDB.equivalent *)
Definition equivalent (s : db) (a b : Z) : option (db * bool) :=
  do (s1, ra) <- find s a;
  do (s2, rb) <- find s1 b;
  Some (s2, Z.eqb ra rb).

(* body of `for r in roots: if r != heaviest: ...` *)
Definition link (s : db) (h r : Z) : db :=
  if Z.eqb r h then s
  else mk (set (parents s) r h) (set (weights s) h (wget s h + wget s r))
          (verified s) (vertices s) (oneway s).

(* max(((self.weights[r], r) for r in [ra, rb]))[1] *)
Definition heaviest (s : db) (ra rb : Z) : Z :=
  let wa := wget s ra in
  let wb := wget s rb in
  if (wa <? wb) || ((wa =? wb) && (ra <? rb)) then rb else ra.

(* EquivalenceDB._set_equivalent *)
Definition set_equivalent (s : db) (a b : Z) : option db :=
  do (s1, va) <- is_verified s a;
  do (s2, v) <- (if va then Some (s1, true) else is_verified s1 b);
  do (s3, ra) <- find s2 a;
  do (s4, rb) <- find s3 b;
  let h := heaviest s4 ra rb in
  let s5 := link (link s4 h ra) h rb in
  if v then set_verified s5 a else Some s5.

(* EquivalenceDB._add_edge *)
Definition add_edge (s : db) (a b : Z) : db :=
  if Z.eqb a b then s else with_vertices s (dadd (vertices s) a b).

(* EquivalenceDB.add_two_way_edge *)
Definition add_two_way (s : db) (a b : Z) : option db :=
  set_equivalent (add_edge (add_edge s a b) b a) a b.

(* EquivalenceDB.add_one_way_edge:
   self._one_way_vertices[self[label]].add(self[other_label]) *)
Definition add_one_way (s : db) (a b : Z) : option db :=
  let s0 := add_edge s a b in
  do (s1, ra) <- find s0 a;
  let s1' := with_oneway s1 (touch (oneway s1) ra) in
  do (s2, rb) <- find s1' b;
  Some (with_oneway s2 (dadd (oneway s2) ra rb)).

(* ascending order: the runnable instance of the set-iteration order *)
Fixpoint insert (x : Z) (l : list Z) : list Z :=
  match l with
  | [] => [x]
  | y :: t => if x <=? y then x :: l else y :: insert x t
  end.
Definition isort (l : list Z) : list Z := fold_right insert [] l.

Inductive presult := PathKeyError | PathOk (p : list Z).

Definition nedges (d : dict (list Z)) : nat :=
  fold_left (fun n kv => (n + length (snd kv))%nat) d 0%nat.

Section Order.
Variable order : list Z -> list Z.   (* iteration order of a set of ints *)

(* EquivalenceDB.get_one_way_vertices, inner loop `for end in ends` *)
Fixpoint gow_ends (s : db) (res : dict (list Z)) (rs : Z) (ends : list Z)
  : option (db * dict (list Z)) :=
  match ends with
  | [] => Some (s, res)
  | e :: t =>
      do (s1, re) <- find s e;
      gow_ends s1 (if Z.eqb rs re then res else dadd res rs re) rs t
  end.

(* outer loop `for start, ends in self._one_way_vertices.items()` *)
Fixpoint gow_items (s : db) (res : dict (list Z)) (items : dict (list Z))
  : option (db * dict (list Z)) :=
  match items with
  | [] => Some (s, res)
  | (st, ends) :: t =>
      do (s1, rs) <- find s st;
      do (s2, res2) <- gow_ends s1 res rs (order ends);
      gow_items s2 res2 t
  end.

Definition get_one_way_vertices (s : db) : option db :=
  do (s1, res) <- gow_items s [] (oneway s);
  Some (with_oneway s1 res).

(* for eqv_vertix in path[i:]: self._set_equivalent(eqv_vertix, new_end) *)
Fixpoint merge_all (s : db) (l : list Z) (ne : Z) : option db :=
  match l with
  | [] => Some s
  | v :: t => do s1 <- set_equivalent s v ne; merge_all s1 t ne
  end.

(* for i, vertex in enumerate(path[:-1]):
       if self.equivalent(vertex, new_end): <merge path[i:]>; break
   `suffix` is path[i:] *)
Fixpoint scan_cycle (s : db) (suffix : list Z) (ne : Z) : option db :=
  match suffix with
  | [] => Some s
  | v :: t =>
      match t with
      | [] => Some s
      | _ :: _ =>
          do (s1, e) <- equivalent s v ne;
          if e then merge_all s1 suffix ne else scan_cycle s1 t ne
      end
  end.

(* for new_end in one_way_vertices[end]: ... *)
Fixpoint cc_ends (s : db) (path : list Z) (stack : list (list Z)) (nes : list Z)
  : option (db * list (list Z)) :=
  match nes with
  | [] => Some (s, stack)
  | ne :: t =>
      do s1 <- scan_cycle s path ne;
      cc_ends s1 path (if mem ne path then stack else (path ++ [ne]) :: stack) t
  end.

(* while stack: ...   (head of the Coq list = top of the Python stack) *)
Fixpoint cc_loop (fuel : nat) (s : db) (stack : list (list Z)) (visited : list Z)
  : option db :=
  match stack with
  | [] => Some s
  | path :: rest =>
      match fuel with
      | O => None
      | S f =>
          let e := last path 0 in
          if mem e visited then cc_loop f s rest visited
          else
            let s1 := with_oneway s (touch (oneway s) e) in
            do (s2, st2) <- cc_ends s1 path rest (order (dget (oneway s1) e));
            cc_loop f s2 st2 (e :: visited)
      end
  end.

(* EquivalenceDB.connect_cycles *)
Definition connect_cycles (s : db) : option db :=
  do s1 <- get_one_way_vertices s;
  let ow := oneway s1 in
  cc_loop (S (length ow + nedges ow)) s1 (rev (map (fun kv => [fst kv]) ow)) [].

(* for new_end in self.vertices[end]: if new_end in path: continue; append *)
Fixpoint fp_push (path : list Z) (deque : list (list Z)) (nes : list Z)
  : list (list Z) :=
  match nes with
  | [] => deque
  | ne :: t =>
      fp_push path (if mem ne path then deque else deque ++ [path ++ [ne]]) t
  end.

(* the BFS loop of find_path; `cur` is the Python variable `path` *)
Fixpoint fp_loop (fuel : nat) (s : db) (b : Z) (deque : list (list Z))
  (visited : list Z) (cur : list Z) : option (db * list Z) :=
  match deque with
  | [] => Some (s, cur)
  | path :: rest =>
      match fuel with
      | O => None
      | S f =>
          let e := last path 0 in
          if Z.eqb e b then Some (s, path)
          else if mem e visited then fp_loop f s b rest visited path
          else
            let s1 := with_vertices s (touch (vertices s) e) in
            fp_loop f s1 b (fp_push path rest (order (dget (vertices s1) e)))
                    (e :: visited) path
      end
  end.

(* EquivalenceDB.find_path *)
Definition find_path (s : db) (a b : Z) : option (db * presult) :=
  do (s1, e) <- equivalent s a b;
  if e then
    do (s2, p) <- fp_loop (S (S (nedges (vertices s1)))) s1 b [[a]] [] [];
    Some (s2, PathOk p)
  else Some (s1, PathKeyError).

Inductive op :=
| TwoWay (a b : Z)
| OneWay (a b : Z)
| SetVerified (a : Z)
| Connect
| QEquiv (a b : Z)
| QVerified (a : Z)
| QFind (a : Z)
| QPath (a b : Z).

Inductive res :=
| RNone
| RBool (b : bool)
| RLabel (r : Z)
| RPath (p : presult).

Definition step (s : db) (o : op) : option (db * res) :=
  match o with
  | TwoWay a b => do s1 <- add_two_way s a b; Some (s1, RNone)
  | OneWay a b => do s1 <- add_one_way s a b; Some (s1, RNone)
  | SetVerified a => do s1 <- set_verified s a; Some (s1, RNone)
  | Connect => do s1 <- connect_cycles s; Some (s1, RNone)
  | QEquiv a b => do (s1, e) <- equivalent s a b; Some (s1, RBool e)
  | QVerified a => do (s1, v) <- is_verified s a; Some (s1, RBool v)
  | QFind a => do (s1, r) <- find s a; Some (s1, RLabel r)
  | QPath a b => do (s1, p) <- find_path s a b; Some (s1, RPath p)
  end.

Fixpoint exec (s : db) (ops : list op) : option (db * list res) :=
  match ops with
  | [] => Some (s, [])
  | o :: t =>
      do (s1, r) <- step s o;
      do (s2, rs) <- exec s1 t;
      Some (s2, r :: rs)
  end.

Definition run_state (s : db) (ops : list op) : option db :=
  do (s', _) <- exec s ops; Some s'.

End Order.
