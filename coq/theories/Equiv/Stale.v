(* C06: the EXACT partition at any time (CLAUSES C06 (c)1).

   Between two cycle detections the classes are not the strongly connected components of the recorded
   graph (a one-way edge that closes a cycle is recorded but merges nothing until connect_cycles runs).
   What they are, exactly, in EVERY reachable state:

     before the first connect_cycles:   the closure of the two-way edges requested so far;
     after  pre ++ Connect :: post  (no Connect in post):
         the closure (reflexive, symmetric, transitive) of
           "mutually reachable along the edges recorded by pre"   (the components at the last detection)
           together with the two-way edges requested by post.

   One-way edges, set_verified and the four queries change no class (step_same_exact).  The right-hand
   sides do not mention the set-iteration order: every Boolean `equivalent` answers, in every state, is
   independent of it.  With post neutral this is C06_classes_are_sccs_after_neutral again. *)
From Coq Require Import ZArith List Bool Lia Relations.
From CSS Require Import Equiv.Model Equiv.Ref Equiv.UF Equiv.Inv Equiv.Hist Equiv.Cov
  Equiv.CompleteUF Equiv.Complete Equiv.Total Equiv.Neutral.
Import ListNotations.
Open Scope Z_scope.

Section Stale.
Variable order : list Z -> list Z.
Hypothesis order_In : forall l x, In x (order l) <-> In x l.

(* mutually reachable along the edges recorded by a history *)
Definition mutual (H : list op) (x y : Z) : Prop :=
  clos_refl_trans Z (recorded H) x y /\ clos_refl_trans Z (recorded H) y x.

(* the generators of the partition after  pre ++ Connect :: post *)
Definition gen (pre post : list op) (x y : Z) : Prop := mutual pre x y \/ twoway post x y.

(* ------------------------------------------------------------ one step, exactly *)
Lemma add_one_way_same s a b s' :
  add_one_way s a b = Some s' -> forall x y, same s' x y <-> same s x y.
Proof.
  unfold add_one_way. intros X.
  destruct (find (add_edge s a b) a) as [[s1 ra]|] eqn:F1; [|discriminate].
  destruct (find (with_oneway s1 (touch (oneway s1) ra)) b) as [[s2 rb]|] eqn:F2; [|discriminate].
  inv X. apply find_spec in F1. apply find_spec in F2.
  destruct F1 as (_ & (A1 & _)). destruct F2 as (_ & (A2 & _)).
  assert (R : forall y q, root (with_oneway s2 (dadd (oneway s2) ra rb)) y q <-> root s y q).
  { intros y q. change (root s2 y q <-> root s y q). rewrite A2.
    change (root s1 y q <-> root s y q). rewrite A1.
    unfold add_edge. destruct (Z.eqb a b); reflexivity. }
  intros x y. unfold same. split; intros (q & H1 & H2); exists q; split; apply R; assumption.
Qed.

Lemma step_same_exact H s o s' r :
  HInv H s -> step order s o = Some (s', r) -> o <> Connect ->
  forall x y, same s' x y <->
    (same s x y \/
     exists a b, o = TwoWay a b /\ ((same s x a /\ same s y b) \/ (same s x b /\ same s y a))).
Proof.
  intros I St NC.
  assert (Q : is_query o -> forall x y, same s' x y <->
            (same s x y \/ exists a b, o = TwoWay a b /\
               ((same s x a /\ same s y b) \/ (same s x b /\ same s y a)))).
  { intros q x y. rewrite (pres_same s s' x y (step_query_pres order s o s' r q St)).
    split; [left; assumption|]. intros [S|(a & b & E & _)]; [exact S|].
    subst o. destruct q. }
  destruct o as [a0 b0|a0 b0|a0| |a0 b0|a0|a0|a0 b0]; try (apply Q; exact Logic.I); simpl in St.
  - (* add_two_way_edge: merges exactly the two classes *)
    destruct (add_two_way s a0 b0) as [s1|] eqn:X; [|discriminate]. inv St.
    unfold add_two_way in X.
    set (s0 := add_edge (add_edge s a0 b0) b0 a0) in *.
    assert (S0 : forall x y, same s0 x y <-> same s x y).
    { intros x y. unfold s0, add_edge. destruct (Z.eqb a0 b0), (Z.eqb b0 a0); reflexivity. }
    assert (T0 : tot s0).
    { intros x. destruct (inv_total _ _ _ _ I x) as (q & Hq). exists q.
      unfold s0, add_edge. destruct (Z.eqb a0 b0), (Z.eqb b0 a0); exact Hq. }
    destruct (set_equivalent_same s0 a0 b0 s' T0 X) as (_ & _ & SS).
    intros x y. rewrite SS, !S0. split.
    + intros [S|M]; [left; exact S|right; exists a0, b0; split; [reflexivity|exact M]].
    + intros [S|(a & b & E & M)]; [left; exact S|right]. injection E as <- <-. exact M.
  - (* add_one_way_edge: no class changes *)
    destruct (add_one_way s a0 b0) as [s1|] eqn:X; [|discriminate]. inv St.
    intros x y. rewrite (add_one_way_same _ _ _ _ X x y).
    split; [left; assumption|]. intros [S|(a & b & E & _)]; [exact S|discriminate E].
  - (* set_verified *)
    destruct (set_verified s a0) as [s1|] eqn:X; [|discriminate]. inv St.
    intros x y. rewrite (rsame_same _ _ x y (set_verified_rsame _ _ _ X)).
    split; [left; assumption|]. intros [S|(a & b & E & _)]; [exact S|discriminate E].
  - (* connect_cycles: excluded *)
    exfalso. apply NC. reflexivity.
Qed.

(* ------------------------------------------------------------ closures *)
Lemma mutual_eqv H : (forall x, mutual H x x) /\ (forall x y, mutual H x y -> mutual H y x) /\
  (forall x y z, mutual H x y -> mutual H y z -> mutual H x z).
Proof.
  split; [intros x; split; apply rt_refl|]. split; [intros x y (A & B); split; assumption|].
  intros x y z (A1 & B1) (A2 & B2). split; eapply rt_trans; eassumption.
Qed.

Lemma clos_mutual_nil pre a b : clos_refl_sym_trans Z (gen pre []) a b <-> mutual pre a b.
Proof.
  destruct (mutual_eqv pre) as (Rf & Sy & Tr). split.
  - induction 1 as [x y [M|[]]|x|x y _ IH|x y z _ IH1 _ IH2]; auto. eapply Tr; eassumption.
  - intros M. apply rst_step. left. exact M.
Qed.

Lemma gen_snoc pre post o x y :
  gen pre (post ++ [o]) x y <-> gen pre post x y \/ o = TwoWay x y.
Proof.
  unfold gen, twoway. rewrite in_snoc. tauto.
Qed.

Lemma clos_mono (A B : Z -> Z -> Prop) : (forall x y, A x y -> B x y) ->
  forall x y, clos_refl_sym_trans Z A x y -> clos_refl_sym_trans Z B x y.
Proof.
  intros S x y H. induction H as [x y H|x|x y _ IH|x y z _ IH1 _ IH2].
  - apply rst_step. apply S. exact H.
  - apply rst_refl.
  - apply rst_sym. exact IH.
  - eapply rst_trans; eassumption.
Qed.

(* ------------------------------------------------------------ the partition after the last detection *)
Lemma exact_after_connect_gen : forall post pre s rs,
  Forall (fun o => o <> Connect) post ->
  exec order init (pre ++ Connect :: post) = Some (s, rs) ->
  forall a b, same s a b <-> clos_refl_sym_trans Z (gen pre post) a b.
Proof.
  induction post as [|o post IH] using rev_ind; intros pre s rs F Ex a b.
  - (* right after the detection: the strongly connected components *)
    rewrite clos_mutual_nil.
    pose proof (reach_inv order order_In _ _ _ Ex) as I.
    assert (Sub : forall x y, recorded (pre ++ [Connect]) x y <-> recorded pre x y).
    { intros x y. unfold recorded. rewrite !in_snoc. split.
      - intros (N & [[X|X]|[[X|X]|[X|X]]]); split; auto; discriminate.
      - intros (N & X). split; [exact N|]. tauto. }
    split.
    + intros S. split.
      * apply (clos_rt_iff _ _ Sub). apply (HInv_reach _ _ _ _ I). eapply inv_sound; eauto.
      * apply (clos_rt_iff _ _ Sub). apply (HInv_reach _ _ _ _ I). eapply inv_sound; eauto.
        apply same_sym. exact S.
    + intros (R1 & R2).
      apply (complete_after_connect order order_In pre s rs a b Ex);
        apply (clos_rt_iff _ _ Sub); assumption.
  - (* one more operation that is not a detection *)
    apply Forall_app in F. destruct F as (F & Fo). inversion Fo as [|? ? NC _]. subst.
    replace (pre ++ Connect :: post ++ [o]) with ((pre ++ Connect :: post) ++ [o]) in Ex
      by (rewrite <- app_assoc; reflexivity).
    apply exec_snoc in Ex. destruct Ex as (s1 & rs1 & r & Ex & St).
    pose proof (reach_inv order order_In _ _ _ Ex) as I.
    pose proof (IH pre s1 rs1 F Ex) as IH1.
    rewrite (step_same_exact _ _ _ _ _ I St NC a b).
    split.
    + intros [S|(x & y & E & M)].
      * apply (clos_mono (gen pre post)); [intros u v G; apply gen_snoc; left; exact G|].
        apply IH1. exact S.
      * assert (G : clos_refl_sym_trans Z (gen pre (post ++ [o])) x y).
        { apply rst_step. apply gen_snoc. right. exact E. }
        assert (Up : forall u v, same s1 u v -> clos_refl_sym_trans Z (gen pre (post ++ [o])) u v).
        { intros u v S. apply (clos_mono (gen pre post)); [intros p q G'; apply gen_snoc; left; exact G'|].
          apply IH1. exact S. }
        destruct M as [(Sa & Sb)|(Sa & Sb)].
        -- eapply rst_trans; [apply Up; exact Sa|]. eapply rst_trans; [exact G|].
           apply rst_sym. apply Up. exact Sb.
        -- eapply rst_trans; [apply Up; exact Sa|]. eapply rst_trans; [apply rst_sym; exact G|].
           apply rst_sym. apply Up. exact Sb.
    + intros C.
      (* the right-hand side of step_same_exact is an equivalence containing the generators *)
      set (P := fun u v => same s1 u v \/
                 exists x y, o = TwoWay x y /\ ((same s1 u x /\ same s1 v y) \/ (same s1 u y /\ same s1 v x))).
      assert (Prefl : forall u, P u u) by (intros u; left; eapply same_refl; eauto).
      assert (Psym : forall u v, P u v -> P v u).
      { intros u v [S|(x & y & E & [(A & B)|(A & B)])].
        - left. apply same_sym. exact S.
        - right. exists x, y. split; [exact E|right; split; assumption].
        - right. exists x, y. split; [exact E|left; split; assumption]. }
      assert (Ptrans : forall u v w, P u v -> P v w -> P u w).
      { intros u v w [S1|(x & y & E & M1)] [S2|(x' & y' & E' & M2)].
        - left. eapply same_trans; eassumption.
        - right. exists x', y'. split; [exact E'|].
          destruct M2 as [(A & B)|(A & B)]; [left|right]; (split; [eapply same_trans; eassumption|exact B]).
        - right. exists x, y. split; [exact E|].
          destruct M1 as [(A & B)|(A & B)]; [left|right]; (split; [exact A|]);
            (eapply same_trans; [apply same_sym; exact S2|exact B]).
        - rewrite E in E'. injection E' as <- <-.
          destruct M1 as [(A & B)|(A & B)], M2 as [(A' & B')|(A' & B')].
          + (* u~x, v~y ; v~x, w~y : then x~y, everything is one class *)
            left. assert (XY : same s1 x y) by (eapply same_trans; [apply same_sym; exact A'|exact B]).
            eapply same_trans; [exact A|]. eapply same_trans; [exact XY|]. apply same_sym. exact B'.
          + (* u~x, v~y ; v~y, w~x *)
            left. eapply same_trans; [exact A|]. apply same_sym. exact B'.
          + (* u~y, v~x ; v~x, w~y *)
            left. eapply same_trans; [exact A|]. apply same_sym. exact B'.
          + (* u~y, v~x ; v~y, w~x : x~y *)
            left. assert (XY : same s1 y x) by (eapply same_trans; [apply same_sym; exact A'|exact B]).
            eapply same_trans; [exact A|]. eapply same_trans; [exact XY|]. apply same_sym. exact B'. }
      change (P a b).
      induction C as [u v G|u|u v _ IHc|u v w _ IH1c _ IH2c].
      * apply gen_snoc in G. destruct G as [G|E].
        -- left. apply IH1. apply rst_step. exact G.
        -- right. exists u, v. split; [exact E|]. left. split; eapply same_refl; eauto.
      * apply Prefl.
      * apply Psym. exact IHc.
      * eapply Ptrans; eassumption.
Qed.

Theorem exact_after_connect pre post s rs :
  Forall (fun o => o <> Connect) post ->
  exec order init (pre ++ Connect :: post) = Some (s, rs) ->
  forall a b, same s a b <-> clos_refl_sym_trans Z (gen pre post) a b.
Proof. intros F Ex. exact (exact_after_connect_gen post pre s rs F Ex). Qed.

(* ------------------------------------------------------------ before the first detection *)
Lemma exact_before_connect_gen : forall ops s rs,
  Forall (fun o => o <> Connect) ops ->
  exec order init ops = Some (s, rs) ->
  forall a b, same s a b <-> clos_refl_sym_trans Z (twoway ops) a b.
Proof.
  induction ops as [|o ops IH] using rev_ind; intros s rs F Ex a b.
  - simpl in Ex. inv Ex. split.
    + intros (q & H1 & H2).
      assert (Hid : forall x q0, root init x q0 -> q0 = x).
      { intros x q0 H. apply chain_id. eapply chain_ext; [|exact H]. reflexivity. }
      apply Hid in H1. apply Hid in H2. subst q. subst b. apply rst_refl.
    + intros C. induction C as [u v []|u|u v _ IHc|u v w _ IH1c _ IH2c].
      * eapply same_refl. apply HInv_init.
      * apply same_sym. exact IHc.
      * eapply same_trans; eassumption.
  - apply Forall_app in F. destruct F as (F & Fo). inversion Fo as [|? ? NC _]. subst.
    apply exec_snoc in Ex. destruct Ex as (s1 & rs1 & r & Ex & St).
    pose proof (reach_inv order order_In _ _ _ Ex) as I.
    pose proof (IH s1 rs1 F Ex) as IH1.
    assert (Tw : forall x y, twoway (ops ++ [o]) x y <-> twoway ops x y \/ o = TwoWay x y).
    { intros x y. unfold twoway. rewrite in_snoc. tauto. }
    rewrite (step_same_exact _ _ _ _ _ I St NC a b).
    assert (Up : forall u v, same s1 u v -> clos_refl_sym_trans Z (twoway (ops ++ [o])) u v).
    { intros u v S. apply (clos_mono (twoway ops)); [intros p q G'; apply Tw; left; exact G'|].
      apply IH1. exact S. }
    split.
    + intros [S|(x & y & E & M)]; [apply Up; exact S|].
      assert (G : clos_refl_sym_trans Z (twoway (ops ++ [o])) x y) by (apply rst_step; apply Tw; right; exact E).
      destruct M as [(Sa & Sb)|(Sa & Sb)].
      * eapply rst_trans; [apply Up; exact Sa|]. eapply rst_trans; [exact G|]. apply rst_sym. apply Up. exact Sb.
      * eapply rst_trans; [apply Up; exact Sa|]. eapply rst_trans; [apply rst_sym; exact G|].
        apply rst_sym. apply Up. exact Sb.
    + intros C.
      set (P := fun u v => same s1 u v \/
                 exists x y, o = TwoWay x y /\ ((same s1 u x /\ same s1 v y) \/ (same s1 u y /\ same s1 v x))).
      assert (Prefl : forall u, P u u) by (intros u; left; eapply same_refl; eauto).
      assert (Psym : forall u v, P u v -> P v u).
      { intros u v [S|(x & y & E & [(A & B)|(A & B)])].
        - left. apply same_sym. exact S.
        - right. exists x, y. split; [exact E|right; split; assumption].
        - right. exists x, y. split; [exact E|left; split; assumption]. }
      assert (Ptrans : forall u v w, P u v -> P v w -> P u w).
      { intros u v w [S1|(x & y & E & M1)] [S2|(x' & y' & E' & M2)].
        - left. eapply same_trans; eassumption.
        - right. exists x', y'. split; [exact E'|].
          destruct M2 as [(A & B)|(A & B)]; [left|right]; (split; [eapply same_trans; eassumption|exact B]).
        - right. exists x, y. split; [exact E|].
          destruct M1 as [(A & B)|(A & B)]; [left|right]; (split; [exact A|]);
            (eapply same_trans; [apply same_sym; exact S2|exact B]).
        - rewrite E in E'. injection E' as <- <-.
          destruct M1 as [(A & B)|(A & B)], M2 as [(A' & B')|(A' & B')].
          + left. assert (XY : same s1 x y) by (eapply same_trans; [apply same_sym; exact A'|exact B]).
            eapply same_trans; [exact A|]. eapply same_trans; [exact XY|]. apply same_sym. exact B'.
          + left. eapply same_trans; [exact A|]. apply same_sym. exact B'.
          + left. eapply same_trans; [exact A|]. apply same_sym. exact B'.
          + left. assert (XY : same s1 y x) by (eapply same_trans; [apply same_sym; exact A'|exact B]).
            eapply same_trans; [exact A|]. eapply same_trans; [exact XY|]. apply same_sym. exact B'. }
      change (P a b).
      induction C as [u v G|u|u v _ IHc|u v w _ IH1c _ IH2c].
      * apply Tw in G. destruct G as [G|E].
        -- left. apply IH1. apply rst_step. exact G.
        -- right. exists u, v. split; [exact E|]. left. split; eapply same_refl; eauto.
      * apply Prefl.
      * apply Psym. exact IHc.
      * eapply Ptrans; eassumption.
Qed.

Theorem exact_before_connect ops s rs :
  Forall (fun o => o <> Connect) ops ->
  exec order init ops = Some (s, rs) ->
  forall a b, same s a b <-> clos_refl_sym_trans Z (twoway ops) a b.
Proof. exact (exact_before_connect_gen ops s rs). Qed.

End Stale.
