(* Completeness of connect_cycles, part 2: the depth-first invariant, over an
   ABSTRACT equivalence relation `sm` (the live union-find partition), an
   abstract edge relation E (the re-keyed one-way table) and vertex set Vx
   (the snapshot roots).

   Ghost state: g, the gray path = the path of the vertex being expanded (or,
   between two iterations, any list of which every path[:-1] on the stack is a
   prefix).  A visited vertex is OPEN when it is equivalent to a gray vertex
   and CLOSED otherwise.

   INV g st V sm e nes    (e = vertex being expanded, nes = its out-neighbours
                           still to be processed; nes = [] between iterations)
     i_stack : the stack is a LIFO frontier: each path[:-1] is a prefix of the
               path[:-1] above it, the top one a prefix of g
     i_S     : unvisited vertices are alone in their class
     i_B     : every processed edge v -> w from a visited v leads to a visited
               w or to a stack entry q ++ [w] with v in q
     i_C     : the classes cut the gray path into contiguous segments
     i_E     : every processed edge x -> y from a visited x into the class of
               the gray vertex number a starts in the class of a gray vertex
               number b <= a          (edges never point "up" the gray path)
     i_F1/2  : closed vertices only point to closed vertices, and mutually
               reachable closed vertices are equivalent
     i_K     : every vertex with an out-edge is visited or ends a stack entry
   When the stack is empty every vertex with an out-edge is closed, so i_F2 is
   completeness. *)
From Coq Require Import ZArith List Bool Lia Relations.
Import ListNotations.
Open Scope Z_scope.

Record eqv (sm : Z -> Z -> Prop) : Prop := {
  e_refl : forall x, sm x x;
  e_sym : forall x y, sm x y -> sm y x;
  e_trans : forall x y z, sm x y -> sm y z -> sm x z;
  e_dec : forall x y, sm x y \/ ~ sm x y
}.

(* ------------------------------------------------------------ lists *)
Definition prefix (q g : list Z) : Prop := exists r, g = q ++ r.

Lemma prefix_refl g : prefix g g.
Proof. exists []. rewrite app_nil_r; auto. Qed.

Lemma prefix_trans a b c : prefix a b -> prefix b c -> prefix a c.
Proof. intros (r1 & ->) (r2 & ->). exists (r1 ++ r2). rewrite app_assoc; auto. Qed.

Lemma prefix_app q r : prefix q (q ++ r).
Proof. exists r; auto. Qed.

Lemma prefix_In q g x : prefix q g -> In x q -> In x g.
Proof. intros (r & ->) H. apply in_app_iff; auto. Qed.

Lemma prefix_nth q g a u : prefix q g -> nth_error q a = Some u -> nth_error g a = Some u.
Proof.
  intros (r & ->) H. rewrite nth_error_app1; auto.
  apply nth_error_Some. congruence.
Qed.

Lemma prefix_nth_lt q g a u :
  prefix q g -> nth_error g a = Some u -> (a < length q)%nat -> nth_error q a = Some u.
Proof. intros (r & ->) H L. rewrite nth_error_app1 in H; auto. Qed.

Lemma nth_In_lt (l : list Z) x : In x l -> exists a, (a < length l)%nat /\ nth_error l a = Some x.
Proof.
  intros H. apply In_nth_error in H. destruct H as (a & H). exists a. split; auto.
  apply nth_error_Some. congruence.
Qed.

Lemma nth_snoc (q : list Z) e a u :
  nth_error (q ++ [e]) a = Some u ->
  ((a < length q)%nat /\ nth_error q a = Some u) \/ (a = length q /\ u = e).
Proof.
  intros H. destruct (Nat.lt_ge_cases a (length q)) as [L|L].
  - left. split; auto. rewrite nth_error_app1 in H; auto.
  - right. rewrite nth_error_app2 in H; auto.
    destruct (a - length q)%nat as [|k] eqn:K; simpl in H.
    + inversion H. split; auto. lia.
    + destruct k; discriminate.
Qed.

Lemma nth_split_ge (l1 l2 : list Z) a u :
  nth_error (l1 ++ l2) a = Some u -> (length l1 <= a)%nat -> In u l2.
Proof.
  intros H L. rewrite nth_error_app2 in H; auto. eapply nth_error_In; eauto.
Qed.

Lemma nth_split_lt (l1 l2 : list Z) a u :
  nth_error (l1 ++ l2) a = Some u -> (a < length l1)%nat -> In u l1.
Proof.
  intros H L. rewrite nth_error_app1 in H; auto. eapply nth_error_In; eauto.
Qed.

Lemma In_split_ge (l1 l2 : list Z) u :
  In u l2 -> exists j, (length l1 <= j)%nat /\ nth_error (l1 ++ l2) j = Some u.
Proof.
  intros H. apply In_nth_error in H. destruct H as (k & H).
  exists (length l1 + k)%nat. split; [lia|].
  rewrite nth_error_app2 by lia. replace (length l1 + k - length l1)%nat with k by lia. auto.
Qed.

Lemma snoc_last_In (l1 l2 q : list Z) v e :
  l1 ++ v :: l2 = q ++ [e] -> In e (v :: l2).
Proof.
  intros H. destruct (exists_last (l := v :: l2)) as (l' & z & Hz); [discriminate|].
  rewrite Hz in H. rewrite app_assoc in H. apply app_inj_tail in H. destruct H as (_ & ->).
  rewrite Hz. apply in_app_iff. right. left. auto.
Qed.

Section DFS.
Variable E : Z -> Z -> Prop.
Variable Vx : Z -> Prop.
Hypothesis E_Vx : forall x y, E x y -> Vx x /\ Vx y.

Fixpoint stack_ok (g : list Z) (st : list (list Z)) : Prop :=
  match st with
  | [] => True
  | p :: rest => exists q e, p = q ++ [e] /\ prefix q g /\ stack_ok q rest
  end.

Lemma stack_ok_mono st : forall g g', stack_ok g st -> prefix g g' -> stack_ok g' st.
Proof.
  destruct st as [|p rest]; simpl; auto.
  intros g g' (q & e & -> & P & S) P'. exists q, e. split; auto. split; auto.
  eapply prefix_trans; eauto.
Qed.

Lemma stack_ok_In : forall st g q w, stack_ok g st -> In (q ++ [w]) st -> prefix q g.
Proof.
  induction st as [|p rest IH]; intros g q w S H; [destruct H|].
  destruct S as (q0 & e0 & -> & P & S). destruct H as [H|H].
  - apply app_inj_tail in H. destruct H as (<- & _). auto.
  - eapply prefix_trans; [|exact P]. eapply IH; eauto.
Qed.

Definition closed (sm : Z -> Z -> Prop) (g V : list Z) (x : Z) : Prop :=
  In x V /\ forall u, In u g -> ~ sm x u.

Record INV (g : list Z) (st : list (list Z)) (V : list Z) (sm : Z -> Z -> Prop)
           (e : Z) (nes : list Z) : Prop := {
  i_stack : stack_ok g st;
  i_gV : incl g V;
  i_VVx : forall v, In v V -> Vx v;
  i_ends : forall q w, In (q ++ [w]) st -> Vx w;
  i_S : forall v w, ~ In v V -> Vx v -> Vx w -> sm v w -> v = w;
  i_B : forall v w, In v V -> E v w ->
        (v = e /\ In w nes) \/ In w V \/ exists q, In (q ++ [w]) st /\ In v q;
  i_C : forall a b c u v w, (a <= b <= c)%nat ->
        nth_error g a = Some u -> nth_error g b = Some v -> nth_error g c = Some w ->
        sm u w -> sm u v;
  i_E : forall x y a ga, In x V -> E x y -> ~ (x = e /\ In y nes) ->
        nth_error g a = Some ga -> sm y ga ->
        exists b gb, (b <= a)%nat /\ nth_error g b = Some gb /\ sm x gb;
  i_F1 : forall x y, closed sm g V x -> E x y -> closed sm g V y;
  i_F2 : forall x y, closed sm g V x -> closed sm g V y ->
         clos_refl_trans Z E x y -> clos_refl_trans Z E y x -> sm x y;
  i_K : forall x y, E x y -> In x V \/ exists q, In (q ++ [x]) st
}.

(* closed sets are closed under reachability *)
Lemma closed_reach sm g V :
  (forall x y, closed sm g V x -> E x y -> closed sm g V y) ->
  forall x y, clos_refl_trans Z E x y -> closed sm g V x -> closed sm g V y.
Proof.
  intros F1 x y R. apply clos_rt_rt1n in R. induction R; auto.
  intros C. apply IHR. eapply F1; eauto.
Qed.

(* ------------------------------------------------------------ same relation *)
Lemma INV_equiv g st V sm sm' e nes :
  (forall x y, sm' x y <-> sm x y) -> INV g st V sm e nes -> INV g st V sm' e nes.
Proof.
  intros Q I.
  assert (CQ : forall x, closed sm' g V x <-> closed sm g V x).
  { intros x. unfold closed. split; intros (H1 & H2); split; auto; intros u Hu X;
      apply (H2 u Hu); apply Q; auto. }
  destruct I. constructor; auto.
  - intros v w H1 H2 H3 H4. apply Q in H4. eauto.
  - intros a b c u v w H1 H2 H3 H4 H5. apply Q. apply Q in H5. eauto.
  - intros x y a ga H1 H2 H3 H4 H5. apply Q in H5.
    destruct (i_E0 x y a ga H1 H2 H3 H4 H5) as (b & gb & X1 & X2 & X3).
    exists b, gb. split; auto. split; auto. apply Q; auto.
  - intros x y H1 H2. apply CQ. apply CQ in H1. eauto.
  - intros x y H1 H2 H3 H4. apply Q. apply CQ in H1. apply CQ in H2. eauto.
Qed.

(* ------------------------------------------------------------ pop of a visited end *)
Lemma INV_skip g q e rest V sm e0 e1 :
  INV g ((q ++ [e]) :: rest) V sm e0 [] -> In e V -> INV g rest V sm e1 [].
Proof.
  intros I He. destruct I. constructor; auto.
  - destruct i_stack0 as (q0 & e' & _ & P & S). eapply stack_ok_mono; eauto.
  - intros q' w H. apply (i_ends0 q' w). right; auto.
  - intros v w H1 H2. destruct (i_B0 v w H1 H2) as [(_ & [])|[H|(q' & [H|H] & H')]]; auto.
    + apply app_inj_tail in H. destruct H as (_ & <-). auto.
    + right. right. eauto.
  - intros x y a ga H1 H2 _ H4 H5. apply (i_E0 x y a ga); auto. intros (_ & []).
  - intros x y H. destruct (i_K0 x y H) as [H'|(q' & [H'|H'])]; auto.
    + apply app_inj_tail in H'. destruct H' as (_ & <-). auto.
    + right. eauto.
Qed.

(* ------------------------------------------------------------ gray vertices turn black *)
Section Shrink.
Variables (g : list Z) (st : list (list Z)) (V : list Z) (sm : Z -> Z -> Prop) (e0 : Z).
Hypothesis EQ : eqv sm.
Hypothesis I : INV g st V sm e0 [].

(* u is "not above" v on the gray path *)
Definition le (u v : Z) : Prop :=
  forall c gc, nth_error g c = Some gc -> sm v gc ->
  exists b gb, (b <= c)%nat /\ nth_error g b = Some gb /\ sm u gb.

Lemma le_trans u v w : le u v -> le v w -> le u w.
Proof.
  intros H1 H2 c gc Hc Hw. destruct (H2 c gc Hc Hw) as (b & gb & L1 & Hb & Hv).
  destruct (H1 b gb Hb Hv) as (b' & gb' & L2 & Hb' & Hu).
  exists b', gb'. split; [lia|auto].
Qed.

Lemma le_refl u : le u u.
Proof. intros c gc Hc Hu. exists c, gc. auto. Qed.

Lemma le_edge x y : In x V -> E x y -> le x y.
Proof.
  intros Hx Hxy c gc Hc Hy. apply (i_E _ _ _ _ _ _ I x y c gc); auto. intros (_ & []).
Qed.

Lemma open_dec x : (exists a ga, nth_error g a = Some ga /\ sm x ga) \/
                   (forall u, In u g -> ~ sm x u).
Proof.
  assert (H : forall l, (exists u, In u l /\ sm x u) \/ (forall u, In u l -> ~ sm x u)).
  { induction l as [|u l IH]; [right; intros u []|].
    destruct (e_dec _ EQ x u) as [H|H]; [left; exists u; simpl; auto|].
    destruct IH as [(u' & H1 & H2)|IH]; [left; exists u'; simpl; auto|].
    right. intros u' [<-|H']; auto. }
  destruct (H g) as [(u & H1 & H2)|H']; auto.
  left. apply In_nth_error in H1. destruct H1 as (a & H1). eauto.
Qed.

Lemma le_antisym x y : le x y -> le y x ->
  forall a ga, nth_error g a = Some ga -> sm x ga -> sm x y.
Proof.
  intros Hxy Hyx a. induction a as [a IH] using lt_wf_ind. intros ga Ha Hx.
  destruct (Hyx a ga Ha Hx) as (b & gb & L1 & Hb & Hy).
  destruct (Hxy b gb Hb Hy) as (b' & gb' & L2 & Hb' & Hx').
  destruct (Nat.eq_dec b' a) as [->|N].
  - assert (b = a) by lia. subst b. rewrite Ha in Hb. inversion Hb; subst gb.
    apply (e_trans _ EQ x ga y Hx). apply (e_sym _ EQ). exact Hy.
  - apply (IH b' ltac:(lia) gb'); auto.
Qed.

Variable g' : list Z.
Hypothesis P : prefix g' g.
Hypothesis S' : stack_ok g' st.

Lemma shrink_F1 x y : closed sm g' V x -> E x y -> closed sm g' V y.
Proof.
  intros (Hx & Nx) Hxy. split.
  - destruct (i_B _ _ _ _ _ _ I x y Hx Hxy) as [(_ & [])|[H|(q & H1 & H2)]]; auto.
    exfalso. apply (Nx x); [|apply (e_refl _ EQ)].
    eapply prefix_In; [|exact H2]. eapply stack_ok_In; eauto.
  - intros u Hu Hyu. apply nth_In_lt in Hu. destruct Hu as (a & La & Ha).
    destruct (le_edge x y Hx Hxy a u (prefix_nth _ _ _ _ P Ha) Hyu) as (b & gb & L & Hb & Hxb).
    apply (Nx gb); auto. eapply nth_error_In. eapply prefix_nth_lt; eauto. lia.
Qed.

Lemma shrink_le x y : clos_refl_trans Z E x y -> closed sm g' V x -> le x y.
Proof.
  intros R. apply clos_rt_rt1n in R. induction R as [x|x z y Hxz R IH]; intros C.
  - apply le_refl.
  - eapply le_trans; [apply le_edge; [apply C|exact Hxz]|].
    apply IH. eapply shrink_F1; eauto.
Qed.

Lemma INV_shrink e1 : INV g' st V sm e1 [].
Proof.
  constructor.
  - exact S'.
  - intros x Hx. apply (i_gV _ _ _ _ _ _ I). eapply prefix_In; eauto.
  - apply (i_VVx _ _ _ _ _ _ I).
  - apply (i_ends _ _ _ _ _ _ I).
  - apply (i_S _ _ _ _ _ _ I).
  - intros v w H1 H2. destruct (i_B _ _ _ _ _ _ I v w H1 H2) as [(_ & [])|H]; auto.
  - intros a b c u v w L Ha Hb Hc. apply (i_C _ _ _ _ _ _ I a b c); auto;
      eapply prefix_nth; eauto.
  - intros x y a ga Hx Hxy _ Ha Hy.
    destruct (le_edge x y Hx Hxy a ga (prefix_nth _ _ _ _ P Ha) Hy) as (b & gb & L & Hb & Hxb).
    exists b, gb. split; auto. split; auto. eapply prefix_nth_lt; eauto.
    assert (a < length g')%nat by (apply nth_error_Some; congruence). lia.
  - exact shrink_F1.
  - intros x y Cx Cy Rxy Ryx.
    destruct (open_dec x) as [(a & ga & Ha & Hx)|Nx].
    + apply (le_antisym x y (shrink_le x y Rxy Cx) (shrink_le y x Ryx Cy) a ga Ha Hx).
    + assert (Cx0 : closed sm g V x) by (split; [apply Cx|exact Nx]).
      apply (i_F2 _ _ _ _ _ _ I); auto.
      eapply closed_reach; eauto. apply (i_F1 _ _ _ _ _ _ I).
  - apply (i_K _ _ _ _ _ _ I).
Qed.

End Shrink.

(* ------------------------------------------------------------ a vertex is visited *)
Lemma INV_grow q e rest V sm e0 nes :
  eqv sm -> INV q ((q ++ [e]) :: rest) V sm e0 [] -> ~ In e V ->
  (forall w, E e w -> In w nes) ->
  INV (q ++ [e]) rest (e :: V) sm e nes.
Proof.
  intros EQ I Ne Hn.
  assert (Ve : Vx e) by (apply (i_ends _ _ _ _ _ _ I q e); left; auto).
  assert (Sq : stack_ok q rest).
  { destruct (i_stack _ _ _ _ _ _ I) as (q0 & e' & H & _ & S).
    apply app_inj_tail in H. destruct H as (-> & _). auto. }
  assert (Se : forall x, Vx x -> sm x e -> x = e).
  { intros x Hx H. symmetry. apply (i_S _ _ _ _ _ _ I e x); auto. apply (e_sym _ EQ); auto. }
  assert (CQ : forall x, closed sm (q ++ [e]) (e :: V) x <-> closed sm q V x).
  { intros x. split; intros (H1 & H2).
    - destruct H1 as [<-|H1].
      + exfalso. apply (H2 e); [apply in_app_iff; simpl; auto|apply (e_refl _ EQ)].
      + split; auto. intros u Hu. apply H2. apply in_app_iff; auto.
    - split; [right; auto|]. intros u Hu X. apply in_app_iff in Hu.
      destruct Hu as [Hu|[<-|[]]]; [apply (H2 u Hu X)|].
      apply Ne. rewrite <- (Se x); auto. apply (i_VVx _ _ _ _ _ _ I); auto. }
  constructor.
  - eapply stack_ok_mono; [exact Sq|apply prefix_app].
  - intros x Hx. apply in_app_iff in Hx. destruct Hx as [Hx|[<-|[]]]; [right|left; auto].
    apply (i_gV _ _ _ _ _ _ I); auto.
  - intros v [<-|Hv]; auto. apply (i_VVx _ _ _ _ _ _ I); auto.
  - intros q' w H. apply (i_ends _ _ _ _ _ _ I q' w). right; auto.
  - intros v w Nv. apply (i_S _ _ _ _ _ _ I). intros X. apply Nv. right; auto.
  - intros v w [<-|Hv] Hvw; [left; auto|].
    destruct (i_B _ _ _ _ _ _ I v w Hv Hvw) as [(_ & [])|[H|(q' & [H|H] & H')]].
    + right. left. right. auto.
    + apply app_inj_tail in H. destruct H as (_ & <-). right. left. left. auto.
    + right. right. eauto.
  - intros a b c u v w L Ha Hb Hc Huw.
    apply nth_snoc in Hc. destruct Hc as [(Lc & Hc)|(-> & ->)].
    + apply nth_snoc in Ha. destruct Ha as [(La & Ha)|(-> & _)]; [|lia].
      apply nth_snoc in Hb. destruct Hb as [(Lb & Hb)|(-> & _)]; [|lia].
      apply (i_C _ _ _ _ _ _ I a b c u v w); auto.
    + apply nth_snoc in Ha. destruct Ha as [(La & Ha)|(-> & ->)].
      * exfalso. apply Ne. rewrite <- (Se u); auto.
        -- apply (i_gV _ _ _ _ _ _ I). eapply nth_error_In; eauto.
        -- apply (i_VVx _ _ _ _ _ _ I), (i_gV _ _ _ _ _ _ I). eapply nth_error_In; eauto.
      * apply nth_snoc in Hb. destruct Hb as [(Lb & Hb)|(_ & ->)]; [lia|].
        apply (e_refl _ EQ).
  - intros x y a ga [<-|Hx] Hxy Nex Ha Hy.
    { exfalso. apply Nex. auto. }
    apply nth_snoc in Ha. destruct Ha as [(La & Ha)|(-> & ->)].
    + destruct (i_E _ _ _ _ _ _ I x y a ga Hx Hxy) as (b & gb & L & Hb & Hxb); auto.
      { intros (_ & []). }
      exists b, gb. split; auto. split; auto. eapply prefix_nth; [apply prefix_app|auto].
    + assert (y = e) as -> by (apply Se; auto; apply (E_Vx x y Hxy)).
      destruct (i_B _ _ _ _ _ _ I x e Hx Hxy) as [(_ & [])|[H|(q' & H1 & H2)]]; [contradiction|].
      assert (Pq : prefix q' q) by (eapply stack_ok_In; [apply (i_stack _ _ _ _ _ _ I)|exact H1]).
      apply (prefix_In _ _ _ Pq) in H2. apply nth_In_lt in H2. destruct H2 as (b & Lb & Hb).
      exists b, x. split; [lia|]. split; [|apply (e_refl _ EQ)].
      eapply prefix_nth; [apply prefix_app|auto].
  - intros x y Cx Hxy. apply CQ. apply CQ in Cx. eapply (i_F1 _ _ _ _ _ _ I); eauto.
  - intros x y Cx Cy. apply CQ in Cx. apply CQ in Cy. apply (i_F2 _ _ _ _ _ _ I); auto.
  - intros x y H. destruct (i_K _ _ _ _ _ _ I x y H) as [H'|(q' & [H'|H'])].
    + left. right. auto.
    + apply app_inj_tail in H'. destruct H' as (_ & <-). left. left. auto.
    + right. eauto.
Qed.

(* ------------------------------------------------------------ one out-neighbour done *)
Lemma INV_push g st st' V sm e ne nes :
  INV g st V sm e (ne :: nes) -> In e g -> E e ne ->
  (forall a ga, nth_error g a = Some ga -> sm ne ga ->
     exists b gb, (b <= a)%nat /\ nth_error g b = Some gb /\ sm e gb) ->
  (st' = st /\ In ne g) \/ st' = (g ++ [ne]) :: st ->
  INV g st' V sm e nes.
Proof.
  intros I He Hne HP Hst.
  assert (Sub : forall p, In p st -> In p st').
  { intros p Hp. destruct Hst as [(-> & _)| ->]; [auto|right; auto]. }
  constructor.
  - destruct Hst as [(-> & _)| ->]; [apply (i_stack _ _ _ _ _ _ I)|].
    exists g, ne. split; auto. split; [apply prefix_refl|apply (i_stack _ _ _ _ _ _ I)].
  - apply (i_gV _ _ _ _ _ _ I).
  - apply (i_VVx _ _ _ _ _ _ I).
  - intros q w H. destruct Hst as [(-> & _)| ->]; [apply (i_ends _ _ _ _ _ _ I q w H)|].
    destruct H as [H|H]; [|apply (i_ends _ _ _ _ _ _ I q w H)].
    apply app_inj_tail in H. destruct H as (_ & <-). apply (E_Vx e ne Hne).
  - apply (i_S _ _ _ _ _ _ I).
  - intros v w Hv Hvw.
    destruct (i_B _ _ _ _ _ _ I v w Hv Hvw) as [(-> & [<-|H])|[H|(q & H1 & H2)]]; auto.
    + destruct Hst as [(-> & H)| ->].
      * right. left. apply (i_gV _ _ _ _ _ _ I); auto.
      * right. right. exists g. split; [left; auto|auto].
    + right. right. exists q. split; auto.
  - apply (i_C _ _ _ _ _ _ I).
  - intros x y a ga Hx Hxy Nex Ha Hy.
    destruct (Z.eq_dec x e) as [->|Nx].
    + destruct (Z.eq_dec y ne) as [->|Ny]; [apply (HP a ga Ha Hy)|].
      apply (i_E _ _ _ _ _ _ I e y a ga); auto. intros (_ & [H|H]); auto.
    + apply (i_E _ _ _ _ _ _ I x y a ga); auto. intros (H & _); auto.
  - apply (i_F1 _ _ _ _ _ _ I).
  - apply (i_F2 _ _ _ _ _ _ I).
  - intros x y H. destruct (i_K _ _ _ _ _ _ I x y H) as [H'|(q & H')]; auto.
    right. exists q. auto.
Qed.

(* ------------------------------------------------------------ a cycle is merged *)
Lemma INV_merge l1 v l2 st V sm sm' e nes ne :
  eqv sm -> eqv sm' ->
  INV (l1 ++ v :: l2) st V sm e nes ->
  (forall u, In u l1 -> ~ sm u ne) -> sm v ne ->
  (forall x y, sm x y -> sm' x y) ->
  (forall u, In u (v :: l2) -> sm' u ne) ->
  (forall x y, sm' x y -> sm x y \/
     ((exists u, In u (ne :: v :: l2) /\ sm x u) /\ (exists u, In u (ne :: v :: l2) /\ sm y u))) ->
  INV (l1 ++ v :: l2) st V sm' e nes.
Proof.
  intros EQ EQ' I N1 Hv Mono U2 K2.
  set (g := l1 ++ v :: l2) in *.
  set (K := fun z => exists u, In u (v :: l2) /\ sm z u).
  assert (K2' : forall x y, sm' x y -> sm x y \/ (K x /\ K y)).
  { assert (X : forall z, (exists u, In u (ne :: v :: l2) /\ sm z u) -> K z).
    { intros z (u & [<-|Hu] & Hz); [|exists u; auto].
      exists v. split; [left; auto|]. eapply e_trans; eauto. apply e_sym; auto. }
    intros x y H. destruct (K2 x y H) as [H'|(H1 & H2)]; auto. }
  assert (Kv : forall z, K z -> sm' z v).
  { intros z (u & Hu & Hz). eapply e_trans; [exact EQ'|apply Mono; exact Hz|].
    eapply e_trans; [exact EQ'|apply U2; exact Hu|].
    apply (e_sym _ EQ'). apply U2. left; auto. }
  assert (Kg : forall u, In u (v :: l2) -> In u g).
  { intros u Hu. apply in_app_iff. auto. }
  (* members of the new class on the gray path have index >= |l1| *)
  assert (k1 : forall a ga, nth_error g a = Some ga -> K ga -> (length l1 <= a)%nat).
  { intros a ga Ha (u & Hu & Hga). destruct (Nat.lt_ge_cases a (length l1)) as [L|L]; auto.
    exfalso. destruct (In_split_ge l1 (v :: l2) u Hu) as (j & Lj & Hj).
    assert (Hi : nth_error g (length l1) = Some v).
    { unfold g. rewrite nth_error_app2 by lia. rewrite Nat.sub_diag. reflexivity. }
    apply (N1 ga); [eapply nth_split_lt; eauto|].
    eapply e_trans; [exact EQ| |exact Hv].
    apply (i_C _ _ _ _ _ _ I a (length l1) j ga v u); auto. lia. }
  assert (k2 : forall a ga, nth_error g a = Some ga -> (length l1 <= a)%nat -> sm' ga v).
  { intros a ga Ha L. apply Kv. exists ga. split; [eapply nth_split_ge; eauto|apply (e_refl _ EQ)]. }
  assert (CQ : forall x, closed sm' g V x <-> closed sm g V x).
  { intros x. split; intros (H1 & H2); split; auto; intros u Hu X.
    - apply (H2 u Hu). apply Mono; auto.
    - apply K2' in X. destruct X as [X|((u' & Hu' & X) & _)]; [apply (H2 u Hu X)|].
      apply (H2 u' (Kg u' Hu') X). }
  constructor.
  - apply (i_stack _ _ _ _ _ _ I).
  - apply (i_gV _ _ _ _ _ _ I).
  - apply (i_VVx _ _ _ _ _ _ I).
  - apply (i_ends _ _ _ _ _ _ I).
  - intros x w Nx Vx' Vw H. apply K2' in H. destruct H as [H|((u & Hu & H) & _)].
    + apply (i_S _ _ _ _ _ _ I x w); auto.
    + exfalso. apply Nx.
      assert (In u V) by (apply (i_gV _ _ _ _ _ _ I), Kg; auto).
      rewrite (i_S _ _ _ _ _ _ I x u); auto. apply (i_VVx _ _ _ _ _ _ I); auto.
  - apply (i_B _ _ _ _ _ _ I).
  - intros a b c u x w L Ha Hb Hc Huw. apply K2' in Huw. destruct Huw as [H|(Ku & Kw)].
    + apply Mono. apply (i_C _ _ _ _ _ _ I a b c u x w); auto.
    + pose proof (k1 a u Ha Ku) as La.
      eapply e_trans; [exact EQ'|apply (k2 a u Ha La)|].
      apply e_sym; auto. apply (k2 b x Hb). lia.
  - intros x y a ga Hx Hxy Nex Ha Hy. apply K2' in Hy. destruct Hy as [Hy|(Ky & Kga)].
    + destruct (i_E _ _ _ _ _ _ I x y a ga Hx Hxy Nex Ha Hy) as (b & gb & L & Hb & Hxb).
      exists b, gb. auto.
    + pose proof (k1 a ga Ha Kga) as La.
      destruct Ky as (u & Hu & Hyu).
      destruct (In_split_ge l1 (v :: l2) u Hu) as (j & Lj & Hj).
      destruct (i_E _ _ _ _ _ _ I x y j u Hx Hxy Nex Hj Hyu) as (b & gb & L & Hb & Hxb).
      destruct (Nat.lt_ge_cases b (length l1)) as [Lb|Lb].
      * exists b, gb. split; [lia|auto].
      * exists (length l1), v. split; auto. split.
        -- unfold g. rewrite nth_error_app2 by lia. rewrite Nat.sub_diag. reflexivity.
        -- eapply e_trans; [exact EQ'|apply Mono; exact Hxb|]. apply (k2 b gb Hb Lb).
  - intros x y Cx Hxy. apply CQ. apply CQ in Cx. eapply (i_F1 _ _ _ _ _ _ I); eauto.
  - intros x y Cx Cy Rxy Ryx. apply Mono. apply CQ in Cx. apply CQ in Cy.
    apply (i_F2 _ _ _ _ _ _ I); auto.
  - apply (i_K _ _ _ _ _ _ I).
Qed.

(* ------------------------------------------------------------ the end *)
Lemma INV_final V sm e0 x y :
  eqv sm -> INV [] [] V sm e0 [] ->
  clos_refl_trans Z E x y -> clos_refl_trans Z E y x -> sm x y.
Proof.
  intros EQ I Rxy Ryx.
  assert (Hc : forall a b, clos_refl_trans Z E a b -> a = b \/ closed sm [] V a).
  { intros a b R. apply clos_rt_rt1n in R. destruct R as [|z b H _]; auto.
    right. split; [|intros u []].
    destruct (i_K _ _ _ _ _ _ I a z H) as [H'|(q & [])]; auto. }
  destruct (Hc x y Rxy) as [->|Cx]; [apply (e_refl _ EQ)|].
  destruct (Hc y x Ryx) as [->|Cy]; [apply (e_refl _ EQ)|].
  apply (i_F2 _ _ _ _ _ _ I); auto.
Qed.

End DFS.
