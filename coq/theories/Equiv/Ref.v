(* Reference reachability (transitive closure by iteration) over the recorded
   edge table, with its correctness proof.  The correspondence compares the
   implementation's `equivalent` right after `connect_cycles` against
   `mutual_ref`, so that side of the comparison is a theorem
   (mutual_ref_correct), whatever the status of C06_complete. *)
From Coq Require Import ZArith List Bool Lia.
From CSS Require Import Equiv.Model.
Import ListNotations.
Open Scope Z_scope.

(* the recorded directed graph: b in self.vertices[a] *)
Definition edge (vs : dict (list Z)) (a b : Z) : Prop := In b (dget vs a).

Inductive reach (vs : dict (list Z)) : Z -> Z -> Prop :=
| reach_refl a : reach vs a a
| reach_step a b c : reach vs a b -> edge vs b c -> reach vs a c.

Lemma reach_trans vs a b c : reach vs a b -> reach vs b c -> reach vs a c.
Proof. intros H1 H2; induction H2; eauto using reach. Qed.

Lemma reach_edge vs a b : edge vs a b -> reach vs a b.
Proof. intros; eapply reach_step; eauto using reach. Qed.

Lemma mem_In x l : mem x l = true <-> In x l.
Proof.
  unfold mem. rewrite existsb_exists. split.
  - intros (y & Hy & E). apply Z.eqb_eq in E. subst; auto.
  - intros H. exists x. split; auto. apply Z.eqb_refl.
Qed.

Lemma In_sadd l x y : In y (sadd l x) <-> In y l \/ y = x.
Proof.
  unfold sadd. destruct (mem x l) eqn:E.
  - apply mem_In in E. split; [auto|]. intros [H| ->]; auto.
  - rewrite in_app_iff. simpl. intuition.
Qed.

Definition expand (vs : dict (list Z)) (S : list Z) : list Z :=
  fold_left (fun acc x => fold_left sadd (dget vs x) acc) S S.

Fixpoint close (fuel : nat) (vs : dict (list Z)) (S : list Z) : list Z :=
  match fuel with
  | O => S
  | Datatypes.S f =>
      let S' := expand vs S in
      if Nat.eqb (length S') (length S) then S else close f vs S'
  end.

Definition closedb (vs : dict (list Z)) (S : list Z) : bool :=
  forallb (fun x => forallb (fun y => mem y S) (dget vs x)) S.

Definition reach_ref (vs : dict (list Z)) (a : Z) : option (list Z) :=
  let S := close (Datatypes.S (nedges vs)) vs [a] in
  if closedb vs S then Some S else None.

Definition mutual_ref (vs : dict (list Z)) (a b : Z) : option bool :=
  match reach_ref vs a, reach_ref vs b with
  | Some Sa, Some Sb => Some (mem b Sa && mem a Sb)
  | _, _ => None
  end.

Lemma fold_sadd_In l acc y : In y (fold_left sadd l acc) <-> In y acc \/ In y l.
Proof.
  revert acc; induction l as [|x l IH]; intros acc; simpl; [tauto|].
  rewrite IH, In_sadd. intuition (subst; auto).
Qed.

Lemma expand_inner vs T acc y :
  In y (fold_left (fun acc x => fold_left sadd (dget vs x) acc) T acc) <->
  In y acc \/ exists x, In x T /\ edge vs x y.
Proof.
  revert acc; induction T as [|x T IH]; intros acc; simpl.
  - split; [auto|]. intros [H|(x & [] & _)]; auto.
  - rewrite IH, fold_sadd_In. unfold edge. split.
    + intros [[H|H]|(x' & H1 & H2)]; eauto.
    + intros [H|(x' & [->|H1] & H2)]; eauto.
Qed.

Lemma expand_In vs S y :
  In y (expand vs S) <-> In y S \/ exists x, In x S /\ edge vs x y.
Proof. apply expand_inner. Qed.

Lemma close_sound fuel vs a : forall S,
  (forall x, In x S -> reach vs a x) ->
  forall x, In x (close fuel vs S) -> reach vs a x.
Proof.
  induction fuel as [|f IH]; intros S HS x; simpl; auto.
  destruct (Nat.eqb _ _); auto.
  apply IH. intros y Hy. apply expand_In in Hy.
  destruct Hy as [Hy|(z & Hz & E)]; eauto using reach.
Qed.

Lemma close_incl fuel vs : forall S x, In x S -> In x (close fuel vs S).
Proof.
  induction fuel as [|f IH]; intros S x H; simpl; auto.
  destruct (Nat.eqb _ _); auto. apply IH, expand_In; auto.
Qed.

Lemma closedb_spec vs S : closedb vs S = true ->
  forall x y, In x S -> edge vs x y -> In y S.
Proof.
  unfold closedb. rewrite forallb_forall. intros H x y Hx E.
  specialize (H x Hx). rewrite forallb_forall in H. apply mem_In, H, E.
Qed.

Theorem reach_ref_correct vs a S :
  reach_ref vs a = Some S -> forall b, In b S <-> reach vs a b.
Proof.
  unfold reach_ref. generalize (Datatypes.S (nedges vs)) as fuel. intros fuel.
  destruct (closedb _ _) eqn:C; [|discriminate].
  intros E; injection E as E. subst S. intros b. split.
  - apply close_sound. intros x [<-|[]]. constructor.
  - intros R. induction R.
    + apply close_incl. simpl; auto.
    + eapply closedb_spec; eauto.
Qed.

Theorem mutual_ref_correct vs a b r :
  mutual_ref vs a b = Some r ->
  (r = true <-> reach vs a b /\ reach vs b a).
Proof.
  unfold mutual_ref.
  destruct (reach_ref vs a) as [Sa|] eqn:Ea; [|discriminate].
  destruct (reach_ref vs b) as [Sb|] eqn:Eb; [|discriminate].
  intros E; injection E as <-.
  rewrite andb_true_iff, !mem_In.
  rewrite (reach_ref_correct _ _ _ Ea), (reach_ref_correct _ _ _ Eb). tauto.
Qed.
