(* Completeness of connect_cycles, part 3: the model's loops keep the
   depth-first invariant of CompleteDFS.v (instantiated with the live
   union-find partition `same s`, the re-keyed one-way table as edge relation
   and the snapshot roots as vertices), and the final assembly: right after
   connect_cycles, labels that are mutually reachable along recorded edges
   are in the same class. *)
From Coq Require Import ZArith List Bool Lia Relations.
From CSS Require Import Equiv.Model Equiv.Ref Equiv.UF Equiv.Inv Equiv.Hist Equiv.Cov
  Equiv.CompleteUF Equiv.CompleteDFS.
Import ListNotations.
Open Scope Z_scope.

Lemma same_eqv s : tot s -> eqv (same s).
Proof.
  intros T. constructor.
  - intros x. apply tot_refl; auto.
  - apply same_sym.
  - apply same_trans.
  - intros x y. destruct (T x) as (rx & Rx). destruct (T y) as (ry & Ry).
    destruct (Z.eq_dec rx ry) as [->|N].
    + left. exists ry; auto.
    + right. intros (r & H1 & H2). apply N.
      rewrite (chain_det _ _ _ _ Rx H1), (chain_det _ _ _ _ Ry H2). reflexivity.
Qed.

Section Order.
Variable order : list Z -> list Z.
Hypothesis order_In : forall l x, In x (order l) <-> In x l.

Section Loop.
Variable E : Z -> Z -> Prop.
Variable Vx : Z -> Prop.
Hypothesis E_Vx : forall x y, E x y -> Vx x /\ Vx y.

(* for new_end in one_way_vertices[end] *)
Lemma cc_ends_INV q e V : forall nes s st s' st',
  tot s -> (forall ne, In ne nes -> E e ne) ->
  INV E Vx (q ++ [e]) st V (same s) e nes ->
  cc_ends s (q ++ [e]) st nes = Some (s', st') ->
  tot s' /\ oneway s' = oneway s /\ (forall x y, same s x y -> same s' x y) /\
  INV E Vx (q ++ [e]) st' V (same s') e [].
Proof.
  induction nes as [|ne nes IH]; intros s st s' st' T Hn I H; simpl in H.
  - inv H. auto.
  - destruct (scan_cycle s (q ++ [e]) ne) as [s1|] eqn:SC; [|discriminate].
    apply scan_cycle_same in SC; auto. destruct SC as (T1 & O1 & SC).
    assert (Ene : E e ne) by (apply Hn; left; auto).
    assert (Heg : In e (q ++ [e])) by (apply in_app_iff; simpl; auto).
    assert (X : (forall x y, same s x y -> same s1 x y) /\
                INV E Vx (q ++ [e]) st V (same s1) e (ne :: nes) /\
                (forall a ga, nth_error (q ++ [e]) a = Some ga -> same s1 ne ga ->
                   exists b gb, (b <= a)%nat /\ nth_error (q ++ [e]) b = Some gb /\
                                same s1 e gb)).
    { destruct SC as [(N & Q)|(l1 & v & l2 & Hg & N2 & N1 & Sv & M2 & U2 & K2)].
      - split; [intros x y Hxy; apply Q; auto|]. split; [eapply INV_equiv; eauto|].
        intros a ga Ha Hga. rewrite removelast_last in N.
        apply nth_snoc in Ha. destruct Ha as [(La & Ha)|(-> & ->)].
        + exfalso. apply (N ga); [eapply nth_error_In; eauto|].
          apply same_sym. apply Q; auto.
        + exists (length q), e. split; auto. split; [|apply tot_refl; auto].
          rewrite nth_error_app2 by lia. rewrite Nat.sub_diag. reflexivity.
      - split; auto.
        assert (He : same s1 e ne) by (apply U2; eapply snoc_last_In; symmetry; exact Hg).
        split.
        + rewrite Hg in I |- *.
          eapply (INV_merge E Vx l1 v l2 st V (same s) (same s1) e (ne :: nes) ne);
            auto using same_eqv.
        + intros a ga Ha Hga. exists a, ga. split; auto. split; auto.
          eapply same_trans; eauto. }
    destruct X as (M1 & I1 & HP).
    apply IH in H; auto.
    + destruct H as (T2 & O2 & M2 & I2). split; auto. split; [congruence|]. split; auto.
    + intros x Hx. apply Hn; right; auto.
    + eapply INV_push; eauto.
      destruct (mem ne (q ++ [e])) eqn:Mm; [left|right; auto].
      split; auto. apply mem_In; auto.
Qed.

(* while stack *)
Lemma cc_loop_INV : forall fuel s st V s',
  tot s -> (forall x y, E x y <-> In y (dget (oneway s) x)) ->
  (exists g e0, INV E Vx g st V (same s) e0 []) ->
  cc_loop order fuel s st V = Some s' ->
  tot s' /\ (forall x y, same s x y -> same s' x y) /\
  exists V', INV E Vx [] [] V' (same s') 0 [].
Proof.
  assert (Fin : forall s V, tot s -> (exists g e0, INV E Vx g [] V (same s) e0 []) ->
                tot s /\ (forall x y, same s x y -> same s x y) /\
                exists V', INV E Vx [] [] V' (same s) 0 []).
  { intros s V T (g & e0 & I). split; auto. split; auto. exists V.
    eapply INV_shrink; eauto using same_eqv.
    - exists g; reflexivity.
    - exact Logic.I. }
  induction fuel as [|fuel IH]; intros s st V s' T HE HI H.
  - destruct st; simpl in H; [|discriminate]. inv H. eapply Fin; eauto.
  - destruct st as [|path rest]; simpl in H.
    { inv H. eapply Fin; eauto. }
    destruct HI as (g & e0 & I).
    destruct (i_stack _ _ _ _ _ _ _ _ I) as (q & e & -> & Pq & Sq).
    rewrite last_last in H.
    destruct (mem e V) eqn:Mm.
    + apply mem_In in Mm. apply IH in H; auto.
      exists g, 0. eapply INV_skip; eauto.
    + assert (Ne : ~ In e V) by (intros X; apply mem_In in X; congruence).
      set (s1 := with_oneway s (touch (oneway s) e)) in *.
      assert (T1 : tot s1) by exact T.
      destruct (cc_ends s1 (q ++ [e]) rest _) as [[s2 st2]|] eqn:CE; [|discriminate].
      assert (HE1 : forall x y, E x y <-> In y (dget (oneway s1) x)).
      { intros x y. unfold s1. simpl. rewrite dget_touch. apply HE. }
      assert (I0 : INV E Vx q ((q ++ [e]) :: rest) V (same s) 0 []).
      { eapply INV_shrink; eauto using same_eqv.
        exists q, e. split; auto. split; [apply prefix_refl|auto]. }
      assert (I1 : INV E Vx (q ++ [e]) rest (e :: V) (same s1) e
                       (order (dget (oneway s1) e))).
      { apply (INV_grow E Vx E_Vx q e rest V (same s) 0); auto using same_eqv.
        intros w Hw. apply order_In. apply HE1; auto. }
      apply (cc_ends_INV q e (e :: V)) in CE; auto.
      * destruct CE as (T2 & O2 & M2 & I2).
        apply IH in H; auto.
        -- destruct H as (T3 & M3 & I3). split; [exact T3|]. split; [|exact I3].
           intros x y Hxy. apply M3, M2. exact Hxy.
        -- intros x y. rewrite O2. apply HE1.
        -- eauto.
      * intros ne Hne. apply HE1. apply order_In; auto.
Qed.

End Loop.

Lemma stack_ok_singletons (l : list (list Z)) :
  (forall p, In p l -> exists k, p = [k]) -> stack_ok [] l.
Proof.
  induction l as [|p l IH]; intros H; simpl; auto.
  destruct (H p (or_introl eq_refl)) as (k & ->).
  exists [], k. split; auto. split; [apply prefix_refl|]. apply IH. intros p Hp. apply H. right; auto.
Qed.

Lemma clos_rt_mono (A B : Z -> Z -> Prop) :
  (forall x y, A x y -> B x y) ->
  forall x y, clos_refl_trans Z A x y -> clos_refl_trans Z B x y.
Proof.
  intros H x y R. induction R; [apply rt_step; auto|apply rt_refl|eapply rt_trans; eauto].
Qed.

(* connect_cycles merges every cycle of recorded edges *)
Theorem connect_cycles_complete (M : Z -> Prop) (T R : Z -> Z -> Prop) s s' :
  Inv M T R s -> Cov R s -> connect_cycles order s = Some s' ->
  forall a b, clos_refl_trans Z R a b -> clos_refl_trans Z R b a -> same s' a b.
Proof.
  intros I C H.
  pose proof (Inv_tot _ _ _ _ I) as Ts.
  unfold connect_cycles, get_one_way_vertices in H.
  destruct (gow_items order s [] (oneway s)) as [[s1 res]|] eqn:G; [|discriminate].
  apply (gow_items_dget order order_In s) in G; [|intros y q; tauto].
  destruct G as (Q & _ & CR & BR & KR).
  set (E := fun x y => In y (dget res x)).
  set (Vx := fun x => root s x x).
  assert (E_Vx : forall x y, E x y -> Vx x /\ Vx y).
  { intros x y Hxy. destruct (BR x y Hxy) as [[]|(H1 & H2 & _)]. auto. }
  set (s1' := with_oneway s1 res) in *.
  assert (T1 : tot s1').
  { intros x. destruct (Ts x) as (r & Hr). exists r. apply Q; auto. }
  assert (S1 : forall x y, same s x y -> same s1' x y).
  { intros x y (r & H1 & H2). exists r. split; apply Q; auto. }
  set (st0 := rev (map (fun kv : Z * list Z => [fst kv]) res)) in *.
  assert (Hst0 : forall p, In p st0 -> exists kv, In kv res /\ p = [fst kv]).
  { intros p Hp. apply in_rev in Hp. apply in_map_iff in Hp.
    destruct Hp as (kv & <- & Hkv). eauto. }
  assert (I0 : INV E Vx [] st0 [] (same s1') 0 []).
  { constructor.
    - apply stack_ok_singletons. intros p Hp. destruct (Hst0 p Hp) as (kv & _ & ->). eauto.
    - intros x [].
    - intros v [].
    - intros q w Hq. destruct (Hst0 _ Hq) as (kv & Hkv & Eq).
      destruct q as [|z q]; simpl in Eq.
      + inv Eq. destruct (KR (fst kv)) as [[]|X]; auto. apply in_map; auto.
      + inv Eq. destruct q; discriminate.
    - intros v w _ Hv Hw (r & H1 & H2). apply Q in H1. apply Q in H2.
      rewrite (chain_det _ _ _ _ Hv H1), (chain_det _ _ _ _ Hw H2). reflexivity.
    - intros v w [].
    - intros a b c u v w _ Ha. destruct a; discriminate.
    - intros x y a ga [].
    - intros x y ([] & _).
    - intros x y ([] & _).
    - intros x y Hxy. right. exists []. simpl. unfold st0. apply -> in_rev.
      unfold E, dget in Hxy. destruct (get res x) as [l|] eqn:Gx; [|destruct Hxy].
      apply get_In in Gx. apply in_map_iff. exists (x, l). auto. }
  apply (cc_loop_INV E Vx E_Vx) in H; auto; [|intros x y; reflexivity|eauto].
  destruct H as (T' & M' & V' & I').
  assert (Fin : forall x y, clos_refl_trans Z E x y -> clos_refl_trans Z E y x -> same s' x y).
  { intros x y. eapply INV_final; eauto using same_eqv. }
  assert (Lift : forall a b, clos_refl_trans Z R a b ->
            forall ra rb, root s a ra -> root s b rb -> clos_refl_trans Z E ra rb).
  { intros a b Rab. induction Rab as [a b Hab|a|a b c _ IH1 _ IH2]; intros ra rb Ra Rb.
    - destruct (C a b Hab) as [(r & H1 & H2)|(k & l & e & H1 & H2 & (r3 & H3 & H3') & (r4 & H4 & H4'))].
      + rewrite (chain_det _ _ _ _ Ra H1), (chain_det _ _ _ _ Rb H2). apply rt_refl.
      + rewrite (chain_det _ _ _ _ H3' Ra) in H3. rewrite (chain_det _ _ _ _ H4' Rb) in H4.
        destruct (CR k l e ra rb H1 H2 H3 H4) as [->|X]; [apply rt_refl|apply rt_step; exact X].
    - rewrite (chain_det _ _ _ _ Ra Rb). apply rt_refl.
    - destruct (Ts b) as (r & Rr). eapply rt_trans; eauto. }
  intros a b Rab Rba.
  destruct (Ts a) as (ra & Ra). destruct (Ts b) as (rb & Rb).
  eapply same_trans; [apply M', S1, same_root; exact Ra|].
  eapply same_trans;
    [apply Fin; [exact (Lift a b Rab ra rb Ra Rb)|exact (Lift b a Rba rb ra Rb Ra)]|].
  apply same_sym. apply M', S1, same_root; exact Rb.
Qed.

Lemma exec_snoc : forall ops s o s' rs,
  exec order s (ops ++ [o]) = Some (s', rs) ->
  exists s1 rs1 r, exec order s ops = Some (s1, rs1) /\ step order s1 o = Some (s', r).
Proof.
  induction ops as [|o1 ops IH]; intros s o s' rs H; simpl in H.
  - destruct (step order s o) as [[s1 r]|] eqn:St; [|discriminate]. inv H.
    exists s, [], r. auto.
  - destruct (step order s o1) as [[s1 r]|] eqn:St; [|discriminate].
    destruct (exec order s1 (ops ++ [o])) as [[s2 rs2]|] eqn:Ex; [|discriminate]. inv H.
    apply IH in Ex. destruct Ex as (s3 & rs3 & r3 & H1 & H2).
    exists s3, (r :: rs3), r3. simpl. rewrite St, H1. auto.
Qed.

Theorem complete_after_connect ops s rs a b :
  exec order init (ops ++ [Connect]) = Some (s, rs) ->
  clos_refl_trans Z (recorded (ops ++ [Connect])) a b ->
  clos_refl_trans Z (recorded (ops ++ [Connect])) b a ->
  same s a b.
Proof.
  intros Ex Rab Rba. apply exec_snoc in Ex. destruct Ex as (s0 & rs0 & r & Ex & St).
  simpl in St. destruct (connect_cycles order s0) as [s1|] eqn:CC; [|discriminate]. inv St.
  pose proof (reach_inv order order_In _ _ _ Ex) as I.
  pose proof (edges_covered order order_In _ _ _ Ex) as C.
  assert (Sub : forall x y, recorded (ops ++ [Connect]) x y -> recorded ops x y).
  { intros x y (N & X). split; auto. rewrite !in_snoc in X.
    destruct X as [[X|X]|[[X|X]|[X|X]]]; auto; discriminate. }
  eapply (connect_cycles_complete _ _ _ s0 s I C CC); eapply clos_rt_mono; eauto.
Qed.

(* queries issued after connect_cycles change neither the partition nor the
   recorded graph, so completeness still holds after them *)
Definition is_query (o : op) : Prop :=
  match o with
  | QEquiv _ _ | QVerified _ | QFind _ | QPath _ _ => True
  | _ => False
  end.

Lemma step_query_pres s o s' r : is_query o -> step order s o = Some (s', r) -> pres s s'.
Proof.
  intros Q St. destruct o as [a b|a b|a| |a b|a|a|a b]; simpl in Q; try contradiction;
    simpl in St.
  - destruct (equivalent s a b) as [[s1 e]|] eqn:X; [|discriminate]. inv St.
    apply (equivalent_spec _ _ _ _ _ X).
  - destruct (is_verified s a) as [[s1 e]|] eqn:X; [|discriminate]. inv St.
    apply (is_verified_spec _ _ _ _ X).
  - destruct (find s a) as [[s1 e]|] eqn:X; [|discriminate]. inv St.
    apply (find_spec _ _ _ _ X).
  - destruct (find_path order s a b) as [[s1 e]|] eqn:X; [|discriminate]. inv St.
    apply (find_path_pres _ _ _ _ _ _ X).
Qed.

Lemma exec_queries_pres : forall qs s s' rs,
  Forall is_query qs -> exec order s qs = Some (s', rs) -> pres s s'.
Proof.
  induction qs as [|o qs IH]; intros s s' rs F H; simpl in H.
  - inv H. apply pres_refl.
  - inversion F; subst.
    destruct (step order s o) as [[s1 r]|] eqn:St; [|discriminate].
    destruct (exec order s1 qs) as [[s2 rs2]|] eqn:Ex; [|discriminate]. inv H.
    eapply pres_trans; [eapply step_query_pres; eauto|eapply IH; eauto].
Qed.

Lemma exec_app : forall l1 l2 s s' rs,
  exec order s (l1 ++ l2) = Some (s', rs) ->
  exists s1 rs1 rs2, exec order s l1 = Some (s1, rs1) /\ exec order s1 l2 = Some (s', rs2).
Proof.
  induction l1 as [|o l1 IH]; intros l2 s s' rs H; simpl in H.
  - exists s, [], rs. auto.
  - destruct (step order s o) as [[s1 r]|] eqn:St; [|discriminate].
    destruct (exec order s1 (l1 ++ l2)) as [[s2 rs2]|] eqn:Ex; [|discriminate]. inv H.
    apply IH in Ex. destruct Ex as (s3 & rs3 & rs4 & H1 & H2).
    exists s3, (r :: rs3), rs4. simpl. rewrite St, H1. auto.
Qed.

Theorem complete_after_connect_queries ops qs s rs a b :
  Forall is_query qs ->
  exec order init (ops ++ Connect :: qs) = Some (s, rs) ->
  clos_refl_trans Z (recorded (ops ++ Connect :: qs)) a b ->
  clos_refl_trans Z (recorded (ops ++ Connect :: qs)) b a ->
  same s a b.
Proof.
  intros F Ex Rab Rba.
  replace (ops ++ Connect :: qs) with ((ops ++ [Connect]) ++ qs) in *
    by (rewrite <- app_assoc; reflexivity).
  apply exec_app in Ex. destruct Ex as (s1 & rs1 & rs2 & E1 & E2).
  apply exec_queries_pres in E2; auto.
  apply (pres_same _ _ a b E2).
  assert (Sub : forall x y, recorded ((ops ++ [Connect]) ++ qs) x y ->
                            recorded (ops ++ [Connect]) x y).
  { intros x y (N & X). split; auto.
    assert (Q : forall o, In o qs -> is_query o) by (apply Forall_forall; auto).
    rewrite !(in_app_iff (ops ++ [Connect]) qs) in X.
    destruct X as [[X|X]|[[X|X]|[X|X]]]; auto; destruct (Q _ X). }
  eapply complete_after_connect; eauto; eapply clos_rt_mono; eauto.
Qed.

End Order.
