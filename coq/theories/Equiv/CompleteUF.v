(* Completeness of connect_cycles, part 1: what the union-find operations
   used by the depth-first loop do to the partition `same`, stated without
   reference to roots; and what get_one_way_vertices leaves in the re-keyed
   one-way table (keys and entries are current roots, no self loops, every
   old entry is represented between the roots of its ends). *)
From Coq Require Import ZArith List Bool Lia.
From CSS Require Import Equiv.Model Equiv.Ref Equiv.UF Equiv.Inv Equiv.Cov.
Import ListNotations.
Open Scope Z_scope.

(* every label has a root (parent chains are well founded) *)
Definition tot (s : db) : Prop := forall x, exists r, root s x r.

Lemma tot_refl s x : tot s -> same s x x.
Proof. intros T. destruct (T x) as (r & H). exists r; auto. Qed.

Lemma pres_tot s s' : pres s s' -> tot s -> tot s'.
Proof. intros (A & _) T x. destruct (T x) as (r & H). exists r. apply A; auto. Qed.

Lemma Inv_tot (M : Z -> Prop) (T R : Z -> Z -> Prop) s : Inv M T R s -> tot s.
Proof. intros I. exact (inv_total _ _ _ _ I). Qed.

Lemma set_equivalent_same s a b s' :
  tot s -> set_equivalent s a b = Some s' ->
  tot s' /\ oneway s' = oneway s /\
  forall x y, same s' x y <->
    same s x y \/ (same s x a /\ same s y b) \/ (same s x b /\ same s y a).
Proof.
  intros T H. apply set_equivalent_spec in H.
  destruct H as (ra & rb & w & Ra & Rb & Hw & Mg & _ & D & _).
  split; [|split; auto].
  - intros x. destruct (T x) as (r & H).
    destruct (Z.eq_dec r ra) as [->|N1]; [exists w; apply Mg; auto|].
    destruct (Z.eq_dec r rb) as [->|N2]; [exists w; apply Mg; auto|].
    exists r; apply Mg; auto.
  - exact (merged_same s s' ra rb w a b T Ra Rb Hw Mg).
Qed.

(* the class that a merge creates: everything equivalent to a member of
   ne :: L *)
Definition inK (s : db) (L : list Z) (ne z : Z) : Prop :=
  exists u, In u (ne :: L) /\ same s z u.

Lemma merge_all_same ne : forall L s s',
  tot s -> merge_all s L ne = Some s' ->
  tot s' /\ oneway s' = oneway s /\
  (forall x y, same s x y -> same s' x y) /\
  (forall u, In u L -> same s' u ne) /\
  (forall x y, same s' x y -> same s x y \/ (inK s L ne x /\ inK s L ne y)).
Proof.
  induction L as [|v L IH]; intros s s' T H; simpl in H.
  - inv H. repeat split; auto. intros u [].
  - destruct (set_equivalent s v ne) as [s1|] eqn:SE; [|discriminate].
    apply set_equivalent_same in SE; auto. destruct SE as (T1 & O1 & S1).
    apply IH in H; auto. destruct H as (T2 & O2 & M2 & U2 & K2).
    assert (M1 : forall x y, same s x y -> same s1 x y) by (intros x y Hxy; apply S1; auto).
    assert (Hv : same s1 v ne).
    { apply S1. right. left. split; apply tot_refl; auto. }
    assert (K1 : forall z u, In u (ne :: L) -> same s1 z u -> inK s (v :: L) ne z).
    { intros z u Hu Hz. apply S1 in Hz. destruct Hz as [Hz|[(Hz & Hu')|(Hz & Hu')]].
      - exists u. split; auto. destruct Hu; [left|right; right]; auto.
      - exists v. split; [right; left; auto|auto].
      - exists ne. split; [left; auto|auto]. }
    split; auto. split; [congruence|]. split; [auto|]. split.
    + intros u [<-|Hu]; auto.
    + intros x y Hxy. apply K2 in Hxy. destruct Hxy as [Hxy|((u1 & Hu1 & Hx) & (u2 & Hu2 & Hy))].
      * apply S1 in Hxy. destruct Hxy as [Hxy|[(Hx & Hy)|(Hx & Hy)]]; auto; right; split.
        -- exists v. split; [right; left; auto|auto].
        -- exists ne. split; [left; auto|auto].
        -- exists ne. split; [left; auto|auto].
        -- exists v. split; [right; left; auto|auto].
      * right. split; [apply (K1 x u1)|apply (K1 y u2)]; auto.
Qed.

(* scan_cycle on the whole path: either no vertex of path[:-1] is equivalent
   to new_end and the partition is unchanged, or path = l1 ++ v :: l2 with v
   the FIRST such vertex and v :: l2 is merged with new_end *)
Lemma scan_cycle_same ne : forall suffix s s',
  tot s -> scan_cycle s suffix ne = Some s' ->
  tot s' /\ oneway s' = oneway s /\
  (((forall u, In u (removelast suffix) -> ~ same s u ne) /\
    (forall x y, same s' x y <-> same s x y))
   \/
   exists l1 v l2, suffix = l1 ++ v :: l2 /\ l2 <> [] /\
     (forall u, In u l1 -> ~ same s u ne) /\ same s v ne /\
     (forall x y, same s x y -> same s' x y) /\
     (forall u, In u (v :: l2) -> same s' u ne) /\
     (forall x y, same s' x y ->
        same s x y \/ (inK s (v :: l2) ne x /\ inK s (v :: l2) ne y))).
Proof.
  induction suffix as [|v t IH]; intros s s' T H.
  - inv H. split; auto. split; auto. left. split; [intros u []|tauto].
  - destruct t as [|t0 t1].
    + inv H. split; auto. split; auto. left. split; [intros u []|tauto].
    + cbn [scan_cycle] in H.
      destruct (equivalent s v ne) as [[s1 e]|] eqn:EQ; [|discriminate].
      apply equivalent_spec in EQ. destruct EQ as (P & He).
      pose proof (pres_tot _ _ P T) as T1.
      assert (O1 : oneway s1 = oneway s) by apply P.
      pose proof (fun x y => pres_same _ _ x y P) as S1.
      destruct e.
      * apply merge_all_same in H; auto. destruct H as (T2 & O2 & M2 & U2 & K2).
        split; auto. split; [congruence|]. right.
        exists [], v, (t0 :: t1). split; [reflexivity|]. split; [discriminate|].
        split; [intros u []|]. split; [apply He; auto|].
        split; [intros x y Hxy; apply M2, S1; auto|]. split; [auto|].
        intros x y Hxy. apply K2 in Hxy.
        destruct Hxy as [Hxy|((u1 & Hu1 & Hx) & (u2 & Hu2 & Hy))].
        -- left. apply S1; auto.
        -- right. split; [exists u1|exists u2]; split; auto; apply S1; auto.
      * apply IH in H; auto. destruct H as (T2 & O2 & H). split; auto. split; [congruence|].
        assert (Nv : ~ same s v ne) by (intros X; apply He in X; discriminate).
        destruct H as [(N & Q)|(l1 & v' & l2 & -> & N2 & N1 & Sv & M2 & U2 & K2)].
        -- left. split.
           ++ change (removelast (v :: t0 :: t1)) with (v :: removelast (t0 :: t1)).
              intros u [<-|Hu]; auto. intros X. apply (N u Hu). apply S1; auto.
           ++ intros x y. rewrite Q. apply S1.
        -- right. exists (v :: l1), v', l2. split; [reflexivity|]. split; auto.
           split. { intros u [<-|Hu]; auto. intros X. apply (N1 u Hu). apply S1; auto. }
           split; [apply S1; auto|]. split; [intros x y Hxy; apply M2, S1; auto|].
           split; auto.
           intros x y Hxy. apply K2 in Hxy.
           destruct Hxy as [Hxy|((u1 & Hu1 & Hx) & (u2 & Hu2 & Hy))].
           ++ left. apply S1; auto.
           ++ right. split; [exists u1|exists u2]; split; auto; apply S1; auto.
Qed.

(* ------------------------------------------------------------ the re-keyed table *)
Lemma map_fst_set {V} (d : dict V) k v x :
  In x (map fst (set d k v)) -> In x (map fst d) \/ x = k.
Proof.
  induction d as [|[k0 v0] d IH]; simpl.
  - intros [H|[]]; auto.
  - destruct (Z.eqb k0 k) eqn:E; simpl.
    + intros [H|H]; auto.
    + intros [H|H]; auto. destruct (IH H); auto.
Qed.

Lemma gow_ends_dget s0 rs : root s0 rs rs -> forall ends s res s' res',
  req s s0 -> gow_ends s res rs ends = Some (s', res') ->
  req s' s0 /\
  (forall k e, In e (dget res k) -> In e (dget res' k)) /\
  (forall e re, In e ends -> root s0 e re -> rs = re \/ In re (dget res' rs)) /\
  (forall k e, In e (dget res' k) ->
     In e (dget res k) \/ (root s0 k k /\ root s0 e e /\ k <> e)) /\
  (forall k, In k (map fst res') -> In k (map fst res) \/ root s0 k k).
Proof.
  intros Rs. induction ends as [|e ends IH]; intros s res s' res' Q H; simpl in H.
  - inv H. split; auto. split; auto. split; [intros e re []|]. split; auto.
  - destruct (find s e) as [[s1 re]|] eqn:F; [|discriminate].
    apply find_spec in F. destruct F as (Re & P). apply Q in Re.
    assert (Rre : root s0 re re) by (apply chain_root; eapply chain_fix; eauto).
    apply IH in H; [|eapply req_pres; eauto].
    destruct H as (Q' & S' & C' & B' & K'). split; auto.
    destruct (Z.eqb rs re) eqn:Eq.
    + apply Z.eqb_eq in Eq. split; auto. split; [|split; auto].
      intros x rx [<-|Hx] Rx; [|eapply C'; eauto].
      left. rewrite Eq. exact (chain_det _ _ _ _ Re Rx).
    + apply Z.eqb_neq in Eq. split; [|split; [|split]].
      * intros k x Hx. apply S'. rewrite dget_dadd. destruct (Z.eqb rs k) eqn:E2; auto.
        apply Z.eqb_eq in E2. subst k. apply In_sadd; auto.
      * intros x rx [<-|Hx] Rx; [|eapply C'; eauto].
        right. assert (rx = re) as -> by exact (chain_det _ _ _ _ Rx Re).
        apply S'. rewrite dget_dadd, Z.eqb_refl. apply In_sadd; auto.
      * intros k x Hx. apply B' in Hx. destruct Hx as [Hx|Hx]; auto.
        rewrite dget_dadd in Hx. destruct (Z.eqb rs k) eqn:E2; auto.
        apply Z.eqb_eq in E2. subst k. apply In_sadd in Hx. destruct Hx as [Hx| ->]; auto.
      * intros k Hk. apply K' in Hk. destruct Hk as [Hk|Hk]; auto.
        unfold dadd in Hk. apply map_fst_set in Hk. destruct Hk as [Hk| ->]; auto.
Qed.

Section Order.
Variable order : list Z -> list Z.
Hypothesis order_In : forall l x, In x (order l) <-> In x l.

Lemma gow_items_dget s0 : forall items s res s' res',
  req s s0 -> gow_items order s res items = Some (s', res') ->
  req s' s0 /\
  (forall k e, In e (dget res k) -> In e (dget res' k)) /\
  (forall k l e rk re, In (k, l) items -> In e l -> root s0 k rk -> root s0 e re ->
     rk = re \/ In re (dget res' rk)) /\
  (forall k e, In e (dget res' k) ->
     In e (dget res k) \/ (root s0 k k /\ root s0 e e /\ k <> e)) /\
  (forall k, In k (map fst res') -> In k (map fst res) \/ root s0 k k).
Proof.
  induction items as [|[st ends] items IH]; intros s res s' res' Q H; simpl in H.
  - inv H. split; auto. split; auto. split; [intros k l e rk re []|]. split; auto.
  - destruct (find s st) as [[s1 rs]|] eqn:F; [|discriminate].
    apply find_spec in F. destruct F as (Rs & P). apply Q in Rs.
    assert (Rrs : root s0 rs rs) by (apply chain_root; eapply chain_fix; eauto).
    destruct (gow_ends s1 res rs (order ends)) as [[s2 res2]|] eqn:GE; [|discriminate].
    apply (gow_ends_dget s0 rs Rrs) in GE; [|eapply req_pres; eauto].
    destruct GE as (Q2 & S2 & C2 & B2 & K2).
    apply IH in H; auto. destruct H as (Q3 & S3 & C3 & B3 & K3).
    split; auto. split; [auto|]. split; [|split].
    + intros k l e rk re [Hin|Hin] He Rk Re; [|eapply C3; eauto].
      inv Hin. assert (rk = rs) as -> by exact (chain_det _ _ _ _ Rk Rs).
      destruct (C2 e re (proj2 (order_In _ _) He) Re) as [X|X]; auto.
    + intros k e He. apply B3 in He. destruct He as [He|He]; auto.
    + intros k Hk. apply K3 in Hk. destruct Hk as [Hk|Hk]; auto.
Qed.

End Order.
