(* sx interface of the EquivalenceDB model.
   input  : (exact ops)   ops = list of (code a b)
     0 add_two_way_edge a b | 1 add_one_way_edge a b | 2 set_verified a |
     3 connect_cycles | 4 equivalent a b | 5 is_verified a | 6 db[a] |
     7 find_path a b |
     8 a b : NOT a method of the database: the proved reference
             (Ref.mutual_ref) answer "a and b are mutually reachable in
             self.vertices"; the harness puts the implementation's
             `equivalent(a,b)` here when the query follows connect_cycles.
   output : (results final)  or  (-99) when the model ran out of fuel.
   exact = 1 (labels 0..7, where CPython iterates sets in ascending order):
     roots, paths and the whole final state are emitted;
   exact = 0: only what does not depend on set iteration order (booleans,
     path lengths). *)
From Coq Require Import ZArith List Bool.
From CSS Require Import Base.Sx Equiv.Model Equiv.Ref.
Import ListNotations.
Open Scope Z_scope.

Fixpoint kinsert {V} (kv : Z * V) (l : dict V) : dict V :=
  match l with
  | [] => [kv]
  | y :: t => if fst kv <=? fst y then kv :: l else y :: kinsert kv t
  end.
Definition ksort {V} (l : dict V) : dict V := fold_right kinsert [] l.

Definition enc_res (exact : bool) (r : res) : sx :=
  match r with
  | RNone => L []
  | RBool b => of_bool b
  | RLabel r => if exact then I r else I 0
  | RPath PathKeyError => I (-1)
  | RPath (PathOk p) => if exact then of_Zs p else of_nat (length p)
  end.

Definition dec_op (c a b : Z) : op :=
  match c with
  | 0 => TwoWay a b
  | 1 => OneWay a b
  | 2 => SetVerified a
  | 3 => Connect
  | 4 => QEquiv a b
  | 5 => QVerified a
  | 6 => QFind a
  | _ => QPath a b
  end.

Fixpoint run_ops (exact : bool) (s : db) (ops : list sx) : option (db * list sx) :=
  match ops with
  | [] => Some (s, [])
  | o :: t =>
      let a := sx_Zs o in
      let g n := nth n a 0 in
      if Z.eqb (g 0%nat) 8 then
        match mutual_ref (vertices s) (g 1%nat) (g 2%nat) with
        | None => None
        | Some r =>
            match run_ops exact s t with
            | None => None
            | Some (s2, rs) => Some (s2, of_bool r :: rs)
            end
        end
      else
        match step isort s (dec_op (g 0%nat) (g 1%nat) (g 2%nat)) with
        | None => None
        | Some (s1, r) =>
            match run_ops exact s1 t with
            | None => None
            | Some (s2, rs) => Some (s2, enc_res exact r :: rs)
            end
        end
  end.

Definition enc_pairs (d : dict Z) : sx := L (map (fun kv => L [I (fst kv); I (snd kv)]) d).
Definition enc_sets (d : dict (list Z)) : sx :=
  L (map (fun kv => L [I (fst kv); of_Zs (isort (snd kv))]) d).

Definition enc_state (s : db) : sx :=
  L [ enc_pairs (parents s); enc_pairs (weights s); of_Zs (isort (verified s));
      enc_sets (ksort (vertices s)); enc_sets (oneway s) ].

Definition run_c06 (inp : sx) : sx :=
  let exact := sx_bool (sx_nth inp 0) in
  match run_ops exact init (sx_list (sx_nth inp 1)) with
  | None => L [I (-99)]
  | Some (s, rs) => L [L rs; if exact then enc_state s else L []]
  end.
