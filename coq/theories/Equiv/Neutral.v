(* C06 for consumers (C05, C14, C02, C13).

   1. Partition-neutral operations.  set_verified and the four queries change
      neither the union-find roots nor the recorded edges (`rsame`); hence the
      characterisation "classes = strongly connected components" that holds
      right after connect_cycles still holds after any number of them — this
      is the state in which RuleDBBase reads representatives (pruned_dict calls
      set_verified for every surviving label right after connect_cycles).
   2. A second connect_cycles on a state whose classes already are the
      strongly connected components changes nothing observable: same roots,
      same verified roots, same edges (`stab`): cycle detection is idempotent.
      (Every _set_equivalent it issues merges two labels of one class.)
   3. A pure representative function `repf s : Z -> Z` (the value db[x] returns,
      without the path compression) for the consumers that take a function. *)
From Coq Require Import ZArith List Bool Lia Relations.
From CSS Require Import Equiv.Model Equiv.Ref Equiv.UF Equiv.Inv Equiv.Hist Equiv.Cov
  Equiv.CompleteUF Equiv.Complete Equiv.Total.
Import ListNotations.
Open Scope Z_scope.

(* ------------------------------------------------------------ relations *)
(* same roots, same edges *)
Definition rsame (s s' : db) : Prop :=
  (forall y q, root s' y q <-> root s y q) /\
  (forall k, dget (vertices s') k = dget (vertices s) k).

(* ... and the same verified roots *)
Definition stab (s s' : db) : Prop :=
  rsame s s' /\ (forall v, In v (verified s') <-> In v (verified s)).

Lemma rsame_refl s : rsame s s.
Proof. split; intros; reflexivity. Qed.

Lemma rsame_trans s1 s2 s3 : rsame s1 s2 -> rsame s2 s3 -> rsame s1 s3.
Proof.
  intros (A1 & C1) (A2 & C2). split.
  - intros y q. rewrite A2. apply A1.
  - intros k. rewrite C2. apply C1.
Qed.

Lemma stab_refl s : stab s s.
Proof. split; [apply rsame_refl|intros; reflexivity]. Qed.

Lemma stab_trans s1 s2 s3 : stab s1 s2 -> stab s2 s3 -> stab s1 s3.
Proof.
  intros (A1 & V1) (A2 & V2). split; [eapply rsame_trans; eauto|].
  intros v. rewrite V2. apply V1.
Qed.

Lemma pres_stab s s' : pres s s' -> stab s s'.
Proof.
  intros (A & B & C & _). split; [split; auto|]. intros v. rewrite B. reflexivity.
Qed.

Lemma pres_rsame s s' : pres s s' -> rsame s s'.
Proof. intros P. apply pres_stab in P. apply P. Qed.

Lemma rsame_same s s' a b : rsame s s' -> (same s' a b <-> same s a b).
Proof.
  intros (A & _). unfold same. split; intros (r & H1 & H2); exists r; split; apply A; auto.
Qed.

Lemma rsame_reach s s' a b : rsame s s' -> (reach (vertices s') a b <-> reach (vertices s) a b).
Proof. intros (_ & C). apply reach_veq_iff. exact C. Qed.

Lemma with_oneway_stab s o : stab s (with_oneway s o).
Proof. split; [split|]; intros; reflexivity. Qed.

(* ------------------------------------------------------------ neutral operations *)
Definition is_neutral (o : op) : Prop := is_query o \/ exists a, o = SetVerified a.
(* ... and further cycle detections *)
Definition is_neutral2 (o : op) : Prop := is_neutral o \/ o = Connect.

Lemma set_verified_rsame s x s' : set_verified s x = Some s' -> rsame s s'.
Proof.
  intros H. apply set_verified_spec in H. destruct H as (A & C & _). split; auto.
Qed.

Lemma not_edge_recorded H o :
  (forall a b, o <> TwoWay a b) -> (forall a b, o <> OneWay a b) ->
  forall a b, recorded (H ++ [o]) a b <-> recorded H a b.
Proof.
  intros N1 N2 a b. unfold recorded. rewrite !in_snoc. split; [|tauto].
  intros (N & [[X|X]|[[X|X]|[X|X]]]); auto; try (destruct (N1 _ _ X)); destruct (N2 _ _ X).
Qed.

Lemma neutral2_recorded H o : is_neutral2 o ->
  forall a b, recorded (H ++ [o]) a b <-> recorded H a b.
Proof.
  intros N. apply not_edge_recorded; intros a b E; subst o;
    destruct N as [[Q|(x & Q)]|Q]; try discriminate Q; exact Q.
Qed.

Lemma neutral2_recorded_app H : forall qs, Forall is_neutral2 qs ->
  forall a b, recorded (H ++ qs) a b <-> recorded H a b.
Proof.
  intros qs. revert H. induction qs as [|o qs IH]; intros H F a b.
  - rewrite app_nil_r. reflexivity.
  - inversion F; subst.
    replace (H ++ o :: qs) with ((H ++ [o]) ++ qs) by (rewrite <- app_assoc; reflexivity).
    rewrite IH by auto. apply neutral2_recorded; auto.
Qed.

Lemma clos_rt_iff (A B : Z -> Z -> Prop) :
  (forall x y, A x y <-> B x y) ->
  forall x y, clos_refl_trans Z A x y <-> clos_refl_trans Z B x y.
Proof. intros H x y. split; apply clos_rt_mono; intros; apply H; auto. Qed.

Lemma reach_clos_rt vs a b : reach vs a b <-> clos_refl_trans Z (edge vs) a b.
Proof.
  split.
  - induction 1; [apply rt_refl|]. eapply rt_trans; [eassumption|apply rt_step; auto].
  - induction 1; [apply reach_edge; auto|constructor|eapply reach_trans; eauto].
Qed.

Lemma HInv_reach H s a b : HInv H s ->
  (reach (vertices s) a b <-> clos_refl_trans Z (recorded H) a b).
Proof.
  intros I. rewrite reach_clos_rt. apply clos_rt_iff. intros x y. apply (inv_edges _ _ _ _ I).
Qed.

(* ------------------------------------------------------------ idempotence of connect_cycles *)
Definition sound (vs : dict (list Z)) (s : db) : Prop :=
  forall a b, same s a b -> reach vs a b.
Definition compl (vs : dict (list Z)) (s : db) : Prop :=
  forall a b, reach vs a b -> reach vs b a -> same s a b.

Lemma sound_stab vs s s' : stab s s' -> sound vs s -> sound vs s'.
Proof. intros (P & _) H a b S. apply H. apply (rsame_same _ _ a b P). exact S. Qed.
Lemma compl_stab vs s s' : stab s s' -> compl vs s -> compl vs s'.
Proof. intros (P & _) H a b R1 R2. apply (rsame_same _ _ a b P). auto. Qed.

(* merging two labels of one class changes nothing *)
Lemma set_equivalent_stab s a b s' :
  same s a b -> set_equivalent s a b = Some s' -> stab s s' /\ oneway s' = oneway s.
Proof.
  intros (r & R1 & R2) H. apply set_equivalent_spec in H.
  destruct H as (ra & rb & w & Ra & Rb & Hw & Mg & C & D & Vf).
  assert (ra = r) by (eapply chain_det; eauto). assert (rb = r) by (eapply chain_det; eauto).
  subst ra rb. assert (w = r) by (destruct Hw; auto). subst w.
  split; [|exact D]. split; [split; [|exact C]|].
  - intros y q. rewrite (Mg y q). split.
    + intros [(X & _)|([X|X] & ->)]; auto.
    + intros X. destruct (Z.eq_dec q r) as [->|N]; [right|left]; auto.
  - intros v. rewrite Vf. split; [|auto]. intros [X|(-> & [X|X])]; auto.
Qed.

Lemma merge_all_stab vs ne : forall l s s',
  compl vs s ->
  (forall v, In v l -> reach vs v ne /\ reach vs ne v) ->
  merge_all s l ne = Some s' -> stab s s' /\ oneway s' = oneway s.
Proof.
  induction l as [|v l IH]; intros s s' C Hl H; simpl in H.
  - inv H. split; [apply stab_refl|reflexivity].
  - destruct (set_equivalent s v ne) as [s1|] eqn:SE; [|discriminate].
    destruct (Hl v (or_introl eq_refl)) as (R1 & R2).
    apply set_equivalent_stab in SE; [|apply C; auto]. destruct SE as (S1 & O1).
    apply IH in H.
    + destruct H as (S2 & O2). split; [eapply stab_trans; eauto|congruence].
    + eapply compl_stab; eauto.
    + intros x Hx. apply Hl. right; auto.
Qed.

Lemma scan_cycle_stab vs ne : forall suffix s s',
  sound vs s -> compl vs s -> pathok vs suffix -> reach vs (last suffix 0) ne ->
  scan_cycle s suffix ne = Some s' -> stab s s' /\ oneway s' = oneway s.
Proof.
  induction suffix as [|v t IH]; intros s s' Sd C Hp Hr H.
  - inv H. split; [apply stab_refl|reflexivity].
  - destruct t as [|t0 t1].
    + inv H. split; [apply stab_refl|reflexivity].
    + cbn [scan_cycle] in H.
      destruct (equivalent s v ne) as [[s1 e]|] eqn:EQ; [|discriminate].
      apply equivalent_spec in EQ. destruct EQ as (P & He).
      pose proof (pres_stab _ _ P) as S1.
      assert (O1 : oneway s1 = oneway s) by apply P.
      destruct e.
      * assert (Rnv : reach vs ne v).
        { apply Sd. apply same_sym. apply He; auto. }
        apply (merge_all_stab vs ne) in H.
        -- destruct H as (S2 & O2). split; [eapply stab_trans; eauto|congruence].
        -- eapply compl_stab; eauto.
        -- intros x Hx. split.
           ++ eapply reach_trans; [|exact Hr]. apply pathok_last; auto.
           ++ eapply reach_trans; [exact Rnv|]. eapply pathok_head; eauto.
      * change (last (v :: t0 :: t1) 0) with (last (t0 :: t1) 0) in Hr.
        apply IH in H; auto.
        -- destruct H as (S2 & O2). split; [eapply stab_trans; eauto|congruence].
        -- eapply sound_stab; eauto.
        -- eapply compl_stab; eauto.
        -- apply Hp.
Qed.

Lemma cc_ends_stab vs path : forall nes s stack s' stack',
  sound vs s -> compl vs s -> pathok vs path ->
  (forall p, In p stack -> pathok vs p) ->
  (forall ne, In ne nes -> reach vs (last path 0) ne) ->
  cc_ends s path stack nes = Some (s', stack') ->
  stab s s' /\ oneway s' = oneway s /\ (forall p, In p stack' -> pathok vs p).
Proof.
  induction nes as [|ne nes IH]; intros s stack s' stack' Sd C Hp Hs Hn H; simpl in H.
  - inv H. split; [apply stab_refl|]. split; auto.
  - destruct (scan_cycle s path ne) as [s1|] eqn:SC; [|discriminate].
    apply (scan_cycle_stab vs) in SC; auto; [|apply Hn; simpl; auto].
    destruct SC as (S1 & O1).
    apply IH in H.
    + destruct H as (S2 & O2 & P2). split; [eapply stab_trans; eauto|]. split; [congruence|auto].
    + eapply sound_stab; eauto.
    + eapply compl_stab; eauto.
    + exact Hp.
    + intros p Hin. destruct (mem ne path); auto.
      destruct Hin as [<-|Hin]; auto. apply pathok_app; auto. apply Hn; simpl; auto.
    + intros x Hx. apply Hn; simpl; auto.
Qed.

Section Order.
Variable order : list Z -> list Z.
Hypothesis order_In : forall l x, In x (order l) <-> In x l. (* in-section *)

Lemma cc_loop_stab vs : forall fuel s stack visited s',
  sound vs s -> compl vs s -> ow_ok vs (oneway s) ->
  (forall p, In p stack -> pathok vs p) ->
  cc_loop order fuel s stack visited = Some s' -> stab s s'.
Proof.
  induction fuel as [|fuel IH]; intros s stack visited s' Sd C Ow Hs H.
  - destruct stack; simpl in H; [|discriminate]. inv H. apply stab_refl.
  - destruct stack as [|path rest]; simpl in H.
    { inv H. apply stab_refl. }
    destruct (mem (last path 0) visited).
    { apply IH in H; auto. intros p Hp. apply Hs; simpl; auto. }
    set (s1 := with_oneway s (touch (oneway s) (last path 0))) in *.
    pose proof (with_oneway_stab s (touch (oneway s) (last path 0))) as S1. fold s1 in S1.
    assert (Ow1 : ow_ok vs (oneway s1)) by (apply ow_ok_touch; auto).
    destruct (cc_ends s1 path rest _) as [[s2 st2]|] eqn:CE; [|discriminate].
    apply (cc_ends_stab vs) in CE.
    + destruct CE as (S2 & O2 & P2).
      apply IH in H; auto.
      * eapply stab_trans; [exact S1|]. eapply stab_trans; [exact S2|exact H].
      * eapply sound_stab; [exact S2|]. eapply sound_stab; [exact S1|exact Sd].
      * eapply compl_stab; [exact S2|]. eapply compl_stab; [exact S1|exact C].
      * rewrite O2. exact Ow1.
    + eapply sound_stab; [exact S1|exact Sd].
    + eapply compl_stab; [exact S1|exact C].
    + apply Hs; simpl; auto.
    + intros p Hp. apply Hs; simpl; auto.
    + intros ne Hne. apply (proj1 (order_In _ _)) in Hne.
      eapply ow_ok_dget; [|exact Hne]. exact Ow1.
Qed.

(* connect_cycles on a state whose classes already are the strongly connected
   components of the recorded graph *)
Lemma connect_cycles_stab (M : Z -> Prop) (T R : Z -> Z -> Prop) s s' :
  Inv M T R s -> compl (vertices s) s -> connect_cycles order s = Some s' -> stab s s'.
Proof.
  intros I C H. unfold connect_cycles, get_one_way_vertices in H.
  destruct (gow_items order s [] (oneway s)) as [[s1 res]|] eqn:G; [|discriminate].
  apply (gow_items_spec M T R order order_In (vertices s)) in G; auto.
  - destruct G as (P & O).
    pose proof (pres_stab _ _ P) as S1.
    pose proof (with_oneway_stab s1 res) as S2.
    assert (Sd : sound (vertices s) s) by (intros a b X; eapply inv_sound; eauto).
    apply (cc_loop_stab (vertices s)) in H.
    + eapply stab_trans; [exact S1|]. eapply stab_trans; [exact S2|exact H].
    + eapply sound_stab; [exact S2|]. eapply sound_stab; [exact S1|exact Sd].
    + eapply compl_stab; [exact S2|]. eapply compl_stab; [exact S1|exact C].
    + exact O.
    + intros p Hp. apply in_rev in Hp. apply in_map_iff in Hp.
      destruct Hp as (kv & <- & _). simpl. auto.
  - intros k; reflexivity.
  - eapply inv_ow; eauto.
  - intros k l e [].
Qed.

(* ------------------------------------------------------------ histories *)
Lemma step_neutral_rsame s o s' r : is_neutral o -> step order s o = Some (s', r) -> rsame s s'.
Proof.
  intros [Q|(a & ->)] St.
  - apply pres_rsame. eapply step_query_pres; eauto.
  - simpl in St. destruct (set_verified s a) as [s1|] eqn:X; [|discriminate]. inv St.
    eapply set_verified_rsame; eauto.
Qed.

(* every operation only merges classes *)
Lemma step_mono H s o s' r :
  HInv H s -> step order s o = Some (s', r) -> forall a b, same s a b -> same s' a b.
Proof.
  intros I St.
  assert (Q : is_query o -> forall a b, same s a b -> same s' a b).
  { intros q a b Hab. eapply (pres_same s s' a b); [|exact Hab]. eapply step_query_pres; eauto. }
  destruct o as [a0 b0|a0 b0|a0| |a0 b0|a0|a0|a0 b0]; try (apply Q; exact Logic.I); simpl in St.
  - destruct (add_two_way s a0 b0) as [s1|] eqn:X; [|discriminate]. inv St.
    unfold add_two_way in X. apply set_equivalent_same in X.
    + destruct X as (_ & _ & SS). intros a b Hab. apply SS. left.
      unfold add_edge. destruct (Z.eqb a0 b0), (Z.eqb b0 a0); exact Hab.
    + intros x. destruct (inv_total _ _ _ _ I x) as (q & Hq). exists q.
      unfold add_edge. destruct (Z.eqb a0 b0), (Z.eqb b0 a0); exact Hq.
  - destruct (add_one_way s a0 b0) as [s1|] eqn:X; [|discriminate]. inv St.
    unfold add_one_way in X.
    destruct (find (add_edge s a0 b0) a0) as [[s1 ra]|] eqn:F1; [|discriminate].
    destruct (find (with_oneway s1 (touch (oneway s1) ra)) b0) as [[s2 rb]|] eqn:F2; [|discriminate].
    inv X. apply find_spec in F1. apply find_spec in F2.
    destruct F1 as (_ & (A1 & _)). destruct F2 as (_ & (A2 & _)).
    intros a b (q & H1 & H2). exists q. split.
    + change (root s2 a q). apply A2. change (root s1 a q). apply A1.
      unfold add_edge. destruct (Z.eqb a0 b0); exact H1.
    + change (root s2 b q). apply A2. change (root s1 b q). apply A1.
      unfold add_edge. destruct (Z.eqb a0 b0); exact H2.
  - destruct (set_verified s a0) as [s1|] eqn:X; [|discriminate]. inv St.
    intros a b Hab. apply (rsame_same _ _ a b (set_verified_rsame _ _ _ X)). exact Hab.
  - destruct (connect_cycles order s) as [s1|] eqn:X; [|discriminate]. inv St.
    destruct (connect_cycles_spec _ _ _ order order_In _ _ I X) as (_ & (M & _)). exact M.
Qed.

Lemma exec_mono : forall qs H s s' rs,
  HInv H s -> exec order s qs = Some (s', rs) -> forall a b, same s a b -> same s' a b.
Proof.
  induction qs as [|o qs IH]; intros H s s' rs I E a b Hab; simpl in E.
  - inv E. exact Hab.
  - destruct (step order s o) as [[s1 r]|] eqn:St; [|discriminate].
    destruct (exec order s1 qs) as [[s2 rs2]|] eqn:Ex; [|discriminate]. inv E.
    eapply (IH (H ++ [o])); [eapply step_inv; eauto|exact Ex|].
    eapply step_mono; eauto.
Qed.

(* set_verified calls on labels whose class is already verified (and queries) change nothing *)
Lemma exec_neutral_verified : forall qs s s' rs,
  Forall is_neutral qs -> exec order s qs = Some (s', rs) ->
  (forall b, In (SetVerified b) qs -> exists r, root s b r /\ In r (verified s)) ->
  stab s s'.
Proof.
  induction qs as [|o qs IH]; intros s s' rs F E Hm; simpl in E.
  - inv E. apply stab_refl.
  - inversion F; subst.
    destruct (step order s o) as [[s1 r]|] eqn:St; [|discriminate].
    destruct (exec order s1 qs) as [[s2 rs2]|] eqn:Ex; [|discriminate]. inv E.
    assert (S1 : stab s s1).
    { destruct H1 as [Q|(a & ->)].
      - apply pres_stab. eapply step_query_pres; eauto.
      - simpl in St. destruct (set_verified s a) as [s1'|] eqn:X; [|discriminate]. inv St.
        apply set_verified_spec in X. destruct X as (A & C & _ & r0 & R0 & Vf).
        split; [split; auto|]. intros v. rewrite Vf. split; [|auto].
        intros [X| ->]; auto.
        destruct (Hm a (or_introl eq_refl)) as (r' & R' & V').
        rewrite (chain_det _ _ _ _ R0 R'). exact V'. }
    eapply stab_trans; [exact S1|]. eapply IH; eauto.
    intros b Hb. destruct (Hm b (or_intror Hb)) as (r' & R' & V').
    exists r'. destruct S1 as ((A & _) & V). split; [apply A; auto|apply V; auto].
Qed.

Definition hcompl (H : list op) (s : db) : Prop :=
  forall a b, clos_refl_trans Z (recorded H) a b -> clos_refl_trans Z (recorded H) b a -> same s a b.

Lemma hcompl_compl H s : HInv H s -> hcompl H s -> compl (vertices s) s.
Proof.
  intros I C a b R1 R2. apply C; apply (HInv_reach H s _ _ I); auto.
Qed.

Lemma step_neutral2_rsame H s o s' r :
  HInv H s -> hcompl H s -> is_neutral2 o -> step order s o = Some (s', r) -> rsame s s'.
Proof.
  intros I C [N| ->] St.
  - eapply step_neutral_rsame; eauto.
  - simpl in St. destruct (connect_cycles order s) as [s1|] eqn:X; [|discriminate]. inv St.
    eapply (connect_cycles_stab _ _ _ s s' I (hcompl_compl _ _ I C)) in X. apply X.
Qed.

Lemma exec_neutral2_rsame : forall qs H s s' rs,
  HInv H s -> hcompl H s -> Forall is_neutral2 qs ->
  exec order s qs = Some (s', rs) -> rsame s s'.
Proof.
  induction qs as [|o qs IH]; intros H s s' rs I C F E; simpl in E.
  - inv E. apply rsame_refl.
  - inversion F; subst.
    destruct (step order s o) as [[s1 r]|] eqn:St; [|discriminate].
    destruct (exec order s1 qs) as [[s2 rs2]|] eqn:Ex; [|discriminate]. inv E.
    pose proof (step_neutral2_rsame H s o s1 r I C H2 St) as P1.
    eapply rsame_trans; [exact P1|].
    eapply (IH (H ++ [o])); eauto.
    + eapply step_inv; eauto.
    + intros a b R1 R2. apply (rsame_same _ _ a b P1).
      apply C; eapply clos_rt_iff; try eassumption;
        intros x y; symmetry; apply neutral2_recorded; auto.
Qed.

(* classes = strongly connected components after connect_cycles followed by any
   number of set_verified calls, queries and further connect_cycles calls *)
Theorem complete_after_connect_neutral2 ops qs s rs a b :
  Forall is_neutral2 qs ->
  exec order init (ops ++ Connect :: qs) = Some (s, rs) ->
  clos_refl_trans Z (recorded (ops ++ Connect :: qs)) a b ->
  clos_refl_trans Z (recorded (ops ++ Connect :: qs)) b a ->
  same s a b.
Proof.
  intros F Ex Rab Rba.
  replace (ops ++ Connect :: qs) with ((ops ++ [Connect]) ++ qs) in *
    by (rewrite <- app_assoc; reflexivity).
  apply exec_app in Ex. destruct Ex as (s1 & rs1 & rs2 & E1 & E2).
  pose proof (reach_inv order order_In _ _ _ E1) as I1.
  assert (C1 : hcompl (ops ++ [Connect]) s1).
  { intros x y R1 R2. eapply complete_after_connect; eauto. }
  pose proof (exec_neutral2_rsame qs _ _ _ _ I1 C1 F E2) as P.
  apply (rsame_same _ _ a b P). apply C1;
    eapply clos_rt_iff; try eassumption; intros x y; symmetry; apply neutral2_recorded_app; auto.
Qed.

(* the same for a state reached by running the suffix from a given state *)
Lemma neutral2_keeps_sccs H s qs s' rs :
  HInv H s -> hcompl H s -> Forall is_neutral2 qs -> exec order s qs = Some (s', rs) ->
  rsame s s' /\ HInv (H ++ qs) s' /\ hcompl (H ++ qs) s'.
Proof.
  intros I C F E.
  pose proof (exec_neutral2_rsame qs H s s' rs I C F E) as P.
  split; auto. split; [eapply exec_inv; eauto|].
  intros a b R1 R2. apply (rsame_same _ _ a b P). apply C;
    eapply clos_rt_iff; try eassumption; intros x y; symmetry; apply neutral2_recorded_app; auto.
Qed.

End Order.

(* ------------------------------------------------------------ a pure representative *)
(* the label db[x] returns; the state is not updated *)
Definition repf (s : db) (x : Z) : Z :=
  match find s x with Some (_, r) => r | None => x end.

Lemma repf_root s x : wf s -> root s x (repf s x).
Proof.
  intros W. unfold repf. destruct (find_total s x W) as (s1 & r & F & _). rewrite F.
  exact (proj1 (find_spec _ _ _ _ F)).
Qed.

Lemma repf_find s x s1 r : find s x = Some (s1, r) -> repf s x = r.
Proof. intros F. unfold repf. rewrite F. reflexivity. Qed.

Lemma repf_unique s x r : wf s -> root s x r -> repf s x = r.
Proof. intros W R. eapply chain_det; [apply repf_root; auto|exact R]. Qed.

Lemma repf_same s a b : wf s -> (repf s a = repf s b <-> same s a b).
Proof.
  intros W. split.
  - intros E. exists (repf s a). split; [apply repf_root; auto|]. rewrite E. apply repf_root; auto.
  - intros (r & R1 & R2). rewrite (repf_unique s a r W R1), (repf_unique s b r W R2). reflexivity.
Qed.

Lemma repf_idem s x : wf s -> repf s (repf s x) = repf s x.
Proof.
  intros W. apply repf_unique; auto. apply chain_root. eapply chain_fix. apply repf_root; auto.
Qed.

Lemma repf_rsame s s' x : wf s -> wf s' -> rsame s s' -> repf s' x = repf s x.
Proof.
  intros W W' (A & _). apply repf_unique; auto. apply A. apply repf_root; auto.
Qed.
