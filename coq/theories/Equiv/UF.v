(* Union-find layer of the EquivalenceDB model: parent pointers seen as a
   function, roots as an inductive relation, and the specifications of
   __getitem__ (find), equivalent, is_verified, set_verified, _set_equivalent. *)
From Coq Require Import ZArith List Bool Lia.
From CSS Require Import Equiv.Model Equiv.Ref.
Import ListNotations.
Open Scope Z_scope.

Ltac inv H := inversion H; subst; clear H.

(* ------------------------------------------------------------ dictionaries *)
Lemma get_set {V} (d : dict V) k v k' :
  get (set d k v) k' = if Z.eqb k k' then Some v else get d k'.
Proof.
  induction d as [|[k0 v0] d IH]; simpl.
  - destruct (Z.eqb k k'); reflexivity.
  - destruct (Z.eqb k0 k) eqn:E; simpl.
    + apply Z.eqb_eq in E. subst k0. destruct (Z.eqb k k'); reflexivity.
    + rewrite IH. destruct (Z.eqb k0 k') eqn:E2; [|reflexivity].
      apply Z.eqb_eq in E2. subst k'. rewrite Z.eqb_sym, E. reflexivity.
Qed.

Lemma get_app_None {V} (d : dict V) k v k' :
  get d k = None -> get (d ++ [(k, v)]) k' = if Z.eqb k k' then Some v else get d k'.
Proof.
  induction d as [|[k0 v0] d IH]; simpl; intros H.
  - reflexivity.
  - destruct (Z.eqb k0 k) eqn:E; [discriminate|].
    rewrite (IH H). destruct (Z.eqb k0 k') eqn:E2; [|reflexivity].
    apply Z.eqb_eq in E2. subst k'. rewrite Z.eqb_sym, E. reflexivity.
Qed.

Lemma dget_touch d k k' : dget (touch d k) k' = dget d k'.
Proof.
  unfold touch, dget. destruct (get d k) eqn:E; [reflexivity|].
  rewrite (get_app_None _ _ _ _ E). destruct (Z.eqb k k') eqn:E2; [|reflexivity].
  apply Z.eqb_eq in E2. subst k'. rewrite E. reflexivity.
Qed.

Lemma dget_dadd d k x k' :
  dget (dadd d k x) k' = if Z.eqb k k' then sadd (dget d k) x else dget d k'.
Proof.
  unfold dadd, dget at 1. rewrite get_set. destruct (Z.eqb k k'); reflexivity.
Qed.

(* ------------------------------------------------------------ parent chains *)
Definition upd (f : Z -> Z) (x v : Z) : Z -> Z :=
  fun y => if Z.eqb y x then v else f y.

Inductive chain (f : Z -> Z) : Z -> Z -> Prop :=
| chain_root x : f x = x -> chain f x x
| chain_step x r : f x <> x -> chain f (f x) r -> chain f x r.

Lemma chain_fix f x r : chain f x r -> f r = r.
Proof. induction 1; auto. Qed.

Lemma chain_det f x r r' : chain f x r -> chain f x r' -> r = r'.
Proof.
  intros H; revert r'; induction H; intros r' H'; inv H'; auto; try contradiction.
Qed.

Lemma chain_ext f g x r : (forall y, f y = g y) -> chain f x r -> chain g x r.
Proof.
  intros E H; induction H.
  - apply chain_root. rewrite <- E; auto.
  - apply chain_step. rewrite <- E; auto. rewrite <- E; auto.
Qed.

Lemma chain_self f r : f r = r -> chain f r r.
Proof. apply chain_root. Qed.

Lemma upd_same f x v : upd f x v x = v.
Proof. unfold upd. rewrite Z.eqb_refl. reflexivity. Qed.

Lemma upd_other f x v y : y <> x -> upd f x v y = f y.
Proof. unfold upd. intros H. apply Z.eqb_neq in H. rewrite H. reflexivity. Qed.

(* path compression of one node does not change anybody's root *)
Lemma compress_one f x r : chain f x r ->
  forall y q, chain (upd f x r) y q <-> chain f y q.
Proof.
  intros Hx. pose proof (chain_fix _ _ _ Hx) as Hr.
  destruct (Z.eq_dec x r) as [->|Nxr].
  { intros y q. split; apply chain_ext; intros z; unfold upd;
      destruct (Z.eqb z r) eqn:E; auto; apply Z.eqb_eq in E; subst; auto. }
  intros y q. split.
  - intros H. induction H as [y Hy|y q Hy H IH].
    + destruct (Z.eq_dec y x) as [->|N].
      * rewrite upd_same in Hy. congruence.
      * rewrite upd_other in Hy by auto. apply chain_root; auto.
    + destruct (Z.eq_dec y x) as [->|N].
      * rewrite upd_same in *. 
        assert (q = r) as -> by (eapply chain_det; [exact IH|apply chain_root; auto]).
        exact Hx.
      * rewrite upd_other in * by auto. apply chain_step; auto.
  - intros H. induction H as [y Hy|y q Hy H IH].
    + destruct (Z.eq_dec y x) as [->|N].
      * inv Hx; congruence.
      * apply chain_root. rewrite upd_other; auto.
    + destruct (Z.eq_dec y x) as [->|N].
      * assert (q = r) as ->.
        { eapply chain_det; [|exact Hx]. apply chain_step; eauto. }
        apply chain_step. rewrite upd_same; auto.
        rewrite upd_same. apply chain_root. rewrite upd_other; auto.
      * apply chain_step. rewrite upd_other; auto. rewrite upd_other; auto.
Qed.

(* linking root l under root w *)
Lemma link_chain f l w : f l = l -> f w = w -> l <> w ->
  forall y q, chain (upd f l w) y q <->
              (chain f y q /\ q <> l) \/ (chain f y l /\ q = w).
Proof.
  intros Hl Hw N y q. split.
  - intros H. induction H as [y Hy|y q Hy H IH].
    + destruct (Z.eq_dec y l) as [->|Ny].
      * rewrite upd_same in Hy. congruence.
      * rewrite upd_other in Hy by auto. left. split; auto. apply chain_root; auto.
    + destruct (Z.eq_dec y l) as [->|Ny].
      * rewrite upd_same in *. right. split; [apply chain_root; auto|].
        destruct IH as [[C _]|[C ->]]; auto.
        exact (chain_det f w q w C (chain_root f w Hw)).
      * rewrite upd_other in * by auto.
        destruct IH as [[C Nq]|[C ->]]; [left|right]; split; auto;
          apply chain_step; auto.
  - intros [[H Nq]|[H ->]].
    + induction H as [y Hy|y q Hy H IH].
      * apply chain_root. rewrite upd_other; auto.
      * assert (y <> l) by (intros ->; congruence).
        apply chain_step; rewrite upd_other; auto.
    + remember l as l' eqn:E in H. induction H as [y Hy|y q Hy H IH]; subst.
      * apply chain_step. rewrite upd_same; auto. rewrite upd_same.
        apply chain_root. rewrite upd_other; auto.
      * assert (y <> l) by (intros ->; congruence).
        apply chain_step; rewrite upd_other; auto.
Qed.

(* ------------------------------------------------------------ the database view *)
Definition par (s : db) (x : Z) : Z :=
  match get (parents s) x with Some p => p | None => x end.
Definition root (s : db) : Z -> Z -> Prop := chain (par s).
Definition same (s : db) (a b : Z) : Prop := exists r, root s a r /\ root s b r.

(* what a query may change: parent pointers (compression, new singleton
   entries) and empty defaultdict entries -- nothing observable *)
Definition pres (s s' : db) : Prop :=
  (forall y q, root s' y q <-> root s y q) /\
  verified s' = verified s /\
  (forall k, dget (vertices s') k = dget (vertices s) k) /\
  oneway s' = oneway s.

Lemma pres_refl s : pres s s.
Proof. repeat split; auto. Qed.

Lemma pres_trans s1 s2 s3 : pres s1 s2 -> pres s2 s3 -> pres s1 s3.
Proof.
  intros (A1 & B1 & C1 & D1) (A2 & B2 & C2 & D2). repeat split.
  - intros H. apply A1, A2, H.
  - intros H. apply A2, A1, H.
  - congruence.
  - intros k. rewrite C2; auto.
  - congruence.
Qed.

Lemma pres_same s s' a b : pres s s' -> (same s' a b <-> same s a b).
Proof.
  intros (A & _). unfold same. split; intros (r & H1 & H2); exists r; split; apply A; auto.
Qed.

Lemma same_sym s a b : same s a b -> same s b a.
Proof. intros (r & H1 & H2); exists r; auto. Qed.

Lemma same_trans s a b c : same s a b -> same s b c -> same s a c.
Proof.
  intros (r & H1 & H2) (r' & H3 & H4).
  assert (r = r') as -> by (eapply chain_det; eauto). exists r'; auto.
Qed.

Lemma same_root s a r : root s a r -> same s a r.
Proof. intros H. exists r. split; auto. apply chain_root. eapply chain_fix; eauto. Qed.

Lemma par_set s x v y p' w' :
  par (mk (set (parents s) x v) w' p' (vertices s) (oneway s)) y = upd (par s) x v y.
Proof.
  unfold par, upd. simpl. rewrite get_set. rewrite (Z.eqb_sym y x).
  destruct (Z.eqb x y); reflexivity.
Qed.

(* ------------------------------------------------------------ __getitem__ *)
Lemma climb_spec p fuel : forall acc last rt path r,
  climb fuel p acc last rt = Some (path, r) ->
  (match get p last with Some q => q | None => last end) = rt ->
  let f := fun x => match get p x with Some q => q | None => x end in
  (forall x, In x acc -> forall q, chain f last q -> chain f x q) ->
  chain f last r /\ forall x, In x path -> chain f x r.
Proof.
  induction fuel as [|fuel IH]; intros acc last rt path r H Hp f Hacc; simpl in H.
  - destruct (Z.eqb rt last) eqn:E; [|discriminate]. apply Z.eqb_eq in E.
    injection H as <- <-. subst rt.
    assert (chain f last last) by (apply chain_root; exact Hp).
    split; auto.
  - destruct (Z.eqb rt last) eqn:E.
    + apply Z.eqb_eq in E.
      injection H as <- <-. subst rt.
      assert (chain f last last) by (apply chain_root; exact Hp).
      split; auto.
    + apply Z.eqb_neq in E.
      destruct (get p rt) as [nr|] eqn:G; [|discriminate].
      assert (Hstep : forall q, chain f rt q -> chain f last q).
      { assert (Hf : f last = rt) by exact Hp.
        intros q C. apply chain_step; rewrite Hf; auto. }
      apply IH in H.
      * destruct H as (C & HP). split; auto.
      * rewrite G; reflexivity.
      * intros x [<-|Hx] q C; auto.
Qed.

Lemma compress_chain r : forall path p,
  (forall x, In x path -> chain (fun y => match get p y with Some q => q | None => y end) x r) ->
  forall y q,
    chain (fun y => match get (compress p path r) y with Some q => q | None => y end) y q <->
    chain (fun y => match get p y with Some q => q | None => y end) y q.
Proof.
  induction path as [|a path IH]; intros p H y q; simpl.
  - tauto.
  - unfold compress in *. simpl.
    set (f := fun y => match get p y with Some q => q | None => y end) in *.
    assert (E : forall z, (fun y => match get (set p a r) y with Some q => q | None => y end) z
                          = upd f a r z).
    { intros z. unfold upd, f. rewrite get_set, (Z.eqb_sym z a). destruct (Z.eqb a z); auto. }
    assert (Ha : chain f a r) by (apply H; simpl; auto).
    rewrite IH.
    + split; intros C.
      * apply (compress_one f a r Ha). eapply chain_ext; [|exact C]. exact E.
      * eapply chain_ext; [|apply (compress_one f a r Ha); exact C]. intros z; symmetry; apply E.
    + intros x Hx. eapply chain_ext; [|apply (compress_one f a r Ha); apply H; simpl; auto].
      intros z; symmetry; apply E.
Qed.

Lemma find_spec s x s' r :
  find s x = Some (s', r) -> root s x r /\ pres s s'.
Proof.
  unfold find. destruct (get (parents s) x) as [rt|] eqn:G.
  - destruct (climb _ _ _ _ _) as [[path q]|] eqn:C; [|discriminate].
    intros H; inv H.
    apply climb_spec in C.
    + destruct C as (C1 & C2). split; [exact C1|].
      split; [|simpl; auto].
      intros y q. unfold root, par; simpl. apply compress_chain. exact C2.
    + rewrite G; reflexivity.
    + intros y [<-|[]] q H; exact H.
  - intros H; inv H.
    assert (E : par s r = r) by (unfold par; rewrite G; reflexivity).
    split; [apply chain_root; exact E|].
    split; [|simpl; auto].
    intros y q. unfold root. split; apply chain_ext; intros z; rewrite par_set;
      unfold upd; destruct (Z.eqb z r) eqn:E2; auto; apply Z.eqb_eq in E2; subst; auto.
Qed.

Lemma equivalent_spec s a b s' e :
  equivalent s a b = Some (s', e) -> pres s s' /\ (e = true <-> same s a b).
Proof.
  unfold equivalent.
  destruct (find s a) as [[s1 ra]|] eqn:F1; [|discriminate].
  destruct (find s1 b) as [[s2 rb]|] eqn:F2; [|discriminate].
  intros H; inv H.
  apply find_spec in F1. apply find_spec in F2.
  destruct F1 as (R1 & P1). destruct F2 as (R2 & P2).
  split; [eapply pres_trans; eauto|].
  apply P1 in R2. rewrite Z.eqb_eq. split.
  - intros ->. exists rb; auto.
  - intros (r & H1 & H2).
    assert (ra = r) by (eapply chain_det; eauto).
    assert (rb = r) by (eapply chain_det; eauto). congruence.
Qed.

Lemma is_verified_spec s a s' v :
  is_verified s a = Some (s', v) ->
  pres s s' /\ exists r, root s a r /\ v = mem r (verified s).
Proof.
  unfold is_verified. destruct (find s a) as [[s1 r]|] eqn:F; [|discriminate].
  intros H; inv H. apply find_spec in F. destruct F as (R & P).
  split; auto. exists r. split; auto. destruct P as (_ & -> & _). reflexivity.
Qed.

(* set_verified: roots and edges untouched; the root of x becomes verified *)
Lemma set_verified_spec s x s' :
  set_verified s x = Some s' ->
  (forall y q, root s' y q <-> root s y q) /\
  (forall k, dget (vertices s') k = dget (vertices s) k) /\
  oneway s' = oneway s /\
  exists r, root s x r /\ forall v, In v (verified s') <-> In v (verified s) \/ v = r.
Proof.
  unfold set_verified.
  destruct (is_verified s x) as [[s1 v]|] eqn:IV; [|discriminate].
  apply is_verified_spec in IV. destruct IV as ((A & B & C & D) & r & R & Ev).
  destruct v.
  - intros H; inv H. repeat split; auto; try apply A.
    exists r. split; auto. intros v. rewrite B. symmetry in Ev. apply mem_In in Ev.
    split; [auto|]. intros [H| ->]; auto.
  - destruct (find s1 x) as [[s2 r2]|] eqn:F; [|discriminate].
    intros H; inv H. apply find_spec in F. destruct F as (R2 & (A2 & B2 & C2 & D2)).
    apply A in R2. assert (r2 = r) as -> by (eapply chain_det; eauto).
    simpl. split; [|split; [|split]].
    + intros y q. change (root s2 y q <-> root s y q). rewrite <- A. apply A2.
    + intros k. rewrite C2; auto.
    + congruence.
    + exists r. split; auto. intros v. rewrite In_sadd, B2, B. tauto.
Qed.

(* ------------------------------------------------------------ _set_equivalent *)
Lemma merge_char f l w : f l = l -> f w = w -> l <> w ->
  forall y q, chain (upd f l w) y q <->
    (chain f y q /\ q <> l /\ q <> w) \/ ((chain f y l \/ chain f y w) /\ q = w).
Proof.
  intros Hl Hw N y q. rewrite (link_chain f l w Hl Hw N). split.
  - intros [[C Nq]|[C ->]]; [|right; auto].
    destruct (Z.eq_dec q w) as [->|Nw]; [right|left]; auto.
  - intros [(C & N1 & N2)|([C|C] & ->)]; auto.
Qed.

Definition merged (s s' : db) (ra rb w : Z) : Prop :=
  forall y q, root s' y q <->
    (root s y q /\ q <> ra /\ q <> rb) \/ ((root s y ra \/ root s y rb) /\ q = w).

Lemma merged_trivial s r : root s r r -> merged s s r r r.
Proof.
  intros Hr y q. split.
  - intros H. destruct (Z.eq_dec q r) as [->|N]; [right|left]; auto.
  - intros [(H & _)|([H|H] & ->)]; auto.
Qed.

Lemma link_merged s l w :
  root s l l -> root s w w -> l <> w ->
  merged s (mk (set (parents s) l w) (set (weights s) w (wget s w + wget s l))
               (verified s) (vertices s) (oneway s)) l w w /\
  merged s (mk (set (parents s) l w) (set (weights s) w (wget s w + wget s l))
               (verified s) (vertices s) (oneway s)) w l w.
Proof.
  intros Hl Hw N.
  assert (M : forall y q,
    root (mk (set (parents s) l w) (set (weights s) w (wget s w + wget s l))
             (verified s) (vertices s) (oneway s)) y q <->
    (root s y q /\ q <> l /\ q <> w) \/ ((root s y l \/ root s y w) /\ q = w)).
  { intros y q. unfold root. rewrite <- (merge_char (par s) l w);
      [|eapply chain_fix; eauto|eapply chain_fix; eauto|auto].
    split; apply chain_ext; intros z; rewrite par_set; reflexivity. }
  split; intros y q; rewrite M; tauto.
Qed.

Lemma pres_merged s0 s s' ra rb w :
  (forall y q, root s y q <-> root s0 y q) -> merged s s' ra rb w -> merged s0 s' ra rb w.
Proof.
  intros A M y q. rewrite (M y q), !A. tauto.
Qed.

Lemma set_equivalent_spec s a b s' :
  set_equivalent s a b = Some s' ->
  exists ra rb w, root s a ra /\ root s b rb /\ (w = ra \/ w = rb) /\
    merged s s' ra rb w /\
    (forall k, dget (vertices s') k = dget (vertices s) k) /\
    oneway s' = oneway s /\
    (forall v, In v (verified s') <->
       In v (verified s) \/ (v = w /\ (In ra (verified s) \/ In rb (verified s)))).
Proof.
  unfold set_equivalent.
  destruct (is_verified s a) as [[s1 va]|] eqn:IV1; [|discriminate].
  apply is_verified_spec in IV1. destruct IV1 as (P1 & ra & Ra & Eva).
  destruct (if va then Some (s1, true) else is_verified s1 b) as [[s2 v]|] eqn:IV2; [|discriminate].
  assert (P2 : pres s1 s2 /\
               (v = true <-> In ra (verified s) \/ (exists rb, root s b rb /\ In rb (verified s)))).
  { destruct va.
    - inv IV2. split; [apply pres_refl|]. symmetry in Eva. apply mem_In in Eva. tauto.
    - apply is_verified_spec in IV2. destruct IV2 as (P & rb & Rb & Ev). split; auto.
      destruct P1 as (A1 & B1 & _). apply A1 in Rb. rewrite B1 in Ev.
      assert (~ In ra (verified s)).
      { intros H. apply mem_In in H. congruence. }
      subst v. rewrite mem_In. split; [eauto|].
      intros [H0|(rb' & R' & H')]; [tauto|].
      assert (rb' = rb) as -> by (eapply chain_det; eauto). auto. }
  destruct P2 as (P2 & Ev).
  destruct (find s2 a) as [[s3 ra']|] eqn:F3; [|discriminate].
  destruct (find s3 b) as [[s4 rb]|] eqn:F4; [|discriminate].
  apply find_spec in F3. apply find_spec in F4.
  destruct F3 as (Ra' & P3). destruct F4 as (Rb & P4).
  pose proof (pres_trans _ _ _ P1 P2) as P12.
  pose proof (pres_trans _ _ _ P12 P3) as P13.
  pose proof (pres_trans _ _ _ P13 P4) as P14.
  assert (ra' = ra) as ->.
  { destruct P12 as (A & _). apply A in Ra'. eapply chain_det; eauto. }
  assert (Rb0 : root s b rb) by (destruct P13 as (A & _); apply A; auto).
  assert (Ev' : v = true <-> In ra (verified s) \/ In rb (verified s)).
  { rewrite Ev. split; intros [H|H]; auto.
    - destruct H as (rb' & R' & H'). assert (rb' = rb) as -> by (eapply chain_det; eauto). auto.
    - right; eauto. }
  clear Ev.
  destruct P14 as (A4 & B4 & C4 & D4).
  assert (Ra4 : root s4 ra ra).
  { apply A4. apply chain_root. eapply chain_fix; eauto. }
  assert (Rb4 : root s4 rb rb).
  { apply A4. apply chain_root. eapply chain_fix; eauto. }
  set (h := heaviest s4 ra rb).
  assert (Hh : h = ra \/ h = rb) by (unfold h, heaviest; destruct (_ || _); auto).
  set (s5 := link (link s4 h ra) h rb).
  assert (S5 : exists w, (w = ra \/ w = rb) /\ merged s s5 ra rb w /\
                 verified s5 = verified s /\
                 (forall k, dget (vertices s5) k = dget (vertices s) k) /\
                 oneway s5 = oneway s).
  { destruct (Z.eq_dec ra rb) as [E|N].
    - subst rb. exists ra. split; auto.
      assert (s5 = s4) as ->.
      { unfold s5, link. destruct Hh as [-> | ->]; rewrite !Z.eqb_refl; reflexivity. }
      split; [|auto]. eapply pres_merged; [exact A4|]. apply merged_trivial; auto.
    - destruct Hh as [E|E].
      + (* ra heaviest: rb is linked under ra *)
        exists ra. split; auto.
        assert (s5 = mk (set (parents s4) rb ra) (set (weights s4) ra (wget s4 ra + wget s4 rb))
                        (verified s4) (vertices s4) (oneway s4)) as ->.
        { unfold s5, link. rewrite E, Z.eqb_refl.
          destruct (Z.eqb rb ra) eqn:E2; [apply Z.eqb_eq in E2; congruence|reflexivity]. }
        split; [|simpl; auto].
        eapply pres_merged; [exact A4|].
        apply (link_merged s4 rb ra); auto.
      + exists rb. split; auto.
        assert (s5 = mk (set (parents s4) ra rb) (set (weights s4) rb (wget s4 rb + wget s4 ra))
                        (verified s4) (vertices s4) (oneway s4)) as ->.
        { unfold s5, link. rewrite E, Z.eqb_refl.
          destruct (Z.eqb ra rb) eqn:E2; [apply Z.eqb_eq in E2; congruence|].
          reflexivity. }
        split; [|simpl; auto].
        eapply pres_merged; [exact A4|].
        apply (link_merged s4 ra rb); auto. }
  destruct S5 as (w & Hw & M & B5 & C5 & D5).
  fold h. fold s5. intros H.
  exists ra, rb, w. split; auto. split; auto. split; auto.
  destruct v.
  - apply set_verified_spec in H. destruct H as (A6 & C6 & D6 & r6 & R6 & V6).
    assert (r6 = w) as ->.
    { eapply chain_det; [exact R6|]. apply M. right. auto. }
    split; [|split; [|split]].
    + intros y q. rewrite A6. apply M.
    + intros k. rewrite C6; auto.
    + congruence.
    + intros v. rewrite V6, B5. assert (In ra (verified s) \/ In rb (verified s)) by (apply Ev'; auto). tauto.
  - inv H. split; auto. split; auto. split; auto.
    intros v. rewrite B5.
    assert (~ (In ra (verified s) \/ In rb (verified s))) by (intros X; apply Ev' in X; discriminate).
    tauto.
Qed.

(* consequences on the `same` relation *)
Lemma merged_same s s' ra rb w a b :
  (forall x, exists r, root s x r) ->
  root s a ra -> root s b rb -> (w = ra \/ w = rb) -> merged s s' ra rb w ->
  forall x y, same s' x y <->
    same s x y \/ (same s x a /\ same s y b) \/ (same s x b /\ same s y a).
Proof.
  intros Tot Ra Rb Hw M x y.
  assert (Cl : forall z r, root s z r -> (r = ra <-> same s z a) /\ (r = rb <-> same s z b)).
  { intros z r Rz. split; split.
    - intros ->. exists ra; auto.
    - intros (q & H1 & H2). pose proof (chain_det _ _ _ _ H2 Ra).
      pose proof (chain_det _ _ _ _ H1 Rz). congruence.
    - intros ->. exists rb; auto.
    - intros (q & H1 & H2). pose proof (chain_det _ _ _ _ H2 Rb).
      pose proof (chain_det _ _ _ _ H1 Rz). congruence. }
  destruct (Tot x) as (rx & Rx). destruct (Tot y) as (ry & Ry).
  destruct (Cl x rx Rx) as (Xa & Xb). destruct (Cl y ry Ry) as (Ya & Yb).
  assert (Sxy : same s x y <-> rx = ry).
  { split.
    - intros (q & H1 & H2). pose proof (chain_det _ _ _ _ H1 Rx).
      pose proof (chain_det _ _ _ _ H2 Ry). congruence.
    - intros E. exists rx. split; auto. rewrite E; auto. }
  (* new roots *)
  assert (Nx : forall z rz, root s z rz ->
               root s' z (if Z.eq_dec rz ra then w else if Z.eq_dec rz rb then w else rz)).
  { intros z rz Rz. apply M. destruct (Z.eq_dec rz ra) as [->|N1]; [right; auto|].
    destruct (Z.eq_dec rz rb) as [->|N2]; [right; auto|]. left; auto. }
  pose proof (Nx x rx Rx) as Rx'. pose proof (Nx y ry Ry) as Ry'.
  assert (S' : same s' x y <->
     (if Z.eq_dec rx ra then w else if Z.eq_dec rx rb then w else rx) =
     (if Z.eq_dec ry ra then w else if Z.eq_dec ry rb then w else ry)).
  { split.
    - intros (q & H1 & H2).
      rewrite <- (chain_det _ _ _ _ H1 Rx'). rewrite <- (chain_det _ _ _ _ H2 Ry'). reflexivity.
    - intros E. eexists. split; [exact Rx'|]. rewrite E. exact Ry'. }
  rewrite S', Sxy, <- Xa, <- Xb, <- Ya, <- Yb.
  destruct (Z.eq_dec rx ra), (Z.eq_dec rx rb), (Z.eq_dec ry ra), (Z.eq_dec ry rb);
    destruct Hw; subst; intuition congruence.
Qed.
