"""C08 — random sampling from a specification is exactly uniform."""
import itertools
import json
import re
from contextlib import contextmanager
from fractions import Fraction

ID = "C08"
TITLE = "random sampling from a specification is exactly uniform"
COQ_PROPS = "Props/C08.v"
COQ_RUN = ("Count.ParseTreesSampleRun", "run_c08d")   # = Count.SampleRun run_c08 + the command (8 classes descs) that
#                                                        DECIDES describes / rank / closed (run_c08d_extends)
GEN_TARGETS = ["compositions",
               # CartesianProduct.reliance_profile / _valid_compositions (Count/GenBridgeValidComps.v)
               "product_reliance_profile", "product_valid_compositions", "product_min_sizes", "product_max_sizes"]
N = {"quick": 12000, "thorough": 36000}
RULE = (
    "random.randint / random.choice as seen by strategies/constructor/disjoint.py, cartesian.py and strategies/rule.py are "
    "replaced by an ENUMERATING source (the names those modules imported are rebound). Three streams. "
    "(words, 20%) REAL specifications found by CombinatorialSpecificationSearcher.auto_search over the word classes of "
    "/repo/example.py plus one product strategy with two non-atom factors (harness/universes/c08_words.py; alphabets of 2-3 "
    "letters, random consecutive patterns, 40% block-structured so that products have several compositions of different "
    "weights, possibly a start prefix, incl. finite classes; EMPTY start classes excluded): every union/product rule (Rule, EquivalencePathRule) x every size m <= N (N <= 8, <= 5 for 3 letters) x "
    "EVERY value r in 0..count+1 of the rule's own draw with the sub-samplers replaced by symbolic tokens, compared with the "
    "model's walk; the per-rule conditional distributions are composed exactly (fractions) through the real backward maps to "
    "the distribution on objects, which must be uniform on the brute-force object set; plus whole-draw-sequence enumeration "
    "of the real recursive sampler for n <= 4 while the root has <= 10 objects (distribution by multiplying 1/(hi-lo+1)), explicit (also out-of-range) draw "
    "sequences, and sizes with no object (InvalidOperationError, no draw). "
    "(stats, 15%) the same per-rule enumeration (the model comparison subsamples r when the count exceeds 70; the exact "
    "composition uses every r) + exact composition + whole-sequence cross-check on REAL specifications over "
    "words WITH STATISTICS (harness/universes/c08_stats.py: parameters kept, summed over a product, dropped when identically "
    "0 -> `zeroes`, two parent parameters on one child parameter -> contradiction skipping), for every (n, parameters), "
    "uniform among the brute-force objects with those parameters; the real DisjointUnion/CartesianProduct objects of the "
    "specification are described to the constructor-level model; AND the whole specification (kinds, parameter names, "
    "get_minimum_value, the constructors' extra_parameters / fixed_values dictionaries, get_terms tables) is described to "
    "the specification-level model WITH parameters (Count/SampleModelParams.v psample / pspec_sample): every draw sequence "
    "of the real recursive random_sample_object_of_size(n, **params) (trace of (lo, hi, value) and the parse tree recorded "
    "by wrapping the sub-samplers) is compared with the model's `enum` for every (n, params) incl. parameter values nobody "
    "has, plus explicit in- and out-of-range draw sequences; the hypotheses of C08_uniform_params are checked by brute force "
    "on every such specification (tag hypotheses-hold / fixed-dishonest); 4% of these start from a class without statistics "
    "with a unary union ADDING a statistic in the pack (known finding, see known_findings.json: there fixed_honest fails). "
    "(rules, 65%) synthetic constructor-level cases: real DisjointUnion / CartesianProduct objects built from stub classes "
    "with random extra_parameters / fixed_values / minimum values and random term tables, all r in 0..count+1; a 'sane' "
    "half (every child parameter determined, tables respecting fixed values and minima; oracle: #r per branch = the number "
    "of parent objects the branch accounts for under the parameter maps, computed by the harness) and a 'wild' half "
    "(missing keys, contradictory fixed values, unmapped child parameters, wrong parent_count; model comparison only). "
    "Non-trivial: a words/stats case with a union and a product rule each having >= 2 branches of non-zero weight at some "
    "size; a rules case where some r-range hits >= 2 distinct branches."
)
TECHNIQUE = (
    "Coq proof (threshold lemma; specification of _valid_compositions against the REGENERATED utils.compositions; exact "
    "uniformity over Q by induction on parse trees, without and WITH extra parameters — the sampling weights are compared with "
    "the tables DisjointUnion/CartesianProduct.get_terms compute in C09's vocabulary; uniqueness of the counts through C01's "
    "evaluation theorem) + extracted-model/implementation correspondence under an enumerating random source (per rule and per "
    "whole draw sequence, with parameters) + exact composition of per-rule distributions against brute-force object sets"
)
LEVEL_TEXT = (
    "Theorems C08_* (coq/theories/Props/C08.v). C08_threshold / _interval: for ANY list of branches with non-raising, "
    "non-negative weights the loop `total += w; if r <= total: return` picks branch j for exactly w_j of the values "
    "r = 1..total, returns for every such r and raises RuntimeError above; instantiated on the models of "
    "DisjointUnion.random_sample_sub_objects (zeroes / fixed_values / contradiction skipping) and "
    "CartesianProduct.random_sample_sub_objects with extra parameters (C08_threshold_union, C08_threshold_product). "
    "C08_valid_compositions_spec/_complete/_get_terms: _valid_compositions enumerates, once each, exactly the matrices in the "
    "reliance-profile boxes with the right column sums, loses no split inside the children's own bounds, and without "
    "parameters enumerates exactly the compositions utils.compositions (re-translated from /repo each run) gives get_terms "
    "(_complete under the hypothesis that the parent's declared minima are at most the sums of the children's). "
    "C08_uniform: for every specification of atoms, unions and products without parameters whose counts satisfy the get_terms "
    "recurrences and whose classes honour the minimum-size/atom contract (a product rule has a child and its declared "
    "minimum is at most the sum of its children's), the specification-level sampler returns every parse "
    "tree t of the root with probability exactly 1/count(size t), for every recursion budget `fuel` above the height of t "
    "(probability semantics over Q of independent uniform "
    "draws); C08_counted, C08_support; C08_reject_empty: count 0 => InvalidOperationError and no draw consumed. "
    "C08_equivalence_step / _path: a one-child union step (EquivalenceRule with a DisjointUnion constructor, a collapsed "
    "EquivalencePathRule = ONE such class in the model) preserves the count and the distribution exactly, and so does a "
    "chain of SEPARATE unary classes; that a collapsed path behaves as the chain it collapses is not a theorem here (on "
    "objects it is C07_path_contract); EquivalenceRules whose constructor is a Complement cannot be sampled and are outside. "
    "C08_uniform_true_counts (+ C08_rules_local): with the rules packaged as C01's term operators (locality proved), if T is "
    "the true enumeration (genuine rules) and the root is productive, ANY table satisfying the recurrences equals T on the "
    "root (C01 unique_solution), so every parse tree has probability 1/(true number of objects). "
    "C08_uniform_params: the same statement for specifications whose classes carry extra parameters: sampling "
    "with a parameter assignment returns every parse tree of the root with that size AND those parameter values with "
    "probability exactly 1/count(size, parameters), where count is the entry of a HYPOTHESISED get_terms table (teq to "
    "C09's union_table / product_table; no theorem links it to the true number of objects when there are parameters) — unions whose dictionaries drop, rename or merge statistics (zeroes, "
    "contradiction skipping), fixed_values, products splitting the parameters over _valid_compositions; hypotheses: the "
    "tables are what DisjointUnion/CartesianProduct.get_terms compute (C09's union_table / product_table / dict_sem), "
    "well-formed dictionaries (C09's wf_dict, values among the child's parameters), every child parameter determined "
    "(mapped or fixed; mapped for products), honest minimum_size/is_atom/get_minimum_value, and fixed_honest (a fixed value "
    "is the value on every object of the child). C08_counted_params, C08_support_params (no fixed_honest needed), "
    "C08_reject_empty_params; C08_union_weights_params / C08_product_weights_params: at every rule of such a specification "
    "no weight computation raises and the walk's total is at most the count get_terms computes (each product weight is the "
    "mass of a distinct set of the combinations get_terms sums over); C08_union_total_params / C08_product_total_params: "
    "with fixed_honest (unions) and table keys of the right arity the total EQUALS the count, hence "
    "C08_draws_return_union_params / _product_params: every draw r in 1..count returns a child / composition with the "
    "dictionaries of its sub-samplers (no RuntimeError, no other exception) and every r above raises RuntimeError; "
    "C08_pick_dict_union/_product: the specification-level "
    "walks choose what union_pick/prod_pick (compared draw by draw with the code) choose; C08_path_dictionary / "
    "_path_fixed_determined / _path_fixed_honest: the constructor EquivalencePathRule builds (C09's composed dictionary, "
    "fixed_values {k: 0}) determines every parameter, and fixed_honest means there exactly that untracked statistics are 0 on "
    "all objects; C08_uniform_params_refuted: with every hypothesis but fixed_honest the conclusion is FALSE in the model "
    "(all words over {a,b} under a root tracking nothing: 'a' has probability 0, count 2, the draw r=2 raises RuntimeError) "
    "— the open finding. Examples: words over {a,b} counting a's (binomial tables) satisfy every hypothesis. "
    "OBJECTS (section 8, shared development Count/ParseTrees*.v with C07 and C12): osample / opsample are sample / psample "
    "with the sub-samplers returning objects and `objs = tuple(self.backward_map(subobjs)); random.choice(objs)` on the way "
    "up (rule.py:542-543; `choice` = one draw of an index). C08_sampler_is_unparse(_params): the object sampler runs in "
    "lock step with the tree sampler (same randint/choice calls and ranges, same exceptions: `sim`, C08_sim_prob) and "
    "whenever the tree sampler returns t it returns the object unparse t of a well-formed tree - the composition of "
    "backward maps IS unparse and every random.choice is over a one-element tuple. C08_wf_trees_coincide(_params): C08's "
    "wf / pwf, sizes and parameter tuples coincide with those of the C07 vocabulary (and, through C12_parse_trees_coincide, "
    "with C12's wf_tree). C08_uniform_objects / C08_uniform_objects_params: under the hypotheses of C08_uniform(_params) "
    "AND of C07_objects_are_parse_trees (bijection contracts node_ok, closed, productivity certificate) and `describes` / "
    "`pdescribes` (the two descriptors describe the same rules; atoms have one object of the minimum size and values; on "
    "tuples of the children's arities the C07 parameter maps are the dict_sem of the dictionaries), the sampler returns "
    "EVERY OBJECT of the root with that size (and parameters) with probability exactly 1/count; C08_objects_support: it "
    "returns nothing that is not the object of a well-formed tree of the root. DECIDED per case (C08_describes_decided, "
    "C08_uniform_objects_decided): for every case built from a real specification WITHOUT parameters (kind words, about "
    "20% of the cases) the harness also builds the C07 descriptors of the same specification (c07.py _rule_desc, same "
    "labels) and the extracted run_c08d decides `describes` (kinds, children lists, atom sizes), the rank certificate and "
    "`closed` on the two descriptor lists; the harness recomputes the three verdicts and extra_checks counts the covered "
    "cases (all of them on seeds 0-2). For the cases WITH parameters (kind stats) `pdescribes` is evaluated by no run. "
    "Examples: 'ab' as an object has probability "
    "1/4 among the words of length 2 and 1/2 among those with one a (by the theorem and by vm_compute)."
)
LEVEL_NOTE = (
    "Objects vs parse trees: C08_uniform / C08_uniform_params speak of parse trees; C08_uniform_objects(_params) carry "
    "them to objects through C07_objects_are_parse_trees, whose hypotheses (the bijection contracts of the strategies' "
    "forward/backward maps, incl. the derived forms through C07_equivalence_contract / C07_path_contract) are user-code "
    "contracts: checked by brute force only in the words/stats cases (35% of the stream), sizes <= N, and the tree-vs-object "
    "count only inside whole-sequence enumeration (n <= 3-4, root <= 10 objects); the 65% `rules` cases have no objects. The "
    "object samplers osample/opsample are hand transcriptions that never run against the code (run_c08 returns trees); "
    "their tie is (i) the tree samplers they differ from by two lines ARE compared, (ii) parse/unparse of the model are "
    "compared with real forward/backward maps by the C07 check (queries 5/6), (iii) the oracle's Composer maps the real "
    "per-rule distributions through the real backward maps and divides by len(outs). A strategy whose backward_map yields "
    "0 or >= 2 objects violates node_ok: then random.choice is a real draw, outside every theorem (never generated). "
    "The count in C08_uniform_objects is `cnt` (the recurrences' solution; = true number via C08_uniform_true_counts when "
    "parameter-free), in _params the table entry. C08_uniform_params needs fixed_honest, which EXCLUDES exactly the "
    "open known finding 'eqpath-child-statistic-untracked-by-parent-sampling' (in the corpus and in 4% of the stats stream, "
    "judged by the oracle, matched by finding_match only when fixed_honest fails on that specification): an EquivalencePathRule "
    "whose child has a parameter the parent lacks fixes it to 0 when sampling while counting sums over all its values -> "
    "RuntimeError on in-range draws / non-uniform although the count is right; the model reproduces it (fixed_values are "
    "modelled; C08_uniform_params_refuted is that situation), so model and implementation agree there and only the oracle fails. "
    "Not stated: 'the probabilities of all parse trees add up to 1' (it follows from C08_uniform_params and count = number "
    "of parse trees, C07/C09's statement); per rule the equivalent fact IS proved (total of the weights = count, every "
    "in-range draw returns). C08_uniform_true_counts is for parameter-free specifications (with parameters the counts are linked to get_terms through "
    "C09's tables, not through C01's evaluation). Verification atoms with parameters are modelled as the universe's StatAtom "
    "(the repo's AtomStrategy raises NotImplementedError with parameters): the sampler ignores the parameters. "
    "Modelled, not verified: the hand transcriptions Count/SampleModel.v and Count/SampleModelParams.v, tied by the "
    "correspondence."
)
TRUSTED = [
    "probability semantics Count/SampleProb.v `prob` (independent uniform draws, exceptions = no value) — a definition",
    "translator harness/translate.py for Gen/Compositions.v (validated by C10 on every run of C10)",
    "modelled, not verified: Count/SampleModel.v (walk, union_pick, valid_comps/helper, prod_pick, sample, spec_sample) and "
    "Count/SampleModelParams.v (union_pick_dict, prod_pick_dict, kid tables, psample, pspec_sample, path_dict/path_fixed) — "
    "hand transcription of disjoint.py / cartesian.py / rule.py / specification.py, tied by per-draw and per-sequence comparison",
    "the enumerating random source of harness/props/c08.py replaces random.randint / random.choice (randint on an empty "
    "range raises ValueError as random.randint does)",
    "harness/universes/c08_stats.py (word classes with statistics, user-level strategies) — checked against brute force; "
    "its StatAtom sampler (ignores the parameters) is what the K_ATOM branch of psample models: the library's AtomStrategy "
    "raises NotImplementedError when the class has extra parameters",
    "the harness's own reference semantics on which oracle verdicts rest: ref_union_weights, ref_product_weights, "
    "check_hypotheses(_params).image, Composer, and path_rules' Python re-implementation of the Complement inversion",
    "Count/ParseTrees.v osample and Count/ParseTreesParams.v opsample (object-returning samplers: hand transcription of "
    "rule.py:531-543 on top of sample/psample; not run against the code, see LEVEL_NOTE)",
    "definitions the statements are written in: ptsize / tpar / pwf and the hypothesis predicates of Count/SampleParamsSpec.v; "
    "C09's dict_sem / union_table / product_table (Count/Constructors*.v); C01's srule / genuine / local / pumps (Spec/Eval.v, Forest/Spec.v)",
]
ASSUMPTIONS = [
    "counts are what get_terms computes (C01/C09) and are non-negative; classes honour minimum_size_of_object / is_atom / "
    "get_minimum_value (hypotheses of C08_uniform / C08_uniform_params; checked by brute force for sizes 0..N in the "
    "words/stats cases only; `pumps`/`genuine` of C08_uniform_true_counts are checked nowhere in C08)",
    "C08_uniform_objects(_params): the hypotheses of C07_objects_are_parse_trees (node_ok = bijection contracts of the "
    "forward/backward maps, verified classes are atoms or empty, closed, rank certificate) and describes/pdescribes; "
    "decidable equality of objects. Of these, `describes`, `closed` and the existence of a rank certificate are decided on "
    "every words case by run_c08d and by the harness (compared; extra_checks `covered_by_theorem C08_uniform_objects`); "
    "node_ok is a hypothesis on the strategies' maps; `pdescribes` (stats cases: also the parameter maps agree on all "
    "tuples, not decidable from finite data as stated) is an UNEVALUATED hypothesis",
    "C08_uniform: no extra parameters, rules are atoms / disjoint unions (incl. equivalence rules and paths) / Cartesian "
    "products with one object per parse tree",
    "C08_uniform_params: well-formed dictionaries, every child parameter determined, fixed_honest (excludes the open finding); "
    "Complement / Quotient constructors do not support sampling in the code (NotImplementedError) and are outside",
    "C08_uniform_true_counts: T genuine for the rules and the root productive (C03/C11 for forest searches)",
    "threshold theorems: no KeyError while computing a weight (every non-skipped child finds its parameters)",
    "a product rule has at least one child; the keys of **parameters are exactly the parent's extra parameters",
    "'all sizes' is read as: all sizes whose recursion fits the interpreter. The sampler recurses once per rule on the "
    "path to an atom: replayed on /repo, Av(aa) over {a,b} (9 rules) samples at n = 150 and raises RecursionError at "
    "n = 300 although utils.RecursionLimit raised the limit (the interpreter's C-recursion guard binds). The theorems are "
    "for every size (the model recurses on fuel above the tree height); generated sizes are <= 8 plus ONE sample at "
    "n = 120 per run: a RecursionError at large n is outside the property as checked here and is reported by nobody",
]

E_RUNTIME, E_VALUE, E_INVALID_OP, E_KEY, E_NOT_APPLY, E_INDEX, E_FUEL, E_ASSERT, E_DRAWS = 1, 2, 3, 4, 5, 6, 7, 8, 9
K_ATOM, K_EMPTY, K_UNION, K_PRODUCT = 0, 1, 2, 3


# ------------------------------------------------------------------ the enumerating random source
class OutOfDraws(Exception):
    pass


class Source:
    """random.randint / random.choice driven by a script of values; records every (lo, hi, value)."""

    def __init__(self, script=(), extend=False):
        self.script = list(script)
        self.extend = extend      # when the script is exhausted: take lo (used to enumerate) instead of failing
        self.pos = 0
        self.trace = []

    def randint(self, lo, hi):
        if hi < lo:
            raise ValueError("empty range for randrange() (%d, %d, %d)" % (lo, hi + 1, hi + 1 - lo))
        if self.pos < len(self.script):
            v = self.script[self.pos]
        elif self.extend:
            v = lo
        else:
            raise OutOfDraws()
        self.pos += 1
        self.trace.append([lo, hi, v])
        return v

    def choice(self, seq):
        i = self.randint(0, len(seq) - 1)
        if not 0 <= i < len(seq):
            raise IndexError("index handed to choice out of range")
        return seq[i]


@contextmanager
def patched(src):
    import comb_spec_searcher.strategies.constructor.cartesian as C
    import comb_spec_searcher.strategies.constructor.disjoint as D
    import comb_spec_searcher.strategies.rule as R

    old = (D.randint, C.random, R.random)
    D.randint, C.random, R.random = src.randint, src, src
    try:
        yield src
    finally:
        D.randint, C.random, R.random = old


def err_code(ex):
    from comb_spec_searcher.exception import InvalidOperationError, StrategyDoesNotApply

    table = [
        (OutOfDraws, E_DRAWS), (InvalidOperationError, E_INVALID_OP), (StrategyDoesNotApply, E_NOT_APPLY),
        (RuntimeError, E_RUNTIME), (ValueError, E_VALUE), (KeyError, E_KEY), (IndexError, E_INDEX),
        (AssertionError, E_ASSERT), (NotImplementedError, 10), (TypeError, 11),
    ]
    for cls, code in table:
        if type(ex) is cls:  # pylint: disable=unidiomatic-typecheck
            return code
    for cls, code in table:
        if isinstance(ex, cls):
            return code
    return 99


def enumerate_sequences(call, limit=200000):
    """all draw sequences of call() in the ranges it requests, depth first, values ascending.
    Yields (trace, ('ok', value) | ('err', code))."""
    script = []
    count = 0
    while True:
        src = Source(script, extend=True)
        with patched(src):
            try:
                res = ("ok", call())
            except BaseException as ex:  # pylint: disable=broad-except
                res = ("err", err_code(ex))
        yield src.trace, res
        count += 1
        if count > limit:
            raise RuntimeError("too many draw sequences")
        tr = src.trace
        k = len(tr) - 1
        while k >= 0 and tr[k][2] >= tr[k][1]:
            k -= 1
        if k < 0:
            return
        script = [t[2] for t in tr[:k]] + [tr[k][2] + 1]


# ------------------------------------------------------------------ tokens instead of sub-samplers
class Tok:
    def __init__(self, pos, n, kw, tup):
        self.pos, self.n, self.kw, self.tup = pos, n, kw, tup


def token_samplers(kparams):
    """stand-ins for child_rule.random_sample_object_of_size: like the real one they look up the child's
    parameters in the keyword arguments (KeyError when one is missing) and return a symbolic token"""
    def mk(i):
        def sampler(n, **kw):
            return Tok(i, n, kw, [kw[k] for k in kparams[i]])
        return sampler
    return tuple(mk(i) for i in range(len(kparams)))


def one_draw(cons, total, subrecs, n, params, r, kparams):
    """constructor.random_sample_sub_objects on the one-draw sequence [r] -> (('ok', tokens)|('err', code), trace)"""
    src = Source([r])
    with patched(src):
        try:
            res = cons.random_sample_sub_objects(total, token_samplers(kparams), subrecs, n, **params)
            res = ("ok", [t for t in res if t is not None], len(res))
        except BaseException as ex:  # pylint: disable=broad-except
            res = ("err", err_code(ex))
    return res, src.trace


# ------------------------------------------------------------------ universes (real specifications)
_SPECS = {}


def _quiet():
    import logging

    import comb_spec_searcher  # noqa: F401
    import logzero

    logzero.loglevel(logging.ERROR)


def get_spec(universe, cls):
    key = (universe, json.dumps(cls))
    if key not in _SPECS:
        _quiet()
        if len(_SPECS) > 300:
            _SPECS.clear()
        try:
            if universe == "words":
                from harness.universes import c08_words

                spec = c08_words.word_spec(cls[0], cls[1], cls[2])
            else:
                from harness.universes import c08_stats

                spec = c08_stats.stat_spec(cls[0], cls[1], cls[2], cls[3], add=len(cls) > 4 and bool(cls[4]))
        except BaseException as ex:  # pylint: disable=broad-except
            spec = ("failed", "%s: %s" % (type(ex).__name__, ex))
        _SPECS[key] = spec
    return _SPECS[key]


def class_key(c):
    return (len(c.prefix), str(c.prefix), bool(c.just_prefix), tuple(c.alphabet), tuple(map(str, c.patterns)),
            tuple(getattr(c, "stats", ())))


def spec_classes(spec):
    return sorted(spec.rules_dict.keys(), key=class_key)


def rule_kind(rule):
    from comb_spec_searcher.strategies.constructor import CartesianProduct, DisjointUnion
    from comb_spec_searcher.strategies.rule import VerificationRule
    from comb_spec_searcher.strategies.strategy import AtomStrategy, EmptyStrategy

    if isinstance(rule, VerificationRule):
        if isinstance(rule.strategy, EmptyStrategy):
            return K_EMPTY
        if isinstance(rule.strategy, AtomStrategy):
            return K_ATOM
        return -1
    cons = rule.constructor
    if type(cons) is DisjointUnion:  # pylint: disable=unidiomatic-typecheck
        return K_UNION
    if type(cons) is CartesianProduct:  # pylint: disable=unidiomatic-typecheck
        return K_PRODUCT
    return -1


def describe_words(spec, upto):
    """(classes, counts, root label) of a parameter-free specification, as sent to the model"""
    classes = spec_classes(spec)
    label = {c: i for i, c in enumerate(classes)}
    desc, counts = [], []
    for c in classes:
        rule = spec.rules_dict[c]
        k = rule_kind(rule)
        desc.append([k, c.minimum_size_of_object(), int(bool(c.is_atom())), [label[ch] for ch in rule.children]])
        counts.append([rule.count_objects_of_size(m) for m in range(upto + 1)])
    return [desc, counts], label[spec.root]


def _vids():
    names = {}

    def vid(name):
        if name not in names:
            names[name] = len(names) + 1
        return names[name]
    return vid


def describe_stats(spec, upto, vid=None):
    """(classes, tables, root label) of a specification WITH extra parameters, as sent to the model
    (Count/SampleModelParams.v): class = [kind, min, is_atom, kids, params, minval, eps, fixed]; tables = per
    class, per size 0..upto, the Counter rule.get_terms(size) as [[tuple, count] ...]"""
    vid = vid or _vids()
    classes = spec_classes(spec)
    label = {c: i for i, c in enumerate(classes)}
    desc, tables = [], []
    for c in classes:
        rule = spec.rules_dict[c]
        k = rule_kind(rule)
        eps, fixed = [], []
        if k in (K_UNION, K_PRODUCT):
            cons = rule.constructor
            eps = [[[vid(a), vid(b)] for a, b in ep.items()] for ep in cons.extra_parameters]
            if k == K_UNION:
                fixed = [[[vid(a), b] for a, b in fx.items()] for fx in cons.fixed_values]
        desc.append([
            k, c.minimum_size_of_object(), int(bool(c.is_atom())), [label[ch] for ch in rule.children],
            [vid(a) for a in c.extra_parameters],
            [[vid(a), c.get_minimum_value(a)] for a in c.extra_parameters],
            eps, fixed,
        ])
        tables.append([[[list(t), v] for t, v in sorted(rule.get_terms(m).items())] for m in range(upto + 1)])
    return [desc, tables], label[spec.root], vid


def path_rules(spec, vid):
    """every EquivalencePathRule of the specification as the model's input [first, steps, last] together with the
    real constructor's [dictionary, fixed_values] (EquivalencePathRule.constructor); Complement steps contribute
    the inverted dictionary, as in the code (paths through a Complement with duplicate values raise
    NotImplementedError there and are left out)"""
    from comb_spec_searcher.strategies.constructor import Complement
    from comb_spec_searcher.strategies.rule import EquivalencePathRule

    res = []
    for c in spec_classes(spec):
        rule = spec.rules_dict[c]
        if not isinstance(rule, EquivalencePathRule):
            continue
        steps, ok = [], True
        for r in rule.rules:
            cons = r.constructor
            d = dict(cons.extra_parameters[0])
            if isinstance(cons, Complement):
                if len(set(d.values())) != len(d):
                    ok = False
                d = {b: a for a, b in d.items()}
            steps.append([[vid(a), vid(b)] for a, b in d.items()])
        if not ok:
            continue
        real = rule.constructor
        res.append((
            [[vid(a) for a in c.extra_parameters], steps, [vid(a) for a in rule.children[0].extra_parameters]],
            [[[vid(a), vid(b)] for a, b in real.extra_parameters[0].items()],
             [[vid(a), b] for a, b in real.fixed_values[0].items()]],
        ))
    return res


def stat_draws(case):
    """explicit (also out-of-range) draw sequences for the stats stream, derived from the case (so that old
    corpus cases get them too)"""
    return [[case["N"], []], [min(2, case["N"]), [1, 0, 1, 0, 1, 0]], [min(3, case["N"]), [2, 0, 2, 0, 1, 0, 1, 0]],
            [min(2, case["N"]), [0]], [min(3, case["N"]), [40]]]


# ------------------------------------------------------------------ constructor-level descriptors
class StubClass:
    def __init__(self, params, min_size=0, atom=False, minvals=None):
        self.extra_parameters = tuple(params)
        self._min, self._atom, self._minvals = min_size, bool(atom), dict(minvals or {})

    def minimum_size_of_object(self):
        return self._min

    def is_atom(self):
        return self._atom

    def get_minimum_value(self, parameter):
        return self._minvals[parameter]


def vname(i):
    return "v%d" % i


def build_item(item):
    """real constructor + subrecs for a synthetic item"""
    from comb_spec_searcher.strategies.constructor import CartesianProduct, DisjointUnion

    pvars = [vname(v) for v in item["pvars"]]
    tables = []
    for kid in item["kids"]:
        tables.append({(n, tuple(t)): c for n, t, c in kid["table"]})
    kparams = [[vname(v) for v in kid["params"]] for kid in item["kids"]]

    def mk_rec(i):
        def rec(n, **kw):
            tup = tuple(kw[k] for k in kparams[i])
            return tables[i].get((n, tup), 0)
        return rec

    subrecs = tuple(mk_rec(i) for i in range(len(item["kids"])))
    if item["t"] == "u":
        parent = StubClass(pvars)
        children = tuple(StubClass(p) for p in kparams)
        eps = tuple({vname(a): vname(b) for a, b in ep} for ep in item["eps"])
        fixed = None if item["fixed"] is None else tuple({vname(a): b for a, b in fx} for fx in item["fixed"])
        cons = DisjointUnion(parent, children, eps, fixed)
    else:
        parent = StubClass(pvars, item["pmin"], False, dict(zip(pvars, item["pminvals"])))
        children = tuple(
            StubClass(p, kid["min"], kid["atom"], {vname(a): b for a, b in kid["minval"]})
            for p, kid in zip(kparams, item["kids"])
        )
        eps = tuple({vname(a): vname(b) for a, b in kid["ep"]} for kid in item["kids"])
        cons = CartesianProduct(parent, children, eps)
    return cons, subrecs, kparams


def run_item(item):
    cons, subrecs, kparams = build_item(item)
    params = {vname(k): v for k, v in item["params"]}
    out = []
    for r in item["rs"]:
        res, trace = one_draw(cons, item["pc"], subrecs, item["n"], params, r, kparams)
        if res[0] == "err":
            out.append([[1, res[1]], trace])
        elif item["t"] == "u":
            (tok,) = res[1]
            out.append([[0, [tok.pos, tok.tup]], trace])
        else:
            out.append([[0, [[tok.n, tok.tup] for tok in res[1]]], trace])
    return out


def enc_item(item):
    def kid_u(kid):
        return [kid["params"], kid["table"]]

    if item["t"] == "u":
        fixed = item["fixed"] if item["fixed"] is not None else [[] for _ in item["kids"]]
        return [0, item["n"], item["params"], item["pc"], item["rs"], item["pvars"], item["eps"], fixed,
                [kid_u(k) for k in item["kids"]]]
    return [1, item["n"], item["params"], item["pc"], item["rs"], item["pvars"], [item["pmin"]] + item["pminvals"],
            [[kid_u(k), k["min"], k["atom"], k["minval"], k["ep"]] for k in item["kids"]]]


# reference semantics (harness's own): which parent objects a branch accounts for
def ref_union_weights(item):
    p = dict(item["params"])
    res = []
    for kid, ep in zip(item["kids"], item["eps"]):
        w = 0
        for n, tup, c in kid["table"]:
            if n != item["n"]:
                continue
            q = dict(zip(kid["params"], tup))
            good = True
            for pv in item["pvars"]:
                cvs = [b for a, b in ep if a == pv]
                if cvs:
                    good = good and all(q[cv] == p[pv] for cv in cvs)
                else:
                    good = good and p[pv] == 0
            if good:
                w += c
        res.append(w)
    return res


def ref_product_weights(item):
    """{(tuple of (size, tuple)) : weight} over all combinations of table entries accounted under (n, params)"""
    p = dict(item["params"])
    res = {}
    entries = [[(n, tuple(t), c) for n, t, c in kid["table"] if c] for kid in item["kids"]]
    for combo in itertools.product(*entries):
        if sum(e[0] for e in combo) != item["n"]:
            continue
        good = True
        for pv in item["pvars"]:
            tot = 0
            for kid, e in zip(item["kids"], combo):
                q = dict(zip(kid["params"], e[1]))
                cvs = [b for a, b in kid["ep"] if a == pv]
                tot += sum(q[cv] for cv in cvs[:1])
                if len(set(q[cv] for cv in cvs)) > 1:
                    good = False
            good = good and tot == p[pv]
        if good:
            w = 1
            for e in combo:
                w *= e[2]
            key = tuple((e[0], e[1]) for e in combo)
            res[key] = res.get(key, 0) + w
    return res


# ------------------------------------------------------------------ generators
def _rand_word(rng, alph, lo, hi):
    return "".join(rng.choice(alph) for _ in range(rng.randint(lo, hi)))


def _block_patterns(rng, alph):
    """patterns making the class a block over G1 followed by a block over G2 (SplitAlphabet applies)"""
    letters = list(alph)
    rng.shuffle(letters)
    k = rng.randint(1, len(letters) - 1)
    g1, g2 = letters[:k], letters[k:]
    pats = {x + y for x in g2 for y in g1}
    for g in (g1, g2):
        for _ in range(rng.choice([0, 1, 1, 2])):
            pats.add(_rand_word(rng, g, 2, 3))
    return sorted(pats)


def _gen_words(rng, tier):
    alph = "ab" if rng.random() < 0.6 else "abc"
    npat = rng.choice([1, 1, 2, 2, 3])
    pats = sorted({_rand_word(rng, alph, 1, 4 if alph == "ab" else 3) for _ in range(npat)})
    if rng.random() < 0.4:
        pats = _block_patterns(rng, alph)
    prefix = _rand_word(rng, alph, 0, 2) if rng.random() < 0.25 else ""
    if any(p in prefix for p in pats):
        prefix = ""     # an EMPTY start class is outside C08 (the searcher then returns a wrong specification: C01)
    big = 8 if tier == "thorough" else 7
    upto = rng.randint(3, big) if alph == "ab" else rng.randint(2, 5)
    nseq = rng.randint(1, 4 if tier == "thorough" else 3) if alph == "ab" else rng.randint(1, 2)
    draws = []
    for _ in range(rng.randint(2, 5)):
        draws.append([rng.randint(1, 6), [rng.choice([0, 0, 0, 1, 1, 2, 3, 5, 8, -1, 40]) for _ in range(rng.randint(0, 12))]])
    return {"kind": "words", "cls": [prefix, pats, alph], "N": upto, "nseq": min(nseq, upto), "draws": draws}


def _gen_stats(rng, tier):
    alph = "ab" if rng.random() < 0.85 else "abc"
    npat = rng.choice([0, 1, 1, 2, 2])
    pats = {_rand_word(rng, alph, 1, 3) for _ in range(npat)}
    if rng.random() < 0.3:
        pats.add(rng.choice(alph))          # a forbidden letter: DropZeroStat applies
    pats = sorted(pats)
    if rng.random() < 0.4:
        pats = _block_patterns(rng, alph)
    prefix = _rand_word(rng, alph, 0, 2) if rng.random() < 0.2 else ""
    if any(p in prefix for p in pats):
        prefix = ""
    r = rng.random()
    if r < 0.45:
        stats = [rng.choice(alph)]
    elif r < 0.8:
        stats = [rng.choice(alph), rng.choice(alph)]
    else:
        stats = [rng.choice(alph) for _ in range(3)]
    upto = rng.randint(2, 6 if tier == "thorough" else 5) if alph == "ab" else rng.randint(2, 4)
    cls = [prefix, pats, alph, stats]
    if rng.random() < 0.04:
        cls = [prefix, pats, alph, [], 1]      # start class without statistics, AddStat in the pack
    return {"kind": "stats", "cls": cls, "N": upto, "nseq": min(upto, rng.randint(1, 3))}


def _rs(pc):
    if pc <= 70:
        return list(range(0, pc + 2))
    return sorted(set([0, 1, 2, pc - 1, pc, pc + 1] + list(range(1, pc, max(1, pc // 40)))))


def _gen_union_item(rng, sane):
    npar = rng.choice([0, 1, 1, 2, 2, 3])
    pvars = list(range(1, npar + 1))
    n = rng.randint(0, 3)
    params = [[pv, rng.choice([0, 0, 1, 1, 2])] for pv in pvars]
    if sane and npar >= 2 and rng.random() < 0.5:
        params[1][1] = params[0][1]        # make "two parents on one child variable" satisfiable
    p = dict(params)
    kids, eps, fixed = [], [], []
    for i in range(rng.randint(1, 4)):
        cparams = [10 * (i + 1) + j for j in range(rng.choice([0, 1, 1, 2, 2, 3]))]
        order = pvars[:]
        rng.shuffle(order)
        ep = [[pv, rng.choice(cparams)] for pv in order if cparams and rng.random() < 0.75]
        mapped = {cv for _, cv in ep}
        fx = []
        for cv in cparams:
            if cv not in mapped and (sane or rng.random() < 0.6):
                fx.append([cv, rng.randint(0, 2)])
            elif cv in mapped and not sane and rng.random() < 0.15:
                fx.append([cv, rng.randint(0, 2)])
        fxd = dict(fx)
        table, seen = [], set()
        for _ in range(rng.randint(0, 7)):
            tup = []
            for cv in cparams:
                if cv in fxd and (sane or rng.random() < 0.7):
                    tup.append(fxd[cv])
                else:
                    srcs = [pv for pv, c in ep if c == cv]
                    tup.append(p[srcs[0]] if srcs and rng.random() < 0.6 else rng.randint(0, 2))
            nn = n if rng.random() < 0.85 else rng.randint(0, 3)
            if (nn, tuple(tup)) in seen:
                continue
            seen.add((nn, tuple(tup)))
            table.append([nn, tup, rng.choice([0, 1, 1, 2, 3, 5])])
        kids.append({"params": cparams, "table": table})
        eps.append(ep)
        fixed.append(fx)
    item = {"t": "u", "n": n, "params": params, "pvars": pvars, "eps": eps,
            "fixed": None if (all(not f for f in fixed) and rng.random() < 0.5) else fixed, "kids": kids}
    if not sane:
        r = rng.random()
        if r < 0.12 and params:
            del item["params"][rng.randrange(len(params))]          # KeyError in get_extra_parameters
        elif r < 0.2:
            item["params"].append([9, rng.randint(0, 1)])            # an extra keyword
    total = sum(ref_union_weights(item)) if sane else None
    if total is None:
        total = rng.choice([0, 1, 3, 6, 10]) if rng.random() < 0.3 else _wild_total_union(item)
        if rng.random() < 0.25:
            total += rng.choice([-1, 1, 2])
    item["pc"] = max(total, -1)
    item["rs"] = _rs(item["pc"])
    return item


def _wild_total_union(item):
    return sum(c for kid in item["kids"] for nn, _, c in kid["table"] if nn == item["n"])


def _gen_product_item(rng, sane):
    npar = rng.choice([0, 0, 1, 1, 2])
    pvars = list(range(1, npar + 1))
    nk = rng.choice([1, 2, 2, 2, 3])
    kids = []
    for i in range(nk):
        atom = int(rng.random() < 0.35)
        cparams = [10 * (i + 1) + j for j in range(rng.choice([0, 1, 1, 2]) if npar else 0)]
        order = pvars[:]
        rng.shuffle(order)
        ep = [[pv, rng.choice(cparams)] for pv in order if cparams and rng.random() < 0.7]
        if sane:
            mapped = {cv for _, cv in ep}
            for cv in cparams:
                if cv not in mapped:
                    free = [pv for pv in pvars if pv not in {a for a, _ in ep}]
                    if free:
                        ep.append([rng.choice(free), cv])
            mapped = {cv for _, cv in ep}
            cparams = [cv for cv in cparams if cv in mapped]
        mn = rng.randint(0, 2)
        minval = [[cv, rng.randint(0, 1)] for cv in cparams]
        mv = dict(minval)
        table, seen = [], set()
        if atom:
            table.append([mn, [mv[cv] for cv in cparams], 1])
            if not sane and rng.random() < 0.2:
                table.append([mn + 1, [mv[cv] for cv in cparams], 1])
        else:
            for _ in range(rng.randint(1, 7)):
                s = mn + rng.choice([0, 0, 1, 1, 2, 3])
                tup = [mv[cv] + rng.choice([0, 0, 1, 2]) for cv in cparams]
                if not sane and rng.random() < 0.1:
                    s = max(0, mn - 1)
                if (s, tuple(tup)) in seen:
                    continue
                seen.add((s, tuple(tup)))
                table.append([s, tup, rng.choice([0, 1, 1, 2, 3])])
        kids.append({"params": cparams, "table": table, "min": mn, "atom": atom, "minval": minval, "ep": ep})
    # parent minima: at most the sum of the children's (sane), anything nearby (wild)
    smin = sum(k["min"] for k in kids)
    pmin = smin - rng.choice([0, 0, 0, 1]) if sane else smin + rng.choice([0, 0, -1, 1])
    pminvals = []
    for pv in pvars:
        tot = 0
        for k in kids:
            cvs = [b for a, b in k["ep"] if a == pv]
            if cvs:
                tot += dict(k["minval"])[cvs[0]]
        pminvals.append(tot - rng.choice([0, 0, 1]) if sane else tot + rng.choice([0, 0, -1, 1]))
    # target: a reachable (n, params) most of the time
    n = smin + rng.randint(0, 3)
    params = [[pv, rng.randint(0, 3)] for pv in pvars]
    nonzero = [[e for e in k["table"] if e[2]] for k in kids]
    if all(nonzero) and rng.random() < 0.85:
        combo = [rng.choice(es) for es in nonzero]
        n = sum(e[0] for e in combo)
        params = []
        for pv in pvars:
            tot = 0
            for k, e in zip(kids, combo):
                q = dict(zip(k["params"], e[1]))
                cvs = [b for a, b in k["ep"] if a == pv]
                if cvs:
                    tot += q[cvs[0]]
            params.append([pv, tot])
    item = {"t": "p", "n": n, "params": params, "pvars": pvars, "pmin": pmin, "pminvals": pminvals, "kids": kids}
    if not sane:
        r = rng.random()
        if r < 0.08 and params:
            del item["params"][rng.randrange(len(params))]
        elif r < 0.14:
            item["params"].append([9, 0])
        elif r < 0.18:
            item["kids"] = []
    if sane:
        total = sum(ref_product_weights(item).values())
    else:
        total = sum(ref_product_weights(item).values()) if item["kids"] and len(item["params"]) == len(pvars) else 3
        if rng.random() < 0.3:
            total += rng.choice([-1, 1, 2])
    item["pc"] = max(total, -1)
    item["rs"] = _rs(item["pc"])
    return item


def _gen_rules(rng):
    sane = rng.random() < 0.5
    items = []
    for _ in range(rng.randint(1, 4)):
        items.append(_gen_union_item(rng, sane) if rng.random() < 0.5 else _gen_product_item(rng, sane))
    return {"kind": "rules", "sane": sane, "items": items}


def gen(rng, tier):
    while True:
        r = rng.random()
        if r < 0.20:
            yield _gen_words(rng, tier)
        elif r < 0.35:
            yield _gen_stats(rng, tier)
        else:
            yield _gen_rules(rng)


# ------------------------------------------------------------------ stats specifications -> constructor-level items
def stat_items(spec, upto):
    """one constructor-level item per (union/product rule, size, parameters with objects), described from the
    REAL constructor object and classes; returns (items, index) with index[i] = (class, n, parameter dict)"""
    from comb_spec_searcher.strategies.constructor import DisjointUnion

    names = {}

    def vid(name):
        if name not in names:
            names[name] = len(names) + 1
        return names[name]

    items, index = [], []
    for c in spec_classes(spec):
        rule = spec.rules_dict[c]
        k = rule_kind(rule)
        if k not in (K_UNION, K_PRODUCT):
            continue
        cons = rule.constructor
        pnames = list(c.extra_parameters)
        for n in range(upto + 1):
            for ptuple, total in sorted(rule.get_terms(n).items()):
                if not total:
                    continue
                item = {"n": n, "params": [[vid(a), b] for a, b in zip(pnames, ptuple)], "pc": total,
                        "rs": _rs(total), "pvars": [vid(a) for a in pnames]}
                kids = []
                for i, ch in enumerate(rule.children):
                    sub = spec.get_rule(ch)
                    sizes = [n] if k == K_UNION else range(n + 1)
                    table = []
                    for m in sizes:
                        for tup, cnt in sorted(sub.get_terms(m).items()):
                            table.append([m, list(tup), cnt])
                    kid = {"params": [vid(a) for a in ch.extra_parameters], "table": table}
                    if k == K_PRODUCT:
                        kid.update(
                            min=ch.minimum_size_of_object(), atom=int(bool(ch.is_atom())),
                            minval=[[vid(a), ch.get_minimum_value(a)] for a in ch.extra_parameters],
                            ep=[[vid(a), vid(b)] for a, b in cons.extra_parameters[i].items()],
                        )
                    kids.append(kid)
                item["kids"] = kids
                if k == K_UNION:
                    assert isinstance(cons, DisjointUnion)
                    item["t"] = "u"
                    item["eps"] = [[[vid(a), vid(b)] for a, b in ep.items()] for ep in cons.extra_parameters]
                    item["fixed"] = [[[vid(a), b] for a, b in fx.items()] for fx in cons.fixed_values]
                else:
                    item["t"] = "p"
                    item["pmin"] = c.minimum_size_of_object()
                    item["pminvals"] = [c.get_minimum_value(a) for a in pnames]
                items.append(item)
                index.append((c, n, dict(zip(pnames, ptuple))))
    return items, index


def run_real_item(spec, c, n, params, item):
    """the item's answers from the REAL rule of the specification (its constructor, its subrecs)"""
    rule = spec.rules_dict[c]
    kids = rule.children
    out = []
    for r in item["rs"]:
        res, trace = one_draw(rule.constructor, item["pc"], rule.subrecs, n, params, r,
                              [k.extra_parameters for k in kids])
        if res[0] == "err":
            out.append([[1, res[1]], trace])
        elif item["t"] == "u":
            (tok,) = res[1]
            out.append([[0, [tok.pos, tok.tup]], trace])
        else:
            out.append([[0, [[tok.n, tok.tup] for tok in res[1]]], trace])
    return out


# ------------------------------------------------------------------ encoding
# ------------------------------------------------------------------ hypotheses of C08_uniform_objects, decided
def c07_descs(spec):
    """the C07 descriptors (harness/props/c07.py _rule_desc, imported - not copied) of THIS specification under the
    labels of describe_words; forms tabulated to size 0 only (the deciders read kinds, children, minimum / maximum
    sizes and atoms).  None when c07.py cannot describe the specification."""
    from harness.props import c07

    try:
        return c07.descriptors(c07.world_of_spec(spec, order=spec_classes(spec), mutate=False), 0)
    except Exception:  # pylint: disable=broad-except
        return None


def describes_verdict(cds, descs):
    """[describes_ok, rank_ok, closed_ok]: an independent computation of what Count/ParseTreesSampleDeciders.v
    describesb and Count/ParseTreesDeciders.v rankb / closedb decide on the C08 classes `cds` and the C07 descriptors
    `descs` of one specification (the extracted run answers the command (8 cds descs) with it; compared by the core)"""
    from harness.props import c07

    if descs is None:
        return None
    ok = True
    for c in range(max(len(cds), len(descs))):
        k = cds[c] if c < len(cds) else [K_EMPTY, 0, 0, []]
        d = descs[c] if c < len(descs) else None
        kind = {0: K_UNION, 1: K_PRODUCT, 3: K_ATOM}.get(d[0], K_EMPTY) if d else K_EMPTY
        kids = list(d[1]) if d and d[0] in (0, 1) else []
        ok = ok and k[0] == kind and list(k[3]) == kids
        if k[0] == K_ATOM and d and d[0] == 3:
            ok = ok and d[1] == k[1]
    shapes = [[0, d[1]] if d[0] == 0 else [1, d[1], d[2], d[3]] if d[0] == 1 else [2] for d in descs]
    rv = c07.rank_verdict(shapes)
    return [int(ok), rv[0], rv[1]]


_ENC = {}


def eff_nseq(spec, nseq):
    """whole draw sequences are enumerated only while the root has at most 10 objects (the number of
    sequences is about the product of the counts along a derivation)"""
    n = -1
    while n < nseq and sum(spec.get_terms(n + 1).values()) <= 10:
        n += 1
    return n


def _fuel(desc, n):
    return (n + 2) * (len(desc[0]) + 2)


def encode(case):
    k = case["kind"]
    if k == "rules":
        return [0, [enc_item(it) for it in case["items"]]]
    key = json.dumps(case, sort_keys=True)
    if key in _ENC:
        return _ENC[key]
    if len(_ENC) > 40:
        _ENC.clear()
    spec = get_spec(k, case["cls"])
    if isinstance(spec, tuple):
        enc = [9, []]
    elif k == "words":
        desc, root = describe_words(spec, max([case["N"]] + [n for n, _ in case["draws"]]))
        cmds = [[2, desc, case["N"]]]
        for n in range(eff_nseq(spec, case["nseq"]) + 1):
            cmds.append([4, desc, root, n, _fuel(desc, n)])
        for n, ds in case["draws"] + [[case["N"], []]]:
            cmds.append([3, desc, root, n, _fuel(desc, n), [ds]])
        descs7 = c07_descs(spec)
        if descs7 is not None:
            cmds.append([8, desc[0], descs7])      # appended: the verdict [describes_ok, rank_ok, closed_ok]
        enc = [9, cmds]
    else:
        items, _ = stat_items(spec, case["N"])
        cmds = [[0, [enc_item(it) for it in items]]]
        # the specification-level sampler with parameters (Count/SampleModelParams.v)
        desc, root, vid = describe_stats(spec, case["N"])
        fuel = _fuel(desc, case["N"])
        for n in range(eff_nseq(spec, case["nseq"]) + 1):
            for params, _objs in root_params(spec, n):
                cmds.append([6, desc, root, n, [[vid(a), b] for a, b in params.items()], fuel])
        for n, ds in stat_draws(case):
            params = root_params(spec, n)[0][0]
            cmds.append([5, desc, root, n, [[vid(a), b] for a, b in params.items()], fuel, [ds]])
        # EquivalencePathRule.constructor (model: path_dict / path_fixed)
        for inp, _real in path_rules(spec, vid):
            cmds.append([7] + inp)
        enc = [9, cmds]
    _ENC[key] = enc
    return enc


# ------------------------------------------------------------------ implementation: real specifications
def tree_recorder(spec, label):
    """wrap the sub-samplers of every rule so that the parse tree of a sample is recorded"""
    if hasattr(spec, "_c08_state"):
        return spec._c08_state  # pylint: disable=protected-access
    state = {"stack": None}
    spec._c08_state = state  # pylint: disable=protected-access
    for c in spec_classes(spec):
        rule = spec.rules_dict[c]
        if rule.subsamplers is None:
            continue
        orig = tuple(rule.subsamplers)

        def wrap(i, f, child):
            def g(*a, **kw):
                node = [label[child], i, []]
                parent = state["stack"][-1]
                parent[2].append(node)
                state["stack"].append(node)
                try:
                    return f(*a, **kw)
                finally:
                    state["stack"].pop()
            return g

        rule.subsamplers = tuple(wrap(i, f, ch) for (i, f), ch in zip(enumerate(orig), rule.children))
    return state


def to_tree(spec, classes, node):
    c = node[0]
    k = rule_kind(spec.rules_dict[classes[c]])
    if k == K_UNION:
        (sub,) = node[2]
        return [1, c, sub[1], to_tree(spec, classes, sub)]
    if k == K_PRODUCT:
        return [2, c, [to_tree(spec, classes, s) for s in node[2]]]
    return [0, c]


def sample_with_tree(spec, classes, label, state, n, params):
    root = [label[spec.root], 0, []]
    state["stack"] = [root]
    obj = spec.random_sample_object_of_size(n, **params)
    return obj, to_tree(spec, classes, root)


def rule_steps(spec, c, n, params):
    """(total, [result for r in 0..total+1]) of the real constructor with token sub-samplers"""
    rule = spec.rules_dict[c]
    total = rule.count_objects_of_size(n, **params)
    res = []
    for r in range(0, total + 2):
        res.append(one_draw(rule.constructor, total, rule.subrecs, n, params, r,
                            [k.extra_parameters for k in rule.children])[0])
    return total, res


class Composer:
    """exact distribution on objects of (class, n, parameters) obtained by composing the per-rule
    conditional distributions (real constructor, every r) through the real backward maps"""

    def __init__(self, spec):
        self.spec = spec
        self.memo = {}
        self.problems = []
        self.depth = 0

    def dist(self, c, n, params):
        key = (c, n, tuple(sorted(params.items())))
        if key in self.memo:
            return self.memo[key]
        self.depth += 1
        if self.depth > 400:
            raise RuntimeError("composition does not terminate")
        rule = self.spec.rules_dict[c]
        k = rule_kind(rule)
        res = {}
        total = rule.count_objects_of_size(n, **params)
        if total > 0 and k in (K_ATOM, -1) and not rule.children:
            src = Source([])
            with patched(src):
                obj = rule.random_sample_object_of_size(n, **params)
            res[obj] = Fraction(1)
        elif total > 0:
            _, steps = rule_steps(self.spec, c, n, params)
            for r in range(1, total + 1):
                st = steps[r]
                if st[0] != "ok":
                    self.problems.append("draw r=%d of %d at %r size %d %r raises error %d" % (r, total, c, n, params, st[1]))
                    continue
                toks, width = st[1], st[2]
                subd = [self.dist(rule.children[t.pos], t.n, t.kw) for t in toks]
                for combo in itertools.product(*[list(d.items()) for d in subd]):
                    objs = [None] * width
                    pr = Fraction(1, total)
                    for t, (o, q) in zip(toks, combo):
                        objs[t.pos] = o
                        pr *= q
                    outs = tuple(rule.backward_map(tuple(objs)))
                    if not outs:
                        self.problems.append("backward_map yields nothing at %r" % (c,))
                    for o in outs:
                        res[o] = res.get(o, 0) + pr / len(outs)
        self.depth -= 1
        self.memo[key] = res
        return res


def root_params(spec, n):
    """the parameter dictionaries to sample the root with at size n: (params, brute-force objects)"""
    root = spec.root
    groups = {}
    for o in root.objects_of_size(n):
        p = root.get_parameters(o) if root.extra_parameters else ()
        groups.setdefault(tuple(p), []).append(o)
    if not groups:
        groups[tuple(0 for _ in root.extra_parameters)] = []
    if root.extra_parameters and n <= 3:
        groups.setdefault(tuple(n + 1 for _ in root.extra_parameters), [])   # parameters nobody has
    return [(dict(zip(root.extra_parameters, p)), objs) for p, objs in sorted(groups.items())]


def check_uniform(dist, objs, what):
    if set(dist) != set(objs) or len(set(objs)) != len(objs):
        extra = sorted(set(dist) - set(objs))[:3]
        missing = sorted(set(objs) - set(dist))[:3]
        return "%s: sampled objects differ from the class: never sampled %r, not in class %r" % (what, missing, extra)
    for o, p in dist.items():
        if p != Fraction(1, len(objs)):
            return "%s: P(%r) = %s instead of 1/%d" % (what, o, p, len(objs))
    return None


def check_hypotheses(spec, classes, label, upto):
    """the hypotheses of theorem C08_uniform on this specification (non-vacuity), sizes 0..upto"""
    from comb_spec_searcher.utils import compositions

    del label
    bad = []
    cnt = {c: [spec.rules_dict[c].count_objects_of_size(m) for m in range(upto + 1)] for c in classes}
    for c in classes:
        rule = spec.rules_dict[c]
        kind = rule_kind(rule)
        mn = c.minimum_size_of_object()
        if mn < 0 or any(x < 0 for x in cnt[c]):
            bad.append("negative count or minimum size at %r" % (c,))
        for m, x in enumerate(cnt[c]):
            if x and (m < mn or (c.is_atom() and m != mn)):
                bad.append("%r has %d objects of size %d outside its declared minimum size / atom size" % (c, x, m))
        if kind == K_ATOM and mn <= upto and cnt[c][mn] != 1:
            bad.append("atom %r does not count 1 at its size" % (c,))
        kids = rule.children
        if kind == K_UNION:
            for m in range(upto + 1):
                if cnt[c][m] != sum(cnt[ch][m] for ch in kids):
                    bad.append("union recurrence fails at %r size %d" % (c, m))
        if kind == K_PRODUCT:
            mins = tuple(ch.minimum_size_of_object() for ch in kids)
            maxs = tuple(ch.minimum_size_of_object() if ch.is_atom() else None for ch in kids)
            if not kids or mn > sum(mins):
                bad.append("product %r: no child or declared minimum above the children's" % (c,))
            for m in range(upto + 1):
                tot = 0
                for comp in compositions(m, len(kids), mins, maxs):
                    w = 1
                    for ch, s in zip(kids, comp):
                        w *= cnt[ch][s]
                    tot += w
                if cnt[c][m] != tot:
                    bad.append("product recurrence fails at %r size %d" % (c, m))
        if kind == -1:
            bad.append("rule of %r is neither atom, empty, union nor product" % (c,))
    return ["hypothesis of C08_uniform does not hold on this specification: " + b for b in bad[:2]]


def check_hypotheses_params(spec, classes, upto):
    """the hypotheses of theorem C08_uniform_params on this specification (non-vacuity), sizes 0..upto:
    tables_ok, contract_ok, atom_ok, union_ok, product_ok are expected to hold on the shipped universe and are
    reported as problems when they do not; fixed_honest is returned separately (it fails exactly on the known
    finding).  Returns (problems, list of fixed_honest failures)."""
    from comb_spec_searcher.utils import compositions

    bad, dishonest = [], []
    terms = {c: [dict(spec.rules_dict[c].get_terms(m)) for m in range(upto + 1)] for c in classes}

    def image(pnames, cnames, ep, q):
        return tuple(q[cnames.index(ep[pv])] if pv in ep else 0 for pv in pnames)

    for c in classes:
        rule = spec.rules_dict[c]
        kind = rule_kind(rule)
        pnames = list(c.extra_parameters)
        mn = c.minimum_size_of_object()
        if len(set(pnames)) != len(pnames):
            bad.append("tables_ok: repeated parameter name at %r" % (c,))
        if mn < 0:
            bad.append("contract_ok: negative minimum size at %r" % (c,))
        for m, tab in enumerate(terms[c]):
            for q, v in tab.items():
                if v < 0 or len(q) != len(pnames):
                    bad.append("tables_ok / arity_ok: entry %r: %r of %r at size %d" % (q, v, c, m))
                if not v:
                    continue
                if m < mn or (c.is_atom() and m != mn):
                    bad.append("contract_ok: %r has objects of size %d" % (c, m))
                for k, x in zip(pnames, q):
                    lo = c.get_minimum_value(k)
                    if x < lo or (c.is_atom() and x != lo):
                        bad.append("contract_ok: %r has objects with %s = %d, get_minimum_value %d" % (c, k, x, lo))
        kids = list(rule.children)
        if kind == K_ATOM:
            want = tuple(c.get_minimum_value(k) for k in pnames)
            for m, tab in enumerate(terms[c]):
                if {q: v for q, v in tab.items() if v} != ({want: 1} if m == mn else {}):
                    bad.append("atom_ok: %r at size %d has terms %r" % (c, m, tab))
        elif kind in (K_UNION, K_PRODUCT):
            cons = rule.constructor
            eps = [dict(ep) for ep in cons.extra_parameters]
            if len(eps) != len(kids):
                bad.append("%r: %d dictionaries for %d children" % (c, len(eps), len(kids)))
                continue
            for ch, ep in zip(kids, eps):
                cn = list(ch.extra_parameters)
                if not set(ep) <= set(pnames) or not set(ep.values()) <= set(cn):
                    bad.append("wf_dict: %r -> %r: %r" % (c, ch, ep))
            if kind == K_UNION:
                fixed = [dict(fx) for fx in cons.fixed_values]
                if len(fixed) != len(kids):
                    bad.append("union_ok: %r: %d fixed_values for %d children" % (c, len(fixed), len(kids)))
                    continue
                for ch, ep, fx in zip(kids, eps, fixed):
                    cn = list(ch.extra_parameters)
                    if not set(fx) <= set(cn) or not set(cn) <= set(ep.values()) | set(fx):
                        bad.append("union_ok: child %r of %r: parameters %r, images %r, fixed %r" % (ch, c, cn, ep, fx))
                        continue
                    for m in range(upto + 1):
                        for q, v in terms[ch][m].items():
                            if v and any(q[cn.index(k)] != x for k, x in fx.items()):
                                dishonest.append("fixed_honest fails at %r -> %r: fixed %r but the child has %d objects of "
                                                 "size %d with parameters %r" % (c, ch, fx, v, m, q))
                for m in range(upto + 1):
                    tot = {}
                    for ch, ep in zip(kids, eps):
                        cn = list(ch.extra_parameters)
                        for q, v in terms[ch][m].items():
                            key = image(pnames, cn, ep, q)
                            tot[key] = tot.get(key, 0) + v
                    if {q: v for q, v in tot.items() if v} != {q: v for q, v in terms[c][m].items() if v}:
                        bad.append("union_ok: get_terms recurrence fails at %r size %d" % (c, m))
            else:
                if not kids:
                    bad.append("product_ok: %r has no child" % (c,))
                    continue
                for ch, ep in zip(kids, eps):
                    if not set(ch.extra_parameters) <= set(ep.values()):
                        bad.append("product_ok: child %r of %r has a parameter no parent parameter maps to" % (ch, c))
                mins = tuple(ch.minimum_size_of_object() for ch in kids)
                maxs = tuple(ch.minimum_size_of_object() if ch.is_atom() else None for ch in kids)
                if mn > sum(mins):
                    bad.append("product_ok: declared minimum size of %r above the children's" % (c,))
                for k in pnames:
                    if c.get_minimum_value(k) > sum(ch.get_minimum_value(ep[k]) for ch, ep in zip(kids, eps) if k in ep):
                        bad.append("product_ok: declared minimum of %s at %r above the children's" % (k, c))
                for m in range(upto + 1):
                    tot = {}
                    for comp in compositions(m, len(kids), mins, maxs):
                        for combo in itertools.product(*[list(terms[ch][s].items()) for ch, s in zip(kids, comp)]):
                            key = [0] * len(pnames)
                            w = 1
                            for (ch, ep), (q, v) in zip(zip(kids, eps), combo):
                                img = image(pnames, list(ch.extra_parameters), ep, q)
                                key = [a + b for a, b in zip(key, img)]
                                w *= v
                            tot[tuple(key)] = tot.get(tuple(key), 0) + w
                    if {q: v for q, v in tot.items() if v} != {q: v for q, v in terms[c][m].items() if v}:
                        bad.append("product_ok: get_terms recurrence fails at %r size %d" % (c, m))
        elif kind == -1:
            bad.append("rule of %r is neither atom, empty, union nor product" % (c,))
    return (["hypothesis of C08_uniform_params does not hold on this specification: " + b for b in bad[:2]],
            dishonest)


def impl_spec(case):
    from comb_spec_searcher.exception import InvalidOperationError

    k = case["kind"]
    spec = get_spec(k, case["cls"])
    if isinstance(spec, tuple):
        return {"out": [], "nospec": spec[1]}
    classes = spec_classes(spec)
    label = {c: i for i, c in enumerate(classes)}
    obs = {"problems": [], "tags": set()}
    upto = case["N"]
    out = []
    # ---- per-rule enumeration, compared with the model
    if k == "words":
        steps_out = []
        for c in classes:
            rule = spec.rules_dict[c]
            kind = rule_kind(rule)
            if kind not in (K_UNION, K_PRODUCT):
                continue
            for m in range(upto + 1):
                total, steps = rule_steps(spec, c, m, {})
                enc, hit = [], set()
                for st in steps:
                    if st[0] == "err":
                        enc.append([1, st[1]])
                    else:
                        enc.append([0, [[t.pos, t.n] for t in st[1]]])
                        hit.add(tuple((t.pos, t.n) for t in st[1]))
                if len(hit) >= 2:
                    obs["tags"].add("union2" if kind == K_UNION else "product2")
                steps_out.append([label[c], m, enc])
        out.append(steps_out)
    else:
        items, index = stat_items(spec, upto)
        items_out = []
        out.append(items_out)
        for item, (c, n, params) in zip(items, index):
            ans = run_real_item(spec, c, n, params, item)
            items_out.append(ans)
            if len({json.dumps(a[0]) for a in ans if a[0][0] == 0}) >= 2:
                obs["tags"].add("union2" if item["t"] == "u" else "product2")
            if item["t"] == "u" and any(len(ep) < len(item["pvars"]) for ep in item["eps"]):
                obs["tags"].add("zeroes")
            if item["t"] == "u" and any(len({b for _, b in ep}) < len(ep) for ep in item["eps"]):
                obs["tags"].add("merged")
    if k == "words":
        obs["problems"].extend(check_hypotheses(spec, classes, label, upto))
    else:
        hyp_problems, dishonest = check_hypotheses_params(spec, classes, upto)
        obs["problems"].extend(hyp_problems)
        obs["tags"].add("fixed-dishonest" if dishonest else "hypotheses-hold")
    # ---- exact composition to the distribution on objects, against brute force
    comp = Composer(spec)
    for n in range(upto + 1):
        for params, objs in root_params(spec, n):
            try:
                d = comp.dist(spec.root, n, params)
            except BaseException as ex:  # pylint: disable=broad-except
                obs["problems"].append("composition at size %d %r raised %s: %s" % (n, params, type(ex).__name__, ex))
                continue
            why = check_uniform(d, objs, "composed per-rule distribution, size %d %r" % (n, params))
            if why:
                obs["problems"].append(why)
            cnt = spec.count_objects_of_size(n, **params)
            if cnt != len(objs):
                obs["problems"].append("count %d but %d objects at size %d %r" % (cnt, len(objs), n, params))
            if not objs:
                # rejection up front, no draw consumed
                src = Source([1, 1, 1, 1])
                with patched(src):
                    try:
                        spec.random_sample_object_of_size(n, **params)
                        obs["problems"].append("size %d %r has no object but a sample was returned" % (n, params))
                    except InvalidOperationError:
                        if src.trace:
                            obs["problems"].append("size %d %r: draws consumed before InvalidOperationError" % (n, params))
                    except BaseException as ex:  # pylint: disable=broad-except
                        obs["problems"].append("size %d %r has no object: %s instead of InvalidOperationError"
                                               % (n, params, type(ex).__name__))
                obs["tags"].add("empty-size")
    obs["problems"].extend(comp.problems)
    # ---- whole draw sequences through the real recursive sampler
    state = tree_recorder(spec, label)
    for n in range(eff_nseq(spec, case["nseq"]) + 1):
        for params, objs in root_params(spec, n):
            enum_out, dist, dist_tree = [], {}, {}

            def call(n=n, params=params):
                return sample_with_tree(spec, classes, label, state, n, params)

            for trace, res in enumerate_sequences(call):
                if res[0] == "ok":
                    obj, tree = res[1]
                    pr = Fraction(1)
                    for lo, hi, _ in trace:
                        pr /= hi - lo + 1
                    dist[obj] = dist.get(obj, 0) + pr
                    tk = json.dumps(tree)
                    dist_tree[tk] = dist_tree.get(tk, 0) + pr
                    enum_out.append([trace, [0, tree]])
                else:
                    enum_out.append([trace, [1, res[1]]])
            out.append(enum_out)     # compared with the model's `enum` (words: sample; stats: psample)
            if objs:
                why = check_uniform(dist, objs, "whole-sequence enumeration, size %d %r" % (n, params))
                if why:
                    obs["problems"].append(why)
                if len(dist_tree) != len(dist):
                    obs["problems"].append("size %d: %d parse trees for %d objects" % (n, len(dist_tree), len(dist)))
                if dist != comp.dist(spec.root, n, params):
                    obs["problems"].append("size %d %r: composed distribution differs from the recursive sampler's" % (n, params))
                obs["tags"].add("seq")
            elif enum_out != [[[], [1, E_INVALID_OP]]]:
                obs["problems"].append("size %d %r has no object: sequences %r" % (n, params, enum_out[:2]))
    # ---- explicit draw sequences (words only: compared with the model)
    if k == "words":
        for n, ds in case["draws"] + [[upto, []]]:
            src = Source(ds)
            with patched(src):
                try:
                    obj, tree = sample_with_tree(spec, classes, label, state, n, {})
                    r = [0, tree]
                    if obj not in set(spec.root.objects_of_size(n)):
                        obs["problems"].append("draws %r at size %d returned %r, not in the class" % (ds, n, obj))
                except BaseException as ex:  # pylint: disable=broad-except
                    r = [1, err_code(ex)]
            out.append([[r, src.trace, len(ds) - src.pos]])
    else:
        for n, ds in stat_draws(case):
            params = root_params(spec, n)[0][0]
            src = Source(ds)
            with patched(src):
                try:
                    obj, tree = sample_with_tree(spec, classes, label, state, n, params)
                    r = [0, tree]
                    if obj not in set(spec.root.objects_of_size(n)) or (
                            spec.root.extra_parameters
                            and dict(zip(spec.root.extra_parameters, spec.root.get_parameters(obj))) != params):
                        obs["problems"].append("draws %r at size %d %r returned %r, not an object with these parameters"
                                               % (ds, n, params, obj))
                except BaseException as ex:  # pylint: disable=broad-except
                    r = [1, err_code(ex)]
            out.append([[r, src.trace, len(ds) - src.pos]])
        paths = path_rules(spec, describe_stats(spec, 0)[2])
        for _inp, real in paths:
            out.append(real)
        if paths:
            obs["tags"].add("path-rule")
    verdict = describes_verdict(describe_words(spec, 0)[0][0], c07_descs(spec)) if k == "words" else None
    if verdict is not None:
        out.append(verdict)
    # ALL problems of the case are handed to the oracle (it reports the first one the known finding does not explain)
    return {"out": out, "problems": obs["problems"][:200], "tags": sorted(obs["tags"]), "rules": len(classes),
            "verdict": verdict}


def impl(case):
    if case["kind"] == "rules":
        outs, tags = [], set()
        for item in case["items"]:
            ans = run_item(item)
            outs.append(ans)
            if len({json.dumps(a[0]) for a in ans if a[0][0] == 0}) >= 2:
                tags.add("branches2")
            codes = {a[0][1] for a in ans if a[0][0] == 1}
            tags.update("err%d" % c for c in codes)
        return {"out": outs, "tags": sorted(tags)}
    return impl_spec(case)


# ------------------------------------------------------------------ oracle
def oracle_item(item, ans):
    """sane synthetic item: the number of r in 1..pc choosing a branch = what the branch accounts for"""
    pc = item["pc"]
    got = {}
    for r, a in zip(item["rs"], ans):
        if not 1 <= r <= pc:
            continue
        if a[0][0] != 0:
            return "draw r=%d in 1..%d raises error %d (n=%d params=%r)" % (r, pc, a[0][1], item["n"], item["params"])
        if a[1] != [[1, pc, r]]:
            return "draw r=%d: ranges requested %r instead of one randint(1, %d)" % (r, a[1], pc)
        key = json.dumps(a[0][1])
        got[key] = got.get(key, 0) + 1
    if item["rs"] != list(range(0, pc + 2)):
        return None
    if item["t"] == "u":
        want = {}
        for i, (w, kid) in enumerate(zip(ref_union_weights(item), item["kids"])):
            if w:
                # the tuple handed to the child is determined by the parent's parameters
                tups = {tuple(t) for n, t, c in kid["table"] if n == item["n"] and c}
                keys = {k for k in got if json.loads(k)[0] == i}
                if len(keys) != 1:
                    return "child %d accounts for %d objects but is sampled with %d different parameter tuples" % (i, w, len(keys))
                if tuple(json.loads(next(iter(keys)))[1]) not in tups:
                    return "child %d sampled with parameters %s for which it has no object" % (i, next(iter(keys)))
                want[next(iter(keys))] = w
    else:
        want = {json.dumps([[s, list(t)] for s, t in key]): w for key, w in ref_product_weights(item).items() if w}
    if got != want:
        diff = sorted(set(got.items()) ^ set(want.items()))[:3]
        return "branch frequencies over r=1..%d differ from the objects accounted for: %r (n=%d params=%r)" % (
            pc, diff, item["n"], item["params"])
    return None


def oracle(case, res):
    if "exception" in res:
        return "implementation raised " + res["exception"]
    if case["kind"] == "rules":
        if case["sane"]:
            for item, ans in zip(case["items"], res["out"]):
                why = oracle_item(item, ans)
                if why:
                    return why
        return None
    probs = res.get("problems") or []
    if probs:
        # every problem of the case is examined: those the ONE known finding explains (same test as finding_match;
        # its expensive conjunct, the brute-force failure of fixed_honest, was computed by impl: tag fixed-dishonest)
        # are dropped, the first UNMASKED problem is the verdict; only if all are masked is the first one returned
        # (finding_match then prints KNOWN-FINDING for it)
        unmasked = [p for p in probs if not _masked(case, res, p)]
        return unmasked[0] if unmasked else probs[0]
    return None


def _masked(case, res, why):
    """would finding_match attribute this single problem to the known finding?  (cheap form, for the oracle)"""
    if case.get("kind") != "stats" or "fixed-dishonest" not in (res.get("tags") or []):
        return False
    if not any(rx.search(why) for rx in _FAIL_SHAPES):
        return False
    spec = get_spec("stats", case["cls"])
    return not isinstance(spec, tuple) and _untracked_child_statistic(spec)


# ------------------------------------------------------------------ known findings
FINDING_EQPATH = "eqpath-child-statistic-untracked-by-parent-sampling"
_FAIL_SHAPES = (
    re.compile(r"draw r=\d+ of \d+ at .* raises error 1$"),                      # RuntimeError on an in-range draw
    re.compile(r"draw r=\d+ in 1\.\.\d+ raises error 1 "),
    re.compile(r"P\(.*\) = \S+ instead of 1/\d+$"),                              # non-uniform
    re.compile(r"sampled objects differ from the class: never sampled \[.+\], not in class \[\]$"),
)


def _untracked_child_statistic(spec):
    """is there a unary DisjointUnion rule (EquivalencePathRule / equivalence rule) in the specification whose
    child carries a parameter that no parent parameter maps to?"""
    for c in spec_classes(spec):
        rule = spec.rules_dict[c]
        if rule_kind(rule) != K_UNION or len(rule.children) != 1:
            continue
        mapped = set(rule.constructor.extra_parameters[0].values())
        if any(k not in mapped for k in rule.children[0].extra_parameters):
            return True
    return False


def finding_match(case, why):
    """identifies the ONE known finding of C08 (see known_findings.json); None for everything else"""
    if case.get("kind") != "stats" or not isinstance(why, str):
        return None
    if not any(rx.search(why) for rx in _FAIL_SHAPES):
        return None            # e.g. a wrong count, a foreign object, another exception: not this finding
    spec = get_spec("stats", case["cls"])
    if isinstance(spec, tuple) or not _untracked_child_statistic(spec):
        return None
    # ... and it is exactly the situation the hypothesis fixed_honest of C08_uniform_params rules out
    if not check_hypotheses_params(spec, spec_classes(spec), case["N"])[1]:
        return None
    return FINDING_EQPATH


def nontrivial(case, res):
    tags = set(res.get("tags", []))
    if case["kind"] == "rules":
        return "branches2" in tags
    return "union2" in tags and "product2" in tags


def key(case):
    return json.dumps(case, sort_keys=True)


MIN_COVERED = 0.95     # of the cases built from a real parameter-free specification; measured: see extra_checks


def _coverage_tags(case, res):
    if "nospec" in res or "out" not in res:
        return []
    if case["kind"] != "words":
        return ["thm:C08_uniform_objects_params:not_covered(pdescribes is evaluated by no run)"]
    v = res.get("verdict")
    if v is None:
        return ["thm:C08_uniform_objects:not_covered(no C07 descriptor of this specification)"]
    missing = [h for h, b in zip(("describes", "rank certificate", "closed"), v) if not b]
    if missing:
        return ["thm:C08_uniform_objects:not_covered(%s)" % " + ".join(missing)]
    return ["thm:C08_uniform_objects:covered"]


def classify(case, res):
    tags = ["kind:" + case["kind"]]
    if case["kind"] == "rules":
        tags.append("sane" if case["sane"] else "wild")
        for it in case["items"]:
            tags.append("item:%s:params%d" % (it["t"], len(it["pvars"])))
    else:
        if "nospec" in res:
            tags.append("no-specification")
        tags.append("alphabet%d" % len(case["cls"][2]))
        tags.append("N%d" % case["N"])
        tags.extend(_coverage_tags(case, res))
    tags.extend("tag:" + t for t in res.get("tags", []))
    return tags


# ------------------------------------------------------------------ shrinking
def shrink(case):
    if case["kind"] == "rules":
        items = case["items"]
        if len(items) > 1:
            for i in range(len(items)):
                yield dict(case, items=items[:i] + items[i + 1:])
        for i, it in enumerate(items):
            for j in range(len(it["kids"])):
                kid = it["kids"][j]
                for e in range(len(kid["table"])):
                    nk = dict(kid, table=kid["table"][:e] + kid["table"][e + 1:])
                    ni = dict(it, kids=it["kids"][:j] + [nk] + it["kids"][j + 1:])
                    if case["sane"]:
                        tot = sum(ref_union_weights(ni)) if ni["t"] == "u" else sum(ref_product_weights(ni).values())
                        ni["pc"], ni["rs"] = tot, _rs(tot)
                    yield dict(case, items=items[:i] + [ni] + items[i + 1:])
        return
    cls = case["cls"]
    if case["N"] > 1:
        yield dict(case, N=case["N"] - 1, nseq=min(case["nseq"], case["N"] - 1))
    if case["nseq"] > 0:
        yield dict(case, nseq=case["nseq"] - 1)
    if case.get("draws"):
        yield dict(case, draws=[])
    pats = cls[1]
    for i in range(len(pats)):
        yield dict(case, cls=[cls[0], pats[:i] + pats[i + 1:]] + cls[2:])
    if cls[0]:
        yield dict(case, cls=[cls[0][:-1]] + cls[1:])
    if case["kind"] == "stats" and len(cls[3]) > 1:
        for i in range(len(cls[3])):
            yield dict(case, cls=cls[:3] + [cls[3][:i] + cls[3][i + 1:]] + cls[4:])


# ---- translator tie of _valid_compositions (separable delta: GEN_TARGETS above + this block)
_VC_HEAD = "class CartesianProduct:\n    def _valid_compositions(self, n, **parameters):\n        reliance_profile = self.reliance_profile(n, **parameters)\n"
_VC_TAIL = ("        if all(all(profile.values()) for profile in reliance_profile):\n"
            "            minmaxes = tuple({k: (min(profile[k]), max(profile[k])) for k in self.parent_parameters} for profile in reliance_profile)\n"
            "            parameters['n'] = n\n            yield from _helper(minmaxes, **parameters)\n")
# source texts outside the translator's subset / with a changed shape: each must be REJECTED (fail closed)
_BAD_SNIPPETS = [
    ("product_valid_compositions", _VC_HEAD + "        def _helper(minmaxes, **parameters):\n"
     "            while minmaxes:\n                yield ({**parameters},)\n                minmaxes = minmaxes[1:]\n" + _VC_TAIL,
     "while loop in the helper"),
    ("product_valid_compositions", _VC_HEAD + "        def _helper(minmaxes, **parameters):\n"
     "            if len(minmaxes) == 1:\n                yield ({**parameters, 'n': n},)\n                return\n" + _VC_TAIL,
     "dictionary display with extra keys / helper reads a local of the outer function"),
    ("product_valid_compositions", _VC_HEAD + "        def _helper(minmaxes, extra, **parameters):\n"
     "            yield ({**parameters},)\n" + _VC_TAIL, "helper signature changed"),
    ("product_valid_compositions", _VC_HEAD + "        def _helper(minmaxes, **parameters):\n"
     "            for values in product(*[range(parameters[k]) for k in self.parent_parameters], repeat=2):\n"
     "                yield (dict(zip(self.parent_parameters, values)),)\n" + _VC_TAIL, "keyword argument of itertools.product"),
    ("product_valid_compositions", "class CartesianProduct:\n    def _valid_compositions(self, n, **parameters):\n"
     "        yield from self._helper(n, **parameters)\n", "the nested generator is gone"),
    ("product_reliance_profile", "class CartesianProduct:\n    def reliance_profile(self, n, **parameters):\n"
     "        parameters['n'] = n\n        return tuple({k: tuple(range(d[k], parameters[k] + 1)) for k in d} for d in self.min_child_sizes)\n",
     "no longer reads minimum_sizes / max_child_sizes"),
    ("product_reliance_profile", "class CartesianProduct:\n    def reliance_profile(self, n):\n        return ()\n",
     "**parameters removed from the signature"),
    ("product_max_sizes", "class CartesianProduct:\n    @property\n    def max_sizes(self):\n"
     "        return tuple(d.get('n', 0) for d in self.max_child_sizes)\n", "dict.get with a default other than None"),
    ("product_min_sizes", "class CartesianProduct:\n    @property\n    def min_sizes(self):\n"
     "        return tuple(d['size'] for d in self.min_child_sizes)\n", "a key the target does not number"),
]


# ------------------------------------------------------------------ one deep sample per run
BIG_N = 120
_BIG_CLASSES = [["", ["aa"], "ab"], ["", ["bab"], "ab"], ["", ["abc"], "abc"], ["a", ["bbb"], "ab"]]


class _LcgSource(Source):
    """deterministic in-range draws (a private random.Random(seed)), recorded like Source"""

    def __init__(self, seed):
        Source.__init__(self)
        import random as _random

        self.rng = _random.Random(seed)

    def randint(self, lo, hi):
        if hi < lo:
            raise ValueError("empty range for randrange() (%d, %d, %d)" % (lo, hi + 1, hi + 1 - lo))
        v = self.rng.randint(lo, hi)
        self.trace.append([lo, hi, v])
        return v


def big_sample_check(seed):
    """ONE specification per run (chosen by the seed), ONE sample of size BIG_N = 120 with deterministic draws, under
    the interpreter's DEFAULT recursion limit (1000; the library raises it itself through utils.RecursionLimit):
    the call must return an object of the class of size exactly 120 whenever the specification counts at least one
    (total mass at a depth no enumerated size reaches: lost mass, a recursion that no longer fits the limit the
    library requests, a draw range that is wrong only for large counts)."""
    import sys

    cls = _BIG_CLASSES[seed % len(_BIG_CLASSES)]
    name = "one sample at size %d (words %r)" % (BIG_N, cls)
    spec = get_spec("words", cls)
    if isinstance(spec, tuple):
        return (name, False, "no specification: %s" % (spec[1],))
    old = sys.getrecursionlimit()
    src = _LcgSource(seed)
    try:
        sys.setrecursionlimit(1000)
        cnt = spec.count_objects_of_size(BIG_N)
        if cnt <= 0:
            return (name, False, "the specification counts %d objects of size %d" % (cnt, BIG_N))
        with patched(src):
            obj = spec.random_sample_object_of_size(BIG_N)
    except BaseException as ex:  # pylint: disable=broad-except
        return (name, False, "failing input: random_sample_object_of_size(%d) of the words %r: %d draws, then %s: %s"
                % (BIG_N, cls, len(src.trace), type(ex).__name__, str(ex)[:200]))
    finally:
        sys.setrecursionlimit(old)
    w = str(obj)
    prefix, pats, alph = cls
    ok = (len(w) == BIG_N and set(w) <= set(alph) and w.startswith(prefix) and not any(p_ in w for p_ in pats)
          and all(lo <= v <= hi for lo, hi, v in src.trace))
    # uniformity at this size cannot be enumerated; what can be decided: the root rule (a union / product rule: the
    # constructors that draw) picks among exactly `count` objects, i.e. its draw is randint(1, count) - the same
    # statement the per-rule items make at small sizes, here with a count far above 2^53
    if ok and rule_kind(spec.root_rule) in (K_UNION, K_PRODUCT) and src.trace[:1] != [[1, cnt, (src.trace or [[0, 0, 0]])[0][2]]]:
        return (name, False, "failing input: random_sample_object_of_size(%d) of the searched specification of the words %r: "
                "the root rule's draw has range %r, the class has %d objects of size %d"
                % (BIG_N, cls, src.trace[:1] and src.trace[0][:2], cnt, BIG_N))
    return (name, ok, "%d rules, count has %d digits, %d draws, returned %r (length %d)%s"
            % (spec.number_of_rules(), len(str(cnt)), len(src.trace), w[:40] + "...", len(w),
               "" if ok else " - failing input: random_sample_object_of_size(%d) with random.Random(%d) draws does NOT "
               "return an object of the class of size %d" % (BIG_N, seed, BIG_N)))


def extra_checks(ctx):
    from harness import gen_selftest

    n_all = n_words = n_stats = k = 0
    for (res, _why, _nt), case in zip(ctx.impl_res, ctx.cases):
        n_all += 1
        if case["kind"] == "rules" or "nospec" in res or "out" not in res:
            continue
        if case["kind"] != "words":
            n_stats += 1
            continue
        n_words += 1
        k += "thm:C08_uniform_objects:covered" in _coverage_tags(case, res)
    cov = [("covered_by_theorem C08_uniform_objects: %d of %d cases from a real specification without parameters "
            "(%d of the %d retained cases; %d more come from a specification WITH parameters: C08_uniform_objects_params, "
            "pdescribes evaluated by no run)" % (k, n_words, n_words, n_all, n_stats),
            n_words == 0 or k / n_words >= MIN_COVERED,
            "covered = the extracted run_c08d AND the harness decide, on the C08 classes and the C07 descriptors of the "
            "same specification, `describes` (describesb, C08_describes_decided), the rank certificate and `closed` "
            "(rankb / closedb); node_ok and the count recurrences remain hypotheses (evidence: check_hypotheses, the "
            "oracle); minimum fraction %.2f" % MIN_COVERED)]
    return cov + [big_sample_check(ctx.seed), gen_selftest.rejects(_BAD_SNIPPETS)] + gen_selftest.checks(
        ["product_reliance_profile", "product_valid_compositions", "product_min_sizes", "product_max_sizes"], ctx.seed, ID)


# translator tie (DESIGN.md 10.9): what the regenerated definitions add to the level
LEVEL_NOTE += (
    " Translator tie: CartesianProduct.reliance_profile and _valid_compositions (with its nested generator _helper) and the properties min_sizes / max_sizes are RE-TRANSLATED from cartesian.py on every run (Gen/ProductRelianceProfile.v, Gen/ProductValidCompositions.v, Gen/ProductMinSizes.v, Gen/ProductMaxSizes.v); C08_valid_compositions_is_source proves that the model's valid_comps IS the regenerated function read through the name->position encoding (for every list of distinct parameter names whose first is the name of n, at least one child, vectors of the right length), C08_bounds_are_source that the bounds handed to utils.compositions are column 0 of those vectors (Count/GenBridgeValidComps.v); the regenerated definitions are evaluated against the source functions on random arguments every run (harness/gen_selftest.py)."
)

# strengthening of the oracles (CLAUSES.md G.1 item 10)
RULE += (
    ' The oracle examines ALL problems of a case and reports the first one the open finding does not explain (a masked first problem no longer hides the rest of the case). Once per run (extra check): ONE sample of size 120 from one word specification chosen by the seed, deterministic in-range draws, interpreter recursion limit 1000 - it must be an object of the class of size 120 and the root union/product rule must draw from randint(1, count).'
)
