"""C03 — forest productivity detection equals the least fixed point, in any insert order."""
import itertools

ID = "C03"
TITLE = "forest table method = least fixed point, order independent, monotone"
COQ_PROPS = "Props/C03.v"
COQ_RUN = ("Forest.Run", "run_c03")
GEN_TARGETS = ["can_give_terms", "compute_shift", "preimage_gap",
               # the gap bookkeeping (Forest/GenBridgeGap.v proves the model branches on these)
               "increase_value_hold", "correct_gap_new_gap", "correct_gap_release"]
N = {"quick": 12000, "thorough": 400000}
# a case takes milliseconds; an implementation that loops (the MODEL provably does not:
# C03_terminates) is reported as a violation with its input after this CPU budget
CASE_CPU_SECONDS = 20
RULE = (
    "histories of 1-40 forest keys over 1-12 labels (label sets with gaps), shifts in [-4,4], arity 0-4 "
    "with repeated children, shaped streams (cycles of positive / zero / negative net shift, late large "
    "shifts that change the gap size, chains), interleaved is_pumping queries on known and unknown labels; "
    "4% of the cases instead evaluate the three definitions REGENERATED from forest.py (_can_give_terms, "
    "_compute_shift, Function.preimage_gap) and the source functions on the same arguments (translator validation); "
    "after EVERY insertion TableMethod.function and pumping_subuniverse() are compared with the model, and "
    "with a naive Kleene iteration (oracle); each multiset is also replayed in a second random order "
    "(order independence) and every prefix is checked for monotonicity. "
    "Non-trivial: some class ends with a finite non-zero value AND some class pumps; distinct = distinct op list."
)
TRUSTED = [
    "modelled, not verified: rule_db/forest.py Function + TableMethod — hand-written Gallina model Forest/Model.v "
    "(layer A: firing decided from the value table instead of the incrementally maintained _shifts lists) tied by "
    "this correspondence at the level of TableMethod.function / is_pumping / pumping_subuniverse after every insertion",
]
ASSUMPTIONS = [
    "termination is proved for the MODEL (C03_terminates, explicit fuel bound); the real _process_queue is tied to the model by the "
    "correspondence only, so a change of forest.py that makes it loop shows up as a harness timeout (the model, run with the proved "
    "fuel bound, provably never answers OutOfFuel: C03_harness_never_out_of_fuel)",
    "labels are non-negative integers (ClassDB labels); children and shifts tuples have equal length",
]


def _key(parent, kids):
    return [0, parent, [[c, s] for c, s in kids]]


def _gen_translated(rng):
    """arguments for the three definitions regenerated from forest.py (translator validation)"""
    which = rng.randrange(3)
    optz = lambda lo, hi: None if rng.random() < 0.25 else rng.randint(lo, hi)
    if which == 0:
        return {"gen": [0, [optz(-3, 4) for _ in range(rng.randint(0, 5))]]}
    if which == 1:
        k = rng.randint(0, 5)
        return {"gen": [1, optz(0, 9), [optz(0, 9) for _ in range(k)], [rng.randint(-4, 4) for _ in range(k)]]}
    n = rng.randint(0, 12)
    cnt = [rng.choice([0, 0, 1, 2, 5]) for _ in range(n)] + [0] * rng.choice([0, 0, 1, 3])
    return {"gen": [2, cnt, rng.randint(1, 5)]}


def gen(rng, tier):
    while True:
        if rng.random() < 0.04:
            yield _gen_translated(rng)
            continue
        style = rng.choice(["random", "random", "cycle", "chain", "lateshift", "dense", "tiny"])
        nlab = rng.randint(1, 12)
        labels = rng.sample(range(0, 16), nlab) if rng.random() < 0.4 else list(range(nlab))
        smax = rng.choice([1, 1, 2, 3, 4])
        ops = []
        nk = rng.randint(1, 40 if style != "tiny" else 5)

        def rnd_key(smax=smax):
            ar = rng.choice([0, 1, 1, 2, 2, 2, 3, 4])
            p = rng.choice(labels)
            kids = [(rng.choice(labels), rng.randint(-smax, smax)) for _ in range(ar)]
            if rng.random() < 0.5:
                kids = [(c, abs(s)) for c, s in kids]
            return _key(p, kids)

        if style == "cycle":
            m = rng.randint(1, min(5, nlab))
            cyc = rng.sample(labels, m)
            net = rng.choice([-1, 0, 0, 1, 2])
            sh = [rng.randint(-smax, smax) for _ in range(m)]
            sh[-1] += net - sum(sh)
            for i in range(m):
                extra = [(rng.choice(labels), rng.randint(0, smax))] if rng.random() < 0.3 else []
                ops.append(_key(cyc[i], [(cyc[(i + 1) % m], sh[i])] + extra))
            if rng.random() < 0.7:
                ops.append(_key(rng.choice(labels), []))
        elif style == "chain":
            for a, b in zip(labels, labels[1:]):
                ops.append(_key(a, [(b, rng.randint(0, smax))]))
            ops.append(_key(labels[-1], []))
        elif style == "dense":
            for p in labels:
                for _ in range(rng.randint(1, 3)):
                    ops.append(rnd_key())
        while len([o for o in ops if o[0] == 0]) < nk:
            ops.append(rnd_key())
        if style == "lateshift":
            ops.append(rnd_key(smax=smax + rng.randint(1, 4)))
            ops.extend(rnd_key() for _ in range(rng.randint(0, 5)))
        rng.shuffle(ops)
        ops = ops[:40]
        out = []
        for o in ops:
            out.append(o)
            if rng.random() < 0.15:
                out.append([1, rng.choice(labels) if rng.random() < 0.7 else rng.randint(0, 20)])
        yield {"ops": out, "perm_seed": rng.randrange(1 << 30)}


def _sxopt(v):
    return [] if v is None else v


def encode(case):
    if "gen" in case:
        g = case["gen"]
        if g[0] == 0:
            return [-7, 0, [_sxopt(v) for v in g[1]]]
        if g[0] == 1:
            return [-7, 1, _sxopt(g[1]), [_sxopt(v) for v in g[2]], g[3]]
        return [-7, 2, g[1], g[2]]
    return case["ops"]


def _impl_translated(g):
    """the three source functions themselves, on the same arguments"""
    from comb_spec_searcher.rule_db.forest import Function, TableMethod

    if g[0] == 0:
        return int(TableMethod._can_give_terms(list(g[1])))
    if g[0] == 1:
        tm = TableMethod()
        k = len(g[2])
        tm._function._value = [g[1]] + list(g[2])     # label 0 = parent, 1..k = children
        got = tm._compute_shift((0, tuple(range(1, k + 1))), tuple(g[3]))
        return [_sxopt(v) for v in got]
    f = Function()
    f._preimage_count._list = list(g[1])
    return f.preimage_gap(g[2])


def _static(ops):
    keys = [o for o in ops if o[0] == 0]
    labels = [o[1] for o in ops] + [c for o in keys for c, _ in o[2]]
    n = max(labels, default=-1) + 1
    g = max([1] + [abs(s) for o in keys for _, s in o[2]])
    ar = max([len(o[2]) for o in keys], default=0)
    return len(keys), n, g, ar


def fuel_bound(ops):
    """fuel_bound of coq/theories/Forest/TerminationDefs.v: the PROVED bound on the number of iterations
    of one _process_queue call of the model, for the whole history"""
    R, n, g, _ = _static(ops)
    return (3 * R + 1) * (n * ((n + 1) * g + 2)) + 3


class NonTermination(Exception):
    pass


_CAPPED = None


def _capped_table_method():
    """TableMethod with two termination guards, so that a change of forest.py that makes _process_queue
    loop is reported quickly and with its input instead of burning the CPU budget of the case:
    * no finite value may exceed B = (n+1)*g+1 (n = 1+largest label, g = largest |shift|): for the model this
      is the proved reason for termination (held rules + pigeonhole bound on the gap, C03_iteration_decreases);
    * the number of _increase_value/_set_infinite calls during one add_rule_key (every iteration of
      _process_queue that can prolong the loop goes through one of them) may not exceed the measure of
      Forest/TerminationDefs.v with the weight adapted to the code's re-queueing (a rule is re-queued once per
      occurrence of the class among its children): ((2*arity+3)*R+1)*n*((n+1)*g+2)+3 >= fuel_bound."""
    global _CAPPED
    if _CAPPED is None:
        from comb_spec_searcher.rule_db.forest import TableMethod

        class Capped(TableMethod):
            steps = 0
            cap = 0
            vbound = 0
            max_steps = 0

            def _tick(self):
                self.steps += 1
                if self.steps > self.cap:
                    raise NonTermination(
                        "_process_queue made more than %d calls of _increase_value/_set_infinite during one "
                        "add_rule_key" % self.cap
                    )

            def _increase_value(self, comb_class, rule_idx):
                self._tick()
                super()._increase_value(comb_class, rule_idx)
                v = self.function.get(comb_class, 0)
                if v is not None and v > self.vbound:
                    raise NonTermination(
                        "the value of class %d reached %d, above the bound (n+1)*g+1 = %d that the hold test "
                        "and the gap guarantee" % (comb_class, v, self.vbound)
                    )

            def _set_infinite(self, comb_class):
                self._tick()
                return super()._set_infinite(comb_class)

            def add_rule_key(self, rule_key):
                self.steps = 0
                try:
                    return super().add_rule_key(rule_key)
                finally:
                    self.max_steps = max(self.max_steps, self.steps)

        _CAPPED = Capped
    return _CAPPED()


def _guarded_tm(ops):
    R, n, g, ar = _static(ops)
    tm = _capped_table_method()
    tm.vbound = (n + 1) * g + 1
    tm.cap = ((2 * ar + 3) * R + 1) * (n * ((n + 1) * g + 2)) + 3
    return tm


def _run_tm(ops):
    from comb_spec_searcher.typing import ForestRuleKey, RuleBucket

    tm = _guarded_tm(ops)
    out = []
    snaps = []
    for o in ops:
        if o[0] == 0:
            kids = o[2]
            tm.add_rule_key(
                ForestRuleKey(o[1], tuple(c for c, _ in kids), tuple(s for _, s in kids), RuleBucket.NORMAL)
            )
            fn = tm.function
            fd = [[k, (fn[k] if fn[k] is not None else [])] for k in sorted(fn)]
            sub = []
            ptr = 0
            for fk in tm.pumping_subuniverse():
                while tm._rules[ptr] is not fk:
                    ptr += 1
                sub.append(ptr)
                ptr += 1
            out.append([fd, sub])
            snaps.append(dict(fn))
        else:
            out.append(int(tm.is_pumping(o[1])))
    return out, snaps


def impl(case):
    if "gen" in case:
        return {"out": _impl_translated(case["gen"]), "snaps": [], "final_perm": {}}
    out, snaps = _run_tm(case["ops"])
    # the same multiset in another order
    import random

    keys = [o for o in case["ops"] if o[0] == 0]
    r = random.Random(case["perm_seed"])
    perm = keys[:]
    r.shuffle(perm)
    _, snaps2 = _run_tm(perm)
    return {"out": out, "snaps": snaps, "final_perm": snaps2[-1] if snaps2 else {}}


INF = None


def naive_lfp(keys):
    """Kleene iteration of Phi with cap (n+2)*g+3: independent of the table method."""
    labels = set()
    g = 1
    for _, p, kids in keys:
        labels.add(p)
        for c, s in kids:
            labels.add(c)
            g = max(g, abs(s))
    cap = (len(labels) + 2) * g + 3
    f = {l: 0 for l in labels}
    changed = True
    while changed:
        changed = False
        for _, p, kids in keys:
            v = min([(cap if f[c] >= cap else f[c] + s) for c, s in kids], default=cap)
            v = max(0, min(v, cap))
            if v > f[p]:
                f[p] = v
                changed = True
    return {l: (INF if v >= cap else v) for l, v in f.items() if v != 0}


def oracle(case, res):
    if "exception" in res:
        return "implementation raised " + res["exception"]
    if "gen" in case:
        return None
    keys = []
    prev = {}
    i = 0
    for o in case["ops"]:
        if o[0] != 0:
            continue
        keys.append(o)
        want = naive_lfp(keys)
        got = res["snaps"][i]
        if got != want:
            return "after %d insertions function=%r but least fixed point=%r" % (i + 1, got, want)
        for l, v in prev.items():
            if v is INF and got.get(l, 0) is not INF:
                return "class %d stopped pumping after insertion %d" % (l, i + 1)
            if v is not INF and got.get(l, 0) is not INF and got.get(l, 0) < v:
                return "value of class %d decreased after insertion %d" % (l, i + 1)
        prev = got
        i += 1
    if keys and res["final_perm"] != res["snaps"][-1]:
        return "answer depends on insertion order: %r vs %r" % (res["snaps"][-1], res["final_perm"])
    return None


def nontrivial(case, res):
    if not res.get("snaps"):
        return False
    last = res["snaps"][-1]
    return any(v is None for v in last.values()) and any(v not in (None, 0) for v in last.values())


def key(case):
    return str(case.get("gen", case.get("ops")))


def classify(case, res):
    if "gen" in case:
        return ["translated:" + ["can_give_terms", "compute_shift", "preimage_gap"][case["gen"][0]]]
    tags = []
    ks = [o for o in case["ops"] if o[0] == 0]
    tags.append("keys<=10" if len(ks) <= 10 else "keys>10")
    ar = max((len(o[2]) for o in ks), default=0)
    tags.append("maxarity=%d" % ar)
    if res.get("snaps"):
        last = res["snaps"][-1]
        if any(v is None for v in last.values()):
            tags.append("some_pumping")
        if any(v not in (None, 0) for v in last.values()):
            tags.append("some_finite_nonzero")
    if any(s < 0 for o in ks for _, s in o[2]):
        tags.append("negative_shift")
    return tags


def shrink(case):
    if "gen" in case:
        return
    ops = case["ops"]
    for i in range(len(ops)):
        yield {"ops": ops[:i] + ops[i + 1:], "perm_seed": case["perm_seed"]}
    for i, o in enumerate(ops):
        if o[0] == 0:
            for j in range(len(o[2])):
                o2 = [0, o[1], o[2][:j] + o[2][j + 1:]]
                yield {"ops": ops[:i] + [o2] + ops[i + 1:], "perm_seed": case["perm_seed"]}


TECHNIQUE = "Coq proof (soundness/completeness of the table method w.r.t. the inductive least fixed point, via the gap lemma and run invariants; TERMINATION by a decreasing measure and a pigeonhole bound on the gap) + extracted-model/implementation correspondence"
LEVEL_TEXT = (
    "Theorems C03_* (coq/theories/Props/C03.v, axiom-free) prove for every history of key insertions "
    "(any arity, repeated children, shifts of either sign) and is_pumping queries and every resolution of the "
    "arbitrary set.pop() choices: TOTAL CORRECTNESS. Termination: the model of _process_queue returns for every "
    "fuel >= fuel_bound ops = (3R+1)*n*((n+1)*g+2)+3 (R keys, n = 1+largest label, g = largest |shift|, >= 1) "
    "(C03_terminates), more fuel gives the same answer (C03_fuel_monotone, C03_fuel_irrelevant), so the model is a "
    "total function run_total of (choices, history) (C03_run_total). With no fuel hypothesis (C03_total_*): reported "
    "pumping <-> pumps in the inductive least fixed point; reported value n <-> exactly n terms derivable; the answers "
    "depend only on the SET of inserted keys (order, grouping, multiplicity irrelevant); they only grow when keys are "
    "added; pumping_subuniverse = keys whose classes all pump. The fuel-indexed versions (C03_sound_complete, ...) are kept. "
    "Proof of partial correctness: run invariants (soundness, work-list covers every fireable rule, held rules sit above "
    "the cached gap, cached gap empty or all-zero state) + the gap lemma (soundness of _set_infinite) + completeness at "
    "exit. Proof of termination: every iteration of the while loop (C03_loop_is_pstep) preserves the loop invariant and "
    "strictly decreases mu = (3|rules|+1)*SUM_{finite v}(1+max(0,B-v)) + 2|queue| + |held| with B = (#labels+1)*gap_size+1 "
    "(C03_iteration_decreases, C03_process_terminates): a rule whose parent lies above the cached gap end is put on hold "
    "instead of firing, and the cached gap starts at most at #labels*gap_size+1 by pigeonhole on preimage_gap "
    "(C03_gap_start_bounded), so no value is increased beyond B. The model (Forest/Model.v) is tied to forest.py by "
    "comparing function/pumping_subuniverse/is_pumping after every operation on generated histories; the extracted model "
    "is run with fuel_bound and provably never reports OutOfFuel (C03_harness_never_out_of_fuel)."
)
LEVEL_NOTE = (
    "Termination is a theorem about the MODEL (layer A); that the real TableMethod._process_queue terminates follows only "
    "through the correspondence (a looping change of forest.py is seen as a harness timeout, never as agreement). "
    "The firing test and the gap search of the model are proved equal to TableMethod._can_give_terms o _compute_shift "
    "and Function.preimage_gap as RE-TRANSLATED from forest.py on every run (C03_firing_test_is_source, "
    "C03_gap_search_is_source), so the pigeonhole bound is about the source's own gap search. "
    "The model is layer A of DESIGN.md (firing decided from the value table, re-queue = all fireable rules "
    "mentioning the class); the incrementally maintained _shifts/_rules_using_class bookkeeping of the code is "
    "covered by the correspondence only. Trusted: Coq kernel, extraction, OCaml driver, harness."
)


_FOREST_HEAD = "class TableMethod:\n"
# source texts outside the translator's subset / with a changed shape: each must be REJECTED (fail closed)
_BAD_SNIPPETS = [
    ("increase_value_hold", _FOREST_HEAD + "    def _increase_value(self, comb_class, rule_idx):\n"
     "        current_value = self._function[comb_class]\n"
     "        if current_value > self._current_gap[1]:\n            self._rule_holding_extra_terms.add(rule_idx)\n"
     "            return\n", "the None test that makes current_value an int is gone"),
    ("increase_value_hold", _FOREST_HEAD + "    def _increase_value(self, comb_class, rule_idx):\n"
     "        current_value = self._function[comb_class]\n        if current_value is None:\n            return\n"
     "        if self._strict:\n            if current_value > self._current_gap[1]:\n"
     "                self._rule_holding_extra_terms.add(rule_idx)\n                return\n",
     "the hold test is wrapped in a new condition"),
    ("increase_value_hold", _FOREST_HEAD + "    def _increase_value(self, comb_class, rule_idx):\n"
     "        current_value = self._function[comb_class]\n        if current_value is None:\n            return\n"
     "        if current_value > self._current_gap[1] // 2:\n            self._rule_holding_extra_terms.add(rule_idx)\n"
     "            return\n", "unsupported operator"),
    ("correct_gap_new_gap", _FOREST_HEAD + "    def _correct_gap(self):\n        k = self._function.preimage_gap(self._gap_size)\n"
     "        k = k + 1\n        new_gap = (k, k + self._gap_size - 1)\n", "local k assigned twice"),
    ("correct_gap_release", _FOREST_HEAD + "    def _correct_gap(self):\n        k = self._function.preimage_gap(self._gap_size)\n"
     "        new_gap = (k, k + self._gap_size - 1)\n        if new_gap[1] > self._last_gap[1]:\n"
     "            self._processing_queue.extend(self._rule_holding_extra_terms)\n", "reads an attribute the target does not bind"),
]


def extra_checks(ctx):
    from harness import gen_selftest

    return [gen_selftest.rejects(_BAD_SNIPPETS)] + gen_selftest.checks(GEN_TARGETS, ctx.seed, ID)


# translator tie (DESIGN.md 10.9): what the regenerated definitions add to the level
LEVEL_NOTE += (
    ' The hold test of _increase_value and the gap interval / release test of _correct_gap are also RE-TRANSLATED from forest.py on every run and the model is proved to branch on exactly those expressions (C03_hold_test_is_source, C03_correct_gap_is_source; Forest/GenBridgeGap.v); each regenerated definition is evaluated against the source on random arguments every run (harness/gen_selftest.py).'
)
